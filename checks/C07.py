def X(name, variant, *args, **kw):
    d = dict(name=name, harness='h_exc.c', variant=variant, args=list(args))
    d.update(kw)
    return d

def S(name, variant, n, *args):
    """n shards of one program space (deterministic split of the enumeration index)"""
    return [X('%s-%d' % (name, k), variant, *(list(args) + ['shard=%d/%d' % (k, n)])) for k in range(n)]

MIX = ['mixed1', 'mixed2', 'mixed3']
ALL = '012345678'   # nop, throw A/B/C, call K0..K3 (callees containing their own try/catch), call a thrower that is handed the object
ALL9 = ALL + '9'    # handler slots only (halpha=): 9 = the handler re-throws the object it was given

# Allocation class of the thrown VALUE objects (alloc=): every value-object instance runs alloc=mix1 unless it says otherwise
# (A built with $(...) / $S / $I in the frame of the function that runs the program, B in static storage, C new_raw);
# the instances below pin each class for all three objects and run the other two rotations, with the re-throw statement
# in the handler alphabet.  Quick: a few seconds of CPU in total.
VAL = ['struct', 'string', 'int']
ALLOC = {
  'quick': (
      [X('d1-rethrow', 'base', 'depth=1', 'alpha=' + ALL, 'halpha=' + ALL9, 'ppalpha=012', 'chain=1')]
      + [X('d1-alloc-%s-%s' % (o, a), 'base', 'objs=' + o, 'alloc=' + a, 'depth=1', 'alpha=' + ALL, 'halpha=' + ALL9, 'ppalpha=012', 'chain=1')
         for o in VAL for a in ('stack', 'static', 'heap')]
      + [X('d1-alloc-struct-mix2', 'base', 'objs=struct', 'alloc=mix2', 'depth=1', 'alpha=' + ALL, 'halpha=' + ALL9, 'ppalpha=' + ALL, 'chain=1'),
         X('d1-alloc-string-mix3', 'base', 'objs=string', 'alloc=mix3', 'depth=1', 'alpha=' + ALL, 'halpha=' + ALL9, 'ppalpha=012', 'chain=1'),
         X('d1-alloc-int-mix2', 'base', 'objs=int', 'alloc=mix2', 'depth=1', 'alpha=' + ALL, 'halpha=' + ALL9, 'ppalpha=012', 'chain=1'),
         X('d1-alloc-cmptry-stack', 'base', 'objs=cmptry', 'alloc=stack', 'depth=1', 'alpha=' + ALL, 'halpha=' + ALL9, 'ppalpha=012', 'chain=1'),
         X('d1-alloc-mixed2-mix3', 'base', 'objs=mixed2', 'alloc=mix3', 'depth=1', 'alpha=' + ALL, 'halpha=' + ALL9, 'ppalpha=012', 'chain=1'),
         X('d1-alloc-msg-stack', 'base', 'objs=string', 'alloc=stack', 'msg=mix', 'depth=1', 'alpha=' + ALL, 'halpha=' + ALL9, 'ppalpha=012'),
         X('d1-alloc-fork', 'base', 'objs=string', 'alloc=stack', 'depth=1', 'alpha=' + ALL, 'halpha=' + ALL9, 'ppalpha=012', 'main=0', 'fork=1'),
         X('d2-alloc-struct-stack', 'base', 'objs=struct', 'alloc=stack', 'depth=2', 'alpha=012458', 'halpha=0124589', 'ppalpha=0'),
         X('d2-alloc-string-mix2', 'base', 'objs=string', 'alloc=mix2', 'depth=2', 'alpha=0128', 'halpha=01289', 'ppalpha=0'),
         X('d2-alloc-int-mix3', 'base', 'objs=int', 'alloc=mix3', 'depth=2', 'alpha=0128', 'halpha=01289', 'ppalpha=0'),
         X('seq-alloc', 'base', 'objs=struct', 'alloc=mix2', 'kind=seq', 'alpha=01248', 'halpha=012489', 'ppalpha=0'),
         X('deep-alloc-stack', 'base', 'mode=deep', 'objs=int', 'alloc=stack'),
         X('deep-alloc-static', 'base', 'mode=deep', 'objs=string', 'alloc=static'),
         X('deep-alloc-mix2', 'base', 'mode=deep', 'objs=struct', 'alloc=mix2'),
         X('d1-alloc-asan', 'asan', 'objs=string', 'alloc=stack', 'depth=1', 'alpha=' + ALL, 'halpha=' + ALL9, 'ppalpha=012', 'chain=1'),
         X('d2-alloc-asan', 'asan', 'objs=struct', 'alloc=mix2', 'depth=2', 'alpha=0128', 'halpha=01289', 'ppalpha=0'),
         X('deep-alloc-asan', 'asan', 'mode=deep', 'objs=struct', 'alloc=stack')]),
  'thorough': (
      [X('d1-rethrow', 'base', 'depth=1', 'alpha=' + ALL, 'halpha=' + ALL9, 'ppalpha=' + ALL, 'chain=1', 'fresh=1')]
      + S('d2-rethrow', 'base', 2, 'depth=2', 'alpha=0124568', 'halpha=01245689', 'ppalpha=0')
      # depth 1: every class pinned and the other two rotations (mix1 is what d1-val-* / d1-cmptry run)
      + [X('d1-alloc-%s-%s' % (o, a), 'base', 'objs=' + o, 'alloc=' + a, 'depth=1', 'alpha=' + ALL, 'halpha=' + ALL9, 'ppalpha=' + ALL, 'chain=1', *(['fresh=1'] if a == 'stack' else []))
         for o in VAL + ['cmptry'] for a in ('stack', 'mix2')]
      + [X('d1-alloc-%s-%s' % (o, a), 'base', 'objs=' + o, 'alloc=' + a, 'depth=1', 'alpha=' + ALL, 'halpha=' + ALL9, 'ppalpha=012', 'chain=1')
         for o in VAL + ['cmptry'] for a in ('static', 'heap', 'mix3')]
      + [X('d1-alloc-%s-%s' % (o, a), 'base', 'objs=' + o, 'alloc=' + a, 'depth=1', 'alpha=' + ALL, 'halpha=' + ALL9, 'ppalpha=012', 'chain=1')
         for o in MIX for a in ('stack', 'mix2', 'mix3')]
      + S('d2-alloc-struct-stack', 'base', 2, 'objs=struct', 'alloc=stack', 'depth=2', 'alpha=' + ALL, 'halpha=' + ALL9, 'ppalpha=0')
      + [X('d2-alloc-%s-%s' % (o, a), 'base', 'objs=' + o, 'alloc=' + a, 'depth=2', 'alpha=0124568', 'halpha=01245689', 'ppalpha=0')
         for o, a in (('struct', 'mix2'), ('struct', 'mix3'), ('string', 'stack'), ('int', 'stack'), ('string', 'static'))]
      + [X('d2-alloc-chain', 'base', 'objs=struct', 'alloc=stack', 'depth=2', 'alpha=0128', 'halpha=01289', 'ppalpha=01', 'chain=1')]
      + S('d3-alloc-stack', 'base', 2, 'objs=struct', 'alloc=stack', 'depth=3', 'alpha=012', 'halpha=019', 'ppalpha=0')
      + [X('d3-alloc-mix2', 'base', 'objs=int', 'alloc=mix2', 'depth=3', 'alpha=01', 'halpha=019', 'ppalpha=0')]
      + S('seq-alloc', 'base', 2, 'objs=struct', 'alloc=mix2', 'kind=seq', 'alpha=' + ALL, 'halpha=' + ALL9, 'ppalpha=0')
      + [X('seqt-alloc', 'base', 'objs=string', 'alloc=stack', 'kind=seqt', 'alpha=012', 'halpha=0129', 'ppalpha=0')]
      + [i for o in VAL for i in S('d1-alloc-fork-' + o, 'base', 2, 'objs=' + o, 'alloc=stack', 'depth=1', 'alpha=' + ALL, 'halpha=' + ALL9, 'ppalpha=012', 'main=0', 'fork=1')]
      + [X('d1-alloc-msg-stack', 'base', 'objs=string', 'alloc=stack', 'msg=mix', 'depth=1', 'alpha=' + ALL, 'halpha=' + ALL9, 'ppalpha=' + ALL, 'chain=1')]
      + [X('deep-alloc-%s-%s' % (o, a), 'base', 'mode=deep', 'objs=' + o, 'alloc=' + a) for o in VAL for a in ('stack', 'static', 'heap', 'mix2')]
      + [X('d1-alloc-%s-asan' % o, 'asan', 'objs=' + o, 'alloc=stack', 'depth=1', 'alpha=' + ALL, 'halpha=' + ALL9, 'ppalpha=012', 'chain=1') for o in VAL]
      + [X('d1-alloc-static-asan', 'asan', 'objs=string', 'alloc=static', 'depth=1', 'alpha=' + ALL, 'halpha=' + ALL9, 'ppalpha=012', 'chain=1'),
         X('d2-alloc-asan', 'asan', 'objs=struct', 'alloc=mix2', 'depth=2', 'alpha=01248', 'halpha=012489', 'ppalpha=0'),
         X('d1-alloc-fork-asan', 'asan', 'objs=int', 'alloc=stack', 'depth=1', 'alpha=' + ALL, 'halpha=' + ALL9, 'ppalpha=0', 'main=0', 'fork=1'),
         X('deep-alloc-asan', 'asan', 'mode=deep', 'objs=struct', 'alloc=stack'),
         X('deep-alloc-string-asan', 'asan', 'mode=deep', 'objs=string', 'alloc=mix3')]),
}

# A filter entry whose Cmp function RAISES AND HANDLES an exception of its own while exception_catch scans the
# filter overwrites the record on the current tree (genuine defect, proposed/C07-catch-scan-overwrites-record.md):
# these instances report it with labels ending in '/filter-entry-cmp-handles-an-exception-of-its-own'.
# Set to True once proposed/C07-catch-scan-overwrites-record.patch (or an equivalent repair) is in /repo.
CMPTHROW_ENABLED = True
CMPTHROW = {
  'quick': [X('d1-cmpthrow', 'base', 'objs=cmpthrow', 'depth=1', 'alpha=' + ALL, 'ppalpha=' + ALL, 'chain=1'),
            X('d2-cmpthrow', 'base', 'objs=cmpthrow', 'depth=2', 'alpha=0124', 'ppalpha=01'),
            X('deep-cmpthrow', 'base', 'mode=deep', 'objs=cmpthrow'),
            X('d1-cmpthrow-asan', 'asan', 'objs=cmpthrow', 'depth=1', 'alpha=' + ALL, 'ppalpha=012', 'chain=1')],
  'thorough': ([X('d1-cmpthrow', 'base', 'objs=cmpthrow', 'depth=1', 'alpha=' + ALL, 'ppalpha=' + ALL, 'chain=1', 'fresh=1'),
                X('d1-cmpthrow-msg', 'base', 'objs=cmpthrow', 'msg=mix', 'depth=1', 'alpha=' + ALL, 'ppalpha=' + ALL, 'chain=1')]
               + S('d2-cmpthrow', 'base', 4, 'objs=cmpthrow', 'depth=2', 'alpha=' + ALL, 'ppalpha=01')
               + S('d3-cmpthrow', 'base', 4, 'objs=cmpthrow', 'depth=3', 'alpha=012', 'ppalpha=0')
               + S('d1-cmpthrow-fork', 'base', 2, 'objs=cmpthrow', 'depth=1', 'alpha=' + ALL, 'ppalpha=012', 'main=0', 'fork=1')
               + [X('deep-cmpthrow', 'base', 'mode=deep', 'objs=cmpthrow'),
                  X('d1-cmpthrow-asan', 'asan', 'objs=cmpthrow', 'depth=1', 'alpha=' + ALL, 'ppalpha=' + ALL, 'chain=1'),
                  X('deep-cmpthrow-asan', 'asan', 'mode=deep', 'objs=cmpthrow')]),
}

CHECK = {
  'id': 'C07',
  'level': 'model_checking',
  'rule': ('program-tree enumeration: every assignment of the statement slots (nop, throw A/B/C, call of a function that itself '
           'contains a try/catch which handles / lets escape / re-throws / completes, call of a thrower that receives the object to throw as its '
           'argument; in handler slots of the halpha= instances also: throw(e) of the object the handler was given) and filter slots '
           '(catch-all, {A}, {B}, {A,B}; filters are vars bound at run time, N is never thrown) of try/catch templates of nesting '
           'depth 1..3 (inner construct in the body or in the handler, written lexically in the same function or reached through a '
           'call), of two sibling constructs in sequence, and of two siblings inside an enclosing try, is executed through the real '
           'try/catch/throw macros inside an outermost sentinel try and its complete event trace (every statement slot reached, every '
           'handler entry with the bound object, construct entry/exit, len(current(Exception)) at every event) is compared with a '
           'recursive reference interpreter. Chaining: for every distinct residual exception-record state (depth, active, pending '
           'object) seen after a program (outside and inside the sentinel) one representative prefix x every program, as two '
           'sentinels in sequence and as two programs in one try body; every depth-1 program also as the first thing a fresh Thread '
           'does; programs without sentinel run in a forked child (exit status != 0 and "Uncaught <object>" on stderr required iff the '
           'reference says the exception escapes). Exception objects: singleton types (thrown object == filter object), and in the '
           'objs=struct|string|int instances VALUE objects (a user struct whose Cmp ignores a payload field, heap Strings, heap Ints) '
           'caught through DISTINCT filter objects that are eq() to them: every handler entry records the identity of the bound object '
           '(pointer equality with the thrown object, payload/value intact), so a handler bound to the filter object is a violation. '
           'Allocation class of the thrown value objects (alloc=): stack = built with $(Struct, ...) / $S / $I in the frame of the function that runs the program '
           '(it encloses the sentinel and every try block, so the object is alive in the handler of its own block, in enclosing handlers after a non-matching inner '
           'block, in a handler that re-throws it and in the callee it was handed to), static = static storage with an AllocStatic header, heap = new_raw; '
           'mix1 (the default of EVERY value-object instance: struct / string / int / mixed / cmptry / cmpthrow / msg / deep) = A stack, B static, C heap, mix2 and mix3 the two '
           'rotations, stack|static|heap = all three objects in that class. Two oracles at every handler that is offered the object (sentinel included): identity '
           '(the bound pointer is the thrown pointer; an equal object that is not the thrown one is reported as handler-bound-to-a-copy) and mutation (the handler writes '
           'its ordinal into the object it was given - payload field of a struct, val pointer of a String moved to another buffer with the same text, +1000 by assign() '
           'on an Int seen through the owner\'s pointer and taken off again - and when the program has ended the owner of the objects reads each thrown object through its '
           'own pointer: it must carry the mark of the last handler the reference binds to it, 0 if none). '
           'In the objs=mixed1|2|3 instances A, B, C have three different types (String / Type / struct instance / Int in rotation) and every filter has '
           'three entries of several types with the matching entry first, middle or last; non-matching entries have another type than the thrown '
           'object or the same type and another value, including traps (a String spelling the name of a thrown Type, an Int / struct carrying the '
           'number of a thrown String): a handler runs iff some entry has the thrown object\'s type and is eq to it. '
           'In the msg=1..4|mix instances every throw formats a message argument whose Show method itself uses the exception system (handles an inner '
           'exception of another kind / of the same object as the outer throw / enters a try that throws nothing / two nested trys): the program must '
           'behave exactly as with a plain message. '
           'Message texts vary with the slot of the throw (plain, a literal %%, %s of a String "50% off", %$ of a String containing %d %s %): the text must never matter. '
           'In the objs=cmptry instances the thrown values and the filter entries belong to a class whose Cmp function opens try blocks of its own (one, two nested, two in sequence; nothing thrown) while exception_catch scans the filter. '
           'Built-in kinds (mode=builtin): every exception kind declared in Cello.h (16; the list is compared with the header of the tree under test) must carry its C identifier as name and be a distinct object; '
           'all 16x16 ordered pairs (throw X inside a try whose filter lists Y inside a catch-all): the inner handler runs iff X is Y, otherwise the outer one receives exactly X; '
           'three nested filters listing every ordered triple of distinct kinds x every kind thrown (53760 programs): exactly the level that lists the thrown kind handles it; '
           'each kind thrown with no try block and past every other kind\'s filter in a forked child must end with a failure status and "Uncaught <identifier>". '
           'Deep nesting (mode=deep): recursion with D try blocks open at once, D in {1,2,3,17,100,1000,MAX-2,MAX-1,MAX} with MAX = '
           'EXCEPTION_MAX_DEPTH taken from the library source (MAX+1 aborts by design and is not run), non-matching filters at every level '
           'except a target (outermost/middle/innermost/nobody; typed or catch-all), A or B thrown at the bottom, optionally re-thrown by the '
           'target handler to level 0 or to nobody, or the target handler re-throws the object it was given (to a level-0 filter listing it, or to nobody); each case in a forked child, the stack-class objects living in the frame D levels above the throw; judged: exactly the target handler(s) run and bind the thrown '
           'object and leave their mark in the thrower\'s object, len(current(Exception)) before/inside/in the handler/after every level, exit status and diagnostic, and an ordinary '
           'program run afterwards. '
           'states = distinct programs; transitions = judged runs (programs + chained pairs + '
           'fresh-thread runs + forked runs); traces_validated = executions of a program body on the real macros; '
           'distinct_nontrivial = distinct programs in which at least one catch clause met a pending exception raised in its own try '
           'body (so the match / propagate decision was exercised)'),
  'bounds': {
    'quick': ('depth 1: 9-statement alphabet in all 4 slots x 4 filters (26244 programs) + chaining + fresh threads + all of them without sentinel in a '
              'forked child; depth 2: {nop,A,B,K0} in 7 slots x 16 filter pairs x 2 shapes x 2 realisations (1.05M), 9-statement alphabet with '
              'pre/post fixed (3.8M), chaining over the {nop,A,B} space; depth 3: {nop,A,B} in 8 slots x 64 filter triples x 4 shapes x 4 '
              'realisations (6.7M); sibling sequences 1.07M; siblings inside a try 4.2M; ASan+UBSan: depth 1 full (with chaining and forks on a '
              'shard), depth 2 and 3 and sequences on smaller alphabets; value-object mode (struct/String/Int thrown, distinct equal filters): '
              'depth 1 full x3 kinds with chaining, 2916 forked, depth 2 1.05M (struct) + 200k (String), sequences 200k, ASan depth 1 + depth 2; deep nesting: 426 cases up to 2048 open try blocks x {types, struct values, mixed types, ASan}; mixed-type objects and filters: depth 1 full x3 rotations with chaining, forks, depth 2 1.05M + 2x200k, sequences, ASan; message arguments whose Show uses try/catch/throw: depth 1 (each Show kind and mixed, types/struct/mixed objects, chaining, forks), depth 2 262k, deep nesting, ASan; '
              'allocation classes and re-throw (27 instances, 1.2M programs, 1.9M judged runs): depth 1 with the 10-statement handler alphabet for struct/String/Int x {all stack, all static, all heap} + rotations mix2/mix3 + cmptry, mixed and msg objects on the stack (3240 programs each with pre/post in {nop,A,B}, 29160 for struct mix2; chaining), '
              '3240 forked children with String objects on the stack, depth 2 734k (struct, all stack) + 2x115k, sequences 72k, deep nesting x3 classes, ASan depth 1 / depth 2 / deep; every other value-object instance runs alloc=mix1'),
    'thorough': ('depth 1 as quick; depth 2: 9-statement alphabet, pre/post in {nop,A,B} (34M), chaining over {nop,A,B,K0} with pre/post (1.05M x residual '
                 'states), 262k depth-2 programs without sentinel in forked children; depth 3: {nop,A,B,K0,K1} in 8 slots x 64 filter triples x 4 shapes x 4 '
                 'realisations (400M), {nop,A,B} with pre/post (60M); sequences 8.5M; siblings inside a try 25M; ASan+UBSan instances of each family; '
                 'value-object mode: depth 1 full x3 kinds (chaining, fresh threads, forks), depth 2 34M (struct) + 3.8M (String) + 3.8M (Int) + chaining, '
                 'depth 3 67M, sequences 8.5M, siblings inside a try 4.2M, ASan depth 1 + depth 2; deep nesting as quick plus all three mixed rotations; mixed-type objects and filters x3 rotations: depth 1 full (chaining, fresh threads, forks), depth 2 7.6M each, depth 3 6.7M each, chaining, sequences, siblings inside a try, ASan; message arguments whose Show uses try/catch/throw: depth 1 full x5 object modes + each Show kind, depth 2 15M + 3x250k + 3.8M (struct), depth 3 6.7M, sequences, forks, deep nesting, ASan; '
                 'allocation classes and re-throw (73 instances, 25M programs): depth 1 full 10-statement handler alphabet x {struct,String,Int,cmptry} x {stack,static,heap,mix2,mix3} (mix1 = the d1-val / d1-cmptry instances, which have the re-throw statement too) '
                 '+ 3 mixed rotations x {stack,mix2,mix3}, chaining, fresh threads for the stack class, 10080 forked children; depth 2: 4.9M (struct, all stack, full alphabet) + 5x1.5M + types 1.5M + chaining; depth 3 6.7M (struct, stack) + 1.4M (Int, mix2); '
                 'sequences 1.2M, siblings inside a try 1M; deep nesting x {struct,String,Int} x {stack,static,heap,mix2}; ASan depth 1 x4, depth 2, forks, deep x2'),
  },
  'assumptions': [
    'exception kinds are singleton type objects (CelloEmpty; names are prefix-related on purpose: Net, NetErr, NetError, NetErrorTimeout, NetErrorTimeoutRetry), '
    'value objects (a user struct whose Cmp ignores a payload field, heap Strings, heap Ints), or a mixture of those types in one program with filters whose three entries have several types '
    '(in contract since a873edc: an entry of another type than the thrown object simply does not match)',
    'enumerated programs nest <= 5 deep; the deep-nesting family reaches exactly EXCEPTION_MAX_DEPTH open blocks (more is out of contract: the library aborts by design); catch filters never list the same object twice (Tuple iteration cannot handle that: known finding D16 of C11); one thread at a time',
    'locals of the templates are not modified inside a try body and read afterwards (setjmp rules); traces live in a shared global buffer; the stack-class exception objects ARE written '
    'inside try bodies / handlers and read afterwards, which is safe because they are compound literals whose address has escaped (memory, never a register copy)',
    'a thrown object must outlive the handlers that are offered it: stack-class objects are built in a frame that encloses the whole program (a $() object of a frame that the throw unwinds is out of contract and never built); '
    'static-class objects are made with the public header_init(); handlers write only fields that eq() ignores (or restore the value before anything can compare it), so marking never changes which filter matches',
    'the pending object of the record (white-box field, exception_object() is declared but not defined) is used only to classify residual states, never in a verdict',
    'gcc/clang, glibc setjmp/longjmp and the sanitizer run-times are trusted',
  ],
  'instances': {
    'quick': (
      [X('d1', 'base', 'depth=1', 'alpha=' + ALL, 'ppalpha=' + ALL, 'chain=1', 'fresh=1')]
      + S('d1-fork', 'base', 4, 'depth=1', 'alpha=' + ALL, 'ppalpha=' + ALL, 'main=0', 'fork=1')
      + [X('d2', 'base', 'depth=2', 'alpha=0124', 'ppalpha=0124')]
      + S('d2-calls', 'base', 2, 'depth=2', 'alpha=' + ALL, 'ppalpha=0')
      + [X('d2-chain', 'base', 'depth=2', 'alpha=012', 'ppalpha=012', 'chain=1')]
      + [X('seq', 'base', 'kind=seq', 'alpha=0124568', 'ppalpha=01')]
      + S('seqt', 'base', 4, 'kind=seqt', 'alpha=0124', 'ppalpha=0')
      + S('d3', 'base', 4, 'depth=3', 'alpha=012', 'ppalpha=0')
      # value objects thrown, caught through distinct-but-equal filter objects (identity + payload of the bound object)
      + [X('d1-val-struct', 'base', 'objs=struct', 'depth=1', 'alpha=' + ALL, 'halpha=' + ALL9, 'ppalpha=' + ALL, 'chain=1', 'fresh=1'),
         X('d1-val-string', 'base', 'objs=string', 'depth=1', 'alpha=' + ALL, 'halpha=' + ALL9, 'ppalpha=' + ALL, 'chain=1'),
         X('d1-val-int', 'base', 'objs=int', 'depth=1', 'alpha=' + ALL, 'halpha=' + ALL9, 'ppalpha=' + ALL, 'chain=1'),
         X('d1-val-fork', 'base', 'objs=struct', 'depth=1', 'alpha=' + ALL, 'ppalpha=012', 'main=0', 'fork=1'),
         X('d2-val-struct', 'base', 'objs=struct', 'depth=2', 'alpha=0124', 'ppalpha=0124'),
         X('d2-val-string', 'base', 'objs=string', 'depth=2', 'alpha=01245', 'ppalpha=0'),
         X('seq-val', 'base', 'objs=struct', 'kind=seq', 'alpha=01246', 'ppalpha=01'),
         X('d1-val-asan', 'asan', 'objs=struct', 'depth=1', 'alpha=' + ALL, 'ppalpha=' + ALL, 'chain=1'),
         X('d2-val-asan', 'asan', 'objs=string', 'depth=2', 'alpha=0124', 'ppalpha=0')]
      # objects of several types thrown past / into filters whose three entries have several types (in contract since a873edc)
      + [X('d1-mix1', 'base', 'objs=mixed1', 'depth=1', 'alpha=' + ALL, 'ppalpha=' + ALL, 'chain=1', 'fresh=1'),
         X('d1-mix2', 'base', 'objs=mixed2', 'depth=1', 'alpha=' + ALL, 'ppalpha=' + ALL, 'chain=1'),
         X('d1-mix3', 'base', 'objs=mixed3', 'depth=1', 'alpha=' + ALL, 'ppalpha=' + ALL, 'chain=1'),
         X('d1-mix-fork', 'base', 'objs=mixed1', 'depth=1', 'alpha=' + ALL, 'ppalpha=012', 'main=0', 'fork=1'),
         X('d2-mix1', 'base', 'objs=mixed1', 'depth=2', 'alpha=0124', 'ppalpha=0124'),
         X('d2-mix2', 'base', 'objs=mixed2', 'depth=2', 'alpha=01245', 'ppalpha=0'),
         X('d2-mix3', 'base', 'objs=mixed3', 'depth=2', 'alpha=01245', 'ppalpha=0'),
         X('seq-mix', 'base', 'objs=mixed2', 'kind=seq', 'alpha=01246', 'ppalpha=01'),
         X('deep-mix', 'base', 'mode=deep', 'objs=mixed3'),
         X('d1-mix-asan', 'asan', 'objs=mixed2', 'depth=1', 'alpha=' + ALL, 'ppalpha=' + ALL, 'chain=1'),
         X('d2-mix-asan', 'asan', 'objs=mixed1', 'depth=2', 'alpha=0124', 'ppalpha=0')]
      # throw whose message argument has a Show method that itself uses try/catch/throw (b115d2d)
      + [X('d1-msg-mix', 'base', 'msg=mix', 'depth=1', 'alpha=' + ALL, 'ppalpha=' + ALL, 'chain=1'),
         X('d1-msg-val', 'base', 'msg=mix', 'objs=struct', 'depth=1', 'alpha=' + ALL, 'ppalpha=012', 'chain=1'),
         X('d1-msg-mixed', 'base', 'msg=mix', 'objs=mixed1', 'depth=1', 'alpha=' + ALL, 'ppalpha=012')]
      + [X('d1-msg%d' % k, 'base', 'msg=%d' % k, 'depth=1', 'alpha=' + ALL, 'ppalpha=012') for k in (1, 2, 3, 4)]
      + [X('d2-msg', 'base', 'msg=mix', 'depth=2', 'alpha=0124', 'ppalpha=01'),
         X('d1-msg-fork', 'base', 'msg=mix', 'depth=1', 'alpha=0128', 'ppalpha=012', 'main=0', 'fork=1'),
         X('deep-msg', 'base', 'mode=deep', 'msg=mix', 'objs=string'),
         X('d1-msg-asan', 'asan', 'msg=mix', 'depth=1', 'alpha=' + ALL, 'ppalpha=012', 'chain=1'),
         X('d2-msg-asan', 'asan', 'msg=mix', 'objs=struct', 'depth=2', 'alpha=012', 'ppalpha=0')]
      # message texts containing '%' (pct=mix is the default of every instance; these pin one variant each on propagation-heavy programs)
      + [X('d2-pct%d' % k, 'base', 'pct=%d' % k, 'depth=2', 'alpha=0125', 'ppalpha=0') for k in (1, 2, 3)]
      + [X('d2-pct-asan', 'asan', 'pct=3', 'depth=2', 'alpha=012', 'ppalpha=0')]
      # value objects whose Cmp function opens try blocks of its own, thrown and listed in filters
      + [X('d1-cmptry', 'base', 'objs=cmptry', 'depth=1', 'alpha=' + ALL, 'halpha=' + ALL9, 'ppalpha=' + ALL, 'chain=1'),
         X('d1-cmptry-msg', 'base', 'objs=cmptry', 'msg=mix', 'depth=1', 'alpha=' + ALL, 'ppalpha=012'),
         X('d1-cmptry-fork', 'base', 'objs=cmptry', 'depth=1', 'alpha=0128', 'ppalpha=012', 'main=0', 'fork=1'),
         X('d2-cmptry', 'base', 'objs=cmptry', 'depth=2', 'alpha=0124', 'ppalpha=01'),
         X('deep-cmptry', 'base', 'mode=deep', 'objs=cmptry'),
         X('d1-cmptry-asan', 'asan', 'objs=cmptry', 'depth=1', 'alpha=' + ALL, 'ppalpha=012', 'chain=1')]
      + (CMPTHROW['quick'] if CMPTHROW_ENABLED else [])
      # allocation class of the thrown value objects (stack / static / heap), re-throw of the bound object
      + ALLOC['quick']
      # the library's own exception kinds: names, all 16x16 thrown x filter pairs, three-level routing, Uncaught diagnostics
      + [X('builtin', 'base', 'mode=builtin'), X('builtin-asan', 'asan', 'mode=builtin')]
      # deep dynamic nesting (recursion) up to EXCEPTION_MAX_DEPTH open try blocks, one forked child per case
      + [X('deep', 'base', 'mode=deep'),
         X('deep-val', 'base', 'mode=deep', 'objs=struct'),
         X('deep-asan', 'asan', 'mode=deep')]
      + [X('d1-asan', 'asan', 'depth=1', 'alpha=' + ALL, 'ppalpha=' + ALL, 'chain=1'),
         X('d1-fork-asan', 'asan', 'depth=1', 'alpha=' + ALL, 'ppalpha=012', 'main=0', 'fork=1', 'shard=0/2'),
         X('d2-asan', 'asan', 'depth=2', 'alpha=0124', 'ppalpha=0'),
         X('d3-asan', 'asan', 'depth=3', 'alpha=01', 'ppalpha=0'),
         X('seq-asan', 'asan', 'kind=seq', 'alpha=01246', 'ppalpha=0'),
         X('seqt-asan', 'asan', 'kind=seqt', 'alpha=012', 'ppalpha=0')]
    ),
    'thorough': (
      [X('d1', 'base', 'depth=1', 'alpha=' + ALL, 'ppalpha=' + ALL, 'chain=1', 'fresh=1')]
      + S('d1-fork', 'base', 4, 'depth=1', 'alpha=' + ALL, 'ppalpha=' + ALL, 'main=0', 'fork=1')
      + S('d2-full', 'base', 8, 'depth=2', 'alpha=' + ALL, 'ppalpha=012')
      + S('d2-chain', 'base', 4, 'depth=2', 'alpha=0124', 'ppalpha=0124', 'chain=1')
      + S('d2-fork', 'base', 8, 'depth=2', 'alpha=0124', 'ppalpha=01', 'main=0', 'fork=1')
      + S('d3', 'base', 32, 'depth=3', 'alpha=01245', 'ppalpha=0')
      + S('d3-pp', 'base', 8, 'depth=3', 'alpha=012', 'ppalpha=012')
      + S('seq', 'base', 2, 'kind=seq', 'alpha=' + ALL, 'ppalpha=012')
      + S('seqt', 'base', 8, 'kind=seqt', 'alpha=01245', 'ppalpha=0')
      + [X('d1-val-struct', 'base', 'objs=struct', 'depth=1', 'alpha=' + ALL, 'halpha=' + ALL9, 'ppalpha=' + ALL, 'chain=1', 'fresh=1'),
         X('d1-val-string', 'base', 'objs=string', 'depth=1', 'alpha=' + ALL, 'halpha=' + ALL9, 'ppalpha=' + ALL, 'chain=1', 'fresh=1'),
         X('d1-val-int', 'base', 'objs=int', 'depth=1', 'alpha=' + ALL, 'halpha=' + ALL9, 'ppalpha=' + ALL, 'chain=1', 'fresh=1')]
      + S('d1-val-fork', 'base', 4, 'objs=struct', 'depth=1', 'alpha=' + ALL, 'ppalpha=' + ALL, 'main=0', 'fork=1')
      + S('d1-val-fork-string', 'base', 2, 'objs=string', 'depth=1', 'alpha=' + ALL, 'ppalpha=012', 'main=0', 'fork=1')
      + S('d2-val-struct', 'base', 8, 'objs=struct', 'depth=2', 'alpha=' + ALL, 'ppalpha=012')
      + S('d2-val-string', 'base', 2, 'objs=string', 'depth=2', 'alpha=' + ALL, 'ppalpha=0')
      + S('d2-val-int', 'base', 2, 'objs=int', 'depth=2', 'alpha=' + ALL, 'ppalpha=0')
      + S('d2-val-chain', 'base', 2, 'objs=struct', 'depth=2', 'alpha=0124', 'ppalpha=01', 'chain=1')
      + S('d3-val', 'base', 8, 'objs=struct', 'depth=3', 'alpha=0124', 'ppalpha=0')
      + S('seq-val', 'base', 2, 'objs=struct', 'kind=seq', 'alpha=' + ALL, 'ppalpha=012')
      + S('seqt-val', 'base', 4, 'objs=struct', 'kind=seqt', 'alpha=0124', 'ppalpha=0')
      + [X('d1-val-asan', 'asan', 'objs=struct', 'depth=1', 'alpha=' + ALL, 'ppalpha=' + ALL, 'chain=1', 'fresh=1'),
         X('d1-val-fork-asan', 'asan', 'objs=struct', 'depth=1', 'alpha=' + ALL, 'ppalpha=012', 'main=0', 'fork=1', 'shard=0/2')]
      + S('d2-val-asan', 'asan', 2, 'objs=string', 'depth=2', 'alpha=' + ALL, 'ppalpha=0')
      # objects of several types thrown past / into filters whose three entries have several types (in contract since a873edc)
      + [X('d1-' + m, 'base', 'objs=' + m, 'depth=1', 'alpha=' + ALL, 'ppalpha=' + ALL, 'chain=1', 'fresh=1') for m in MIX]
      + [i for m in MIX for i in S('d1-%s-fork' % m, 'base', 2, 'objs=' + m, 'depth=1', 'alpha=' + ALL, 'ppalpha=012', 'main=0', 'fork=1')]
      + [i for m in MIX for i in S('d2-' + m, 'base', 4, 'objs=' + m, 'depth=2', 'alpha=' + ALL, 'ppalpha=01')]
      + [i for m in MIX for i in S('d3-' + m, 'base', 4, 'objs=' + m, 'depth=3', 'alpha=012', 'ppalpha=0')]
      + S('d2-mix-chain', 'base', 2, 'objs=mixed1', 'depth=2', 'alpha=0124', 'ppalpha=01', 'chain=1')
      + S('seq-mix', 'base', 2, 'objs=mixed2', 'kind=seq', 'alpha=' + ALL, 'ppalpha=012')
      + S('seqt-mix', 'base', 4, 'objs=mixed3', 'kind=seqt', 'alpha=0124', 'ppalpha=0')
      + [X('deep-' + m, 'base', 'mode=deep', 'objs=' + m) for m in MIX]
      + [X('d1-%s-asan' % m, 'asan', 'objs=' + m, 'depth=1', 'alpha=' + ALL, 'ppalpha=' + ALL, 'chain=1') for m in MIX]
      + S('d2-mix-asan', 'asan', 2, 'objs=mixed1', 'depth=2', 'alpha=' + ALL, 'ppalpha=0')
      + [X('deep-mix-asan', 'asan', 'mode=deep', 'objs=mixed2')]
      # throw whose message argument has a Show method that itself uses try/catch/throw (b115d2d)
      + [X('d1-msg-' + o, 'base', 'msg=mix', 'objs=' + o, 'depth=1', 'alpha=' + ALL, 'ppalpha=' + ALL, 'chain=1', 'fresh=1') for o in ('types', 'struct', 'string', 'mixed1', 'mixed2')]
      + [X('d1-msg%d' % k, 'base', 'msg=%d' % k, 'depth=1', 'alpha=' + ALL, 'ppalpha=' + ALL, 'chain=1') for k in (1, 2, 3, 4)]
      + [i for k in (1, 2, 4) for i in S('d2-msg%d' % k, 'base', 2, 'msg=%d' % k, 'depth=2', 'alpha=01245', 'ppalpha=01')]
      + S('d2-msg', 'base', 4, 'msg=mix', 'depth=2', 'alpha=' + ALL, 'ppalpha=01')
      + S('d2-msg-val', 'base', 2, 'msg=mix', 'objs=struct', 'depth=2', 'alpha=' + ALL, 'ppalpha=0')
      + S('d3-msg', 'base', 4, 'msg=mix', 'depth=3', 'alpha=012', 'ppalpha=0')
      + S('seq-msg', 'base', 2, 'msg=mix', 'kind=seq', 'alpha=' + ALL, 'ppalpha=01')
      + S('d1-msg-fork', 'base', 2, 'msg=mix', 'depth=1', 'alpha=' + ALL, 'ppalpha=012', 'main=0', 'fork=1')
      + [X('deep-msg', 'base', 'mode=deep', 'msg=mix', 'objs=string'), X('deep-msg4', 'base', 'mode=deep', 'msg=4')]
      + [X('d1-msg-asan', 'asan', 'msg=mix', 'depth=1', 'alpha=' + ALL, 'ppalpha=' + ALL, 'chain=1'),
         X('d2-msg-asan', 'asan', 'msg=mix', 'objs=struct', 'depth=2', 'alpha=0124', 'ppalpha=0'),
         X('deep-msg-asan', 'asan', 'mode=deep', 'msg=mix')]
      # message texts containing '%'
      + [i for k in (1, 2, 3) for i in S('d2-pct%d' % k, 'base', 2, 'pct=%d' % k, 'depth=2', 'alpha=' + ALL, 'ppalpha=0')]
      + [i for k in (1, 2, 3) for i in S('d3-pct%d' % k, 'base', 2, 'pct=%d' % k, 'depth=3', 'alpha=012', 'ppalpha=0', 'dyns=lex')]
      + [X('d2-pct-asan', 'asan', 'pct=3', 'depth=2', 'alpha=0124', 'ppalpha=0')]
      # value objects whose Cmp function opens try blocks of its own, thrown and listed in filters
      + [X('d1-cmptry', 'base', 'objs=cmptry', 'depth=1', 'alpha=' + ALL, 'halpha=' + ALL9, 'ppalpha=' + ALL, 'chain=1', 'fresh=1'),
         X('d1-cmptry-msg', 'base', 'objs=cmptry', 'msg=mix', 'depth=1', 'alpha=' + ALL, 'ppalpha=' + ALL, 'chain=1')]
      + S('d1-cmptry-fork', 'base', 2, 'objs=cmptry', 'depth=1', 'alpha=' + ALL, 'ppalpha=012', 'main=0', 'fork=1')
      + S('d2-cmptry', 'base', 4, 'objs=cmptry', 'depth=2', 'alpha=' + ALL, 'ppalpha=01')
      + S('d3-cmptry', 'base', 4, 'objs=cmptry', 'depth=3', 'alpha=012', 'ppalpha=0')
      + S('seq-cmptry', 'base', 2, 'objs=cmptry', 'kind=seq', 'alpha=' + ALL, 'ppalpha=01')
      + [X('deep-cmptry', 'base', 'mode=deep', 'objs=cmptry'),
         X('d1-cmptry-asan', 'asan', 'objs=cmptry', 'depth=1', 'alpha=' + ALL, 'ppalpha=' + ALL, 'chain=1'),
         X('d2-cmptry-asan', 'asan', 'objs=cmptry', 'depth=2', 'alpha=0124', 'ppalpha=0'),
         X('deep-cmptry-asan', 'asan', 'mode=deep', 'objs=cmptry')]
      + (CMPTHROW['thorough'] if CMPTHROW_ENABLED else [])
      # allocation class of the thrown value objects (stack / static / heap), re-throw of the bound object
      + ALLOC['thorough']
      # the library's own exception kinds: names, all 16x16 thrown x filter pairs, three-level routing, Uncaught diagnostics
      + [X('builtin', 'base', 'mode=builtin'), X('builtin-asan', 'asan', 'mode=builtin')]
      # deep dynamic nesting (recursion) up to EXCEPTION_MAX_DEPTH open try blocks, one forked child per case
      + [X('deep', 'base', 'mode=deep'),
         X('deep-val', 'base', 'mode=deep', 'objs=struct'),
         X('deep-asan', 'asan', 'mode=deep')]
      + [X('d1-asan', 'asan', 'depth=1', 'alpha=' + ALL, 'ppalpha=' + ALL, 'chain=1', 'fresh=1')]
      + S('d1-fork-asan', 'asan', 4, 'depth=1', 'alpha=' + ALL, 'ppalpha=012', 'main=0', 'fork=1')
      + S('d2-asan', 'asan', 2, 'depth=2', 'alpha=' + ALL, 'ppalpha=0')
      + [X('d2-chain-asan', 'asan', 'depth=2', 'alpha=012', 'ppalpha=012', 'chain=1')]
      + S('d3-asan', 'asan', 4, 'depth=3', 'alpha=012', 'ppalpha=0')
      + [X('seq-asan', 'asan', 'kind=seq', 'alpha=0124568', 'ppalpha=01'),
         X('seqt-asan', 'asan', 'kind=seqt', 'alpha=0124', 'ppalpha=0', 'shard=0/4')]
    ),
  },
}
