# Temporary stand-alone runner for the C10 value-type part (the aggregating checks/C10.py is the coordinator's).
import os, importlib.util
_p = os.path.join(os.path.dirname(os.path.abspath(__file__)), 'parts', 'cmp.py')
_s = importlib.util.spec_from_file_location('parts_cmp', _p); _m = importlib.util.module_from_spec(_s); _s.loader.exec_module(_m)

CHECK = {
  'id': 'C10',
  'level': 'exploration',
  'rule': _m.RULES['C10'],
  'bounds': {
    'quick': 'Int 45, Float 40, String 85, 8-byte struct 64, Ref 5, Box 5 values x 10 allocation classes; all ordered pairs for eq=>hash, assign-over and swap; Type 72 objects x heap twins; hash_data len 0..64 x align 0..7 x 3 patterns; base + ASan/UBSan',
    'thorough': 'Int 87, Float 68, String 341, struct 256 (all pairs for assign-over and swap); hash_data len 0..160',
  },
  'assumptions': [
    'values outside the grids are represented by the boundary values of the grids',
    'NaN excluded; little-endian host (MurmurHash64A reads 64-bit words)',
    'gcc/clang, glibc and the sanitizer run-times are trusted',
  ],
  'instances': _m.PARTS['C10'],
}
