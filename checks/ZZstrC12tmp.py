import importlib.util, os
spec = importlib.util.spec_from_file_location('p', os.path.join(os.path.dirname(__file__), 'parts', 'string.py'))
m = importlib.util.module_from_spec(spec); spec.loader.exec_module(m)
CHECK = {'id': 'ZZstrC12tmp', 'level': 'model_checking', 'rule': 'tmp', 'bounds': {}, 'assumptions': [], 'instances': m.PARTS['C12']}
