def I(name, variant, *args, **kw):
    d = dict(name=name, harness='h_iter.c', variant=variant, args=list(args))
    d.update(kw)
    return d

# one instance per underlying kind for the big grids: a crash / sanitizer report ends only that instance
KINDS = ['array', 'list', 'tuple', 'htuple', 'table', 'tree', 'range']

# container kinds that can change length under a view (phase=midop part=shrunk)
SHRINKING = ['array', 'list', 'htuple', 'table', 'tree']

def per_kind(prefix, variant, *args):
    return [I('%s-%s' % (prefix, k), variant, *(list(args) + ['kinds=' + k])) for k in KINDS]

CHECK = {
  'id': 'C11',
  'level': 'exploration',
  'rule': ('exhaustive grids of iterable expressions built with the library\'s own macros (tuple, range, slice, reverse, zip, enumerate, filter, map) '
           'and with new(): leaves are Array/List/stack Tuple/heap Tuple/Table/Tree of every length and Range over the full argument grid; views over '
           'every leaf kind and length with the full cartesian product of their parameters (Slice start/stop/step each omitted or in [-A..A] in all four '
           'arities plus reverse(); Zip arity 0..3 over all kind x length combinations; enumerate; Filter with all 2^n predicates; Map with two functions); '
           'compositions outer(inner(leaf)) over a closed family of views.  Each case is walked forwards and backwards on the real object under a horizon '
           'of len+8 steps, asked for len and get(i), and compared with a reference sequence computed from the definition in the property; every yielded '
           'pointer is classified against the set of legitimate element pointers before it is looked at.  A composite is judged only in the aspects whose '
           'component aspects conform on their own (else counted as masked).  distinct_nontrivial = cases that select at least one item and, for selecting '
           'views (Slice, Filter), not simply all items in the original order; leaves/Ranges with >= 2 items; Zips of >= 2 inputs; Maps / enumerate with >= 1 item.  '
           'phase=history: every container kind is grown to n items and emptied one removal at a time in six enumerated orders (front / back / middle position, '
           'ascending / descending / interleaved value), once more after a refill; after EVERY operation len == forward count == backward count, backward is the exact '
           'reverse of forward, the items are the reference model\'s, get / mem of every yielded item agree and removed items are absent (states = container states '
           'checked, transitions = operations; non-trivial = histories of n >= 11, which cross a Table/Array capacity boundary in both directions).  '
           'phase=assign: for Range, Slice, Zip, Filter, Map assign(a, b) from a heap and from a stack source and copy(b) of a heap and of a stack original must give an independent '
           'iterator: same walks / len as b, nested iteration over both gives len*len right pairs, target-source-target walks agree, after del(source) every item the '
           'target hands out is a live object with the right value, and a target assigned from a stack object inside a helper that returned still walks correctly.  '
           'phase=midop: for every iterable kind, direction and position p the walk is taken to p, one call the kind must refuse is made (index len / -len-1 / far / INT64 limits, '
           'absent key or element, wrong-typed key or value, pop_at / push_at out of range, impossible resize, missing method, mutating a stack Tuple), the exception must be in the '
           'accept set of that failure kind, and the rest of the walk, the held item and len must be exactly those of the undisturbed walk; a successful get in mid-iteration must not '
           'disturb containers and is only recorded for Range / Slice / Zip / Map, whose get shares the cursor with iteration.  '
           'phase=midop part=shrunk: the view is built first and the underlying container changes length afterwards (pop, pop twice, remove the front / the middle item or key, resize(n-1), push, push twice), '
           'so that an index inside the Slice\'s own (stale) window is refused by the container and not by the Slice: Slice, Slice of Slice, Zip of a Slice with a list on either side, Zip of two Slices, Map and Filter over a Slice '
           '(stack macros and new()) over Array / List / heap Tuple / Table / Tree are walked in both directions with one get(target, i) at one position - every position, every target (the view and each Slice inside it), '
           'every i in [-len-k .. len+k], refused and accepted - and once with all those calls at every position; the oracle is differential only: the walk yields exactly the objects and values of the undisturbed walk of the same '
           'view over the same container, the held item reads the same before and after, and the call raises / returns what it does with no iteration in progress (on Zip and Map only refused calls are made: a successful get moves '
           'their iteration on the current tree).  Walks in which the stale window makes the Slice step through the end of the container are not defined by anything and are left out: they are found beforehand on a probe '
           'iterable of the harness that records being handed Terminal or a foreign pointer.  '
           'phase=gcitems: heap and stack Zips over a Map that produces a fresh collector-managed object per element (and a Range / a second Map), 3 / 50 / 300 elements, both '
           'directions; between each cursor step and the use of the pair the dead stack is scrubbed and garbage allocated, then every component must be a live Int with the produced value.  '
           'phase=gcitems part=sole: pipelines of heap views (new(Filter), new(Map), new(Zip) incl. the heap form of enumerate, new(Slice) incl. the heap form of reverse, new(Range) with heap Int bounds; depth 1 to 3) are built '
           'in a helper that returns only the outermost view, so that the source containers (Array / List holding Probe elements, heap Tuple of collector-managed Probes, Table / Tree with Probe keys), the inner views, the '
           'new(Function) objects and the Ranges are held by the view and by nothing else; the dead stack is scrubbed and a collection is made to happen (garbage allocated until a sentinel object has been finalised, or GC_Mark + '
           'GC_Sweep called); then no source element alive when the helper returned may have been finalised (constructor / destructor ledger) and the view walked forwards and backwards (allocating meanwhile) must yield exactly '
           'the items the pipeline selects from the source values, every Probe handed out intact (Table / Tree sources: order-free pipelines, compared as multisets).'),
  'bounds': {
    'quick': ('leaves: Array/List/stack Tuple/heap Tuple/Table/Tree x length 0..6, Tuples holding one object twice (all position pairs, length 2..5); '
              'Range: all four arities over {_, -7..7}^3 (4,096); Slice: arities slice(I) / (I,stop) / (I,start,stop) / (I,start,stop,step) + reverse(I) over '
              '{_, -8..8}^3 x 7 underlying kinds (6 containers + range(n)) x length 0..6 (6,176 x 49 = 302,624); Zip: arity 0..3 over 7 kinds x length 0..3 (22,765) '
              '+ enumerate over 7 kinds x length 0..6; Filter: all 2^n masks, n <= 5, 7 kinds (441); Map: 2 functions (98); compositions outer(inner(leaf)): '
              '25 x 25 views (14 slices incl. reverse, 5 filters, 2 maps, 3 zips incl. zip of two equal-shaped views over leaves of unequal length, enumerate) x 7 kinds x length 0..4; '
              'nesting depth 3 over the same family x 7 kinds x length 0..3; views constructed with new() at length <= 3; '
              'histories: Array/List/heap Tuple/Table/Tree (maps also with keys colliding modulo 5, 11, 55) x n in {5,6,11,12,23,24,54} x 6 removal orders x {once, refill and again} '
              '(420 histories, every state checked; ASan n <= 24); assign/copy: 43 parameter sets x {assign from heap, assign from stack, copy of heap, copy of stack original} x 4 scenarios (walks+len+get, nested, sequential, del-source) (430 cases, also under ASan); '
              'refused call in mid-iteration: 13 kinds (containers length 0..4, 12 Ranges and 9 Slices each as macro and new(), 16 Zips, 6 Filters, 5 Maps) x 2 directions x every position x every '
              'applicable refused call (3,648 cases, also under ASan); '
              'views over a container that changed length afterwards: 5 container kinds x length 4 x 8 changes of length (7 for Table / Tree) x 7 view shapes (8 Slice parameter sets; Slice of Slice x 5 outer parameter sets; Filter x 3 masks) '
              'x {macro, new()} = 7,904 views, both directions, every position x every target x every index in [-len-1 .. len+1] one call per walk + one walk with all calls (431,016 disturbed walks; '
              'ASan: 2 Slice parameter sets, 1,976 views, 121,066 walks); '
              'views as sole holders of their sources: 19 pipelines (8 of depth 1, 10 of depth 2, 1 of depth 3) x Array / List / heap Tuple (all) and Table / Tree (the 7 order-free ones) x 3 / 40 elements x '
              '{threshold-triggered, forced} collection (268 cases, also under ASan), each walked in both directions; '
              'ASan+UBSan (clang): the same grids one size step smaller (length <= 4, Slice/Range args in [-5..5], compositions length <= 3, depth 3 length <= 2)'),
    'thorough': ('as quick with length 0..8 (leaves, Slice, Map, enumerate), Slice args {_, -10..10}^3 (11,156 x 63 = 702,828), Range {_, -9..9}^3 (8,000), Zip children length 0..4 (44,136), '
                 'Filter n <= 8 (3,577); compositions depth 2 with every slice {_, -3..3}^3 as inner and as outer view (523 x 523 views) x 7 kinds x length 0..6; '
                 'depth 3 with 80 slices + filters/maps/zips/enumerate (90^3 views) x 7 kinds x length 0..4; new() views at length <= 4; '
                 'views over a container that changed length afterwards: length 2..7 (ASan 2..6), 16 Slice parameter sets, indices [-len-2 .. len+2], one instance per container kind '
                 '(92,768 views and 8,118,390 disturbed walks; ASan 76,960 views and 5,446,456 walks); views as sole holders of their sources also with 300 elements (402 cases; ASan as quick); '
                 'ASan+UBSan at the quick bounds (length 0..6, Slice {_, -8..8}^3), compositions depth 2 full grid at length <= 3, depth 3 small family at length <= 4'),
  },
  'assumptions': [
    'Range with a negative step walks the window [start,stop) downwards from stop-1 (documentation example "range($I(10), $I(20), $I(-1)) iterates 20 to 10", Range get)',
    'Slice start/stop follow the Python convention implemented by Slice_Arg (omitted = whole, negative counts from the end, everything clamped into [0,len]); '
    'Slice with a negative step and both bounds omitted (reverse, slice(x,_,_,-k)) selects len-1, len-1-k, ... (suite: test_slice_get s6)',
    'Slice with a negative step AND an explicit start or stop is not judged against a definition (documentation example and get() disagree about the window): '
    'only internal consistency is required there - len <= underlying length, get(i) for i < len distinct items of the underlying iterable, forward walk = that '
    'sequence, backward walk = its reverse, no pointer outside the container',
    'step 0 is out of contract for Range and Slice: only termination (Terminal or an exception) inside the container is required',
    'Table order is unspecified and Tree order only monotone: their own validated forward order (each key once) is the reference for everything built on them; '
    'get(i) is not positional for them and not judged',
    'a Tuple holding the same object twice is a separate dimension (leaves only); Terminal inside a Tuple is documented as unsupported and not explored',
    'copy() of every generator / view kind (Range, Slice, Zip, Filter, Map; heap and stack originals) is part of the assign/copy grid; Zips and views in that grid are built over containers '
    '(a Range shared by two views is one cursor by design); a Zip of unequal lengths is not walked backwards there (recorded finding D17)',
    'midop: the calls that used to be switched off (get(-len-1) on Range/Slice, a refused get on a Zip whose earlier input is longer, a successful get(slice, k) during an iteration over the same Slice) are judged since the fixes c296c27, 76e756b, bc5c7a5 (flags rangeneg=1 zipget=1 sliceget=1); a successful get during the '
    'iteration of a Range, Zip or Map moves the shared cursor on the current tree (existing behaviour, recorded in successful_get_moves_iteration, not judged)',
    'midop part=shrunk: what a Slice (which caches the length of its underlying iterable at construction) yields after the container changed length is not defined by the documentation; nothing about it is judged except that '
    'get() calls - refused or accepted - in the middle of a walk leave the walk exactly as it is without them; a walk in which the view hands Terminal back to the container\'s iter_next / iter_prev is left out',
    'gcitems part=sole: a collection is confirmed by the finalisation of a sentinel object allocated just before (not confirmed = noted, never judged); the views are not deleted explicitly, the collector reclaims them later',
    'gcc/clang, glibc and the sanitizer run-times are trusted; element values beyond the small Int universe are represented by it (iteration never looks at values)',
  ],
  'instances': {
    'quick': (
      [I('base', 'base', 'phase=base'), I('range', 'base', 'phase=range')]
      + per_kind('slice', 'base', 'phase=slice')
      + [I('zip', 'base', 'phase=zip'), I('filter', 'base', 'phase=filter'), I('map', 'base', 'phase=map')]
      + per_kind('compose', 'base', 'phase=compose', 'maxn=4')
      + per_kind('compose3', 'base', 'phase=compose', 'depth=3', 'maxn=3')
      + [I('heap', 'base', 'phase=heap', 'maxn=3', 'amax=3', 'rmax=3', 'zmax=2', 'fmax=3')]
      + [I('base-asan', 'asan', 'phase=base'), I('range-asan', 'asan', 'phase=range', 'rmax=5')]
      + per_kind('slice-asan', 'asan', 'phase=slice', 'maxn=4', 'amax=5')
      + [I('zip-asan', 'asan', 'phase=zip', 'zmax=2', 'maxn=4'), I('filter-asan', 'asan', 'phase=filter', 'fmax=4'), I('map-asan', 'asan', 'phase=map', 'maxn=4')]
      + per_kind('compose-asan', 'asan', 'phase=compose', 'maxn=3')
      + per_kind('compose3-asan', 'asan', 'phase=compose', 'depth=3', 'maxn=2')
      + [I('heap-asan', 'asan', 'phase=heap', 'maxn=2', 'amax=2', 'rmax=2', 'zmax=2', 'fmax=2')]
      + [I('history', 'base', 'phase=history'), I('history-asan', 'asan', 'phase=history', 'hmax=24')]
      + [I('assign', 'base', 'phase=assign'), I('assign-asan', 'asan', 'phase=assign')]
      + [I('midop', 'base', 'phase=midop', 'part=classic', 'rangeneg=1', 'zipget=1', 'sliceget=1'), I('midop-asan', 'asan', 'phase=midop', 'part=classic', 'rangeneg=1', 'zipget=1', 'sliceget=1')]
      + [I('midop-shrunk', 'base', 'phase=midop', 'part=shrunk'), I('midop-shrunk-asan', 'asan', 'phase=midop', 'part=shrunk', 'sparams=2')]
      + [I('gcitems', 'base', 'phase=gcitems'), I('gcitems-asan', 'asan', 'phase=gcitems', 'gmax=50')]
    ),
    'thorough': (
      [I('base', 'base', 'phase=base', 'maxn=8'), I('range', 'base', 'phase=range', 'rmax=9')]
      + per_kind('slice', 'base', 'phase=slice', 'maxn=8', 'amax=10')
      + [I('zip', 'base', 'phase=zip', 'zmax=4', 'maxn=8'), I('filter', 'base', 'phase=filter', 'fmax=8'), I('map', 'base', 'phase=map', 'maxn=8')]
      + per_kind('compose', 'base', 'phase=compose', 'maxn=6', 'cset=full')
      + per_kind('compose3', 'base', 'phase=compose', 'depth=3', 'maxn=4', 'cset=wide')
      + [I('heap', 'base', 'phase=heap', 'maxn=4', 'amax=5', 'rmax=5', 'zmax=3', 'fmax=4')]
      + [I('base-asan', 'asan', 'phase=base', 'maxn=8'), I('range-asan', 'asan', 'phase=range')]
      + per_kind('slice-asan', 'asan', 'phase=slice')
      + [I('zip-asan', 'asan', 'phase=zip'), I('filter-asan', 'asan', 'phase=filter'), I('map-asan', 'asan', 'phase=map')]
      + per_kind('compose-asan', 'asan', 'phase=compose', 'maxn=3', 'cset=full')
      + per_kind('compose3-asan', 'asan', 'phase=compose', 'depth=3', 'maxn=4')
      + [I('heap-asan', 'asan', 'phase=heap', 'maxn=3', 'amax=3', 'rmax=3', 'zmax=2', 'fmax=3')]
      + [I('history', 'base', 'phase=history'), I('history-asan', 'asan', 'phase=history')]
      + [I('assign', 'base', 'phase=assign'), I('assign-asan', 'asan', 'phase=assign')]
      + [I('midop', 'base', 'phase=midop', 'part=classic', 'rangeneg=1', 'zipget=1', 'sliceget=1'), I('midop-asan', 'asan', 'phase=midop', 'part=classic', 'rangeneg=1', 'zipget=1', 'sliceget=1')]
      + [I('midop-shrunk-%s' % k, 'base', 'phase=midop', 'part=shrunk', 'kinds=' + k, 'smin=2', 'smax=7', 'sparams=16', 'sidx=2') for k in SHRINKING]
      + [I('midop-shrunk-asan-%s' % k, 'asan', 'phase=midop', 'part=shrunk', 'kinds=' + k, 'smin=2', 'smax=6', 'sparams=16', 'sidx=2') for k in SHRINKING]
      + [I('gcitems', 'base', 'phase=gcitems', 'solemax=300'), I('gcitems-asan', 'asan', 'phase=gcitems', 'gmax=50')]
    ),
  },
}

# iteration after ANY history of the base sequences (h_seq.c prop=C11: forward count == len, i-th item is get(i),
# backward == exact reverse, in every state of the Array / List / Tuple state graphs incl. aliasing operations),
# and the same for Table / Tree inside their own state graphs (h_table.c / h_tree.c check both directions in every state of C02/C03)
import os, sys
sys.path.insert(0, os.path.dirname(os.path.abspath(__file__)))
import _agg
_extra = _agg.collect('C11')
CHECK['instances'] = {t: list(CHECK['instances'][t]) + _extra[t] for t in ('quick', 'thorough')}
CHECK['level'] = CHECK.get('level', 'exploration')
