import os, sys
sys.path.insert(0, os.path.dirname(os.path.abspath(__file__)))
import _agg
CHECK = {'level': 'model_checking', 'rule': 'exhaustive grids: all ordered pairs and all triples over boundary-value grids of Int, Float (NaN excluded), String (bytes a, b, 0x80, 0xFF up to length 3/4), Type (all exported types), a plain 8-byte struct; all pairs/triples of Array/List/Tuple sequences up to length 4/5 over {0,1,2} for every kind x kind; all pairs of reachable small Trees; each compared with the C reference order; antisymmetry, reflexivity, transitivity, cmp==0 only for equal, eq/neq/lt/gt/le/ge == predicates of cmp; plus every grid value as key of a Tree and a Table. distinct_nontrivial = pairs with a boundary feature + strict chains among triples', 'bounds': {'quick': 'Int 45 / Float 40 / String 85 / Type 72 / struct 64 values; sequences length <= 4; trees over 3 keys x 2 values', 'thorough': 'Int 87 / Float 68 / String 341 / struct 256; sequences length <= 5'}, 'assumptions': ['values outside the grids are represented by the boundary values chosen', 'NaN excluded by the property']}
CHECK['id'] = 'C09'
CHECK['instances'] = _agg.collect('C09')
