def T(name, variant, *args, **kw):
    d = dict(name=name, harness='h_string.c', variant=variant, args=list(args))
    if variant == 'asan':
        # UBSan prints (and symbolises, ~70 ms) its report before the crash-probe child can leave;
        # one line per report is enough here, the case is replayable
        d['env'] = {'UBSAN_OPTIONS': 'print_stacktrace=0'}
    d.update(kw)
    return d

CHECK = {
  'id': 'C16',
  'level': 'model_checking',
  'rule': ('explicit-state BFS to fixpoint over histories of assign/concat/append/rem/resize/print_to("%s")/copy/assign-into-fresh on one '
           'real heap String; a state is the content of its buffer (under ASan also the exact size of the allocation); every state is re-entered '
           'by replaying its shortest history on a fresh String; in every state len, c_str, cmp/eq/neq/gt/lt/ge/le against every string of the '
           'universe in both argument orders, hash (fresh stack String and an independent MurmurHash64A), mem(u) for every operand and the NUL '
           'terminator inside the allocation are compared with libc applied to a reference char[]; rem and the operations that can die inside '
           'libc are first tried in a forked child sharing the state so that a crash is one terminal transition, not the end of the exploration; '
           '*-hashop instances ("light" mode): hash(s) is an operation of the alphabet instead of a query of the state oracle and operations run without try blocks '
           '(a try block looks the Exception object up in the thread-local Table, which hashes a String key between any two operations), the state key carries the '
           'length at which hash was last asked and whether the content was edited since, so that hash ; edit ; hash is a path of its own; hash references never go '
           'through String_Hash (independent MurmurHash64A and hash_data over the model bytes); '
           'distinct_nontrivial = states whose content holds some operand at two different (possibly overlapping) offsets; '
           'ladder instances cover every length beyond the BFS bound: for each payload length N and prefix length P one assign / concat / append / '
           'print_to(s,P,"%s",payload)+append / print_to(s,0,...) / resize(N) shrink and grow / rem(payload) from prefix+payload+suffix / rem absent / copy '
           'on a fresh String, each with the same libc oracle (non-trivial there: N or P+N within one of a power of two >= 64)'),
  'bounds': {
    'quick': 'content over {a,b} up to length 5 (gcc) and up to length 4 (ASan+UBSan; 3 with aliased operands); operands = all 7 strings of length <= 2; resize(n) for n <= len+2; print_to at every pos <= len, plus (pct=1) print_to with a literal "%%" alone / leading / trailing / doubled / between two conversions at the end and at 0, and (pct=2, gcc) %$ / show_to of the String "%" into the target (content then over {a,b,%,"}); byte alphabets {C3,AF} up to 5, {80,BF,FF} up to 4, ASan {C3,AF} up to 3; light mode {a,b} up to 4 (gcc) and 3 (ASan); ladder (hash asked right before and right after every operation): payload lengths 0..300 x prefix lengths {0,1,5,127,128} x 13 operations, plus 18 String arguments (15 containing %) shown by %$ / show_to / "<%$>" / "%$%$" at every position of an 8-character and of the empty target (gcc and ASan+UBSan); *-sfx1 instances: the same alphabet with the last operation of the history in the state key (small universes)',
    'thorough': 'content over {a,b,c} up to length 6 with operands of length <= 2 (13), {a,b,c} up to 5 and {a,b} up to 8 with operands of length <= 3; ASan+UBSan: {a,b} up to 6 and {a,b,c} up to 4; byte alphabets {C3,AF} up to 7, {C3,AF,FF,a} up to 5, ASan {C3,AF,80} up to 4; light mode {a,b,c} up to 4, {a,b} up to 6, ASan {a,b} up to 4; ladder: payload lengths 0..1100 (crossing 64, 128, 256, 512, 1024 and neighbours) x the same prefixes and operations; *-sfx1 / *-sfx2 instances: the last one / two operations of the history in the state key',
  },
  'assumptions': [
    'contents over a 2- to 4-letter alphabet represent all contents; besides {a,b,c} the alphabets {0xC3,0xAF} (a UTF-8 sequence and its halves), {0x80,0xBF,0xFF} and mixtures are explored, and the length ladder is repeated with a payload of multi-byte UTF-8 sequences, lone continuation bytes and 0xFE/0xFF: len is the BYTE length libc strlen gives',
    'resize(n > len): the property does not fix the padding; required are NUL termination inside the allocation, room for n characters and the old content as a prefix (this implementation pads with NUL, i.e. the C string is unchanged)',
    'rem of an absent substring: the string must be unchanged; an exception is optional but must be ValueError or KeyError',
    'aliased arguments (the operand IS the target: assign(s,s), concat(s,s), rem(s,s)) are the limiting case of "equal in value to the target"; they are explored by separate *-alias instances (alias=1) so that they can be dropped if aliasing is ruled out of scope',
    'detection of anything String_Hash might remember depends on the allocator returning the same block (in-place realloc in the gcc build); the verdict itself never depends on addresses',
    'gcc/clang, glibc (strcmp/strstr/strlen/memmove/malloc_usable_size) and the sanitizer run-times are trusted',
  ],
  'instances': {
    'quick': [
      # history suffix in the state key (lib/vf_bfs.h suffix=K): the last K operations keep histories apart that end in one visible state
      T('ab3-sfx1', 'base', 'alpha=2', 'maxlen=3', 'suffix=1'),
      T('ab5', 'base', 'alpha=2', 'maxlen=5', 'pct=2'),
      T('ab4-asan', 'asan', 'alpha=2', 'maxlen=4'),
      T('ab3-pct-asan', 'asan', 'alpha=2', 'maxlen=3', 'pct=2'),
      # the argument IS the target: assign(s,s), concat(s,s), rem(s,s) added to the alphabet
      T('ab3-alias-asan', 'asan', 'alpha=2', 'maxlen=3', 'alias=1'),
      T('ab4-alias', 'base', 'alpha=2', 'maxlen=4', 'alias=1'),
      # every length from empty upwards: one operation per fresh String, payload lengths 0..300 x prefix lengths {0,1,5,127,128}
      # "light" mode: hash(s) is an operation of the alphabet (not a query of the state oracle); the state key carries the length at which it was last asked
      T('ab4-hashop', 'base', 'alpha=2', 'maxlen=4', 'hashop=1'),
      T('ab3-hashop-asan', 'asan', 'alpha=2', 'maxlen=3', 'hashop=1'),
      # alphabets of high bytes: the UTF-8 sequence C3 AF and its halves; lone continuation bytes and 0xFF
      T('c3af-5', 'base', 'bytes=c3af', 'maxlen=5'),
      T('80bfff-4', 'base', 'bytes=80bfff', 'maxlen=4'),
      T('c3af-3-asan', 'asan', 'bytes=c3af', 'maxlen=3'),
      T('ladder-hi', 'base', 'mode=ladder', 'maxn=300', 'filler=hi', 'showargs=0'),
      T('ladder-hi-asan', 'asan', 'mode=ladder', 'maxn=300', 'filler=hi', 'showargs=0'),
      T('ladder', 'base', 'mode=ladder', 'maxn=300'),
      T('ladder-asan', 'asan', 'mode=ladder', 'maxn=300'),
    ],
    'thorough': [
      # history suffix in the state key (lib/vf_bfs.h suffix=K): the last K operations keep histories apart that end in one visible state
      T('ab4-sfx1', 'base', 'alpha=2', 'maxlen=4', 'suffix=1'), T('ab3-sfx2', 'base', 'alpha=2', 'maxlen=3', 'suffix=2'),
      T('abc6', 'base', 'alpha=3', 'maxlen=6'),
      T('abc5-u3', 'base', 'alpha=3', 'maxlen=5', 'ulen=3'),
      T('ab8-u3', 'base', 'alpha=2', 'maxlen=8', 'ulen=3'),
      T('ab6-asan', 'asan', 'alpha=2', 'maxlen=6'),
      T('abc4-asan', 'asan', 'alpha=3', 'maxlen=4'),
      T('ab5-alias-asan', 'asan', 'alpha=2', 'maxlen=5', 'alias=1'),
      T('abc5-alias', 'base', 'alpha=3', 'maxlen=5', 'alias=1'),
      T('abc5-pct', 'base', 'alpha=3', 'maxlen=5', 'pct=2'),
      T('ab5-pct-asan', 'asan', 'alpha=2', 'maxlen=5', 'pct=1'),
      T('abc4-hashop', 'base', 'alpha=3', 'maxlen=4', 'hashop=1'),
      T('ab6-hashop', 'base', 'alpha=2', 'maxlen=6', 'hashop=1'),
      T('ab4-hashop-asan', 'asan', 'alpha=2', 'maxlen=4', 'hashop=1'),
      T('c3af-7', 'base', 'bytes=c3af', 'maxlen=7'),
      T('c3afff61-5', 'base', 'bytes=c3afff61', 'maxlen=5'),
      T('c3af80-4-asan', 'asan', 'bytes=c3af80', 'maxlen=4'),
      T('ladder-hi', 'base', 'mode=ladder', 'maxn=1100', 'filler=hi', 'showargs=0'),
      T('ladder-hi-asan', 'asan', 'mode=ladder', 'maxn=1100', 'filler=hi', 'showargs=0'),
      T('ladder', 'base', 'mode=ladder', 'maxn=1100'),
      T('ladder-asan', 'asan', 'mode=ladder', 'maxn=1100'),
    ],
  },
}
