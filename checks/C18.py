import os, struct

CONFIGS_QUICK = ['cfg-gcc-O0', 'cfg-gcc-O2', 'cfg-clang-O2', 'cfg-ndebug-O2', 'cfg-nocache-O2', 'cfg-ngc-O2', 'cfg-all-O2', 'cfg-all-O0']
CONFIGS_THOROUGH = ['cfg-gcc-O0', 'cfg-gcc-O2', 'cfg-gcc-O3', 'cfg-clang-O2',
                    'cfg-ndebug-O0', 'cfg-ndebug-O2', 'cfg-ndebug-O3', 'cfg-ndebug-clang',
                    'cfg-nocache-O0', 'cfg-nocache-O2', 'cfg-nocache-clang',
                    'cfg-ngc-O0', 'cfg-ngc-O2', 'cfg-ngc-clang',
                    'cfg-all-O0', 'cfg-all-O2', 'cfg-all-O3', 'cfg-all-clang']

def inst(variant, extra):
    return dict(name=variant, harness='h_config.c', variant=variant, args=['domain=all', 'extra=%d' % extra, 'digests=digests-%s.bin' % variant])

def post(results, outdir):
    """compare the per-program transcript digests of every configuration with those of the first one"""
    viols, cov = [], {}
    ref, refname = None, None
    compared = 0
    for r in results:
        v = r['inst']['variant']
        p = os.path.join(outdir, 'digests-%s.bin' % v)
        if not os.path.exists(p):
            continue
        data = open(p, 'rb').read()
        d = struct.unpack('<%dQ' % (len(data) // 8), data)
        if ref is None:
            ref, refname, refinst = d, v, r['inst']
            continue
        compared += 1
        if len(d) != len(ref):
            viols.append(dict(label='config/%s-vs-%s/program-count-differs' % (refname, v), case='count', harness='h_config.c', variant=v, args=r['inst']['args'],
                              detail='%d programs under %s, %d under %s' % (len(ref), refname, len(d), v)))
            continue
        for i, (a, b) in enumerate(zip(ref, d)):
            if a != b:
                # find the domain of program i from the notes of the reference result
                dom, off = 'program', i
                for n in (r['res'] or {}).get('notes', []):
                    # "<dom>: ... (digests A..B)"
                    if '(digests ' in n:
                        name = n.split(':')[0]
                        lo, hi = n.split('(digests ')[1].rstrip(')').split('..')
                        if int(lo) <= i < int(hi):
                            dom, off = name, i - int(lo)
                switches = v.replace('cfg-', '')
                viols.append(dict(label='config/%s/%s/transcript-differs-from-%s' % (switches, dom, refname.replace('cfg-', '')), case='%s:%d' % (dom, off), harness='h_config.c', variant=v,
                                  args=r['inst']['args'], detail='in-contract program %s:%d computes different observable results under %s than under %s (first of possibly many)' % (dom, off, v, refname)))
                break
    cov['disagreements_checked'] = compared * (len(ref) if ref else 0)
    cov['programs'] = len([x for x in (ref or []) if x != 0])
    cov['configurations'] = [r['inst']['variant'] for r in results]
    return viols, cov

CHECK = {
  'id': 'C18',
  'level': 'translation_validation',
  'technique': 'bounded exhaustive enumeration of in-contract programs executed under every build configuration; per-program transcript digests compared across configurations',
  'rule': ('every operation sequence up to a depth over a small alphabet per domain (Array, List, Table, Tree, String; 3^5 try/throw/catch programs; 6^4 iteration-view programs; '
           'formatting and value grids) whose reference model says it stays in contract is executed against libCello built in each configuration; every observable (lengths, elements, '
           'iteration sequences, membership, hashes, comparison signs, formatted text, positions, handler traces, dispatch answers) goes into a per-program digest; digests of all '
           'configurations are compared program by program with the default gcc -O0 build. programs = in-contract programs; disagreements_checked = program x configuration comparisons'),
  'bounds': {
    'quick': 'depth 5 (13-14 operations per container domain); configurations: default gcc -O0/-O2, clang -O2, NDEBUG, cache disabled, NGC, all three at -O2 and -O0',
    'thorough': 'depth 6; 18 configurations: {default, NDEBUG, no cache, NGC, all three} x {gcc -O0, -O2, -O3 where listed, clang -O2}',
  },
  'assumptions': [
    '"any optimisation level": the enumerated levels and two compilers',
    'programs delete what they allocate and take no error path, so they are valid in every configuration; nothing address-dependent enters a transcript',
  ],
  'instances': {
    'quick': [inst(v, 1) for v in CONFIGS_QUICK],
    'thorough': [inst(v, 2) for v in CONFIGS_THOROUGH],
  },
  'post': post,
}
