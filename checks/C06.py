def G(name, variant, *args, **kw):
    d = dict(name=name, harness='h_gc.c', variant=variant, args=list(args))
    d.update(kw)
    return d

CHECK = {
  'id': 'C06',
  'level': 'model_checking',
  'rule': ('explicit-state BFS to fixpoint over histories of new / new_root / new_raw / del / del_root / del_raw / link / own / '
           'forced collection / fill-to-threshold on one real collector (fresh collector per execution, torn down at its end); objects live at '
           'harness-chosen arena addresses whose registry home slots collide modulo 5, 11 and 23 (two of them in the last slot: wrap-around); '
           'a state is the concrete registry layout plus the shadow ledger; distinct_nontrivial = states with at least one displaced registry entry; '
           'a second address layout (residues=B) puts two homes in the second-to-last slot and one in the last; rootsleft=1 instances end the program without deleting its root objects (leaked by design) and still require every other object to be finalised exactly once; ladders take the registry through sizes 53..389 with colliding strides; "temps=K" instances: every destructor allocates K collector-managed temporaries and deletes them before returning, in the state graph, the ownership graphs and the exit programs'),
  'bounds': {
    'quick': 'teardown at worker-thread exit and at program exit (atexit) after every program of length <= 5 over 6 operations; ownership graphs (two owning pointers per object, cycles and shared ownership inside a cycle included) on 3 objects x {forced collection, teardown, explicit del of each} x every address order; 4 arena addresses to fixpoint (gcc), 3 under ASan; ladders to 250 objects x 6 strides x 3 delete orders x 3 root patterns; *-sfx1 instances: the same alphabet with the last operation of the history in the state key (small universes)',
    'thorough': 'ownership graphs on 3 and 4 objects; 5 arena addresses (gcc; global deadline 14 min, evidence says whether the fixpoint was reached), 4 under ASan to fixpoint; ladders to 300 objects; *-sfx1 / *-sfx2 instances: the last one / two operations of the history in the state key',
  },
  'assumptions': [
    'reclamation is observed through the destructor ledger, never predicted (conservative collection may retain)',
    'white-box view obtained by compiling the repository\'s own GC.c into the harness; a fresh collector per execution is created exactly as Thread_Init_Run does',
    'gcc/clang, glibc and the sanitizer run-times are trusted',
  ],
  'instances': {
    'quick': [
      # history suffix in the state key (lib/vf_bfs.h suffix=K): the last K operations keep histories apart that end in one visible state
      G('addr3-sfx1', 'base', 'naddr=3', 'prop=C06', 'suffix=1'), G('addr4-sfx1-d6', 'base', 'naddr=4', 'prop=C06', 'suffix=1', 'depth=6'),
      G('addr4', 'base', 'naddr=4', 'prop=C06', 'depth=9'),
      G('addr5-d8', 'base', 'naddr=5', 'prop=C06', 'depth=8'),
      G('addr3', 'base', 'naddr=3', 'prop=C06'),
      G('addr3-asan', 'asan', 'naddr=3', 'prop=C06'),
      G('own3', 'base', 'mode=own', 'n=3'), G('own3-asan', 'asan', 'mode=own', 'n=3'), G('exit5', 'base', 'mode=exit', 'depth=5'), G('exit4-asan', 'asan', 'mode=exit', 'depth=4'),
      # second address layout (cluster starting before the end of the table and wrapping around it); programs that end without deleting their roots
      G('addr3-B-rootsleft', 'base', 'naddr=3', 'prop=C06', 'residues=B', 'rootsleft=1'), G('addr4-B-d8', 'base', 'naddr=4', 'prop=C06', 'residues=B', 'depth=8'),
      G('addr4-B-rootsleft-d8', 'base', 'naddr=4', 'prop=C06', 'residues=B', 'rootsleft=1', 'depth=8'), G('addr3-rootsleft-asan', 'asan', 'naddr=3', 'prop=C06', 'rootsleft=1'),
      # a destructor allocates a root at the address of an object released earlier (single ownership only)
      # destructor-less objects (type Leaf: no constructor, no destructor) among the cells, with and without destructors that take over released addresses
      G('addr3-leafy-reuse', 'base', 'naddr=3', 'prop=C06', 'reuse=1', 'leafy=1'), G('addr3-leafy', 'base', 'naddr=3', 'prop=C06', 'leafy=1'), G('addr4-leafy-reuse-d7', 'base', 'naddr=4', 'prop=C06', 'reuse=1', 'leafy=1', 'depth=7'),
      G('own3-reuse', 'base', 'mode=own', 'n=3', 'reuse=1'), G('own4-reuse', 'base', 'mode=own', 'n=4', 'reuse=1'), G('addr3-reuse', 'base', 'naddr=3', 'prop=C06', 'reuse=1'), G('addr4-reuse-d8', 'base', 'naddr=4', 'prop=C06', 'reuse=1', 'depth=8'), G('own3-reuse-asan', 'asan', 'mode=own', 'n=3', 'reuse=1'),
      # a destructor appends a new managed record under a root (highest arena address) and keeps it
      G('addr3-keep', 'base', 'naddr=3', 'prop=C06', 'keep=1'), G('addr4-keep-d8', 'base', 'naddr=4', 'prop=C06', 'keep=1', 'depth=8'),
      # destructors that allocate collector-managed temporaries and delete them again (1, 2 or 3 each)
      G('addr3-temps2', 'base', 'naddr=3', 'prop=C06', 'temps=2'), G('addr3-temps1-asan', 'asan', 'naddr=3', 'prop=C06', 'temps=1'),
      G('own3-temps2', 'base', 'mode=own', 'n=3', 'temps=2'), G('own3-temps3-asan', 'asan', 'mode=own', 'n=3', 'temps=3'), G('exit4-temps2', 'base', 'mode=exit', 'depth=4', 'temps=2'),
      # destructors that raise and handle an exception of their own, wherever they are run from
      G('exit4-dtortry', 'base', 'mode=exit', 'depth=4', 'dtortry=1'), G('addr3-dtortry', 'base', 'naddr=3', 'prop=C06', 'dtortry=1'), G('own3-dtortry-asan', 'asan', 'mode=own', 'n=3', 'dtortry=1'),
    ],
    'thorough': [
      # history suffix in the state key (lib/vf_bfs.h suffix=K): the last K operations keep histories apart that end in one visible state
      G('addr4-sfx1-d11', 'base', 'naddr=4', 'prop=C06', 'suffix=1', 'depth=11'), G('addr3-sfx2-d8', 'base', 'naddr=3', 'prop=C06', 'suffix=2', 'depth=8'),
      G('addr5', 'base', 'naddr=5', 'prop=C06', 'deadline=840'),
      G('addr4', 'base', 'naddr=4', 'prop=C06'),
      G('addr4-asan', 'asan', 'naddr=4', 'prop=C06'),
      G('own3', 'base', 'mode=own', 'n=3'), G('own4', 'base', 'mode=own', 'n=4'), G('own4-asan', 'asan', 'mode=own', 'n=4'), G('exit6', 'base', 'mode=exit', 'depth=6'), G('exit5-asan', 'asan', 'mode=exit', 'depth=5'),
      G('addr4-B', 'base', 'naddr=4', 'prop=C06', 'residues=B'), G('addr4-B-rootsleft', 'base', 'naddr=4', 'prop=C06', 'residues=B', 'rootsleft=1'), G('addr5-B-rootsleft', 'base', 'naddr=5', 'prop=C06', 'residues=B', 'rootsleft=1', 'deadline=600'), G('addr4-rootsleft-asan', 'asan', 'naddr=4', 'prop=C06', 'rootsleft=1'),
      G('addr4-leafy-reuse', 'base', 'naddr=4', 'prop=C06', 'reuse=1', 'leafy=1'), G('addr4-leafy', 'base', 'naddr=4', 'prop=C06', 'leafy=1'), G('addr3-leafy-reuse-asan', 'asan', 'naddr=3', 'prop=C06', 'reuse=1', 'leafy=1'),
      G('own4-reuse', 'base', 'mode=own', 'n=4', 'reuse=1'), G('addr4-reuse', 'base', 'naddr=4', 'prop=C06', 'reuse=1'), G('addr4-B-reuse', 'base', 'naddr=4', 'prop=C06', 'reuse=1', 'residues=B'), G('own4-reuse-asan', 'asan', 'mode=own', 'n=4', 'reuse=1'),
      G('addr4-keep', 'base', 'naddr=4', 'prop=C06', 'keep=1'), G('addr4-B-keep', 'base', 'naddr=4', 'prop=C06', 'keep=1', 'residues=B'),
      G('addr4-temps2', 'base', 'naddr=4', 'prop=C06', 'temps=2'), G('addr4-temps1', 'base', 'naddr=4', 'prop=C06', 'temps=1'), G('addr3-temps3-asan', 'asan', 'naddr=3', 'prop=C06', 'temps=3'),
      G('own4-temps2', 'base', 'mode=own', 'n=4', 'temps=2'), G('own3-temps3-asan', 'asan', 'mode=own', 'n=3', 'temps=3'), G('exit5-temps2', 'base', 'mode=exit', 'depth=5', 'temps=2'), G('exit5-dtortry', 'base', 'mode=exit', 'depth=5', 'dtortry=1'), G('exit4-dtortry-asan', 'asan', 'mode=exit', 'depth=4', 'dtortry=1'), G('addr4-dtortry', 'base', 'naddr=4', 'prop=C06', 'dtortry=1'), G('own4-dtortry', 'base', 'mode=own', 'n=4', 'dtortry=1'), G('exit5-temps1', 'base', 'mode=exit', 'depth=5', 'temps=1'),
    ],
  },
}
