# C08 - type-class dispatch returns exactly what the type declares.
#
# SEQUENTIAL part (harness/h_type.c): instances are generated below.
# CONCURRENT part (controlled scheduler): append instance dicts to CONCURRENT['quick'] /
# CONCURRENT['thorough'] at the bottom; they are merged into CHECK['instances'].

def T(name, variant, *args, **kw):
    d = dict(name=name, harness='h_type.c', variant=variant, args=list(args))
    d.update(kw)
    return d

def shards(prefix, variant, n, *args, **kw):
    # types are dealt to shards by index modulo n: the shards of one family are disjoint
    return [T('%s-%d' % (prefix, i), variant, *(list(args) + ['shard=%d/%d' % (i, n)]), **kw) for i in range(n)]

ALL_EPS = 'eps=0,1,2,3,4,5,6,7,8,9,10,11,12'     # 8 public entry points + 4 on the type object itself + type_of
PUB_EPS = 'eps=0,1,2,3,4,5,6,7'                   # the 8 public entry points
NOCOUNT = 'count=0'   # instance re-explores a space owned by another instance (shallower depth, sanitizer build):
                      # its states/nontrivial are reported as *_local and add nothing to the summed totals

# ASan keeps freed blocks in quarantine, so a deleted type's block would never be handed to the next new(Type);
# with the quarantine off its allocator reuses the block at once (the harness records how often that happened)
NOQUARANTINE = {'ASAN_OPTIONS': 'quarantine_size_mb=0:thread_local_quarantine_size_kb=0'}

# recycled CLASS objects (a run-time class deleted, a differently named class allocated at its address): answered from the
# address memo of the dead class on the tree without proposed/C08-recycled-class-memo.patch - switch on once it is applied
RECYCLED_CLASSES = ['classes=1']   # judged since fix 963e8ad

SEQUENTIAL = {
  'quick': (
    [T('matrix', 'base', 'mode=matrix', NOCOUNT),
     T('cast', 'base', 'mode=cast')]
    + shards('pairs', 'base', 4, 'mode=hist', 'depth=2', ALL_EPS)
    + shards('long', 'base', 2, 'mode=long', 'rotstep=1', NOCOUNT)
    + [T('rt-small', 'base', 'mode=rt', 'ns=0,1,2,3,4', 'pool=8', 'variants=2'),
       T('rt-31-255', 'base', 'mode=rt', 'ns=31,255', 'variants=2'),
       T('rt-256', 'base', 'mode=rt', 'ns=256', 'variants=2'),
       T('rt-recycle', 'base', 'mode=recycle', *RECYCLED_CLASSES),
       T('rt-prefix', 'base', 'mode=prefix'),
       T('names', 'base', 'mode=names'),
       # the same explorer one size step smaller under ASan+UBSan
       T('matrix-asan', 'asan', 'mode=matrix', NOCOUNT),
       T('cast-asan', 'asan', 'mode=cast', NOCOUNT)]
    + shards('pairs-asan', 'asan', 2, 'mode=hist', 'depth=2', 'eps=0,2,5,7,8,12', NOCOUNT)
    + [T('long-asan', 'asan', 'mode=long', 'rotstep=7', NOCOUNT)]
    + [T('rt-small-asan', 'asan', 'mode=rt', 'ns=0,1,2,3,4,31', 'pool=7', 'variants=2', NOCOUNT),
       T('rt-256-asan', 'asan', 'mode=rt', 'ns=255,256', 'variants=1', 'stride=16', NOCOUNT),
       T('rt-recycle-asan', 'asan', 'mode=recycle', NOCOUNT, *RECYCLED_CLASSES, env=NOQUARANTINE),
       T('rt-prefix-asan', 'asan', 'mode=prefix', NOCOUNT),
       T('names-asan', 'asan', 'mode=names', NOCOUNT)]
  ),
  'thorough': (
    [T('matrix', 'base', 'mode=matrix', NOCOUNT),
     T('cast', 'base', 'mode=cast')]
    + shards('pairs', 'base', 4, 'mode=hist', 'depth=2', ALL_EPS, NOCOUNT)
    + shards('long', 'base', 4, 'mode=long', 'rotstep=1', NOCOUNT)
    + shards('triples', 'base', 36, 'mode=hist', 'depth=3', PUB_EPS)
    + [T('rt-small', 'base', 'mode=rt', 'ns=0,1,2,3,4', 'pool=10', 'variants=3'),
       T('rt-mid', 'base', 'mode=rt', 'ns=5,8,17,18,19,31,32,64', 'kinds=2', 'variants=3'),
       T('rt-128-255', 'base', 'mode=rt', 'ns=128,255', 'kinds=2', 'variants=3'),
       T('rt-256', 'base', 'mode=rt', 'ns=256', 'kinds=2', 'variants=3'),
       T('rt-recycle', 'base', 'mode=recycle', 'full=1', *RECYCLED_CLASSES),
       T('rt-prefix', 'base', 'mode=prefix'),
       T('names', 'base', 'mode=names', 'full=1'),
       T('matrix-asan', 'asan', 'mode=matrix', NOCOUNT),
       T('cast-asan', 'asan', 'mode=cast', NOCOUNT)]
    + shards('pairs-asan', 'asan', 8, 'mode=hist', 'depth=2', ALL_EPS, NOCOUNT)
    + shards('long-asan', 'asan', 4, 'mode=long', 'rotstep=1', NOCOUNT)
    + shards('triples-asan', 'asan', 12, 'mode=hist', 'depth=3', 'eps=0,2,7', NOCOUNT)
    + [T('rt-small-asan', 'asan', 'mode=rt', 'ns=0,1,2,3,4', 'pool=8', 'variants=2', NOCOUNT),
       T('rt-31-255-asan', 'asan', 'mode=rt', 'ns=31,255', 'variants=2', NOCOUNT),
       T('rt-256-asan', 'asan', 'mode=rt', 'ns=256', 'variants=2', NOCOUNT),
       T('rt-recycle-asan', 'asan', 'mode=recycle', 'full=1', NOCOUNT, *RECYCLED_CLASSES, env=NOQUARANTINE),
       T('rt-prefix-asan', 'asan', 'mode=prefix', NOCOUNT),
       T('names-asan', 'asan', 'mode=names', 'full=1', NOCOUNT)]
  ),
}

# --- concurrent part: filled in by the scheduler work (same dict format) -------------------
WRAPF = '-Wl,--wrap=pthread_create,--wrap=pthread_join,--wrap=pthread_mutex_lock,--wrap=pthread_mutex_trylock,--wrap=pthread_mutex_unlock'
def TC(name, *args):
    return dict(name=name, harness='h_typeconc.c', variant='hooks', args=list(args), cflags=WRAPF)

# controlled scheduler (lib/vf_sched.h): first lookups on a cold type from 2-3 threads, scheduling points at the four Type.c hook
# sites (cache-slot read, cache-slot write, class memo write, lazy header type); every interleaving within the preemption bound
def pairs(prefix, bound, groups=('chl', 'sgi', 'pPm', 'xto')):
    return [TC('%s-%s' % (prefix, g), 'mode=all', 'depth=1', 'bound=%d' % bound, 'first=' + g) for g in groups]

CONCURRENT = {
  'quick': pairs('conc-pairs-b2', 2) + [
    TC('conc-2x2-b2-c', 'mode=all', 'depth=2', 'alpha=chg', 'bound=2', 'first=c'),   # every pair of two-lookup plans over 3 ops
    TC('conc-2x2-b2-h', 'mode=all', 'depth=2', 'alpha=chg', 'bound=2', 'first=h'),
    TC('conc-2x2-b2-g', 'mode=all', 'depth=2', 'alpha=chg', 'bound=2', 'first=g'),
    TC('conc-3threads', 'ops=ch/cl/hi', 'bound=2'),
  ],
  'thorough': pairs('conc-pairs-b4', 4, ('c', 'h', 'l', 's', 'g', 'i', 'p', 'P', 'm', 'x', 't', 'o')) + [
    TC('conc-2x2-b3-c', 'mode=all', 'depth=2', 'alpha=chlgimx', 'bound=3', 'first=c'),
    TC('conc-2x2-b3-h', 'mode=all', 'depth=2', 'alpha=chlgimx', 'bound=3', 'first=h'),
    TC('conc-2x2-b3-l', 'mode=all', 'depth=2', 'alpha=chlgimx', 'bound=3', 'first=l'),
    TC('conc-2x2-b3-g', 'mode=all', 'depth=2', 'alpha=chlgimx', 'bound=3', 'first=g'),
    TC('conc-2x2-b3-i', 'mode=all', 'depth=2', 'alpha=chlgimx', 'bound=3', 'first=i'),
    TC('conc-2x2-b3-m', 'mode=all', 'depth=2', 'alpha=chlgimx', 'bound=3', 'first=m'),
    TC('conc-2x2-b3-x', 'mode=all', 'depth=2', 'alpha=chlgimx', 'bound=3', 'first=x'),
    TC('conc-3threads-a', 'ops=ch/cl/hi', 'bound=3'),
    TC('conc-3threads-b', 'ops=cm/gx/ot', 'bound=3'),
  ],
}

CHECK = {
  'id': 'C08',
  'level': 'model_checking',
  'rule': ('state = (type object, memo configuration): which of the 18 cache slots, which per-triple class memos and whether the '
           'lazy header type of the type object are filled; transition = one lookup (class x entry point x member) executed on the '
           'real library and compared with an independent scan of the raw type record by class NAME (for run-time types: with the '
           'instance list given to new(Type, ...)). Every history starts from the COLD type: the bytes of all 71 exported type '
           'records are snapshotted by a constructor before main and copied back. matrix = every type x class x entry point x '
           'member as the history <cold> lookup; same lookup. pairs/triples = every ordered pair/triple over the alphabet '
           '(entry point x class), simplest first. long = 30 lookups of one entry point over a rotated class order, then a '
           'verification sweep. rt = run-time types built with new(Type, name, size, instances...) for each n, all permutations of '
           'all n-subsets of a class pool for n <= 4, all rotations of an interleaved (cached built-in class / run-time class) list '
           'above, every class of the universe looked up through all eight entry points starting cold, then name/size/new/'
           'type_of/method()/cast/del against the declared list with call counters behind every instance. recycle = for every '
           'class X (30 built-in, 2 run-time) a type T1 declaring X is created, X looked up through each entry point, T1 deleted '
           '(del_raw / del_root) and at once a type T2 with the same number of instances created that declares X with a DIFFERENT '
           'instance or not at all; the FIRST lookup on T2 is X (each entry point, first and last member), then a sweep over 38 '
           'classes; a case counts as executed only if T2 really received the address T1 had (recycle_same_address in the '
           'evidence; the ASan instance runs with the quarantine off for that reason); interleave = lookups of X alternating between '
           'three live types that declare X with instance I1, with I2, and not at all; with classes=1 also recycled CLASS objects: a '
           'run-time class named A is looked up on a type declaring "A" (run-time [A], [K10, A], static [Print, Pri], [Pri, Print]), '
           'deleted, and a class with another name (undeclared, or the other declared one) created on the same block; lookups '
           'through it (8 x 8 entry points, 1344 cases) must be answered by its name. prefix = five user classes whose names are '
           'prefixes of one another (K1/K10/K100, Pri/Print): run-time types over every non-empty subset in every declaration '
           'order (325) x every order of first lookups of the five classes (120) with rotating entry points, then a sweep; and '
           'seven statically declared types over the same classes (longer before shorter, shorter before longer, only one of '
           'them) x 120 lookup orders x 8 starting entry points, each from the cold record; and six classes with long names (two '
           '40-byte names differing at byte 33, a 64-byte name that is a prefix of a 100-byte one, two 255-byte names differing '
           'in the last byte): every subset in every declaration order (1956 types) x 12 lookup orders; and two LIVE class objects '
           'of one name (the static class and a run-time class object called "Pri" / "K10") asking in either order on 10 types '
           '(5120 histories). Run-time class objects record size 0, one member or the full struct. '
           'names = classes whose NAME collides with what a type record carries besides its instances - the two entries '
           '{"__Name", name string} and {"__Size", size} that precede the instance list have the shape of an instance entry: 18 '
           'class objects called "__Name", "__Size" (a run-time and a statically declared class object each), "__", "__Type", '
           '"__Cache", "__Parent", "__Methods", "__Header", "__name", "__size", "__Nam", "__Name_", "__Siz", "__Size_", "" (the '
           'empty name) and "_", plus per type the type object ITSELF asked as a class and a run-time class called like the type; '
           'asked of the 71 exported types (cold image), 13 statically declared user types (among them the class objects __Name / '
           '__Size and three types that DECLARE instances of __Name / __Size) and 19 shapes of run-time types x {new_raw, new_root} '
           '(no instances; ordinary instances; instances of the colliding names first / in the middle / last of up to 256; types '
           'themselves CALLED "__Name", "__Size", "__", ""; a type declaring a class of its own name; sizes 0, 1, 8, 16, 24, 40, 512). '
           'Oracle as everywhere: a type answers for a class iff it declares an instance under exactly that name (independent walk '
           'that starts AFTER the two entries; for run-time types the list given to new), else none / false / ClassError. Histories '
           'from the cold record: cell = lookup; same lookup and lookup; next entry point, for each of 12 entry points x member; mix '
           '= the colliding class alternating with a real class (a rotating class of Cello.h, and the first class the type declares) '
           'in both orders over entry-point pairs; two = every ordered pair of the 20 colliding classes alternating; sweep = all 20 '
           'one after the other (8 starting entry points x 2 directions), then every class of Cello.h and every colliding class '
           'again, then c_str(T) and size(T) are still what the type was made with. cast (besides the same-name block: 8 type objects - Int, String, Array, run-time types of those names, two live run-time '
           'types both called RtSame - all 64 pairs, and Table/Tree of Int offered an object of the run-time "Int") = all ordered '
           'pairs of exported types, for a harness object of the type and for the type object itself. '
           'states = distinct (type, configuration) pairs reached (interned) in the deepest history family of the tier (pairs in '
           'quick, triples in thorough; shards partition the types) plus, for each run-time type object, 1 + the number of '
           'lookups that filled a memo (configurations only grow there). Instances that re-explore those spaces (matrix, long '
           'histories, shallower depths, every ASan+UBSan instance) report states_local/nontrivial_local in their summary and '
           'add nothing to the totals. '
           'distinct_nontrivial = distinct (configuration before, class, entry point, member) lookups that filled a cold memo '
           '(configuration changed) or asked for a class/member the type does not provide (must answer none / raise ClassError); '
           'for cast: pairs with different types (must raise ValueError).'),
  'bounds': {
    'quick': ('71 exported type objects x 30 classes x 65 members x 13 entry points (8 public + 4 with the type object as the '
              'object + type_of): full matrix cold+warm; all ordered pairs over the 361-operation alphabet per type from cold; '
              'long histories (12 entry points x 30 rotations x 2 directions per type, 181 lookups each); run-time types '
              'n in {0,1,2,3,4,31,255,256}: all permutations of all n-subsets of an 8-class pool x 2 member variants for n<=4, '
              'all rotations x 2 variants above, 290-class lookup universe; recycled type blocks: 32 classes x n in {1,3} x 8 x 8 '
              'entry points x {other instance, class absent} x members (10112 cases; thorough x {del_raw, del_root}) + 316 '
              'alternating-type cases; prefix-named and long-named classes: 39000 + 23472 run-time and 6720 static-type histories; '
              'class names colliding with record entries: 122 type objects x 20 classes x (36 cell + <= 64 mix + 160 two-name) '
              'histories + 16 sweeps each (603832 histories; entry-point pairs: 2 per first entry point in mix, 1 in two-name); '
              'cast 71x71x2; ASan+UBSan: matrix, cast, pairs over '
              'a 151-operation alphabet, long histories every 7th rotation, run-time n<=31 full and 255/256 every 16th rotation'),
    'thorough': ('as quick plus all ordered TRIPLES over the 240-operation alphabet (8 public entry points x 30 classes) per '
                 'type from cold (9.8e8 histories); run-time types n in {0..5,8,17,18,19,31,32,64,128,255,256}, '
                 '10-class pool, 3 member variants, forward and reversed base lists; colliding class names with ALL 64 entry-point '
                 'pairs in the mix and two-name histories (3.7e6 histories, also under ASan+UBSan); ASan+UBSan: matrix, cast, all pairs over '
                 'the full alphabet, all long histories, triples over a 90-operation alphabet, the quick run-time bound'),
  },
  'assumptions': [
    'sequential part only: lookups from one thread; first lookups racing from several threads are the concurrent instances',
    'the oracle trusts the record layout that Cello.h defines (header, CELLO_CACHE_NUM slots, "__Name", "__Size", {cls,name,inst} '
    'triples ending in a NULL name) and strcmp; it never reads a cache slot or a cls memo',
    'the cold state is the byte image of each static type record taken by a constructor before main (audited: no memo field set)',
    'objects of each type are harness buffers initialised with header_init only (nothing is constructed); members of built-in '
    'instances are never invoked, only run-time instances (counted stubs) are',
    'histories longer than 3 lookups are covered by the long-history family and the run-time sweeps, not by all sequences',
    'run-time classes have distinct names except where the rule says otherwise (alias and names families: two live class objects of '
    'one name); a type declaring the same class NAME twice is not explored',
    'the class/member table is written by hand and checked against sizeof/offsetof at start-up and against the extern/struct '
    'declarations of the Cello.h actually used (mismatch => exhaustive:false)',
    'gcc/clang, glibc and the sanitizer run-times are trusted',
  ],
  'instances': {
    'quick': SEQUENTIAL['quick'] + CONCURRENT['quick'],
    'thorough': SEQUENTIAL['thorough'] + CONCURRENT['thorough'],
  },
}
