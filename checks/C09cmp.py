# Temporary stand-alone runner for the C09 value-type part (the aggregating checks/C09.py is the coordinator's).
import os, importlib.util
_p = os.path.join(os.path.dirname(os.path.abspath(__file__)), 'parts', 'cmp.py')
_s = importlib.util.spec_from_file_location('parts_cmp', _p); _m = importlib.util.module_from_spec(_s); _s.loader.exec_module(_m)

CHECK = {
  'id': 'C09',
  'level': 'exploration',
  'rule': _m.RULES['C09'],
  'bounds': {
    'quick': 'Int 45 values, Float 40, String 85 (length <= 3 over {a,b,0x80,0xFF}), Type 72, 8-byte struct 64: all ordered pairs and all triples; Tree/Table over each grid in 4 insertion orders; base + ASan/UBSan',
    'thorough': 'Int 87, Float 68, String 341 (length <= 4), Type 72, struct 256: all pairs and triples (39.7M string triples, 16.8M struct triples), base and ASan/UBSan',
  },
  'assumptions': [
    'values outside the grids are represented by the boundary values of the grids (differences around 2^31, 2^32, 2^63; prefixes; bytes >= 0x80)',
    'NaN excluded',
    'gcc/clang, glibc and the sanitizer run-times are trusted',
  ],
  'instances': _m.PARTS['C09'],
}
