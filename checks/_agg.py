"""Aggregate the per-harness instance lists in checks/parts/*.py for properties decided by several harnesses."""
import os, glob, importlib.util

def collect(pid):
    out = {'quick': [], 'thorough': []}
    here = os.path.dirname(os.path.abspath(__file__))
    for p in sorted(glob.glob(os.path.join(here, 'parts', '*.py'))):
        spec = importlib.util.spec_from_file_location('part_' + os.path.basename(p)[:-3], p)
        m = importlib.util.module_from_spec(spec); spec.loader.exec_module(m)
        part = getattr(m, 'PARTS', {}).get(pid)
        if not part:
            continue
        for tier in ('quick', 'thorough'):
            out[tier] += part.get(tier, part.get('quick', []))
    return out
