# Value-type grids for C09 (h_cmp.c) and C10 (h_hash.c).  Aggregated by checks/C09.py / checks/C10.py.

def H(harness, name, variant, *args, **kw):
    d = dict(name=name, harness=harness, variant=variant, args=list(args) + ['oddtree=1'])   # Tree keys of odd sizes: enabled since the alignment repair f8ba4d6
    d.update(kw)
    return d

def C(name, variant, *args, **kw):
    return H('h_cmp.c', name, variant, *args, **kw)

def X(name, variant, *args, **kw):
    return H('h_hash.c', name, variant, *args, **kw)

PARTS = {
  'C09': {
    'quick': [
      C('cmp-values', 'base', 'dom=all', 'grid=small'),
      C('cmp-int-asan', 'asan', 'dom=int', 'grid=small'),
      C('cmp-values-asan', 'asan', 'dom=float,string,type,rawall,recycled,reptuple,mixed', 'grid=small'),
      # containers constructed with OTHER element / key / value types and then given their contents by assign(), as left and right
      # operands next to directly built containers of the same contents (a comparison or size remembered from construction is stale)
      C('cmp-converted', 'base', 'dom=converted', 'grid=small'),
      C('cmp-converted-asan', 'asan', 'dom=converted', 'grid=small'),
    ],
    'thorough': [
      C('cmp-int-float-type', 'base', 'dom=int,float,type,recycled,reptuple,mixed', 'grid=large'),
      C('cmp-string4', 'base', 'dom=string', 'grid=large'),
      C('cmp-raw256', 'base', 'dom=raw', 'grid=large'),
      C('cmp-rawsizes-a', 'base', 'dom=raw1,raw3,raw4,raw7,raw9', 'grid=large'),
      C('cmp-rawsizes-b', 'base', 'dom=raw12,raw16', 'grid=large'),
      C('cmp-rawsizes-c', 'base', 'dom=raw20,raw21', 'grid=large'),
      C('cmp-rawbig', 'base', 'dom=rawbig', 'grid=large'),
      C('cmp-int-asan', 'asan', 'dom=int', 'grid=large'),
      C('cmp-float-type-asan', 'asan', 'dom=float,type,recycled,reptuple,mixed', 'grid=large'),
      C('cmp-string4-asan', 'asan', 'dom=string', 'grid=large'),
      C('cmp-raw256-asan', 'asan', 'dom=raw', 'grid=large'),
      C('cmp-rawsizes-a-asan', 'asan', 'dom=raw1,raw3,raw4,raw7,raw9', 'grid=large'),
      C('cmp-rawsizes-b-asan', 'asan', 'dom=raw12,raw16', 'grid=large'),
      C('cmp-rawsizes-c-asan', 'asan', 'dom=raw20,raw21', 'grid=large'),
      C('cmp-rawbig-asan', 'asan', 'dom=rawbig', 'grid=large'),
      C('cmp-converted', 'base', 'dom=converted', 'grid=large'),
      C('cmp-converted-asan', 'asan', 'dom=converted', 'grid=large'),
    ],
  },
  'C10': {
    'quick': [
      X('hash-values', 'base', 'part=all', 'grid=small'),
      X('hash-int-asan', 'asan', 'part=values,pairs,ops,containers', 'dom=int', 'grid=small'),
      X('hash-others-asan', 'asan', 'part=all', 'dom=float,string,rawall,ref,box,type,recycled', 'grid=small'),
    ],
    'thorough': [
      X('hash-values', 'base', 'part=all', 'dom=int,float,string,raw,ref,box,type,recycled', 'grid=large'),
      X('hash-rawsizes', 'base', 'part=values,pairs,ops,containers', 'dom=raw1,raw3,raw4,raw7,raw9,raw12,raw16,raw20,raw21', 'grid=large'),
      X('hash-rawbig', 'base', 'part=values,pairs,ops,containers', 'dom=rawbig', 'grid=large'),
      X('hash-int-asan', 'asan', 'part=values,pairs,ops,containers', 'dom=int', 'grid=large'),
      X('hash-others-asan', 'asan', 'part=all', 'dom=float,string,raw,ref,box,type,recycled', 'grid=large'),
      X('hash-rawbig-asan', 'asan', 'part=values,pairs,ops,containers', 'dom=rawbig', 'grid=large'),
      X('hash-rawsizes-asan', 'asan', 'part=values,pairs,ops,containers', 'dom=raw1,raw3,raw4,raw7,raw9,raw12,raw16,raw20,raw21', 'grid=large'),
    ],
  },
}

RULES = {
  'C09': ('value-type grids (h_cmp.c): every ordered pair and every triple of each boundary grid is executed on the real cmp/eq/neq/lt/gt/le/ge; '
          'distinct_nontrivial = pairs of different values with a boundary feature (Int difference outside int32 or overflowing int64; Float pair '
          'involving a zero, a denormal or an infinity; String pair where one is a prefix of the other or the first differing byte is >= 0x80; '
          'Type names sharing a prefix; struct pair (sizes 1,3,4,7,8,9,12,16,20,21 and 63,64,65,72,100,127,128,129,200,300 bytes) whose first differing byte is >= 0x80 or is the last byte) + triples that form a strict chain a<b<c or a>b>c in the '
          'reference order (transitivity premise holds) + completed Tree/Table insert/lookup/iterate/remove histories over the grid + generations of a run-time record type '
          '(sizes cycling 8,32,16,64,4,24,12,100, first operation cmp / eq / gt) that came back at the address of the deleted previous type with another size '
          '+ assign-converted containers (dom=converted): ordered pairs of container operands in which at least one side is an Array / List / Table / Tree that was constructed with '
          'another element (key / value) type - empty or holding two elements - and then received its contents by assign() from a container of the final types '
          '(final element types Int, Float, String and a user type with its own Cmp that also converts to an integer; first types: the other three and a 12-byte plain struct), '
          'judged against the lexicographic reference over the contents next to directly built Arrays, Lists, Tuples, Trees and Tables of every content '
          '(sequences of length <= 2/3 over three values; partial maps over 2/3 keys and two values; Tables with two or more entries only against a fresh Table assigned from the same source)'),
  'C10': ('value-type grids (h_hash.c): distinct_nontrivial = (value, allocation class / operation) cases in which the object under test is a '
          'different object from the stack witness (heap, root, Array/List element, Table/Tree key and value, copy, assign into fresh / into an '
          'object holding another value, both sides of swap on heap / stack / Array-embedded objects (guard elements and canary zones must keep every byte), Array element against stack object, Array sort of the whole grid; plain structs of 1,3,4,7,8,9,12,16,20,21 bytes exercise every tail length of the default memcmp/hash_data/memcpy/memswap, structs of 63,64,65,72,100,127,128,129,200,300 bytes every remainder of a 64/128-byte block-wise copy) + pairs of different representations of equal values (signed zeros, Type twins) + '
          'hash_data cases with a tail (len % 8 != 0) or a misaligned start + container cases (Array / List / heap and stack Tuple / Array and List built through another history '
          'holding the same 1..3 elements: each eq pair of containers, each copy, List := Array and Array := List) + recycled run-time type generations at the '
          'address of the deleted previous type (first operation hash / assign / swap / copy)'),
}
