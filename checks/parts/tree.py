# Instances of h_tree.c for the properties shared between harnesses.
#
# C05  Probe keys and values on Tree: ledger after every transition (no double finalise,
#      live Probes == contained keys + values, stored Probes intact, nothing live after
#      deleting every tree); two=1 adds a second tree B with B=copy(A), assign(B,A),
#      assign(A,B), del(B), set(B,k0,v), rem(B,k0): B must be unaffected by mutations of A.
#      distinct_nontrivial: states with black height >= 2 (rotations / predecessor copy /
#      double-black repair move Probe-owning nodes around).
# C09  mode=pairs: every concrete tree reachable over the universe (distinct shape /
#      colours / keys / values) is kept alive; cmp of every ordered pair == lexicographic
#      order of the trees' own forward (key,value) sequences (key then value, proper
#      prefix smaller), antisymmetry, reflexivity, transitivity over all triples,
#      cmp == 0 only for equal contents, eq/neq/lt/gt/le/ge == predicates of cmp.
#      distinct_nontrivial: ordered pairs decided after a non-empty common prefix.
# C10  in every concrete state hash is a function of the (key,value) set alone (grouped
#      across the whole BFS), copy / assign-into-nonempty / two rebuilds in other insertion
#      orders are eq, cmp == 0 and hash the same; with two=1 swap(A,B) exchanges.
# Mixed sizes: keys=int vals=blob (8/20 bytes, plain struct, every byte of every binding compared),
#      keys=int vals=probe (8/24), keys=probe vals=int (24/8), keys=str vals=probe, keys=probe vals=blob.
# cross=1: assign onto trees constructed/filled with other element types (one side shared); table=1: Tree := Table := A.
# C12  failing operations as self-loops in every state: get/set/rem/mem with a wrong-typed
#      key (ValueError|TypeError), set with a wrong-typed value, NULL key / NULL value
#      (ValueError), rem of an absent key (KeyError), resize(1|len|len+7) (if it raises:
#      FormatError|ResourceError|ValueError); canonical tree unchanged, exception depth
#      restored, ledger count unchanged; every valid operation follows from the same state.

def T(name, variant, *args, **kw):
    d = dict(name='tree-' + name, harness='h_tree.c', variant=variant, args=list(args))
    d.update(kw)
    return d

PARTS = {
  'C05': {
    'quick': [
      # refusing element type: a refused set must not construct, finalise or leak any element (ledger unchanged)
      T('refuse-int-picky6x2', 'base', 'prop=C05', 'keys=int', 'vals=picky', 'nkeys=6', 'nvals=2', 'alias=1'),
      T('refuse-picky-picky6x2', 'base', 'prop=C05', 'keys=picky', 'vals=picky', 'nkeys=6', 'nvals=2'),
      T('refuse-picky-int5x2-asan', 'asan', 'prop=C05', 'keys=picky', 'vals=int', 'nkeys=5', 'nvals=2'),
      T('refuse-int-picky-two4', 'base', 'prop=C05', 'keys=int', 'vals=picky', 'two=1', 'nkeys=4', 'nvals=1'),
      T('refuse-picky-picky4-leaky', 'base', 'prop=C05', 'keys=picky', 'vals=picky', 'nkeys=4', 'nvals=1', 'leaky=1'),   # known finding tree-set-refused-value-leaks-key
      # cross-type assignment: the target's old contents (other element types, Probe on either side) finalised exactly once
      T('cross-int-probe6x2', 'base', 'prop=C05', 'keys=int', 'vals=probe', 'nkeys=6', 'nvals=2', 'cross=1', 'table=1'),
      T('cross-int-int6x2', 'base', 'prop=C05', 'keys=int', 'vals=int', 'nkeys=6', 'nvals=2', 'cross=1', 'table=1'),
      T('cross-probe-blob5x2-asan', 'asan', 'prop=C05', 'keys=probe', 'vals=blob', 'nkeys=5', 'nvals=2', 'cross=1', 'table=1'),
      T('cross-str-probe-two4', 'base', 'prop=C05', 'keys=str', 'vals=probe', 'two=1', 'nkeys=4', 'nvals=1', 'cross=1'),
      T('cross-probe-int-two4-asan', 'asan', 'prop=C05', 'keys=probe', 'vals=int', 'two=1', 'nkeys=4', 'nvals=1', 'cross=1'),
      # Probe on one side only / value types of another size than the key type
      T('strkey-probeval6x2', 'base', 'prop=C05', 'keys=str', 'vals=probe', 'nkeys=6', 'nvals=2'),
      T('probekey-intval8', 'base', 'prop=C05', 'keys=probe', 'vals=int', 'nkeys=8', 'nvals=1', 'alias=1'),
      T('probekey-intval5x2-asan', 'asan', 'prop=C05', 'keys=probe', 'vals=int', 'nkeys=5', 'nvals=2', 'alias=1'),
      T('probekey-blobval6x2', 'base', 'prop=C05', 'keys=probe', 'vals=blob', 'nkeys=6', 'nvals=2', 'alias=1'),
      T('intkey-probeval-two4', 'base', 'prop=C05', 'keys=int', 'vals=probe', 'two=1', 'nkeys=4', 'nvals=1'),
      T('probekey-intval-two4-asan', 'asan', 'prop=C05', 'keys=probe', 'vals=int', 'two=1', 'nkeys=4', 'nvals=1'),
      T('probe10', 'base', 'prop=C05', 'keys=probe', 'vals=probe', 'nkeys=10', 'nvals=1'),
      # the last operation of the history in the state key (lib/vf_bfs.h suffix=K)
      T('probe6-sfx1', 'base', 'prop=C05', 'keys=probe', 'vals=probe', 'nkeys=6', 'nvals=1', 'suffix=1'), T('probe4x2-sfx1', 'base', 'prop=C05', 'keys=probe', 'vals=probe', 'nkeys=4', 'nvals=2', 'alias=1', 'suffix=1'),
      T('probe6x2', 'base', 'prop=C05', 'keys=probe', 'vals=probe', 'nkeys=6', 'nvals=2', 'alias=1'),
      T('probe-two6', 'base', 'prop=C05', 'keys=probe', 'vals=probe', 'two=1', 'nkeys=6', 'nvals=1'),
      T('probe-two3x2', 'base', 'prop=C05', 'keys=probe', 'vals=probe', 'two=1', 'nkeys=3', 'nvals=2'),
      T('probe-two4-asan', 'asan', 'prop=C05', 'keys=probe', 'vals=probe', 'two=1', 'nkeys=4', 'nvals=1'),
      T('probe5x2-asan', 'asan', 'prop=C05', 'keys=probe', 'vals=probe', 'nkeys=5', 'nvals=2', 'alias=1'),
      T('probe6-asan', 'asan', 'prop=C05', 'keys=probe', 'vals=probe', 'nkeys=6', 'nvals=1'),
      T('intkey-probeval6', 'base', 'prop=C05', 'keys=int', 'vals=probe', 'nkeys=6', 'nvals=2'),
    ],
    'thorough': [
      T('refuse-int-picky8x2', 'base', 'prop=C05', 'keys=int', 'vals=picky', 'nkeys=8', 'nvals=2', 'alias=1'),
      T('refuse-picky-picky8x2', 'base', 'prop=C05', 'keys=picky', 'vals=picky', 'nkeys=8', 'nvals=2'),
      T('refuse-picky-int7x2-asan', 'asan', 'prop=C05', 'keys=picky', 'vals=int', 'nkeys=7', 'nvals=2'),
      T('refuse-int-picky-two6', 'base', 'prop=C05', 'keys=int', 'vals=picky', 'two=1', 'nkeys=6', 'nvals=1'),
      T('refuse-picky-picky5-leaky', 'base', 'prop=C05', 'keys=picky', 'vals=picky', 'nkeys=5', 'nvals=1', 'leaky=1'),
      T('cross-int-probe8x2', 'base', 'prop=C05', 'keys=int', 'vals=probe', 'nkeys=8', 'nvals=2', 'cross=1', 'table=1'),
      T('cross-int-int8x2', 'base', 'prop=C05', 'keys=int', 'vals=int', 'nkeys=8', 'nvals=2', 'cross=1', 'table=1'),
      T('cross-probe-blob7x2-asan', 'asan', 'prop=C05', 'keys=probe', 'vals=blob', 'nkeys=7', 'nvals=2', 'cross=1', 'table=1'),
      T('cross-str-probe-two6', 'base', 'prop=C05', 'keys=str', 'vals=probe', 'two=1', 'nkeys=6', 'nvals=1', 'cross=1'),
      T('cross-probe-int-two5-asan', 'asan', 'prop=C05', 'keys=probe', 'vals=int', 'two=1', 'nkeys=5', 'nvals=1', 'cross=1'),
      T('strkey-probeval8x2', 'base', 'prop=C05', 'keys=str', 'vals=probe', 'nkeys=8', 'nvals=2'),
      T('probekey-intval11', 'base', 'prop=C05', 'keys=probe', 'vals=int', 'nkeys=11', 'nvals=1', 'alias=1'),
      T('probekey-intval7x2-asan', 'asan', 'prop=C05', 'keys=probe', 'vals=int', 'nkeys=7', 'nvals=2', 'alias=1'),
      T('probekey-blobval8x2', 'base', 'prop=C05', 'keys=probe', 'vals=blob', 'nkeys=8', 'nvals=2', 'alias=1'),
      T('intkey-probeval-two6', 'base', 'prop=C05', 'keys=int', 'vals=probe', 'two=1', 'nkeys=6', 'nvals=1'),
      T('probekey-intval-two5-asan', 'asan', 'prop=C05', 'keys=probe', 'vals=int', 'two=1', 'nkeys=5', 'nvals=1'),
      T('probe11', 'base', 'prop=C05', 'keys=probe', 'vals=probe', 'nkeys=11', 'nvals=1'),
      # the last operation of the history in the state key (lib/vf_bfs.h suffix=K)
      T('probe8-sfx1', 'base', 'prop=C05', 'keys=probe', 'vals=probe', 'nkeys=8', 'nvals=1', 'suffix=1'), T('probe5x2-sfx1', 'base', 'prop=C05', 'keys=probe', 'vals=probe', 'nkeys=5', 'nvals=2', 'alias=1', 'suffix=1'), T('probe5-sfx2', 'base', 'prop=C05', 'keys=probe', 'vals=probe', 'nkeys=5', 'nvals=1', 'suffix=2'),
      T('probe8x2', 'base', 'prop=C05', 'keys=probe', 'vals=probe', 'nkeys=8', 'nvals=2', 'alias=1'),
      T('probe-two7', 'base', 'prop=C05', 'keys=probe', 'vals=probe', 'two=1', 'nkeys=7', 'nvals=1'),
      T('probe-two4x2', 'base', 'prop=C05', 'keys=probe', 'vals=probe', 'two=1', 'nkeys=4', 'nvals=2'),
      T('probe-two5-asan', 'asan', 'prop=C05', 'keys=probe', 'vals=probe', 'two=1', 'nkeys=5', 'nvals=1'),
      T('probe9-asan', 'asan', 'prop=C05', 'keys=probe', 'vals=probe', 'nkeys=9', 'nvals=1'),
      T('intkey-probeval8', 'base', 'prop=C05', 'keys=int', 'vals=probe', 'nkeys=8', 'nvals=2'),
    ],
  },
  'C09': {
    'quick': [
      T('pairs-wideint5x2', 'base', 'prop=C09', 'keys=wideint', 'nkeys=5', 'nvals=2'),
      T('pairs-int-blob4x2', 'base', 'prop=C09', 'keys=int', 'vals=blob', 'nkeys=4', 'nvals=2'),
      T('pairs-int3x2', 'base', 'prop=C09', 'keys=int', 'nkeys=3', 'nvals=2'),
      T('pairs-int5x2', 'base', 'prop=C09', 'keys=int', 'nkeys=5', 'nvals=2'),
      T('pairs-str4x2', 'base', 'prop=C09', 'keys=str', 'nkeys=4', 'nvals=2'),
      T('pairs-int4x2-asan', 'asan', 'prop=C09', 'keys=int', 'nkeys=4', 'nvals=2'),
    ],
    'thorough': [
      T('pairs-wideint6x2', 'base', 'prop=C09', 'keys=wideint', 'nkeys=6', 'nvals=2'),
      T('pairs-int-blob5x2', 'base', 'prop=C09', 'keys=int', 'vals=blob', 'nkeys=5', 'nvals=2'),
      T('pairs-int3x2', 'base', 'prop=C09', 'keys=int', 'nkeys=3', 'nvals=2'),
      T('pairs-int6x2', 'base', 'prop=C09', 'keys=int', 'nkeys=6', 'nvals=2'),
      T('pairs-int9', 'base', 'prop=C09', 'keys=int', 'nkeys=9', 'nvals=1'),
      T('pairs-str5x2', 'base', 'prop=C09', 'keys=str', 'nkeys=5', 'nvals=2'),
      T('pairs-int5x2-asan', 'asan', 'prop=C09', 'keys=int', 'nkeys=5', 'nvals=2'),
    ],
  },
  'C10': {
    'quick': [
      T('eqhash-wideint6x2', 'base', 'prop=C10', 'keys=wideint', 'nkeys=6', 'nvals=2'),
      T('eqhash-cross-int-blob6x2', 'base', 'prop=C10', 'keys=int', 'vals=blob', 'nkeys=6', 'nvals=2', 'cross=1', 'table=1'),
      T('eqhash-cross-int-int5x2-asan', 'asan', 'prop=C10', 'keys=int', 'vals=int', 'nkeys=5', 'nvals=2', 'cross=1', 'table=1'),
      # mixed key/value sizes: eq / hash / copy / assign / rebuild must survive every removal and copy path
      T('eqhash-int-blob6x2', 'base', 'prop=C10', 'keys=int', 'vals=blob', 'nkeys=6', 'nvals=2', 'alias=1'),
      T('eqhash-int-blob9', 'base', 'prop=C10', 'keys=int', 'vals=blob', 'nkeys=9', 'nvals=1'),
      T('eqhash-int-blob5x2-asan', 'asan', 'prop=C10', 'keys=int', 'vals=blob', 'nkeys=5', 'nvals=2', 'alias=1'),
      T('eqhash-probe-int6x2', 'base', 'prop=C10', 'keys=probe', 'vals=int', 'nkeys=6', 'nvals=2'),
      T('eqhash-str-probe5x2-asan', 'asan', 'prop=C10', 'keys=str', 'vals=probe', 'nkeys=5', 'nvals=2'),
      T('eqhash-two-int-blob3x2', 'base', 'prop=C10', 'keys=int', 'vals=blob', 'two=1', 'nkeys=3', 'nvals=2'),
      T('eqhash-int6x2', 'base', 'prop=C10', 'keys=int', 'nkeys=6', 'nvals=2'),
      T('eqhash-int10', 'base', 'prop=C10', 'keys=int', 'nkeys=10', 'nvals=1'),
      T('eqhash-two-int5', 'base', 'prop=C10', 'keys=int', 'two=1', 'nkeys=5', 'nvals=1'),
      T('eqhash-str5x2', 'base', 'prop=C10', 'keys=str', 'nkeys=5', 'nvals=2'),
      T('eqhash-two-int3x2', 'base', 'prop=C10', 'keys=int', 'two=1', 'nkeys=3', 'nvals=2'),
      T('eqhash-two-int4-asan', 'asan', 'prop=C10', 'keys=int', 'two=1', 'nkeys=4', 'nvals=1'),
      T('eqhash-int5x2-asan', 'asan', 'prop=C10', 'keys=int', 'nkeys=5', 'nvals=2'),
    ],
    'thorough': [
      T('eqhash-wideint8x2', 'base', 'prop=C10', 'keys=wideint', 'nkeys=8', 'nvals=2'),
      T('eqhash-cross-int-blob8x2', 'base', 'prop=C10', 'keys=int', 'vals=blob', 'nkeys=8', 'nvals=2', 'cross=1', 'table=1'),
      T('eqhash-cross-int-int6x2-asan', 'asan', 'prop=C10', 'keys=int', 'vals=int', 'nkeys=6', 'nvals=2', 'cross=1', 'table=1'),
      T('eqhash-int-blob8x2', 'base', 'prop=C10', 'keys=int', 'vals=blob', 'nkeys=8', 'nvals=2', 'alias=1'),
      T('eqhash-int-blob11', 'base', 'prop=C10', 'keys=int', 'vals=blob', 'nkeys=11', 'nvals=1'),
      T('eqhash-int-blob6x2-asan', 'asan', 'prop=C10', 'keys=int', 'vals=blob', 'nkeys=6', 'nvals=2', 'alias=1'),
      T('eqhash-probe-int8x2', 'base', 'prop=C10', 'keys=probe', 'vals=int', 'nkeys=8', 'nvals=2'),
      T('eqhash-str-probe6x2-asan', 'asan', 'prop=C10', 'keys=str', 'vals=probe', 'nkeys=6', 'nvals=2'),
      T('eqhash-two-int-blob4x2', 'base', 'prop=C10', 'keys=int', 'vals=blob', 'two=1', 'nkeys=4', 'nvals=2'),
      T('eqhash-int8x2', 'base', 'prop=C10', 'keys=int', 'nkeys=8', 'nvals=2'),
      T('eqhash-int11', 'base', 'prop=C10', 'keys=int', 'nkeys=11', 'nvals=1'),
      T('eqhash-str7x2', 'base', 'prop=C10', 'keys=str', 'nkeys=7', 'nvals=2'),
      T('eqhash-two-int4x2', 'base', 'prop=C10', 'keys=int', 'two=1', 'nkeys=4', 'nvals=2'),
      T('eqhash-two-int5-asan', 'asan', 'prop=C10', 'keys=int', 'two=1', 'nkeys=5', 'nvals=1'),
      T('eqhash-int6x2-asan', 'asan', 'prop=C10', 'keys=int', 'nkeys=6', 'nvals=2'),
    ],
  },
  'C12': {
    'quick': [
      # refusing element type: the element's own assign raises in the middle of set
      T('fail-int-picky6x2', 'base', 'prop=C12', 'keys=int', 'vals=picky', 'nkeys=6', 'nvals=2'),
      # the last operation of the history in the state key (lib/vf_bfs.h suffix=K)
      T('fail-int-picky4x2-sfx1', 'base', 'prop=C12', 'keys=int', 'vals=picky', 'nkeys=4', 'nvals=2', 'suffix=1'),
      T('fail-picky-int6x2', 'base', 'prop=C12', 'keys=picky', 'vals=int', 'nkeys=6', 'nvals=2'),
      T('fail-picky-picky5x2-asan', 'asan', 'prop=C12', 'keys=picky', 'vals=picky', 'nkeys=5', 'nvals=2'),
      T('fail-int-picky8', 'base', 'prop=C12', 'keys=int', 'vals=picky', 'nkeys=8', 'nvals=1'),
      T('fail-wideint6x2', 'base', 'prop=C12', 'keys=wideint', 'nkeys=6', 'nvals=2'),
      T('fail-int-blob6x2', 'base', 'prop=C12', 'keys=int', 'vals=blob', 'nkeys=6', 'nvals=2'),
      T('fail-probe-int5x2-asan', 'asan', 'prop=C12', 'keys=probe', 'vals=int', 'nkeys=5', 'nvals=2'),
      T('fail-int6x2', 'base', 'prop=C12', 'keys=int', 'nkeys=6', 'nvals=2'),
      T('fail-int10', 'base', 'prop=C12', 'keys=int', 'nkeys=10', 'nvals=1'),
      T('fail-str6x2', 'base', 'prop=C12', 'keys=str', 'nkeys=6', 'nvals=2'),
      T('fail-probe6', 'base', 'prop=C12', 'keys=probe', 'vals=probe', 'nkeys=6', 'nvals=1'),
      T('fail-int5x2-asan', 'asan', 'prop=C12', 'keys=int', 'nkeys=5', 'nvals=2'),
      T('fail-str5-asan', 'asan', 'prop=C12', 'keys=str', 'nkeys=5', 'nvals=1'),
    ],
    'thorough': [
      T('fail-int-picky8x2', 'base', 'prop=C12', 'keys=int', 'vals=picky', 'nkeys=8', 'nvals=2'),
      T('fail-picky-int8x2', 'base', 'prop=C12', 'keys=picky', 'vals=int', 'nkeys=8', 'nvals=2'),
      T('fail-picky-picky6x2-asan', 'asan', 'prop=C12', 'keys=picky', 'vals=picky', 'nkeys=6', 'nvals=2'),
      T('fail-int-picky10', 'base', 'prop=C12', 'keys=int', 'vals=picky', 'nkeys=10', 'nvals=1'),
      T('fail-wideint8x2', 'base', 'prop=C12', 'keys=wideint', 'nkeys=8', 'nvals=2'),
      T('fail-int-blob8x2', 'base', 'prop=C12', 'keys=int', 'vals=blob', 'nkeys=8', 'nvals=2'),
      T('fail-probe-int6x2-asan', 'asan', 'prop=C12', 'keys=probe', 'vals=int', 'nkeys=6', 'nvals=2'),
      T('fail-int8x2', 'base', 'prop=C12', 'keys=int', 'nkeys=8', 'nvals=2'),
      T('fail-int11', 'base', 'prop=C12', 'keys=int', 'nkeys=11', 'nvals=1'),
      T('fail-str7x2', 'base', 'prop=C12', 'keys=str', 'nkeys=7', 'nvals=2'),
      T('fail-probe10', 'base', 'prop=C12', 'keys=probe', 'vals=probe', 'nkeys=10', 'nvals=1'),
      T('fail-int6x2-asan', 'asan', 'prop=C12', 'keys=int', 'nkeys=6', 'nvals=2'),
      T('fail-str9-asan', 'asan', 'prop=C12', 'keys=str', 'nkeys=9', 'nvals=1'),
    ],
  },
}
