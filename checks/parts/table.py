# Instances of harness/h_table.c for the properties shared with other harnesses.
def T(name, variant, *args, **kw):
    d = dict(name='table-' + name, harness='h_table.c', variant=variant, args=list(args))
    d.update(kw)
    return d

PARTS = {
  'C05': {
    'quick': [
      T('probe5', 'base', 'prop=C05', 'keys=probe', 'vals=probe', 'nkeys=5'),
      # the last operation of the history in the state key (lib/vf_bfs.h suffix=K)
      T('probe4-sfx1', 'base', 'prop=C05', 'keys=probe', 'vals=probe', 'nkeys=4', 'suffix=1'), T('probe3-two-sfx1', 'base', 'prop=C05', 'keys=probe', 'vals=probe', 'nkeys=3', 'two=1', 'depth=5', 'suffix=1'),
      T('probe4-two', 'base', 'prop=C05', 'keys=probe', 'vals=probe', 'nkeys=4', 'two=1', 'depth=6'),
      T('strprobe4-asan', 'asan', 'prop=C05', 'keys=str', 'vals=probe', 'nkeys=4'),
      T('intprobe5', 'base', 'prop=C05', 'keys=int', 'vals=probe', 'nkeys=5'), T('probeint4-asan', 'asan', 'prop=C05', 'keys=probe', 'vals=int', 'nkeys=4'),
      T('probe3-two-asan', 'asan', 'prop=C05', 'keys=probe', 'vals=probe', 'nkeys=3', 'two=1', 'depth=5'),
    ],
    'thorough': [
      T('probe7', 'base', 'prop=C05', 'keys=probe', 'vals=probe', 'nkeys=7'),
      # the last operation of the history in the state key (lib/vf_bfs.h suffix=K)
      T('probe5-sfx1', 'base', 'prop=C05', 'keys=probe', 'vals=probe', 'nkeys=5', 'suffix=1'), T('probe3-two-sfx1', 'base', 'prop=C05', 'keys=probe', 'vals=probe', 'nkeys=3', 'two=1', 'depth=6', 'suffix=1'), T('probe3-sfx2', 'base', 'prop=C05', 'keys=probe', 'vals=probe', 'nkeys=3', 'suffix=2'),
      T('probe4-two', 'base', 'prop=C05', 'keys=probe', 'vals=probe', 'nkeys=4', 'two=1', 'depth=9'),
      T('strprobe5-asan', 'asan', 'prop=C05', 'keys=str', 'vals=probe', 'nkeys=5'),
      T('intprobe7', 'base', 'prop=C05', 'keys=int', 'vals=probe', 'nkeys=7'), T('probeint5-asan', 'asan', 'prop=C05', 'keys=probe', 'vals=int', 'nkeys=5'),
      T('probe3-two-asan', 'asan', 'prop=C05', 'keys=probe', 'vals=probe', 'nkeys=3', 'two=1', 'depth=7'),
    ],
  },
  'C10': {
    'quick': [
      T('int5', 'base', 'prop=C10', 'keys=int', 'nkeys=5'),
      T('str4', 'base', 'prop=C10', 'keys=str', 'nkeys=4'),
      T('int4-swap', 'base', 'prop=C10', 'keys=int', 'nkeys=4', 'two=1', 'depth=5'),
      T('int4-asan', 'asan', 'prop=C10', 'keys=int', 'nkeys=4'),
      T('intprobe4', 'base', 'prop=C10', 'keys=int', 'vals=probe', 'nkeys=4'), T('probeint4', 'base', 'prop=C10', 'keys=probe', 'vals=int', 'nkeys=4'),
    ],
    'thorough': [
      T('int7', 'base', 'prop=C10', 'keys=int', 'nkeys=7'),
      T('str5', 'base', 'prop=C10', 'keys=str', 'nkeys=5'),
      T('int4-swap', 'base', 'prop=C10', 'keys=int', 'nkeys=4', 'two=1', 'depth=8'),
      T('int5-asan', 'asan', 'prop=C10', 'keys=int', 'nkeys=5'),
    ],
  },
  'C12': {
    'quick': [
      T('int5', 'base', 'prop=C12', 'keys=int', 'nkeys=5'),
      # the last operation of the history in the state key (lib/vf_bfs.h suffix=K)
      T('int4-sfx1', 'base', 'prop=C12', 'keys=int', 'nkeys=4', 'suffix=1'),
      T('str4', 'base', 'prop=C12', 'keys=str', 'nkeys=4'),
      T('probe4', 'base', 'prop=C12', 'keys=probe', 'vals=probe', 'nkeys=4'),
      T('int4-asan', 'asan', 'prop=C12', 'keys=int', 'nkeys=4'),
    ],
    'thorough': [
      T('int7', 'base', 'prop=C12', 'keys=int', 'nkeys=7'),
      # the last operation of the history in the state key (lib/vf_bfs.h suffix=K)
      T('int5-sfx1', 'base', 'prop=C12', 'keys=int', 'nkeys=5', 'suffix=1'), T('probe3-sfx1', 'base', 'prop=C12', 'keys=probe', 'vals=probe', 'nkeys=3', 'suffix=1'),
      T('str5', 'base', 'prop=C12', 'keys=str', 'nkeys=5'),
      T('probe5', 'base', 'prop=C12', 'keys=probe', 'vals=probe', 'nkeys=5'),
      T('int5-asan', 'asan', 'prop=C12', 'keys=int', 'nkeys=5'),
    ],
  },
}
