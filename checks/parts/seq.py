# Instances of harness/h_seq.c (Array / List / Tuple) for the properties shared with other harnesses.
# The aggregating checks/C05.py, C09.py, C10.py, C12.py import PARTS from here.

WB = '-DVF_WB'          # white-box: the repository's own Array.c and List.c compiled into the harness
WRAP = '-DVF_WB -DVF_WRAP -Wl,--wrap=malloc,--wrap=calloc,--wrap=realloc,--wrap=free'   # + live heap block balance

def S(name, variant, *args, **kw):
    d = dict(name='seq-' + name, harness='h_seq.c', variant=variant, args=list(args), cflags=kw.pop('cflags', WB))
    d.update(kw)
    return d

PARTS = {
  # ---- C05: Probe elements, ledger after every transition; second container; Box ownership
  'C05': {
    'quick': [
      S('array-probe5', 'base', 'prop=C05', 'kind=array', 'maxlen=5'),
      # the last operation of the history in the state key (lib/vf_bfs.h suffix=K)
      S('array-probe3-sfx1', 'base', 'prop=C05', 'kind=array', 'maxlen=3', 'suffix=1'), S('list-probe3-sfx1', 'base', 'prop=C05', 'kind=list', 'maxlen=3', 'suffix=1'),
      S('list-probe5', 'base', 'prop=C05', 'kind=list', 'maxlen=5'),
      S('array-probe3-asan', 'asan', 'prop=C05', 'kind=array', 'maxlen=3'),
      S('list-probe3-asan', 'asan', 'prop=C05', 'kind=list', 'maxlen=3'),
      S('array+array', 'base', 'prop=C05', 'kind=array', 'bkind=array', 'two=1', 'maxlen=2', 'nvals=2'),
      S('array+list', 'base', 'prop=C05', 'kind=array', 'bkind=list', 'two=1', 'maxlen=2', 'nvals=2'),
      S('list+array', 'base', 'prop=C05', 'kind=list', 'bkind=array', 'two=1', 'maxlen=2', 'nvals=2'),
      S('list+list', 'asan', 'prop=C05', 'kind=list', 'bkind=list', 'two=1', 'maxlen=2', 'nvals=2'),
      S('box-array', 'base', 'prop=C05', 'mode=box', 'kind=array', 'maxlen=3'),
      S('box-list', 'asan', 'prop=C05', 'mode=box', 'kind=list', 'maxlen=3'),
      # element type whose assign refuses one value: a refused push/append/push_at/set must leave contents, len and ledger alone
      S('array-picky4', 'base', 'prop=C05', 'kind=array', 'elem=picky', 'maxlen=4'),
      S('list-picky4', 'base', 'prop=C05', 'kind=list', 'elem=picky', 'maxlen=4'),
      S('array-picky3-asan', 'asan', 'prop=C05', 'kind=array', 'elem=picky', 'maxlen=3'),
    ],
    'thorough': [
      S('array-probe7', 'base', 'prop=C05', 'kind=array', 'maxlen=7'),
      # the last operation of the history in the state key (lib/vf_bfs.h suffix=K)
      S('array-probe4-sfx1', 'base', 'prop=C05', 'kind=array', 'maxlen=4', 'suffix=1'), S('list-probe4-sfx1', 'base', 'prop=C05', 'kind=list', 'maxlen=4', 'suffix=1'),
      S('list-probe7', 'base', 'prop=C05', 'kind=list', 'maxlen=7'),
      S('array-probe5-asan', 'asan', 'prop=C05', 'kind=array', 'maxlen=5'),
      S('list-probe5-asan', 'asan', 'prop=C05', 'kind=list', 'maxlen=5'),
      S('array+array', 'base', 'prop=C05', 'kind=array', 'bkind=array', 'two=1', 'maxlen=3', 'nvals=2'),
      S('array+list', 'base', 'prop=C05', 'kind=array', 'bkind=list', 'two=1', 'maxlen=3', 'nvals=2'),
      S('list+array', 'base', 'prop=C05', 'kind=list', 'bkind=array', 'two=1', 'maxlen=3', 'nvals=2'),
      S('list+list', 'base', 'prop=C05', 'kind=list', 'bkind=list', 'two=1', 'maxlen=3', 'nvals=2'),
      S('array+list-asan', 'asan', 'prop=C05', 'kind=array', 'bkind=list', 'two=1', 'maxlen=2', 'nvals=2'),
      S('box-array', 'base', 'prop=C05', 'mode=box', 'kind=array', 'maxlen=3'),
      S('box-list', 'base', 'prop=C05', 'mode=box', 'kind=list', 'maxlen=3'),
      S('box-array-asan', 'asan', 'prop=C05', 'mode=box', 'kind=array', 'maxlen=3'),
      S('box-list-asan', 'asan', 'prop=C05', 'mode=box', 'kind=list', 'maxlen=3'),
      S('array-picky6', 'base', 'prop=C05', 'kind=array', 'elem=picky', 'maxlen=6'),
      S('list-picky6', 'base', 'prop=C05', 'kind=list', 'elem=picky', 'maxlen=6'),
      S('array-picky4-asan', 'asan', 'prop=C05', 'kind=array', 'elem=picky', 'maxlen=4'),
      S('list-picky4-asan', 'asan', 'prop=C05', 'kind=list', 'elem=picky', 'maxlen=4'),
    ],
  },
  # ---- C09: cmp over all pairs/triples of sequences x kinds
  'C09': {
    'quick': [
      S('cmp-len4', 'base', 'prop=C09', 'mode=cmpgrid', 'maxlen=4'),
      S('cmp-len3-asan', 'asan', 'prop=C09', 'mode=cmpgrid', 'maxlen=3'),
    ],
    'thorough': [
      S('cmp-len5', 'base', 'prop=C09', 'mode=cmpgrid', 'maxlen=5'),
      S('cmp-len4-asan', 'asan', 'prop=C09', 'mode=cmpgrid', 'maxlen=4'),
    ],
  },
  # ---- C10: hash/eq/copy/assign in every state of the C04 state graph, swap with a second container
  'C10': {
    'quick': [
      S('array5', 'base', 'prop=C10', 'kind=array', 'maxlen=5'),
      S('list5', 'base', 'prop=C10', 'kind=list', 'maxlen=5'),
      S('tuple5', 'base', 'prop=C10', 'kind=tuple', 'maxlen=5'),
      S('array3-asan', 'asan', 'prop=C10', 'kind=array', 'maxlen=3'),
      S('tuple3-asan', 'asan', 'prop=C10', 'kind=tuple', 'maxlen=3'),
      S('swap-array', 'base', 'prop=C10', 'kind=array', 'two=1', 'maxlen=2', 'nvals=2'),
      S('swap-list', 'base', 'prop=C10', 'kind=list', 'two=1', 'maxlen=2', 'nvals=2'),
      S('swap-tuple', 'base', 'prop=C10', 'kind=tuple', 'two=1', 'maxlen=2', 'nvals=2'),
    ],
    'thorough': [
      S('array7', 'base', 'prop=C10', 'kind=array', 'maxlen=7'),
      S('list7', 'base', 'prop=C10', 'kind=list', 'maxlen=7'),
      S('tuple7', 'base', 'prop=C10', 'kind=tuple', 'maxlen=7'),
      S('array4-asan', 'asan', 'prop=C10', 'kind=array', 'maxlen=4'),
      S('list4-asan', 'asan', 'prop=C10', 'kind=list', 'maxlen=4'),
      S('tuple4-asan', 'asan', 'prop=C10', 'kind=tuple', 'maxlen=4'),
      S('swap-array', 'base', 'prop=C10', 'kind=array', 'two=1', 'maxlen=3', 'nvals=2'),
      S('swap-list', 'base', 'prop=C10', 'kind=list', 'two=1', 'maxlen=3', 'nvals=2'),
      S('swap-tuple', 'base', 'prop=C10', 'kind=tuple', 'two=1', 'maxlen=3', 'nvals=2'),
      S('swap-array-asan', 'asan', 'prop=C10', 'kind=array', 'two=1', 'maxlen=2', 'nvals=2'),
    ],
  },
  # ---- C11: iteration of the base containers after ANY history (not only containers built by pushing): forward count == len,
  #      i-th item is get(i), backward (iter_last/iter_prev) = exact reverse of forward and then Terminal; full alphabet incl. aliasing
  'C11': {
    'quick': [
      S('iter-array5', 'base', 'prop=C11', 'kind=array', 'maxlen=5'),
      S('iter-list5', 'base', 'prop=C11', 'kind=list', 'maxlen=5'),
      S('iter-tuple5', 'base', 'prop=C11', 'kind=tuple', 'maxlen=5'),
      S('iter-list3-asan', 'asan', 'prop=C11', 'kind=list', 'maxlen=3'),
    ],
    'thorough': [
      S('iter-array7', 'base', 'prop=C11', 'kind=array', 'maxlen=7'),
      S('iter-list7', 'base', 'prop=C11', 'kind=list', 'maxlen=7'),
      S('iter-tuple7', 'base', 'prop=C11', 'kind=tuple', 'maxlen=7'),
      S('iter-array4-asan', 'asan', 'prop=C11', 'kind=array', 'maxlen=4'),
      S('iter-list4-asan', 'asan', 'prop=C11', 'kind=list', 'maxlen=4'),
      S('iter-tuple4-asan', 'asan', 'prop=C11', 'kind=tuple', 'maxlen=4'),
    ],
  },
  # ---- C12: failing operations as self-loops in every state of the C04 state graph
  'C12': {
    'quick': [
      S('array5', 'base', 'prop=C12', 'kind=array', 'maxlen=5', cflags=WRAP),
      S('list5', 'base', 'prop=C12', 'kind=list', 'maxlen=5', cflags=WRAP),
      S('tuple5', 'base', 'prop=C12', 'kind=tuple', 'maxlen=5', cflags=WRAP),
      S('array-picky3', 'base', 'prop=C12', 'kind=array', 'elem=picky', 'maxlen=3'),
      S('list-picky3', 'base', 'prop=C12', 'kind=list', 'elem=picky', 'maxlen=3'),
      S('array-probe3', 'base', 'prop=C12', 'kind=array', 'elem=probe', 'maxlen=3'),
      S('list-probe3', 'base', 'prop=C12', 'kind=list', 'elem=probe', 'maxlen=3'),
      # plain user structs WITHOUT any instance (default memcpy assign): PlainP 16 bytes / PlainP12 12 bytes.  Besides the whole alphabet
      # over such elements: push/append/set/push_at of an object of ANOTHER plain type (same size, same rounded slot size, another size) or
      # of an Int, and concat from an Array/List/Tuple of such objects, must raise TypeError/ValueError and leave contents, len, heap
      # balance alone; assign from a container of another plain type converts (judged on a copy).  In every state iter_type(A) is the
      # element type and every element handed out by iteration and get() carries it.  (List without the heap-block balance: the node
      # leak of a refused List push is the known finding list/int/*/*-element/memory-block-leaked.)
      S('array-plain3', 'base', 'prop=C12', 'kind=array', 'elem=plain', 'maxlen=3', cflags=WRAP),
      S('array-plain12-3', 'base', 'prop=C12', 'kind=array', 'elem=plain12', 'maxlen=3', cflags=WRAP),
      S('list-plain3', 'base', 'prop=C12', 'kind=list', 'elem=plain', 'maxlen=3'),
      S('list-plain12-3', 'base', 'prop=C12', 'kind=list', 'elem=plain12', 'maxlen=3'),
      S('array-plain3-asan', 'asan', 'prop=C12', 'kind=array', 'elem=plain', 'maxlen=3'),
      S('array3-asan', 'asan', 'prop=C12', 'kind=array', 'maxlen=3'),
      S('list3-asan', 'asan', 'prop=C12', 'kind=list', 'maxlen=3'),
      S('tuple3-asan', 'asan', 'prop=C12', 'kind=tuple', 'maxlen=3'),
    ],
    'thorough': [
      S('array7', 'base', 'prop=C12', 'kind=array', 'maxlen=7', cflags=WRAP),
      S('list7', 'base', 'prop=C12', 'kind=list', 'maxlen=7', cflags=WRAP),
      S('tuple7', 'base', 'prop=C12', 'kind=tuple', 'maxlen=7', cflags=WRAP),
      S('array-picky5', 'base', 'prop=C12', 'kind=array', 'elem=picky', 'maxlen=5'),
      S('list-picky5', 'base', 'prop=C12', 'kind=list', 'elem=picky', 'maxlen=5'),
      S('array-picky4-asan', 'asan', 'prop=C12', 'kind=array', 'elem=picky', 'maxlen=4'),
      S('array-probe5', 'base', 'prop=C12', 'kind=array', 'elem=probe', 'maxlen=5'),
      S('list-probe5', 'base', 'prop=C12', 'kind=list', 'elem=probe', 'maxlen=5'),
      S('array-plain5', 'base', 'prop=C12', 'kind=array', 'elem=plain', 'maxlen=5', cflags=WRAP),
      S('array-plain12-5', 'base', 'prop=C12', 'kind=array', 'elem=plain12', 'maxlen=5', cflags=WRAP),
      S('list-plain5', 'base', 'prop=C12', 'kind=list', 'elem=plain', 'maxlen=5'),
      S('list-plain12-5', 'base', 'prop=C12', 'kind=list', 'elem=plain12', 'maxlen=5'),
      S('array-plain4-asan', 'asan', 'prop=C12', 'kind=array', 'elem=plain', 'maxlen=4'),
      S('array-plain12-4-asan', 'asan', 'prop=C12', 'kind=array', 'elem=plain12', 'maxlen=4'),
      S('list-plain12-4-asan', 'asan', 'prop=C12', 'kind=list', 'elem=plain12', 'maxlen=4'),
      S('array5-asan', 'asan', 'prop=C12', 'kind=array', 'maxlen=5'),
      S('list5-asan', 'asan', 'prop=C12', 'kind=list', 'maxlen=5'),
      S('tuple5-asan', 'asan', 'prop=C12', 'kind=tuple', 'maxlen=5'),
      S('list-probe4-asan', 'asan', 'prop=C12', 'kind=list', 'elem=probe', 'maxlen=4'),
    ],
  },
}

# Opt-in instances, NOT collected by checks/_agg.py: concat with a source that holds an accepted element followed by one
# the element type refuses.  Pinned tree: Array counts a never-constructed slot (label .../unconstructed-element-counted,
# repaired by proposed/seq-alias-concat-self.patch); both kinds keep the accepted prefix (label .../partially-appended,
# proposed known finding).  See proposed/seq-alias-concat-self.md.
OPTIN = {
  'C05': [
    S('array-picky-concat', 'base', 'prop=C05', 'kind=array', 'elem=picky', 'maxlen=3', 'poisonconcat=1'),
    S('list-picky-concat', 'base', 'prop=C05', 'kind=list', 'elem=picky', 'maxlen=3', 'poisonconcat=1'),
  ],
  'C12': [
    S('array-picky-concat', 'base', 'prop=C12', 'kind=array', 'elem=picky', 'maxlen=3', 'poisonconcat=1'),
    S('list-picky-concat', 'base', 'prop=C12', 'kind=list', 'elem=picky', 'maxlen=3', 'poisonconcat=1'),
  ],
}

# the concat-with-a-refused-source-element instances run by default; what remains after the concat repair (67f5339) is the
# known finding "concat is not atomic" (label */picky/concat/refused-element-in-source/partially-appended)
for _pid in ('C05', 'C12'):
    for _tier in ('quick', 'thorough'):
        PARTS[_pid][_tier] = PARTS[_pid][_tier] + OPTIN[_pid]
