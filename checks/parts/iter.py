# h_iter.c contributions to properties aggregated from several harnesses.
# C12: a refused operation in the middle of an iteration (phase=midop) - every iterable kind, both directions, every position:
# the documented exception is raised and the iteration in progress (held item, remaining items, count) and len are left exactly as they were.
def I(name, variant, *args, **kw):
    d = dict(name=name, harness='h_iter.c', variant=variant, args=list(args))
    d.update(kw)
    return d

PARTS = {
  'C12': {
    'quick': [I('iter-midop', 'base', 'phase=midop', 'rangeneg=1', 'zipget=1', 'sliceget=1'), I('iter-midop-asan', 'asan', 'phase=midop', 'rangeneg=1', 'zipget=1', 'sliceget=1')],
    'thorough': [I('iter-midop', 'base', 'phase=midop', 'rangeneg=1', 'zipget=1', 'sliceget=1'), I('iter-midop-asan', 'asan', 'phase=midop', 'rangeneg=1', 'zipget=1', 'sliceget=1')],
  },
}
