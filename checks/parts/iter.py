# h_iter.c contributions to properties aggregated from several harnesses.
# C12: a refused operation in the middle of an iteration (phase=midop) - every iterable kind, both directions, every position:
# the documented exception is raised and the iteration in progress (held item, remaining items, count) and len are left exactly as they were.
# part=shrunk: the same for views (Slice, Slice of Slice, Zip / Map / Filter over a Slice) whose underlying container was shortened or lengthened after the view was built,
# so that an index inside the Slice's own window is refused by the container: get(target, i) for every target, position and index, refused or accepted, leaves the walk as it is without the call
# (differential: compared with the undisturbed walk of the same view over the same container).
def I(name, variant, *args, **kw):
    d = dict(name=name, harness='h_iter.c', variant=variant, args=list(args))
    d.update(kw)
    return d

PARTS = {
  'C12': {
    'quick': [I('iter-midop', 'base', 'phase=midop', 'part=classic', 'rangeneg=1', 'zipget=1', 'sliceget=1'), I('iter-midop-asan', 'asan', 'phase=midop', 'part=classic', 'rangeneg=1', 'zipget=1', 'sliceget=1'),
              I('iter-midop-shrunk', 'base', 'phase=midop', 'part=shrunk'), I('iter-midop-shrunk-asan', 'asan', 'phase=midop', 'part=shrunk', 'sparams=2')],
    'thorough': [I('iter-midop', 'base', 'phase=midop', 'part=classic', 'rangeneg=1', 'zipget=1', 'sliceget=1'), I('iter-midop-asan', 'asan', 'phase=midop', 'part=classic', 'rangeneg=1', 'zipget=1', 'sliceget=1')]
              + [I('iter-midop-shrunk-%s' % k, 'base', 'phase=midop', 'part=shrunk', 'kinds=' + k, 'smin=2', 'smax=7', 'sparams=16', 'sidx=2') for k in ('array', 'list', 'htuple', 'table', 'tree')]
              + [I('iter-midop-shrunk-asan-%s' % k, 'asan', 'phase=midop', 'part=shrunk', 'kinds=' + k, 'smin=2', 'smax=6', 'sparams=16', 'sidx=2') for k in ('array', 'list', 'htuple', 'table', 'tree')],
  },
}
