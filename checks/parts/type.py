# Instances of harness/h_type.c for properties shared with other harnesses (aggregated by checks/C12.py).
#
# C12 at the dispatch level: "an unimplemented class or member is reported by raising ClassError ... the object
# operated on is left exactly as it was".
#   type-fail-cells  the C08 matrix restricted to the cells the type cannot answer (class absent / member empty),
#                    71 types x 30 classes x members x 13 entry points; each cell twice from the cold type and once
#                    after every OTHER class has been looked up (all cache slots and memos warm): method lookups must
#                    raise ClassError, the query forms must answer none/false; nothing is invoked.
#                    pairs=1: for every (type, class) implemented only in part (String/Range/Slice/Zip/Map/Filter/GC Get,
#                    Tuple/Map Iter, Show without look, ...) the back-to-back sequences  present ; empty  /  empty ; present ;
#                    empty  /  present ; same class on the type object ; empty  /  p p e p e  /  through the other entry
#                    point  /  implements_method interleaved - inside ONE try block, nothing else called in between.
#   type-rt-partial  run-time types with partly filled instances (variant 1: first member empty; run-time classes with an
#                    empty m1): per class all members through method / type_method one after the other (mode=rt, n=1,2).
#   type-api         the public functions that dispatch through method() - len push push_at pop pop_at get set mem
#                    rem key_type val_type c_int c_float c_str iter_* call_with sopen..swrite lock unlock trylock
#                    current ref deref sort sort_by resize concat append format_to format_from look_from start stop
#                    join running - on a blank object of every exported type that lacks the class or leaves the
#                    member empty, in three cache states (cold; after instance()/type_implements() of every other
#                    class; additionally after a real current(T) for the types that have it): ClassError, object
#                    bytes unchanged.  Then such objects offered to Array/List of Int/Float/String and Table/Tree
#                    (Int->Float, String->Int) as element, key or value (push, push_at, set, append, mem, rem, get):
#                    insertions must raise (ClassError/TypeError/ValueError), queries must not claim success, and
#                    the container still has its two items with their values.
#                    Real objects of partly implemented classes, two or three public calls in ONE try block: mem then get/
#                    set on a String, iter_init then iter_type on a Tuple, get then set / mem then rem on a Range and a Slice:
#                    ClassError exactly at the missing member, objects unchanged.
#                    Also objects that cannot be iterated (blank objects of the exported types without Iter whose own
#                    methods the loops cannot reach; a real Int, Float, String, closed File, Function and an object of a
#                    run-time type) given to foreach and to assign / concat / eq / cmp of Array, List, Tuple, Table, Tree:
#                    ClassError (TypeError/ValueError), the loop body never runs, the receiver keeps its two items.
#   type-null        NULL as the receiver of each of the 81 public functions of Cello.h that take object arguments, and
#                    NULL in every further object position with a valid receiver of every kind (Array/List of Int,
#                    Table/Tree Int->Int, heap String, Int, Float, Ref, Box, Tuple, Range, closed File, Mutex, Function)
#                    whose type implements the class: an exception from the accept set must be raised, unless the
#                    decision table in h_type.c (null_decision, one commented line per exception) says NULL is a value
#                    there; never a signal / sanitizer report / hang; the receiver reads the same afterwards and one
#                    further valid operation works.  Cases recorded as library defects (proposed/C12-null-arguments.md)
#                    are skipped unless NULL_DEFECTS is switched on below - do that once the patch is in /repo.
NULL_DEFECTS = ['defects=1']   # the five NULL-argument defects are repaired in /repo (d2572d0, 319d06b, 2ccdb83, a9595a3, b9e20f4)

def T(name, variant, *args, **kw):
    d = dict(name='type-' + name, harness='h_type.c', variant=variant, args=list(args))
    d.update(kw)
    return d

PARTS = {
  # C09: cmp/eq/neq/lt/gt/le/ge/hash over all ordered pairs (and transitivity over all triples) of 148 type objects:
  # the 71 exported ones plus statically declared and run-time types whose NAMES are prefixes of one another
  # (E/E1/E10/E100/E1000, Net/NetE/NetError/NetErrorT/NetErrorTimeout, P/Pr/Pri/Print, Typ/Type, In/Int/Int64) or agree
  # for a long time: three statically declared Telemetry_Pipeline_Stage_Ingest_Frame[_Decoder|_Encoder] and 52 run-time
  # types of length 31/32/33/40/64/100 with the first difference at byte 30/31/32/33/63/64/99, the unmodified prefixes of
  # those lengths, and two 255-byte names differing in the last byte (148 type objects, 21904 pairs, 3.2e6 triples):
  # antisymmetry, agreement with the order of the names, predicates == cmp, eq => equal hash, hash == hash of the name; plus
  # 36 cases in which the storage of a run-time type's name is reused (one buffer rewritten after / before the type is deleted,
  # a String block handed out again by malloc) and the new type is hashed first.
  'C09': {
    'quick': [T('typecmp', 'base', 'mode=typecmp'), T('typecmp-asan', 'asan', 'mode=typecmp', 'count=0')],
    'thorough': [T('typecmp', 'base', 'mode=typecmp'), T('typecmp-asan', 'asan', 'mode=typecmp', 'count=0')],
  },
  # C10 ("equal values hash equally"): the same grid - eq of two type objects implies equal hashes, hash(type) is the hash of
  # its name, also right after the storage of a run-time type's name was rewritten / recycled (the library keeps the pointer)
  'C10': {
    'quick': [T('typehash', 'base', 'mode=typecmp'), T('typehash-asan', 'asan', 'mode=typecmp', 'count=0')],
    'thorough': [T('typehash', 'base', 'mode=typecmp'), T('typehash-asan', 'asan', 'mode=typecmp', 'count=0')],
  },
  'C12': {
    'quick': [
      T('fail-cells', 'base', 'mode=matrix', 'only=fail', 'warm=1', 'pairs=1'),
      T('api', 'base', 'mode=api'),
      T('fail-cells-asan', 'asan', 'mode=matrix', 'only=fail', 'warm=1', 'pairs=1', 'count=0'),
      T('rt-partial', 'base', 'mode=rt', 'ns=1,2', 'pool=8', 'variants=2', 'count=0'),
      T('api-asan', 'asan', 'mode=api', 'count=0'),
      T('null', 'base', 'mode=null', *NULL_DEFECTS),
      T('null-asan', 'asan', 'mode=null', 'count=0', *NULL_DEFECTS),
    ],
    'thorough': [
      T('fail-cells', 'base', 'mode=matrix', 'only=fail', 'warm=1', 'pairs=1'),
      T('api', 'base', 'mode=api'),
      T('fail-cells-asan', 'asan', 'mode=matrix', 'only=fail', 'warm=1', 'pairs=1', 'count=0'),
      T('rt-partial', 'base', 'mode=rt', 'ns=1,2', 'pool=8', 'variants=2', 'count=0'),
      T('api-asan', 'asan', 'mode=api', 'count=0'),
      T('null', 'base', 'mode=null', *NULL_DEFECTS),
      T('null-asan', 'asan', 'mode=null', 'count=0', *NULL_DEFECTS),
    ],
  },
}
