# C12 instances served by harness/h_string.c: the C16 state graph with the failing
# operations added as self-loops in every state (each followed, because the BFS goes on
# from the same state, by every valid operation):
#   rem of an absent substring        -> unchanged; exception optional, ValueError|KeyError
#   assign/concat/append/rem/mem NULL -> ValueError, unchanged
#   assign/concat/append of an Int    -> ClassError|ValueError|TypeError (no C_Str), unchanged
#   rem/mem of an Int                 -> unchanged (mem false); exception optional
#   get/set (String implements neither) -> ClassError, unchanged
#   print_to(s, len, "%s") without an argument -> FormatError, unchanged
# plus mode=stack: print_to / show_to / format_to / assign / concat / append / resize with a stack String
# ($S over a writable char array holding "0123456789", "abc" or "") as the receiver, at pos 0 / mid / end, with
# outputs shorter than, equal to and longer than the current content -> ValueError, every byte of the array unchanged

def T(name, variant, *args, **kw):
    d = dict(name=name, harness='h_string.c', variant=variant, args=list(args) + ['prop=C12'])
    if variant == 'asan':
        # one line per UBSan report instead of a symbolised stack (the crash-probe children would spend ~70 ms on each)
        d['env'] = {'UBSAN_OPTIONS': 'print_stacktrace=0'}
    d.update(kw)
    return d

PARTS = {
  'C12': {
    'quick': [
      T('string-ab5', 'base', 'alpha=2', 'maxlen=5'),
      T('string-ab4-asan', 'asan', 'alpha=2', 'maxlen=4'),
      # stack Strings ($S over a writable array) as receivers: every write refused with ValueError, array unchanged
      T('string-stack', 'base', 'mode=stack'),
      T('string-stack-asan', 'asan', 'mode=stack'),
    ],
    'thorough': [
      T('string-abc5', 'base', 'alpha=3', 'maxlen=5'),
      T('string-ab5-asan', 'asan', 'alpha=2', 'maxlen=5'),
      T('string-stack', 'base', 'mode=stack'),
      T('string-stack-asan', 'asan', 'mode=stack'),
    ],
  },
}
