def R(name, variant, *args, **kw):
    d = dict(name=name, harness='h_gcreach.c', variant=variant, args=list(args))
    d.update(kw)
    return d

def shapes(prefix, variant, n, kinds, roots, nparts, collect):
    return [R('%s-%s-p%d' % (prefix, collect, p), variant, 'mode=shapes', 'n=%d' % n, 'kinds=' + kinds, 'roots=' + roots,
              'collect=' + collect, 'part=%d/%d' % (p, nparts)) for p in range(nparts)]

CHECK = {
  'id': 'C01',
  'level': 'model_checking',
  'rule': ('every directed graph (self-loops, cycles, sharing) on n nodes x every assignment of node representations '
           '{plain struct, Ref, Box, Array<Ref>, List<Ref>, Table<Ref,Ref>, Tree<Ref,Ref>, heap Tuple, and Tree/Table with a 4-byte tag type on one side and Ref on the other, Array/List/Tree holding plain structs inline whose fields are the references, Array/List/Table/Tree constructed with Int types and then given the contents of a container of Refs by assign(), a plain struct with reference fields whose type also implements C_Int/C_Float/C_Str/Cmp/Hash/Show} x every assignment of a root kind per node '
           '{none, stack slot, new_root, root-registered Ref holder, thread-local entry, callee-saved register (r12; gcc -O0 library)} x {forced, threshold-triggered} collection x two allocation orders is built on the real heap '
           'under a fresh collector; after the collection every node the shadow graph reaches from the declared roots must still be registered and read back intact. '
           'states = distinct shapes, transitions = executions. distinct_nontrivial = executions in which some but not all nodes are reachable. '
           'Collections inside element callbacks (mode=callbacks): a rooted Array/List/Table/Tree whose elements (or keys, or values) have their own constructor, assignment and destructor and each hold the only reference to a leaf; every operation of the kind (pop, pop_at, rem, push, push_at, set, resize, concat, assign, copy) at every position is run once per element callback it makes with a forced collection inside that callback, so the collector sees every intermediate state of the container; afterwards every leaf of a still-contained element must be registered and intact. '
           'Plus container size ladders (every rehash/realloc boundary, grow and shrink) and chain lengths 10^2..10^5/10^6 in forked children. '
           'Histories (allocations, links, deletions, collections in every order) are explored by the C17/C06 state graph, whose oracle also rejects a reclaimed reachable object.'),
  'bounds': {
    'quick': 'n=2 all 8 basic representations x 5 root kinds (both collection modes); n=2 over the 7 mixed-size/inline-struct representations x {none, stack, thread-local/new_root}; n=3 over {plain, Tree<tag,Ref>, Tree<Ref,tag>, Table<Ref,tag>}; n=3 over {plain, Box, Table} x {none, stack, thread-local}; ladders 0..102 children; chains to 10^5 links',
    'thorough': 'n=2 and n=3 complete (all 8 representations x all 5 root kinds, forced collection; threshold collection over 5 representations); n=4 over {plain}, {plain, Tuple} and {plain, Box}; register roots n=2, n=3; ladders; chains to 10^6 links',
  },
  'assumptions': [
    'reclamation of unreachable nodes is only counted (unreachable_reclaimed), never demanded',
    'register roots: one node held only in r12 (GNU global register variable) against the library built -O0, so that only the collector\'s own register flush can bring it into the scanned range; other callee-saved registers are assumed to behave like r12',
    'a Box owns its target: shapes where a Box target has another referrer or its own root are out of contract and skipped',
    'fresh collector per execution created exactly as Thread_Init_Run does; GC.c compiled into the harness for struct GC / GC_Mark / GC_Sweep',
  ],
  'instances': {
    'quick': (shapes('n2', 'base', 2, 'prbaltTu', '-snrt', 1, 'forced') + shapes('n2', 'base', 2, 'prbaltTu', '-snrt', 1, 'threshold')
              + shapes('n2asan', 'asan', 2, 'prbtu', '-snt', 1, 'forced')
              + shapes('n3', 'base', 3, 'pbt', '-st', 4, 'forced') + shapes('n3', 'base', 3, 'pbt', '-st', 4, 'threshold')
              + shapes('n2reg', 'cfg-gcc-O0', 2, 'prbaltTu', '-g', 1, 'forced') + shapes('n2reg', 'cfg-gcc-O0', 2, 'prbaltTu', '-g', 1, 'threshold')
              + shapes('n2small', 'base', 2, 'pSVHhALP', '-st', 1, 'forced') + shapes('n2small', 'base', 2, 'prSVHhALP', '-sn', 1, 'threshold')
              + shapes('n2smallasan', 'asan', 2, 'pSVHhALP', '-s', 1, 'forced') + shapes('n3small', 'base', 3, 'pSVh', '-s', 4, 'forced')
              + shapes('n2conv', 'base', 2, 'prXQqCc', '-st', 1, 'forced') + shapes('n2conv', 'base', 2, 'pXQqCc', '-sn', 1, 'threshold') + shapes('n3X', 'base', 3, 'pXb', '-st', 4, 'forced') + shapes('n2N', 'base', 2, 'pNu', '-sn', 1, 'forced') + shapes('n2N', 'base', 2, 'pN', '-sn', 1, 'threshold') + shapes('n2convasan', 'asan', 2, 'pQqCc', '-s', 1, 'forced')
              + [R('callbacks', 'base', 'mode=callbacks', 'maxn=4'), R('callbacks-asan', 'asan', 'mode=callbacks', 'maxn=3')]
              + [R('ladder', 'base', 'mode=ladder'), R('ladder-asan', 'asan', 'mode=ladder'), R('chain', 'base', 'mode=chain', 'maxlen=100000')]),
    'thorough': (shapes('n2', 'base', 2, 'prbaltTu', '-snrt', 1, 'forced') + shapes('n2', 'base', 2, 'prbaltTu', '-snrt', 1, 'threshold')
              + shapes('n2asan', 'asan', 2, 'prbaltTu', '-snrt', 2, 'forced')
              + shapes('n3all', 'base', 3, 'prbaltTu', '-snrt', 16, 'forced') + shapes('n3thr', 'base', 3, 'prbtu', '-st', 4, 'threshold')
              + shapes('n4plain', 'base', 4, 'p', '-s', 1, 'forced') + shapes('n4pu', 'base', 4, 'pu', '-s', 8, 'forced') + shapes('n4pb', 'base', 4, 'pb', '-st', 8, 'threshold')
              + shapes('n2reg', 'cfg-gcc-O0', 2, 'prbaltTu', '-gs', 1, 'forced') + shapes('n2reg', 'cfg-gcc-O0', 2, 'prbaltTu', '-gs', 1, 'threshold') + shapes('n3reg', 'cfg-gcc-O0', 3, 'pbtu', '-g', 2, 'forced')
              + shapes('n2small', 'base', 2, 'prbSVHhALP', '-snrt', 2, 'forced') + shapes('n2small', 'base', 2, 'prbSVHhALP', '-snrt', 2, 'threshold')
              + shapes('n2smallasan', 'asan', 2, 'pSVHhALP', '-snrt', 2, 'forced') + shapes('n3small', 'base', 3, 'pSVHhALP', '-s', 16, 'forced')
              + shapes('n3smallthr', 'base', 3, 'pSHAP', '-st', 8, 'threshold')
              + shapes('n2conv', 'base', 2, 'prbXQqCc', '-snrt', 2, 'forced') + shapes('n2conv', 'base', 2, 'prbXQqCc', '-snrt', 2, 'threshold') + shapes('n3X', 'base', 3, 'pXbtu', '-st', 8, 'forced') + shapes('n3N', 'base', 3, 'pNu', '-snt', 8, 'forced') + shapes('n2N', 'base', 2, 'pNub', '-snrt', 2, 'threshold') + shapes('n3conv', 'base', 3, 'pQqCc', '-s', 8, 'forced') + shapes('n2convasan', 'asan', 2, 'pQqCc', '-snrt', 1, 'forced')
              + [R('callbacks', 'base', 'mode=callbacks', 'maxn=7'), R('callbacks-asan', 'asan', 'mode=callbacks', 'maxn=6')]
              + [R('ladder', 'base', 'mode=ladder'), R('ladder-asan', 'asan', 'mode=ladder'), R('chain', 'base', 'mode=chain', 'maxlen=1000000', timeout=3000)]),
  },
}
