def T(name, variant, *args, **kw):
    d = dict(name=name, harness='h_table.c', variant=variant, args=list(args))
    d.update(kw)
    return d

CHECK = {
  'id': 'C02',
  'level': 'model_checking',
  'rule': ('explicit-state BFS to fixpoint over histories of set/rem/resize/copy/assign on one real Table whose keys are '
           'forced to collide modulo 5 and 11 (and wrap around the last slot); a state is the concrete slot layout; every state is '
           're-entered by replaying its shortest history on a fresh table; distinct_nontrivial = states in which at least one entry '
           'is displaced from its home slot; "light" instances: the per-state oracle reads the slots through the white-box view only and get/mem are explicit operations, the key last asked for and the slot it sat in at that moment are part of the state key, so no library call of the oracle comes between two operations and get(k1) ; set(k2) ; get(k1) is a path of its own (hidden cursors, memos and scratch state survive from one operation to the next); ladders cover size classes 23..197 with enumerated insertion/removal orders'),
  'bounds': {
    'quick': 'Int keys: 6-key universe to fixpoint (gcc) and 5-key (ASan+UBSan); String keys: 5-key universe; Probe values 5 keys; ladders to 120 keys x 8 strides x 16 order pairs; *-sfx1 instances: the same alphabet with the last operation of the history in the state key (small universes)',
    'thorough': 'Int keys: 8-key universe (global deadline 14 min; the evidence says whether the fixpoint was reached), 7-key under ASan; String keys 7; ladders to 220 keys; *-sfx1 / *-sfx2 instances: the last one / two operations of the history in the state key',
  },
  'assumptions': [
    'values outside the key universe are represented by the universe (keys are chosen to collide; behaviour depends on keys only through hash and eq)',
    'white-box view obtained by compiling the repository\'s own Table.c into the harness',
    'gcc/clang, glibc and the sanitizer run-times are trusted',
  ],
  'instances': {
    'quick': [
      T('int6', 'base', 'keys=int', 'nkeys=6'),
      T('int5-asan', 'asan', 'keys=int', 'nkeys=5'),
      T('str5', 'base', 'keys=str', 'nkeys=5'),
      T('str4-asan', 'asan', 'keys=str', 'nkeys=4'),
      T('probe5', 'base', 'keys=probe', 'vals=probe', 'nkeys=5'),
      T('intprobe5', 'base', 'keys=int', 'vals=probe', 'nkeys=5'), T('probeint4-asan', 'asan', 'keys=probe', 'vals=int', 'nkeys=4'),
      T('probe4-two', 'base', 'keys=probe', 'vals=probe', 'nkeys=4', 'two=1', 'depth=6'), T('str3-two-asan', 'asan', 'keys=str', 'nkeys=3', 'two=1', 'depth=5'),
      # history feature in the state key: the largest slot count A went through (derived fields surviving an assign / shrink)
      T('int3-two-hw', 'base', 'keys=int', 'nkeys=3', 'two=1', 'hwkey=1', 'depth=6'),
      # the last operation of the history as part of the state key (lib/vf_bfs.h suffix=K): hidden state the harness does not know about
      T('int3-two-sfx1', 'base', 'keys=int', 'nkeys=3', 'two=1', 'suffix=1', 'depth=6'),
      T('int4-light', 'base', 'keys=int', 'nkeys=4', 'light=1'), T('str4-light', 'base', 'keys=str', 'nkeys=4', 'light=1', 'alias=0'),
      T('probe4-light-asan', 'asan', 'keys=probe', 'vals=probe', 'nkeys=4', 'light=1', 'alias=0'),
      T('ladder', 'base', 'mode=ladder', 'ladder_n=120'),
      T('ladder-asan', 'asan', 'mode=ladder', 'ladder_n=60'),
    ],
    'thorough': [
      T('int8', 'base', 'keys=int', 'nkeys=8', 'deadline=840'),
      T('int7-asan', 'asan', 'keys=int', 'nkeys=7'),
      T('str7', 'base', 'keys=str', 'nkeys=7'),
      T('str5-asan', 'asan', 'keys=str', 'nkeys=5'),
      T('probe7', 'base', 'keys=probe', 'vals=probe', 'nkeys=7'),
      T('intprobe7', 'base', 'keys=int', 'vals=probe', 'nkeys=7'), T('probeint6-asan', 'asan', 'keys=probe', 'vals=int', 'nkeys=6'),
      T('probe4-two', 'base', 'keys=probe', 'vals=probe', 'nkeys=4', 'two=1', 'depth=9'), T('str4-two-asan', 'asan', 'keys=str', 'nkeys=4', 'two=1', 'depth=7'),
      T('int3-two-sfx2', 'base', 'keys=int', 'nkeys=3', 'two=1', 'suffix=2', 'depth=6'), T('str3-two-sfx1-asan', 'asan', 'keys=str', 'nkeys=3', 'two=1', 'suffix=1', 'depth=6'),
      T('int4-two-sfx1-d7', 'base', 'keys=int', 'nkeys=4', 'two=1', 'suffix=1', 'depth=7'), T('int5-light-sfx1-d7', 'base', 'keys=int', 'nkeys=5', 'suffix=1', 'light=1', 'depth=7'),
      T('int4-two-hw', 'base', 'keys=int', 'nkeys=4', 'two=1', 'hwkey=1', 'depth=8'), T('probe3-two-hw-asan', 'asan', 'keys=probe', 'vals=probe', 'nkeys=3', 'two=1', 'hwkey=1', 'depth=7'),
      T('int5-light', 'base', 'keys=int', 'nkeys=5', 'light=1'), T('int6-light', 'base', 'keys=int', 'nkeys=6', 'light=1', 'alias=0', 'deadline=800'), T('str5-light', 'base', 'keys=str', 'nkeys=5', 'light=1', 'alias=0'),
      T('probe4-light-asan', 'asan', 'keys=probe', 'vals=probe', 'nkeys=4', 'light=1'),
      T('ladder', 'base', 'mode=ladder', 'ladder_n=220'),
      T('ladder-asan', 'asan', 'mode=ladder', 'ladder_n=120'),
    ],
  },
}
