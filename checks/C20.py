# C20 - File streams round-trip data and refuse use when closed (harness/h_file.c)

# stdio entry points interposed at link time (handle accounting: every call the library makes
# while an operation on the File under test runs must name the File's currently open stream)
WRAP = '-Wl,' + ','.join('--wrap=' + f for f in (
    'fopen', 'fclose', 'fread', 'fwrite', 'fseek', 'ftell', 'fflush', 'feof', 'vfprintf', 'vfscanf', '__isoc99_vfscanf'))

def T(name, variant, *args, **kw):
    d = dict(name=name, harness='h_file.c', variant=variant, args=list(args), cflags=WRAP)
    d.update(kw)
    return d

CHECK = {
  'id': 'C20',
  'level': 'model_checking',
  'rule': ('explicit-state breadth-first search over all histories up to the depth bound of a 54-operation alphabet on ONE real File '
           'object and two paths in a per-run scratch directory: sopen(path 0|1, "w+b"|"rb"|"r+b"|"ab") (also on an already open File and on '
           'the second path), sclose, stell, seof, sflush, swrite("" | "\\xff" | "\\0y\\0" | 8193-byte block holding every byte value, period 509), sread(0|1|3|8193), '
           'sseek({0,1,-1} x {SEEK_SET,SEEK_CUR,SEEK_END}), sseek(stell, SEEK_SET) (a seek that moves nowhere), print_to("%s %li;", "k" | 257 x "k", 42), scan_from of such a record, '
           'with(f in file){ nothing | sclose | stell | swrite | sread | print_to | sopen }, del followed by new_raw(File) / new(File) / '
           'new_raw(File,path,mode) / a stack-allocated File (released with destruct only), destruct(file) with the object kept (it is then a File that is '
           'not open), construct(file,path,mode) on the existing object, nested with blocks (with(file){with(mutex){swrite}}, with(mutex){with(file){swrite}}, '
           'with(file){with(second File on the other path){swrite}}, with(file){call of a function that runs with(mutex){swrite} and returns / throws}: every block '
           'stops its own object - each stream closed exactly once, Mutex unlocked, sclose afterwards raises IOError), and one environment operation: another stream appends a byte to the file the File has open (only while the File '
           'has no pending output).  Every history runs on the real File, on a twin plain FILE* (same stdio calls, same order, own files) and on a '
           'byte-array reference model; the state key is the model: bytes of both files, open flag, path, mode, position, eof flag, direction of '
           'the last transfer, refined by glibc\'s bookkeeping of the real stream (flags, buffer offsets) whenever that differs from the twin stream\'s - '
           'never a verdict, it only keeps a real stream that has silently departed from the model from being merged with the model state; states are re-entered by replaying their shortest history on freshly removed files.  Compared on every execution: '
           'bytes returned by every complete sread and the values scanned by scan_from against the bytes written (model) and the twin; return '
           'counts (item count of the twin or byte count); seof and stell against feof and ftell of the twin after EVERY transition that leaves the File open, stell must raise IOError without any stdio '
           'call after EVERY transition that leaves it not open (and as operations of '
           'their own); on-disk contents of the real files against '
           'model and twin files after every close (sclose, re-open, del, leaving a with block, end of history); IOError and no stdio call for '
           'every operation on a File that is not open; link-time interposed fopen/fclose/fread/fwrite/fseek/ftell/fflush/feof/vfprintf/vfscanf: '
           'never a NULL or stale handle, fclose exactly once per successful fopen, one open stream iff the File is open.  Operations that ISO C '
           'leaves undefined (input directly after output and output directly after input that did not reach end-of-file, without a flush or '
           'seek) and reads while the end-of-file indicator is set although the file has grown are not enabled; reads on "ab", writes on "rb", seeks before the start and fopen of a missing file are C-library-defined '
           'failures: only agreement with the twin afterwards is required.  distinct_nontrivial = states whose discovering transition read back '
           'at least one previously written byte correctly (sread / scan_from) or closed a non-empty file whose on-disk bytes were compared.  '
           'Ladder instances: print_to of one N-character %s conversion followed by %li (N = 0..300, 511..513, 1023..1025, 4095..4097, 5000, 8191..8193, '
           '20000) on "w+b" / after re-opening "rb" / twice on "ab", read back with sread and scan_from, compared with the text printed, fprintf/fread/'
           'fscanf on the twin and the twin file on disk; then the byte sweep: a 256-byte block holding every byte value once (0xFF last / 0xFF first) '
           'written with one swrite or 256 single-byte swrites and read back with sread(f,&b,1) x 257 (result, byte, seof, stell after every byte), then '
           '2-, 3- and 255-byte reads at each offset around the 0xFF byte, on a regular file, the same re-opened "rb", tmpfile(), fmemopen() and a pipe, '
           'each against the same kind of stream driven with plain stdio; then the write-size ladder: ONE swrite of n bytes of that pattern, n in {1, 2, 255, 256, 512, 1024, '
           '4095, 4096, 4097, 8192, BUFSIZ-1, BUFSIZ, BUFSIZ+1, 2*BUFSIZ-1, 2*BUFSIZ, 2*BUFSIZ+1, 3*BUFSIZ, 65536, 65537}, alone and after a 1-byte write, on the same '
           'five backends (pipe up to 32768): result, stell/seof, sflush, size and content on disk, one sread(n), the read at end-of-file, sread(m) for every '
           'ladder size m <= n, sclose, disk again.  BFS instances named *-bufsiz / d6-full use a BUFSIZ-byte big block instead of 8193'),
  'bounds': {
    'quick': 'all histories of depth <= 5 over the full 54-operation alphabet (gcc build); depth <= 4 under ASan+UBSan; print ladder N = 0..300 and 14 larger sizes up to 20000 x 3 variants, byte sweep 5 backends x 2 layouts x 2 write chunkings, write-size ladder 19 sizes x 2 alignments x 5 backends (gcc and ASan); depth <= 4 also with a BUFSIZ-byte big block; *-sfx1 instances: the same alphabet with the last operation of the history in the state key (small universes)',
    'thorough': 'all histories of depth <= 7 over 53 operations (all but the 257-character print_to) and of depth <= 6 over the full 54-operation alphabet (gcc build); depth <= 6 under ASan+UBSan; the same print ladder, byte sweep and write-size ladder; the depth-6 gcc instance uses a BUFSIZ-byte big block, the others 8193; *-sfx1 / *-sfx2 instances: the last one / two operations of the history in the state key',
  },
  'assumptions': [
    'glibc stdio is the reference for the twin stream; a disagreement between the twin and the harness\'s own byte-array model is reported as a harness error (exit 2), never as a verdict',
    'file contents enter the state key literally up to 24 bytes and as length + 64-bit FNV-1a digest beyond (a digest collision could only merge two states, i.e. lose coverage, never raise an alarm)',
    'chunk sizes 0, 1, 3 and 8193 (two stdio buffers + 1) and offsets 0, +1, -1 represent "all chunkings / all offsets"; files reach 7 x 8193 bytes at the thorough bound',
    'fclose failing (full device) and popen-based Process streams are outside the explored space',
    'scratch files live in /dev/shm (tmpfs); gcc/clang and the sanitizer run-times are trusted',
  ],
  'instances': {
    'quick': [
      # history suffix in the state key (lib/vf_bfs.h suffix=K): the last K operations keep histories apart that end in one visible state
      T('d4-sfx1', 'base', 'depth=4', 'suffix=1'),
      T('d5', 'base', 'depth=5'),
      T('d4-asan', 'asan', 'depth=4'),
      T('d4-bufsiz', 'base', 'depth=4', 'big=bufsiz'),
      T('ladder', 'base', 'mode=ladder'),
      T('ladder-asan', 'asan', 'mode=ladder'),
    ],
    'thorough': [
      # history suffix in the state key (lib/vf_bfs.h suffix=K): the last K operations keep histories apart that end in one visible state
      T('d5-sfx1', 'base', 'depth=5', 'suffix=1', 'bigprint=0'),
      T('d7', 'base', 'depth=7', 'bigprint=0'),
      T('d6-full', 'base', 'depth=6', 'big=bufsiz'),
      T('d6-asan', 'asan', 'depth=6'),
      T('ladder', 'base', 'mode=ladder'),
      T('ladder-asan', 'asan', 'mode=ladder'),
    ],
  },
}
