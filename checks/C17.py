def G(name, variant, *args, **kw):
    d = dict(name=name, harness='h_gc.c', variant=variant, args=list(args))
    d.update(kw)
    return d

CHECK = {
  'id': 'C17',
  'level': 'model_checking',
  'rule': ('explicit-state BFS to fixpoint over histories of new / new_root / new_raw / del / del_root / del_raw / link / own / '
           'forced collection / fill-to-threshold on one real collector (fresh collector per execution, torn down at its end); objects live at '
           'harness-chosen arena addresses whose registry home slots collide modulo 5, 11 and 23 (two of them in the last slot: wrap-around); '
           'a state is the concrete registry layout plus the shadow ledger; distinct_nontrivial = states with at least one displaced registry entry; '
           'ladders take the registry through sizes 53..389 with colliding strides'),
  'bounds': {
    'quick': '4 arena addresses to fixpoint and 5 addresses (two of them wrapping) to depth 8 (gcc), 3 under ASan; ladders to 250 objects x 6 strides x 3 delete orders x 3 root patterns; *-sfx1 instances: the same alphabet with the last operation of the history in the state key (small universes)',
    'thorough': '5 arena addresses to fixpoint, 6 addresses under a global deadline of 14 min (the evidence says whether the fixpoint was reached), 4 under ASan to fixpoint; ladders to 300 objects; *-sfx1 / *-sfx2 instances: the last one / two operations of the history in the state key',
  },
  'assumptions': [
    'reclamation is observed through the destructor ledger, never predicted (conservative collection may retain)',
    'white-box view obtained by compiling the repository\'s own GC.c into the harness; a fresh collector per execution is created exactly as Thread_Init_Run does',
    'gcc/clang, glibc and the sanitizer run-times are trusted',
  ],
  'instances': {
    'quick': [
      # history suffix in the state key (lib/vf_bfs.h suffix=K): the last K operations keep histories apart that end in one visible state
      G('addr3-sfx1', 'base', 'naddr=3', 'suffix=1'), G('addr4-sfx1-d7', 'base', 'naddr=4', 'suffix=1', 'depth=7'),
      G('addr4', 'base', 'naddr=4'),
      G('addr5-d8', 'base', 'naddr=5', 'depth=8'),
      G('addr3-asan', 'asan', 'naddr=3'),
      G('addr4-B', 'base', 'naddr=4', 'residues=B'), G('addr3-temps2', 'base', 'naddr=3', 'temps=2'), G('addr3-keep', 'base', 'naddr=3', 'keep=1'),
      G('ladder', 'base', 'mode=ladder', 'ladder_n=250'),
      G('ladder-asan', 'asan', 'mode=ladder', 'ladder_n=120'),
    ],
    'thorough': [
      # history suffix in the state key (lib/vf_bfs.h suffix=K): the last K operations keep histories apart that end in one visible state
      G('addr4-sfx1', 'base', 'naddr=4', 'suffix=1'), G('addr5-sfx1-d9', 'base', 'naddr=5', 'suffix=1', 'depth=9'), G('addr3-sfx2', 'base', 'naddr=3', 'suffix=2'),
      G('addr5', 'base', 'naddr=5'),
      G('addr6', 'base', 'naddr=6', 'deadline=840'),
      G('addr4-asan', 'asan', 'naddr=4'),
      G('addr5-B', 'base', 'naddr=5', 'residues=B'), G('addr4-temps2', 'base', 'naddr=4', 'temps=2'),
      G('ladder', 'base', 'mode=ladder', 'ladder_n=300'),
      G('ladder-asan', 'asan', 'mode=ladder', 'ladder_n=250'),
    ],
  },
}
