import os
SUPP = os.path.join(os.path.dirname(os.path.dirname(os.path.abspath(__file__))), 'lib', 'tsan.supp')
WRAP = '-Wl,--wrap=pthread_create,--wrap=pthread_join,--wrap=pthread_mutex_lock,--wrap=pthread_mutex_trylock,--wrap=pthread_mutex_unlock'

def F(scn, threads=2, runs=5, extra=()):
    return dict(name='tsan-%s-t%d%s' % (scn, threads, ''.join('-' + e for e in extra)), harness='h_thread.c', variant='tsan', args=['scn=' + scn, 'mode=free', 'threads=%d' % threads, 'runs=%d' % runs] + list(extra),
                cflags=WRAP, env={'TSAN_OPTIONS': 'halt_on_error=0 exitcode=0 report_signal_unsafe=0 suppressions=' + SUPP})

def D(kinds, iters=3000, runs=3):
    """free-running mixed dispatch: worker i works on values of kind kinds[i] (I Int, S String, F Float, P plain struct, U user type with its own Cmp).
    No suppression file: the reports inside src/Type.c are judged by the harness by the memory they are about (a type object's own lazily filled words, or anything else)"""
    return dict(name='tsan-dispatch-%s' % kinds, harness='h_thread.c', variant='tsan', args=['scn=dispatch', 'mode=free', 'threads=%d' % len(kinds), 'kinds=' + kinds, 'iters=%d' % iters, 'runs=%d' % runs],
                cflags=WRAP, env={'TSAN_OPTIONS': 'halt_on_error=0 exitcode=0 report_signal_unsafe=0'})

def S(scn, bound, threads=2, variant='hooks', **kw):
    d = dict(name='%s-t%d-b%d%s' % (scn, threads, bound, '' if variant == 'hooks' else '-' + variant), harness='h_thread.c', variant=variant,
             args=['scn=' + scn, 'bound=%d' % bound, 'threads=%d' % threads], cflags=WRAP)
    d.update(kw)
    return d

def MIX(lens, bound, first=None, ops=None):
    """mixed entry kinds on one Mutex: every tuple of programs over L (lock..unlock), T (one trylock), W (with block); thread i at most lens[i] sections"""
    a = ['scn=lockmix', 'bound=%d' % bound, 'lens=' + ','.join(str(x) for x in lens)] + (['first=' + first] if first else []) + (['ops=' + ops] if ops else [])
    return dict(name='lockmix-%s%s-b%d' % ('+'.join(str(x) for x in lens), ('-first' + first) if first else '', bound), harness='h_thread.c', variant='hooks', args=a, cflags=WRAP)

def HIST(maxlen, bound, managed=0, minlen=4):
    """thread-local storage across Thread object lifetimes: every create/call/join/delete history over two Thread slots, minlen..maxlen steps"""
    a = ['scn=tlshist', 'bound=%d' % bound, 'len=%d' % maxlen, 'minlen=%d' % minlen] + (['managed=1'] if managed else [])
    return dict(name='tlshist-%s-len%d-b%d' % ('managed' if managed else 'raw', maxlen, bound), harness='h_thread.c', variant='hooks', args=a, cflags=WRAP)

CHECK = {
  'id': 'C13',
  'level': 'model_checking',
  'rule': ('stateless model checking of the implementation: real Cello threads serialised by a token, scheduling points at the wrapped pthread operations '
           '(create, join, mutex lock/trylock/unlock), thread start/exit, the CELLO_VERIF hook sites enabled per scenario (collector set/rem/mark/sweep/finalise, '
           'exception try/throw/catch/try_end, Table set/rehash, thread run begin/end, lazy key/main-thread creation) and explicit points in the critical sections; '
           'every schedule with at most `bound` preemptions is executed in a fresh process (iterative context bounding), failing schedules are replayed twice. '
           'lockmix-*: every tuple of per-thread programs over {L lock/section/unlock, T one trylock then section/unlock if it succeeded, W with-block around the section} on one Mutex, '
           'each explored under the scheduler; judged: no thread inside a section while another is (whatever kinds of entry the two used), also across the scheduling point in the middle of every section '
           '(a with block holds the Mutex for its whole body), every L/W section runs once and no update is lost, trylock is refused only while somebody is inside, '
           'and once every section has ended the Mutex is free (a block exit released its own hold and nothing else). '
           'tlshist-*: every history of create / call / join / delete steps over two Thread slots (no thread left running, at least two calls, slot 1 only after slot 0); every run looks at '
           'its own storage (current(Thread) as key/value store) before touching it - a key may be there only if an earlier run of the same Thread object left it, with that value; a fresh Thread object '
           'holds nothing, whatever was created, run, joined or deleted before - then sets keys to values of its own and reads them back before and after a scheduling point; the main thread '
           'keeps a value under one of the same key names and never sees the keys only workers set. '
           'lazy-*: the lazily created thread-local (get; on KeyError create the object and set it) with a per-thread accumulator, while the main thread keeps an accumulator of its own under the same key: '
           'the first get of every worker raises KeyError (it never receives the main thread\'s object, whatever mem says), every worker ends with its own sum as when it runs alone, the main thread\'s value is untouched; '
           'the tlshist runs also call get on every key mem reports absent, among them the key the main thread holds. '
           'handover-*: the main thread makes objects with a counting destructor and keeps them on its stack, a child reads them and calls del() on every other one (or only reads: del=0) while the main thread allocates and collects, '
           'then the main thread joins, reads them and deletes them: each is finalised exactly once, by the main thread, and not before it lets go (the child\'s del of an object its own collector does not track does nothing). '
           'dispatch-*: every worker works on objects only it knows, all of one type of its own (I Int, S String, F Float, P plain struct without class instances, U user type with its own Cmp/Hash/Assign/Len/C_Int) and calls '
           'cmp/eq/lt/ge/hash/len/c_int/c_float/c_str/assign/cast/copy/del in rounds over an 8x8 value grid per kind; every answer is compared with the value computed in C and the digest with the same workload run before any thread exists. '
           'Under the scheduler the points are the reads and fills of the type cache entries, the class memo of Type_Scan and the lazy header fill of type_of (the points that exist inside a lookup); a lookup memo kept in statics that are '
           'read and written between two such points cannot be split by any schedule, so the free-running instances (tsan-dispatch-<kinds>, 2 to 5 workers, different kinds and the same kind) carry that part: they run without the suppression file, '
           'the value checks judge every answer, and a ThreadSanitizer report inside src/Type.c counts when the memory raced on is a named global (a file- or function-level static) rather than a type object '
           '(an anonymous compound literal, whose cache words every thread fills lazily with the same value) or a heap block. '
           'A free-running execution that ends before its scenario does (signal, sanitizer-reported fault, uncaught exception) is a violation; when the log of that very execution shows the collector-marks-table-while-owner-mutates-it race it is reported under that label. '
           'states = distinct observed outcomes, transitions = choice points executed, traces = schedules; distinct_nontrivial = schedules with at least one preemption'),
  'bounds': {
    'quick': '2 threads; preemption bound 2 for the mutex / join / thread-local / exception scenarios, bound 1 for the allocation-heavy and container scenarios and for parent-collects-while-child-runs; '
             'lockmix: 2 threads, thread 1 one or two sections, thread 2 one section, all 36 program pairs over {L,T,W} (three instances, split by the first section of thread 1), bound 2; '
             'tlshist: all 63 histories of 4..7 steps over two Thread slots, bound 1 (Thread objects made with new_raw/del_raw) and bound 1 with collector-managed Thread objects (new/del); '
             'lazy: 2 workers x 3 accumulations, bound 2; handover: 6 objects, the child deletes 3, bound 2; dispatch: 2 workers (Int, String) x 2 rounds, bound 1 (850 schedules of up to 429 points); '
             'free-running dispatch: kinds IS, ISP, FUI, III, 3000 rounds per worker, 3 executions each; free-running lazy and handover 5 executions each',
    'thorough': '2 threads bound 3 (mutex, join, abandoned mutex), bound 2 everywhere else (formatting bound 2 under a deadline of 10 min: the evidence says whether it completed; bound 1 always completes); '
                '3 threads bound 2 (mutex) / bound 1 (workloads); abandoned mutex with 3 trying threads: 3 attempts each bound 0 (every order of the yields), 2 attempts bound 1, 1 attempt bound 2; '
                'lockmix: 2 threads with up to two sections each (144 program pairs) bound 2, two+one sections bound 3, three+one sections bound 2, 3 threads with 2+1+1 sections (108 program triples) bound 2; '
                'tlshist: histories of 4..9 steps bound 1 (595 histories), 4..7 steps bound 2, collector-managed Thread objects 4..8 steps bound 1; '
                'lazy: 2 workers bound 3, 3 workers bound 2 (13 318 schedules; deadline 5 min); handover: bound 3 with and without the child\'s del; '
                'dispatch under the scheduler: bound 1 for the kind pairs IS, PU, FS (3 rounds), II (2 rounds) and the triple ISP (2 rounds, 10 914 schedules of up to 684 points; deadline 5 min) - bound 2 is out of reach '
                '(one round per worker: 26 960 schedules in 100 s without ending); free-running dispatch: kinds IS, ISP, FUI, PSU, III, SSS, PP with 20 000 rounds and ISFPU with 10 000 rounds per worker, 5 executions each; '
                'free-running lazy (3 workers) and handover 10 executions each',
  },
  'assumptions': [
    'sequential consistency between scheduling points; between two points a thread runs deterministically',
    '"all numbers of threads up to the core count": 2 and 3 threads are explored exhaustively within the bound; more threads are not (sampling would be a different technique)',
    'unsynchronised accesses are made visible by a separate free-running ThreadSanitizer run of the same bodies (instances named tsan-*), because the cooperative hand-offs order everything inside the scheduler',
  ],
  'instances': {
    'quick': [
      S('mutex-lock', 3), S('mutex-trylock', 2), S('mutex-with', 3), S('join', 3),
      S('mutex-lock', 2, threads=3),
      S('exc', 2), S('tls', 3), S('alloc', 2), S('cont', 2), S('fmt', 1),
      S('parent+alloc', 2), S('parent+tls', 2), S('parent+tls', 2, args=['scn=parent+tls', 'bound=2', 'threads=2', 'managed=1'], name='parent+tls-managed-b2'),
      S('parent+args', 2), S('parent+args', 2, args=['scn=parent+args', 'bound=2', 'threads=2', 'managed=1', 'seed=1'], name='parent+args-managed-seeded-b2'), S('args', 1),
      S('abandon', 2), S('rerun', 1), S('parent+args', 2, args=['scn=parent+args', 'bound=2', 'threads=2', 'heapargs=1'], name='parent+args-heapargs-b2'),
      MIX((2, 1), 2, 'L'), MIX((2, 1), 2, 'T'), MIX((2, 1), 2, 'W'), HIST(7, 1), HIST(7, 1, managed=1),
      F('lockmix', 2, 5, ('prog=LW+T',)), F('lockmix', 2, 5, ('prog=TL+WT',)), F('tlshist', 2, 5, ('prog=n0c0n1c1j0d0n0c0j1j0',)),
      S('lazy', 2), S('handover', 2), S('dispatch', 1, args=['scn=dispatch', 'bound=1', 'threads=2', 'kinds=IS']),
      D('IS'), D('ISP'), D('FUI'), D('III'), F('lazy'), F('handover'),
      F('alloc'), F('exc'), F('tls'), F('cont'), F('fmt'), F('mutex-lock'), F('parent+alloc'), F('parent+tls'), F('parent+tls', 2, 8, ('managed=1',)), F('parent+args'),
    ],
    'thorough': [
      S('mutex-lock', 3), S('mutex-trylock', 2), S('mutex-with', 3), S('join', 3),
      S('mutex-lock', 2, threads=3), S('mutex-with', 2, threads=3),
      S('exc', 2), S('tls', 2), S('alloc', 2), S('cont', 2),
      S('exc', 1, threads=3), S('alloc', 1, threads=3),
      # fmt bound 2: 159 971 schedules, 5-8 min on a quiet machine; deadline=600 ends it cleanly (exhaustive:false, position noted) on an overloaded one; bound 1 is complete in quick and in fmt-t3-b1
      S('fmt', 2, args=['scn=fmt', 'bound=2', 'threads=2', 'deadline=600']), S('fmt', 1), S('fmt', 1, threads=3),
      S('parent+alloc', 2), S('parent+tls', 2), S('parent+exc', 2), S('parent+cont', 2),
      S('abandon', 3),
      # 3 trying threads x 3 attempts: bound 1 alone is 190 011 schedules (16 min), bound 2 did not end within an hour; the 3-thread part is covered by three runs that do end:
      # every yield order without preemption with 3 attempts, bound 1 with 2 attempts, bound 2 with 1 attempt per thread
      S('abandon', 0, threads=3), S('abandon', 1, threads=3, args=['scn=abandon', 'bound=1', 'threads=3', 'tries=2'], name='abandon-t3-b1-tries2'),
      S('abandon', 2, threads=3, args=['scn=abandon', 'bound=2', 'threads=3', 'tries=1'], name='abandon-t3-b2-tries1'), S('rerun', 2), S('parent+args', 3, args=['scn=parent+args', 'bound=3', 'threads=2', 'heapargs=1'], name='parent+args-heapargs-b3'),
      S('parent+args', 3), S('parent+args', 3, args=['scn=parent+args', 'bound=3', 'threads=2', 'managed=1', 'seed=1'], name='parent+args-managed-seeded-b3'), S('args', 2), S('args', 1, threads=3), F('parent+args', 2, 10), F('args', 3, 10),
      MIX((2, 2), 2, 'L'), MIX((2, 2), 2, 'T'), MIX((2, 2), 2, 'W'), MIX((2, 1), 3, 'L'), MIX((2, 1), 3, 'T'), MIX((2, 1), 3, 'W'), MIX((3, 1), 2, 'L'), MIX((3, 1), 2, 'T'), MIX((3, 1), 2, 'W'),
      MIX((2, 1, 1), 2, 'L'), MIX((2, 1, 1), 2, 'T'), MIX((2, 1, 1), 2, 'W'),
      HIST(9, 1), HIST(7, 2), HIST(8, 1, managed=1),
      F('lockmix', 3, 10, ('prog=LW+T+W',)), F('lockmix', 3, 10, ('prog=WT+TL+LW',)), F('tlshist', 2, 10, ('prog=n0c0n1c1j0d0n0c0j1j0',)), F('tlshist', 2, 10, ('prog=n0c0j0c0n1c1j0j1d0n0c0j0',)),
      S('lazy', 3), S('lazy', 2, threads=3, args=['scn=lazy', 'bound=2', 'threads=3', 'deadline=300']), S('handover', 3), S('handover', 3, args=['scn=handover', 'bound=3', 'threads=2', 'del=0'], name='handover-readonly-b3'),
      # dispatch: the scheduling points are the cache reads/fills inside every lookup (400-700 per execution); bound 2 with one round per worker did not end within 100 s (26 960 schedules), bound 1 does
      S('dispatch', 1, args=['scn=dispatch', 'bound=1', 'threads=2', 'kinds=IS', 'iters=3'], name='dispatch-IS-b1'), S('dispatch', 1, args=['scn=dispatch', 'bound=1', 'threads=2', 'kinds=PU', 'iters=3'], name='dispatch-PU-b1'),
      S('dispatch', 1, args=['scn=dispatch', 'bound=1', 'threads=2', 'kinds=FS', 'iters=3'], name='dispatch-FS-b1'), S('dispatch', 1, args=['scn=dispatch', 'bound=1', 'threads=2', 'kinds=II', 'iters=2'], name='dispatch-II-b1'),
      S('dispatch', 1, args=['scn=dispatch', 'bound=1', 'threads=3', 'kinds=ISP', 'iters=2', 'deadline=300'], name='dispatch-ISP-b1'),
      D('IS', 20000, 5), D('ISP', 20000, 5), D('FUI', 20000, 5), D('PSU', 20000, 5), D('ISFPU', 10000, 5), D('III', 20000, 5), D('SSS', 20000, 5), D('PP', 20000, 5), F('lazy', 3, 10), F('handover', 2, 10),
      F('alloc', 3, 10), F('fmt', 3, 10), F('exc', 3, 10), F('tls', 3, 10), F('cont', 3, 10), F('mutex-lock', 3, 10), F('mutex-with', 3, 10), F('parent+alloc', 2, 10), F('parent+tls', 2, 10), F('parent+cont', 2, 10),
    ],
  },
}
