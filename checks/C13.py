import os
SUPP = os.path.join(os.path.dirname(os.path.dirname(os.path.abspath(__file__))), 'lib', 'tsan.supp')
WRAP = '-Wl,--wrap=pthread_create,--wrap=pthread_join,--wrap=pthread_mutex_lock,--wrap=pthread_mutex_trylock,--wrap=pthread_mutex_unlock'

def F(scn, threads=2, runs=5, extra=()):
    return dict(name='tsan-%s-t%d%s' % (scn, threads, ''.join('-' + e for e in extra)), harness='h_thread.c', variant='tsan', args=['scn=' + scn, 'mode=free', 'threads=%d' % threads, 'runs=%d' % runs] + list(extra),
                cflags=WRAP, env={'TSAN_OPTIONS': 'halt_on_error=0 exitcode=0 report_signal_unsafe=0 suppressions=' + SUPP})

def S(scn, bound, threads=2, variant='hooks', **kw):
    d = dict(name='%s-t%d-b%d%s' % (scn, threads, bound, '' if variant == 'hooks' else '-' + variant), harness='h_thread.c', variant=variant,
             args=['scn=' + scn, 'bound=%d' % bound, 'threads=%d' % threads], cflags=WRAP)
    d.update(kw)
    return d

CHECK = {
  'id': 'C13',
  'level': 'model_checking',
  'rule': ('stateless model checking of the implementation: real Cello threads serialised by a token, scheduling points at the wrapped pthread operations '
           '(create, join, mutex lock/trylock/unlock), thread start/exit, the CELLO_VERIF hook sites enabled per scenario (collector set/rem/mark/sweep/finalise, '
           'exception try/throw/catch/try_end, Table set/rehash, thread run begin/end, lazy key/main-thread creation) and explicit points in the critical sections; '
           'every schedule with at most `bound` preemptions is executed in a fresh process (iterative context bounding), failing schedules are replayed twice. '
           'states = distinct observed outcomes, transitions = choice points executed, traces = schedules; distinct_nontrivial = schedules with at least one preemption'),
  'bounds': {
    'quick': '2 threads; preemption bound 2 for the mutex / join / thread-local / exception scenarios, bound 1 for the allocation-heavy and container scenarios and for parent-collects-while-child-runs',
    'thorough': '2 threads bound 3 (mutex, join), bound 2 everywhere else; 3 threads bound 2 (mutex) / bound 1 (workloads)',
  },
  'assumptions': [
    'sequential consistency between scheduling points; between two points a thread runs deterministically',
    '"all numbers of threads up to the core count": 2 and 3 threads are explored exhaustively within the bound; more threads are not (sampling would be a different technique)',
    'unsynchronised accesses are made visible by a separate free-running ThreadSanitizer run of the same bodies (instances named tsan-*), because the cooperative hand-offs order everything inside the scheduler',
  ],
  'instances': {
    'quick': [
      S('mutex-lock', 3), S('mutex-trylock', 2), S('mutex-with', 3), S('join', 3),
      S('mutex-lock', 2, threads=3),
      S('exc', 2), S('tls', 3), S('alloc', 2), S('cont', 2), S('fmt', 1),
      S('parent+alloc', 2), S('parent+tls', 2), S('parent+tls', 2, args=['scn=parent+tls', 'bound=2', 'threads=2', 'managed=1'], name='parent+tls-managed-b2'),
      S('parent+args', 2), S('parent+args', 2, args=['scn=parent+args', 'bound=2', 'threads=2', 'managed=1', 'seed=1'], name='parent+args-managed-seeded-b2'), S('args', 1),
      S('abandon', 2), S('rerun', 1), S('parent+args', 2, args=['scn=parent+args', 'bound=2', 'threads=2', 'heapargs=1'], name='parent+args-heapargs-b2'),
      F('alloc'), F('exc'), F('tls'), F('cont'), F('fmt'), F('mutex-lock'), F('parent+alloc'), F('parent+tls'), F('parent+tls', 2, 8, ('managed=1',)), F('parent+args'),
    ],
    'thorough': [
      S('mutex-lock', 3), S('mutex-trylock', 2), S('mutex-with', 3), S('join', 3),
      S('mutex-lock', 2, threads=3), S('mutex-with', 2, threads=3),
      S('exc', 2), S('tls', 2), S('alloc', 2), S('cont', 2),
      S('exc', 1, threads=3), S('alloc', 1, threads=3), S('fmt', 2), S('fmt', 1, threads=3),
      S('parent+alloc', 2), S('parent+tls', 2), S('parent+exc', 2), S('parent+cont', 2),
      S('abandon', 3), S('abandon', 2, threads=3), S('rerun', 2), S('parent+args', 3, args=['scn=parent+args', 'bound=3', 'threads=2', 'heapargs=1'], name='parent+args-heapargs-b3'),
      S('parent+args', 3), S('parent+args', 3, args=['scn=parent+args', 'bound=3', 'threads=2', 'managed=1', 'seed=1'], name='parent+args-managed-seeded-b3'), S('args', 2), S('args', 1, threads=3), F('parent+args', 2, 10), F('args', 3, 10),
      F('alloc', 3, 10), F('fmt', 3, 10), F('exc', 3, 10), F('tls', 3, 10), F('cont', 3, 10), F('mutex-lock', 3, 10), F('mutex-with', 3, 10), F('parent+alloc', 2, 10), F('parent+tls', 2, 10), F('parent+cont', 2, 10),
    ],
  },
}
