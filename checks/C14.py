def T(name, variant, *args, **kw):
    d = dict(name=name, harness='h_fmt.c', variant=variant, args=list(args))
    d.update(kw)
    return d

INTS = 'diuoxX'
FLTS = 'fFeEgGaA'

def grid_instances(grid, variant, groups, suffix='', extra=()):
    return [T('grid-%s%s' % (g.replace('$', 'S'), suffix), variant, 'mode=grid', 'conv=' + g, 'grid=' + grid, *extra) for g in groups]

CHECK = {
  'id': 'C14',
  'level': 'exploration',
  'rule': ('exhaustive enumeration of the specification grammar % [every subset of the flags - + space # 0] [width] [.precision] '
           '[length modifier] conversion, restricted per conversion to the combinations C11 7.21.6.1 defines (# only with o x X and the '
           'floating conversions, 0 not with c s p, + and space only with signed conversions, precision not with c p, hh h l ll j z t with '
           'd i u o x X, l with the floating conversions), times a boundary value grid, times 8 contexts of the specification inside '
           'the format text (alone; at the very start followed by a literal that begins with conversion letters; at the very end '
           'preceded by a literal ending in a digit; immediately followed by %s; immediately preceded by %i; between literals; between '
           'two %%; twice around a %%), times the start position {0, 3, current length}, times the sink {heap String, File}. Each '
           'formatting is executed by the real print_to_with and compared byte for byte with snprintf of the same specification and the '
           'corresponding C value (Int narrowed as the modifier prescribes, Float as double, String characters, object pointer); the '
           'returned position must be start + characters written; the String sink must hold prefix + text; both sinks must agree. '
           '%$ is compared with show_to of the same object, and for 158 Array/List/Tuple/Table/Tree shapes (26 hand-written incl. empty/one/many; for each of Array, List, Tuple, Table keys, Table values, Tree keys, Tree values '
           'one shape per value and one with all values of the element grids Int {0,-1,2^31-1,2^31,2^32+5,-2^31-1,INT64_MAX,INT64_MIN}, Float {0.5,-0.0,1e300,123456.789}, '
           'String {empty, quote/backslash/newline/percent, 40 chars}; 6 containers of containers) the whole show text must be own prefix + '
           'the ", "-join of the elements\' own show texts in iteration order + own suffix, where an Int/Float/String element\'s text is show_to of a stand-alone object '
           'of the same value and a nested container is expected element by element; show_to itself is compared across both sinks and starts {0,5,7,3}. Every specification in every context is also run with '
           'every too-small number of arguments and must raise FormatError. '
           'Length ladder: for every N in 1..n and the neighbours (-2..+2) of each larger power of two, one chunk (a single format_to call inside print_to) '
           'of exactly N output characters is produced in 11 ways (%Nd, %-Ns|%i, %.(N-2)f, %.Nd, N literal characters alone and before %d, %s and %$ of an '
           'N-character String, %-Nc, %N.3e, %#0Nx) at starts {0, 5, current length} into the heap String, a File over open_memstream and a File over tmpfile(), '
           'followed by a second print_to appended at the returned position; final content and both positions are compared with snprintf and the three sinks with each other. '
           'Further show shapes: Tables, Trees, Arrays and Lists whose key / value / element type is a plain user struct (Show instance only) of 1, 3, 5, 8, 12 and 20 bytes in each role (48 shapes); '
           'views over 10 base containers (Array, List, Tuple, Table and Tree with Int keys 0..4 and different values, with String keys, with Int keys 10,20,30, empty Array): slice(x), slice(x,2), slice(x,1,3), '
           'step 2, reverse, step -2 (expected: own prefix + join of show_to over the foreach items + own suffix) and filter, map, zip, enumerate (shown without items: only %$ == show_to on both sinks and all starts). '
           '27 Range shapes judged like the slices: range(n) n in {0,1,3}, range(a,b) incl. empty, steps 2, 3, -1, -2, item values crossing +-2^31 and +-2^32 and next to the INT64 limits, '
           'heap Ranges from new(Range, ...), and slice/reverse/stepped views over a Range of values beyond int32. ' 
           'Repeated arguments: every argument sequence of length 2..4 over three distinct objects x, y, z (117 sequences, incl. (x,x), (x,x,y), (x,y,x,z), (x,y,y)) '
           'in five styles (%$ of Int, %li, %s, %$ of String, mixed Int/String/Float with %li %s %5.2f %$), both sinks, starts {0, current length}; the i-th specification '
           'must format the i-th argument (snprintf on the values; %$ pieces are show_to of a stand-alone object of the same value). '
           'Sink recycling: all 27 sequences of three sinks out of {heap File wrapping an open FILE*, heap File opened with sopen, heap String} x 7 format rotations '
           '(%d, %s, %5.2f, %$, literal, %%, mixed); each sink is created for one formatting (+ an appended follow-up) and released, the next one is created with nothing '
           'formatted in between; text, prefix and both positions are checked and the evidence records how often the new sink received the released one\'s address. '
           'Re-entrant formatting: a user type whose C_Str, C_Int, C_Float and Show instances each print_to (different short formats) into the object\'s private heap String '
           'before answering, used as argument of 10 specifications (%s %-12s %.3s %li %08li %+d %f %5.2f %.1e %$) alone, bracketed, and in all 100 ordered pairs '
           '"x=A; y=B." with two objects or the same object twice, both sinks, two starts; expected text assembled from snprintf of the parts. '
           'Failure history: k in {0,1,2,31,32,33,64,100} caught refused formattings of each kind (%$ onto a File with no stream, %$ onto a stack String, too few arguments, '
           '%$ of a user type whose Show throws (alone / inside a Tuple), %s of an Int, and all five mixed), each (kind, k) in its own forked child; the small grid '
           '(%$ of Int, Float, String, Array, Tuple; %d; %s; literal; %%; mixed) on both sinks and two starts must then write and return exactly what it did before the failures. '
           'Long formats: well-formed formats of total length 2^12, 2^16, 2^18, 2^20, 2^21 (thorough also 2^23+4096) with %07d at the very start, %% in the middle, %s at the very end and '
           'literal text between, to a String and a File, on the main thread and from a pthread with a 256 KiB stack, each case in a forked child; length, returned position, checksum and '
           'first differing byte against snprintf, and the format and expected text must be intact afterwards. '
           'Format buffer reuse: every ordered sequence of 2..4 pieces over {"ab", ", ", "%d", "%$", "%s=", "%%", "x%5.2fy", ""} (4672 sequences) with matching arguments, the formats written one after '
           'the other into one static char buffer / a malloc block freed and re-malloced between calls / two alternating buffers, each piece appended at the returned position, both sinks, two starts; '
           'expected text is the concatenation of snprintf of the pieces. '
           'distinct_nontrivial = (specification, value) pairs whose C output differs from the output of the bare conversion '
           '(flags, width or precision change the text) + non-empty %$ scalar texts + container shapes with >= 2 elements + '
           'too-few-argument cases in which an argument had already been consumed when FormatError was raised + ladder (form, N) pairs with N >= 64 + argument sequences in which an object recurs and its second occurrence is followed by something other than what followed the first + recycled sinks that received the address of a released sink of the other type + re-entrant formats + history cases with at least one refused formatting + long-format cases at least as long as the small thread stack + buffer-reuse sequences in which plain text is followed by a piece with conversions at the same address; each counted once (only by the gcc-built memstream instances)'),
  'bounds': {
    'quick': ('flags: all defined subsets; width {none,5}; precision {none,.3}; all length modifiers; Int values {0,-1,42,128,-129,32768,INT_MAX,INT_MIN} '
              '(+ {2^32, INT64_MAX, INT64_MIN} for l ll j z t); 11 Float values incl. +-0, +inf, denormal, 1e300; 6 Strings incl. empty and 40 chars; '
              '6 chars; 6 objects for %p/%$ (heap String, Type, NULL, Ref, Box, Range); 8 contexts x 3 starts x 2 sinks (File over open_memstream); '
              '206 container shapes (element value grids incl. values beyond int32, nested one level, user structs of 1..20 bytes as keys/values/elements), 100 views and 27 Range shapes; too-few-arguments for every specification x context x smaller argument count x sink; '
              'ASan+UBSan and a tmpfile-backed File over the same specifications with the level-0 values and starts {0,len}; '
              'length ladder N = 1..300 and 510..514, 1022..1026, 2046..2050, 4094..4098 (gcc and ASan+UBSan builds); 117 repeated-argument sequences x 5 styles; 27 x 7 sink-recycling sequences (gcc build reuses addresses, ASan build checks memory safety only); 220 re-entrant formats; 43 failure-history cases (6 kinds x 7 counts + none)'),
    'thorough': ('flags: all defined subsets; width {none,1,5,12}; precision {none,.0,.3,.10}; all length modifiers; 14 Int values within int '
                 '(+5 beyond int for l ll j z t); 15 Float values incl. +-0, +-inf, nan, denormal, 1e300, 0.1, 123456.789, rounding ties; 6 Strings; '
                 '8 chars; 6 objects for %p/%$; 8 contexts x 3 starts x 2 sinks; 206 container shapes, 100 views and 27 Range shapes; too-few-arguments as in quick over the full '
                 'specification set; the whole grid is run three times: gcc build with File over open_memstream, clang ASan+UBSan build, '
                 'gcc build with File over tmpfile(); length ladder N = 1..1100 and the neighbours of 2048, 4096, 8192 (gcc and ASan+UBSan builds); 117 repeated-argument sequences x 5 styles; 27 x 7 sink-recycling sequences (gcc build reuses addresses, ASan build checks memory safety only); 220 re-entrant formats; 43 failure-history cases (6 kinds x 7 counts + none)'),
  },
  'assumptions': [
    'values outside the boundary grids are represented by the grids (exhaustive over the grammar and the grids, not over int64 / double)',
    'the C printf family is glibc snprintf on this platform (LP64): it is the reference, not a subject',
    'for d i u o x X c the library passes an int64 through varargs; the corresponding C value is that int64 converted to the type the length modifier names, '
    'and values for modifier-less, hh and h conversions stay within int',
    'L, ls, lc, *, %n, malformed specifications and NUL as %c value are outside the grammar (no Cello value / C string corresponds)',
    'flag/conversion combinations that are undefined behaviour in C are not compared',
    'gcc/clang, glibc and the sanitizer run-times are trusted',
  ],
  'instances': {
    'quick': (
      grid_instances('mid', 'base', ['di', 'uoxX', 'fF', 'eE', 'gG', 'aA', 'csp$'])
      + [T('show', 'base', 'mode=show', 'grid=full'),
         T('missing', 'base', 'mode=missing', 'grid=mid'),
         T('show-asan', 'asan', 'mode=show', 'grid=mid', 'count_nt=0'),
         T('missing-asan', 'asan', 'mode=missing', 'grid=small', 'count_nt=0'),
         T('ladder', 'base', 'mode=ladder', 'n=300', 'pmax=4096'),
         T('ladder-asan', 'asan', 'mode=ladder', 'n=300', 'pmax=4096', 'count_nt=0'),
         T('repeat', 'base', 'mode=repeat'),
         T('repeat-asan', 'asan', 'mode=repeat', 'count_nt=0'),
         T('recycle', 'base', 'mode=recycle'),
         T('recycle-asan', 'asan', 'mode=recycle', 'count_nt=0'),
         T('reentrant', 'base', 'mode=reentrant'),
         T('reentrant-asan', 'asan', 'mode=reentrant', 'count_nt=0'),
         T('history', 'base', 'mode=history'),
         T('history-asan', 'asan', 'mode=history', 'count_nt=0'),
         T('longfmt', 'base', 'mode=longfmt', 'sizes=5'),
         T('longfmt-asan', 'asan', 'mode=longfmt', 'sizes=5', 'count_nt=0'),
         T('fmtreuse', 'base', 'mode=fmtreuse'),
         T('fmtreuse-asan', 'asan', 'mode=fmtreuse', 'count_nt=0')]
      + grid_instances('small', 'asan', ['di', 'uoxX', 'fFeE', 'gGaA', 'csp$'], '-asan', ('count_nt=0',))
      + grid_instances('small', 'base', ['diuoxXcsp$', FLTS], '-tmpfile', ('file=tmpfile', 'count_nt=0'))
    ),
    'thorough': (
      grid_instances('full', 'base', list(INTS) + list(FLTS) + ['csp$'])
      + [T('show', 'base', 'mode=show', 'grid=full'),
         T('missing-int', 'base', 'mode=missing', 'grid=full', 'conv=' + INTS + 'csp$'),
         T('missing-float', 'base', 'mode=missing', 'grid=full', 'conv=' + FLTS),
         T('show-asan', 'asan', 'mode=show', 'grid=full', 'count_nt=0'),
         T('show-tmpfile', 'base', 'mode=show', 'grid=full', 'file=tmpfile', 'count_nt=0'),
         T('missing-int-asan', 'asan', 'mode=missing', 'grid=full', 'conv=' + INTS + 'csp$', 'count_nt=0'),
         T('missing-float-asan', 'asan', 'mode=missing', 'grid=full', 'conv=' + FLTS, 'count_nt=0'),
         T('ladder', 'base', 'mode=ladder', 'n=1100', 'pmax=8192'),
         T('ladder-asan', 'asan', 'mode=ladder', 'n=1100', 'pmax=8192', 'count_nt=0'),
         T('repeat', 'base', 'mode=repeat'),
         T('repeat-asan', 'asan', 'mode=repeat', 'count_nt=0'),
         T('recycle', 'base', 'mode=recycle'),
         T('recycle-asan', 'asan', 'mode=recycle', 'count_nt=0'),
         T('reentrant', 'base', 'mode=reentrant'),
         T('reentrant-asan', 'asan', 'mode=reentrant', 'count_nt=0'),
         T('history', 'base', 'mode=history'),
         T('history-asan', 'asan', 'mode=history', 'count_nt=0'),
         T('longfmt', 'base', 'mode=longfmt', 'sizes=6'),
         T('longfmt-asan', 'asan', 'mode=longfmt', 'sizes=6', 'count_nt=0'),
         T('fmtreuse', 'base', 'mode=fmtreuse'),
         T('fmtreuse-asan', 'asan', 'mode=fmtreuse', 'count_nt=0')]
      + grid_instances('full', 'asan', list(INTS) + list(FLTS) + ['csp$'], '-asan', ('count_nt=0',))
      + grid_instances('full', 'base', ['d', 'i', 'uo', 'xX', 'csp$', 'fF', 'eE', 'gG', 'aA'], '-tmpfile', ('file=tmpfile', 'count_nt=0'))
    ),
  },
}
