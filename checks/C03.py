def T(name, variant, *args, **kw):
    d = dict(name=name, harness='h_tree.c', variant=variant, args=list(args))
    d.update(kw)
    return d

CHECK = {
  'id': 'C03',
  'level': 'model_checking',
  'rule': ('explicit-state BFS to fixpoint over histories of set(k,v)/rem(k)/resize(0)/A=copy(A)/assign-into-empty/assign-into-nonempty/'
           'A=new(Tree,K,V,bindings...) and (alias=1) set(t, k, v) with k the key object yielded by the tree\'s own iteration; (cross=1) assign onto an empty and onto a filled tree that was constructed '
           'with OTHER element types sharing exactly one side (pairs out of Int->Int, Int->Blob20, Int->Probe, Probe->Int, String->Probe, Probe->Blob20; both size directions), '
           'with two trees also onto B; (table=1) a round trip Tree := Table := A through a filled Table of other element types; afterwards the target must have the '
           'source\'s key/value types and slot sizes, the same bindings byte for byte, and the ledger must show its old contents finalised exactly once '
           '(rem of an absent key is a self-loop that must raise KeyError and change nothing; with the refusing element type Picky also set(k, refused value) for every new and existing key and set(refused key, v): ValueError, tree unchanged node for node, ledger unchanged) on one real Tree over the key universe '
           '0..N-1 (Int keys 0..N-1, wide Int keys {0, 1, -1, +-2^31, +-2^32, 2^31-1, 2^32+1, INT64_MAX, INT64_MIN, 2^62} with the reference order computed on int64, String keys "k00".., Probe keys+values with a constructor/destructor ledger); a state is the concrete '
           'tree: exact shape + colours + keys + values (white-box, Tree.c compiled into the harness), so every reachable red-black '
           'tree over every subset of the universe is visited and every state is re-entered by replaying its shortest history on a '
           'fresh tree; after every transition: white-box red-black audit (search order, black root, no red-red, equal black '
           'heights, parent links, node count == len, height <= 2*log2(n+1)) and, once per distinct concrete state, the black-box '
           'ordered-map oracle (len, mem and get of every key of the universe (for the 20-byte plain-struct value type every byte of every binding against the bytes last stored), KeyError for absent keys, forward iteration strictly '
           'monotone over exactly the reference keys, backward iteration the exact reverse); distinct_nontrivial = states with black '
           'height >= 2 (a black node below the root: reachable only through propagated recolouring, and where the double-black '
           'repair cases of removal are reachable) plus ladder runs with >= 4 keys; ladders = N keys inserted then removed in each of '
           '4 x 4 enumerated orders (ascending, descending, alternating ends, stride), cheap root-path height bound + len/mem/get at '
           'every step, full audit and full iteration comparison at every step for N <= 300 and at every 64th step otherwise'),
  'bounds': {
    'quick': ('wide Int keys 9 and 6x2, 7 under ASan; mixed key/value sizes (Int->Blob20 9 and 6x2 keys, 8 under ASan; Int->Probe 8; Probe->Int 8, 5x2 under ASan; String->Probe 8; Probe->Blob20 6x2); to fixpoint: Int keys 11-key universe x 1 value (3.99e4 concrete trees) and 7 keys x 2 values (gcc), 9 keys and 5x2 under ASan+UBSan; '
              'String keys 10 and 6x2, 8 under ASan, 4x2 with the stored-key alias operation under ASan; Probe keys+values with the ledger 10 and 6x2, 8 and 5x2 under ASan; '
              'ladders N in {1,2,3,7,16,33,100,300,1000,4000,10000} Int, {100,1000,4000} String, {1,2,3,16,100,1000} under ASan, 16 order pairs each; *-sfx1 instances: the same alphabet with the last operation of the history in the state key (small universes)'),
    'thorough': ('wide Int keys 12 (all of them) and 8x2, 10 under ASan; mixed key/value sizes (Int->Blob20 12 and 8x2, 11 under ASan; Int->Probe 11; Probe->Int 11, 7x2 under ASan; String->Probe 11, 7x2 under ASan; Probe->Blob20 8x2); to fixpoint: Int keys 14-key universe x 1 value (8.9e5 concrete trees, deepest shortest history 26; cut after 520 s on an overloaded machine, then exhaustive:false) and 13-key universe (3.1e5) and 9 keys x 2 values (4.2e5), 12 keys and 8x2 under ASan+UBSan; '
                 'String keys 13 and 9x2, 11 under ASan, 6x2 with the alias operation under ASan; Probe keys+values 13 and 9x2, 11 and 6x2 under ASan; '
                 'ladders to 10000 keys Int and String (21 / 6 sizes), to 4000 Int and 1000 String under ASan; *-sfx1 / *-sfx2 instances: the last one / two operations of the history in the state key'),
  },
  'assumptions': [
    'keys outside the universe are represented by it: the tree depends on keys only through cmp, and Int/String/Probe keys 0..N-1 give every order type of N keys',
    'the white-box audit also requires ksize >= size(key type) and vsize >= size(value type) (the slot sizes every node is allocated and copied with)',
    'white-box view obtained by compiling the repository\'s own Tree.c into the harness; only strict monotonicity of the in-order sequence is required, not its direction',
    'the black-box oracle is evaluated once per distinct concrete state; the audit (which runs after every transition) establishes that the node structure is exactly the canonical string',
    'gcc/clang, glibc and the sanitizer run-times are trusted',
  ],
  'instances': {
    'quick': [
      # history suffix in the state key (lib/vf_bfs.h suffix=K): the last K operations keep histories apart that end in one visible state
      T('int8-sfx1', 'base', 'keys=int', 'nkeys=8', 'nvals=1', 'suffix=1'), T('int5x2-sfx1', 'base', 'keys=int', 'nkeys=5', 'nvals=2', 'alias=1', 'suffix=1'),
      T('int11', 'base', 'keys=int', 'nkeys=11', 'nvals=1'),
      T('int7x2', 'base', 'keys=int', 'nkeys=7', 'nvals=2', 'alias=1'),
      T('int9-asan', 'asan', 'keys=int', 'nkeys=9', 'nvals=1'),
      T('int5x2-asan', 'asan', 'keys=int', 'nkeys=5', 'nvals=2', 'alias=1'),
      T('str10', 'base', 'keys=str', 'nkeys=10', 'nvals=1'),
      T('str6x2', 'base', 'keys=str', 'nkeys=6', 'nvals=2', 'alias=1'),
      T('str4x2-alias-asan', 'asan', 'keys=str', 'nkeys=4', 'nvals=2', 'alias=1'),
      T('str8-asan', 'asan', 'keys=str', 'nkeys=8', 'nvals=1'),
      T('probe10', 'base', 'keys=probe', 'vals=probe', 'prop=C05', 'nkeys=10', 'nvals=1'),
      T('probe6x2', 'base', 'keys=probe', 'vals=probe', 'prop=C05', 'nkeys=6', 'nvals=2', 'alias=1'),
      T('probe5x2-asan', 'asan', 'keys=probe', 'vals=probe', 'prop=C05', 'nkeys=5', 'nvals=2', 'alias=1'),
      T('probe8-asan', 'asan', 'keys=probe', 'vals=probe', 'prop=C05', 'nkeys=8', 'nvals=1'),
      # key and value types of different sizes (8/20, 8/24, 24/8, 24/20 bytes): slot sizes, predecessor copy, assign/copy/constructor
      T('int-blob9', 'base', 'keys=int', 'vals=blob', 'nkeys=9', 'nvals=1', 'alias=1', 'cross=1', 'table=1'),
      T('int-blob6x2', 'base', 'keys=int', 'vals=blob', 'nkeys=6', 'nvals=2', 'alias=1', 'cross=1', 'table=1'),
      T('int-blob8-asan', 'asan', 'keys=int', 'vals=blob', 'nkeys=8', 'nvals=1', 'alias=1', 'cross=1', 'table=1'),
      T('int-probe8', 'base', 'keys=int', 'vals=probe', 'nkeys=8', 'nvals=1', 'alias=1', 'cross=1', 'table=1'),
      T('probe-int8', 'base', 'keys=probe', 'vals=int', 'nkeys=8', 'nvals=1', 'alias=1', 'cross=1', 'table=1'),
      T('probe-int5x2-asan', 'asan', 'keys=probe', 'vals=int', 'nkeys=5', 'nvals=2', 'alias=1', 'cross=1', 'table=1'),
      T('str-probe8', 'base', 'keys=str', 'vals=probe', 'nkeys=8', 'nvals=1', 'cross=1', 'table=1'),
      T('probe-blob6x2', 'base', 'keys=probe', 'vals=blob', 'nkeys=6', 'nvals=2', 'alias=1', 'cross=1', 'table=1'),
      # wide Int keys (pairs 2^31 and 2^32 apart, INT64 extremes): the descent trusts the sign of cmp over the whole int64 range
      T('wideint9', 'base', 'keys=wideint', 'nkeys=9', 'nvals=1', 'alias=1', 'cross=1', 'table=1'),
      T('wideint6x2', 'base', 'keys=wideint', 'nkeys=6', 'nvals=2', 'alias=1'),
      T('wideint7-asan', 'asan', 'keys=wideint', 'nkeys=7', 'nvals=1', 'alias=1', 'cross=1', 'table=1'),
      # refusing element type Picky (its Assign raises ValueError for one value): set(k, refused value) for new and existing keys, set(refused key, v)
      T('int-picky6x2', 'base', 'keys=int', 'vals=picky', 'nkeys=6', 'nvals=2', 'alias=1'),
      T('picky-int7', 'base', 'keys=picky', 'vals=int', 'nkeys=7', 'nvals=1'),
      T('picky-picky5x2-asan', 'asan', 'keys=picky', 'vals=picky', 'nkeys=5', 'nvals=2'),
      T('int-picky5x2-asan', 'asan', 'keys=int', 'vals=picky', 'nkeys=5', 'nvals=2'),
      # cross-type assignment family: targets constructed/filled with other element types (and a Table round trip)
      T('int-int8-cross', 'base', 'keys=int', 'vals=int', 'nkeys=8', 'nvals=1', 'cross=1', 'table=1'),
      T('int-int5x2-cross-asan', 'asan', 'keys=int', 'vals=int', 'nkeys=5', 'nvals=2', 'cross=1', 'table=1', 'alias=1'),
      T('int-blob5x2-cross-asan', 'asan', 'keys=int', 'vals=blob', 'nkeys=5', 'nvals=2', 'cross=1', 'table=1'),
      T('str-int6x2-cross', 'base', 'keys=str', 'vals=int', 'nkeys=6', 'nvals=2', 'cross=1', 'table=1'),
      T('probe-probe6x2-cross', 'base', 'keys=probe', 'vals=probe', 'nkeys=6', 'nvals=2', 'cross=1', 'table=1'),
      T('int-blob-two4-cross', 'base', 'keys=int', 'vals=blob', 'two=1', 'nkeys=4', 'nvals=1', 'cross=1'),
      T('int-int-two4-cross-asan', 'asan', 'keys=int', 'vals=int', 'two=1', 'nkeys=4', 'nvals=1', 'cross=1'),
      T('ladder-int', 'base', 'mode=ladder', 'keys=int', 'sizes=1,2,3,7,16,33,100,300,1000,4000,10000'),
      # light oracle: white-box reading of the nodes per state, get/mem as operations, last query in the state key
      T('int3x2-light', 'base', 'keys=int', 'nkeys=3', 'nvals=2', 'light=1'), T('int4-light', 'base', 'keys=int', 'nkeys=4', 'nvals=1', 'light=1'), T('int5x2-light-qwin1', 'base', 'keys=int', 'nkeys=5', 'nvals=2', 'light=1', 'qwin=1'), T('str3x2-light-asan', 'asan', 'keys=str', 'nkeys=3', 'nvals=2', 'light=1'),
      # whole large trees given up in one call (resize 0 / assign from empty / del), 4 fill orders
      T('bigclear', 'base', 'mode=bigclear', 'sizes=100,5000,400000'), T('bigclear-asan', 'asan', 'mode=bigclear', 'sizes=100,5000,50000'),
      T('ladder-str', 'base', 'mode=ladder', 'keys=str', 'sizes=100,1000,4000'),
      T('ladder-asan', 'asan', 'mode=ladder', 'keys=int', 'sizes=1,2,3,16,100,1000'),
    ],
    'thorough': [
      T('int4x2-light', 'base', 'keys=int', 'nkeys=4', 'nvals=2', 'light=1'), T('int5-light', 'base', 'keys=int', 'nkeys=5', 'nvals=1', 'light=1'), T('int6x2-light-qwin1', 'base', 'keys=int', 'nkeys=6', 'nvals=2', 'light=1', 'qwin=1'), T('str4x2-light', 'base', 'keys=str', 'nkeys=4', 'nvals=2', 'light=1'), T('int4-light-qwin3', 'base', 'keys=int', 'nkeys=4', 'nvals=1', 'light=1', 'qwin=3'), T('int4x2-light-asan', 'asan', 'keys=int', 'nkeys=4', 'nvals=2', 'light=1', 'qwin=1'),
      T('bigclear', 'base', 'mode=bigclear', 'sizes=100,5000,400000,1000000,3000000'), T('bigclear-asan', 'asan', 'mode=bigclear', 'sizes=100,5000,400000'),
      # history suffix in the state key (lib/vf_bfs.h suffix=K): the last K operations keep histories apart that end in one visible state
      T('int10-sfx1', 'base', 'keys=int', 'nkeys=10', 'nvals=1', 'suffix=1'), T('int9-sfx2', 'base', 'keys=int', 'nkeys=9', 'nvals=1', 'suffix=2'), T('int-blob6x2-cross-sfx1', 'base', 'keys=int', 'vals=blob', 'nkeys=6', 'nvals=2', 'alias=1', 'cross=1', 'table=1', 'suffix=1'), T('str6x2-sfx1', 'base', 'keys=str', 'nkeys=6', 'nvals=2', 'alias=1', 'suffix=1'),
      # 14 keys needs ~4.5-6.5 min of one core on a quiet machine; deadline=520 ends it cleanly (exhaustive:false, position noted) on an overloaded one,
      # and the 13-key universe is always run to its fixpoint
      T('int14', 'base', 'keys=int', 'nkeys=14', 'nvals=1', 'deadline=520'),
      T('int13', 'base', 'keys=int', 'nkeys=13', 'nvals=1'),
      T('int9x2', 'base', 'keys=int', 'nkeys=9', 'nvals=2', 'alias=1'),
      T('int12-asan', 'asan', 'keys=int', 'nkeys=12', 'nvals=1'),
      T('int8x2-asan', 'asan', 'keys=int', 'nkeys=8', 'nvals=2', 'alias=1'),
      T('str13', 'base', 'keys=str', 'nkeys=13', 'nvals=1'),
      T('str9x2', 'base', 'keys=str', 'nkeys=9', 'nvals=2', 'alias=1'),
      T('str6x2-alias-asan', 'asan', 'keys=str', 'nkeys=6', 'nvals=2', 'alias=1'),
      T('str11-asan', 'asan', 'keys=str', 'nkeys=11', 'nvals=1'),
      T('probe13', 'base', 'keys=probe', 'vals=probe', 'prop=C05', 'nkeys=13', 'nvals=1'),
      T('probe9x2', 'base', 'keys=probe', 'vals=probe', 'prop=C05', 'nkeys=9', 'nvals=2', 'alias=1'),
      T('probe6x2-asan', 'asan', 'keys=probe', 'vals=probe', 'prop=C05', 'nkeys=6', 'nvals=2', 'alias=1'),
      T('probe11-asan', 'asan', 'keys=probe', 'vals=probe', 'prop=C05', 'nkeys=11', 'nvals=1'),
      # key and value types of different sizes
      T('int-blob12', 'base', 'keys=int', 'vals=blob', 'nkeys=12', 'nvals=1', 'alias=1', 'cross=1', 'table=1'),
      T('int-blob8x2', 'base', 'keys=int', 'vals=blob', 'nkeys=8', 'nvals=2', 'alias=1', 'cross=1', 'table=1'),
      T('int-blob11-asan', 'asan', 'keys=int', 'vals=blob', 'nkeys=11', 'nvals=1', 'alias=1', 'cross=1', 'table=1'),
      T('int-probe11', 'base', 'keys=int', 'vals=probe', 'nkeys=11', 'nvals=1', 'alias=1', 'cross=1', 'table=1'),
      T('probe-int11', 'base', 'keys=probe', 'vals=int', 'nkeys=11', 'nvals=1', 'alias=1', 'cross=1', 'table=1'),
      T('probe-int7x2-asan', 'asan', 'keys=probe', 'vals=int', 'nkeys=7', 'nvals=2', 'alias=1', 'cross=1', 'table=1'),
      T('str-probe11', 'base', 'keys=str', 'vals=probe', 'nkeys=11', 'nvals=1', 'cross=1', 'table=1'),
      T('str-probe7x2-asan', 'asan', 'keys=str', 'vals=probe', 'nkeys=7', 'nvals=2', 'cross=1', 'table=1'),
      T('probe-blob8x2', 'base', 'keys=probe', 'vals=blob', 'nkeys=8', 'nvals=2', 'alias=1', 'cross=1', 'table=1'),
      # wide Int keys
      T('wideint12', 'base', 'keys=wideint', 'nkeys=12', 'nvals=1', 'alias=1', 'cross=1', 'table=1'),
      T('wideint8x2', 'base', 'keys=wideint', 'nkeys=8', 'nvals=2', 'alias=1'),
      T('wideint10-asan', 'asan', 'keys=wideint', 'nkeys=10', 'nvals=1', 'alias=1', 'cross=1', 'table=1'),
      # refusing element type Picky
      T('int-picky8x2', 'base', 'keys=int', 'vals=picky', 'nkeys=8', 'nvals=2', 'alias=1'),
      T('picky-int10', 'base', 'keys=picky', 'vals=int', 'nkeys=10', 'nvals=1'),
      T('picky-picky7x2-asan', 'asan', 'keys=picky', 'vals=picky', 'nkeys=7', 'nvals=2'),
      T('int-picky7x2-asan', 'asan', 'keys=int', 'vals=picky', 'nkeys=7', 'nvals=2'),
      # cross-type assignment family
      T('int-int11-cross', 'base', 'keys=int', 'vals=int', 'nkeys=11', 'nvals=1', 'cross=1', 'table=1'),
      T('int-int7x2-cross-asan', 'asan', 'keys=int', 'vals=int', 'nkeys=7', 'nvals=2', 'cross=1', 'table=1', 'alias=1'),
      T('int-blob7x2-cross-asan', 'asan', 'keys=int', 'vals=blob', 'nkeys=7', 'nvals=2', 'cross=1', 'table=1'),
      T('str-int8x2-cross', 'base', 'keys=str', 'vals=int', 'nkeys=8', 'nvals=2', 'cross=1', 'table=1'),
      T('probe-probe8x2-cross', 'base', 'keys=probe', 'vals=probe', 'nkeys=8', 'nvals=2', 'cross=1', 'table=1'),
      T('int-blob-two6-cross', 'base', 'keys=int', 'vals=blob', 'two=1', 'nkeys=6', 'nvals=1', 'cross=1'),
      T('int-int-two5-cross-asan', 'asan', 'keys=int', 'vals=int', 'two=1', 'nkeys=5', 'nvals=1', 'cross=1'),
      T('str-probe-two5-cross', 'base', 'keys=str', 'vals=probe', 'two=1', 'nkeys=5', 'nvals=1', 'cross=1'),
      T('ladder-int', 'base', 'mode=ladder', 'keys=int', 'sizes=1,2,3,4,5,6,7,8,15,16,17,31,32,33,64,100,255,300,1000,4000,10000'),
      T('ladder-str', 'base', 'mode=ladder', 'keys=str', 'sizes=16,100,300,1000,4000,10000'),
      T('ladder-asan', 'asan', 'mode=ladder', 'keys=int', 'sizes=1,2,3,16,100,300,1000,4000'),
      T('ladder-str-asan', 'asan', 'mode=ladder', 'keys=str', 'sizes=100,1000'),
    ],
  },
}
