WRAP = '-Wl,--wrap=free -Wl,--wrap=realloc -Wl,--wrap=malloc -Wl,--wrap=calloc'

def A(name, variant, *args, **kw):
    d = dict(name=name, harness='h_alloc.c', variant=variant, args=list(args), cflags=WRAP)
    d.update(kw)
    return d

def insts():
    out = []
    for part in ('own', 'static', 'embedded', 'views', 'stackops'):
        out.append(A(part, 'base', 'part=' + part))
        out.append(A(part + '-asan', 'asan', 'part=' + part))
    return out

CHECK = {
  'id': 'C19',
  'level': 'exploration',
  'rule': ('exhaustive grid: way of obtaining an object (new, new_raw, new_root, alloc/alloc_raw/alloc_root + construct, copy, $ stack literal, '
           'static object, element of Array/List by get and by forward/backward iteration, key and value of Table/Tree by iteration and get, '
           'cursor of a heap and a stack Range, items yielded by stack/heap Slice, reverse, Filter, Map, stack/heap Zip, enumerate and the objects '
           'inside the yielded tuples) x type (Int Float String Ref Box Tuple Array List Table Tree Range Slice Zip Filter Map File Function Mutex, '
           'a plain struct type, a run-time type with constructor+destructor, Type) x placement (container length, position, Array/List underneath, '
           'Int/String companion type) x operation (none, del, del_raw, del_root, dealloc, dealloc_raw, dealloc_root, destruct, resize shrink/grow, '
           'concat, append, push, pop, push_at, pop_at first/last, rem, assign, print_to; applied only where the library says the type implements '
           'the class). Every case: type_of and header allocation class as expected, all size(type) bytes read and written, every pointer given to '
           'free/realloc during the operation recorded by link-time interposition and compared with the ranges of the non-heap object (and of a stack '
           'String\'s literal / a stack Tuple\'s item array), exception in {ResourceError, ValueError} or no-op with value, header and containing '
           'container unchanged, heap objects reach free exactly once (block and owned buffer), successful in-place operations compared with a '
           'hard-coded value model. evaluations = cases judged; distinct_nontrivial = distinct (way, type, operation) triples in which the operation '
           'was refused with an exception or a tracked block/buffer of the subject reached free/realloc (i.e. not a pure no-op). '
           'part=stackops: stack Tuples of 0..3 items x {assign, concat} from {stack tuple, heap Tuple, Array, List, Range, Slice, Filter, empty Filter, '
           'Filter of a Slice, Map, Zip, Table, Tree, String, Int} of length 0..3, push, append, push_at at every index and one beyond, pop, pop_at at every '
           'index, -1 and one beyond, rem of every item and of an absent one, resize 0..4, sort; stack Strings ("" and "abc" in a writable stack buffer) x '
           'assign/concat/append/rem from 8 sources, resize 0..6, print_to: no free/realloc may see the object or its item array / buffer; after an '
           'exception the receiver is slot for slot (byte for byte) what it was, after a normal return it is untouched or holds exactly the result '
           'computed from the source\'s own iteration, reached in place (nontrivial there = distinct cases that were refused or done in place). '
           'copy(x) is taken of originals of every allocation class (heap, $ stack literal, Array/List element, Table/Tree value and key, static) '
           'for every type with and without an Assign instance: the copy must carry the heap tag, be registered with the collector '
           '(mem(current(GC), c); raw objects must not be), del must release it exactly once; drop-and-collect drops the only reference to a '
           'collector-managed object and forces collections: nothing may raise, a release happens at most once with what the object owns. '
           'Whether copy() of a kind of original works at all is asked once per kind in a forked child (a failed copy leaves garbage whose '
           'destructor raises inside a sweep). '
           'Collector-managed heap objects additionally: del / del_root between stop(gc) and start(gc) in a forked child - a freed block must not '
           'stay registered, a registered block must not have been freed'),
  'bounds': {
    'quick': 'containers of length 1 and 3 (first/last position), views over Array and List of length 1 and 3, 30 static objects, 21 types, 23 operations; stack-tuple grid with source lengths 0,1,3; gcc and clang ASan+UBSan builds of the whole grid',
    'thorough': 'containers of length 1..8 at every position, five ways of building the container, views over Array and List of length 1..6 at every position; stack-tuple grid with source lengths 0..3; gcc and ASan+UBSan builds of the whole grid',
  },
  'assumptions': [
    'default build (CELLO_ALLOC_CHECK and CELLO_MAGIC_CHECK on); the allocation class is read from the public struct Header',
    'mismatched deletion families are out of contract per the documentation (del_raw / dealloc_raw / destruct of a collector-managed object) and are not executed; del / del_root of a raw object is accepted as an ignored no-op',
    'free/realloc calls made inside libc (stdio) are not intercepted; only calls from the library and the harness are',
    'stack Array/List/Table/Tree/Mutex do not exist (their structs are private), so the $ column omits them',
    'assign(tuple, x) with x a String or an Int is not executed: the library runs foreach on an object without Iter and dereferences NULL (heap tuples too; reported as a C12 candidate); rem on a stack String is run on a writable buffer only (on a string literal it writes into read-only memory; reported as a candidate)',
    'gcc/clang, glibc, the linker --wrap feature and the sanitizer run-times are trusted',
  ],
  'instances': {
    # "heap objects deleted once are released exactly once" when the deleting is done by destructors that delete what
    # they own (ownership graphs with cycles; harness/h_gc.c mode=own) in addition to the grid
    'quick': insts() + [dict(name='own-graphs3', harness='h_gc.c', variant='base', args=['mode=own', 'n=3'])],
    'thorough': insts() + [dict(name='own-graphs3', harness='h_gc.c', variant='base', args=['mode=own', 'n=3']),
                           dict(name='own-graphs4', harness='h_gc.c', variant='base', args=['mode=own', 'n=4'])],
  },
}
