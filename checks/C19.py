WRAP = '-Wl,--wrap=free -Wl,--wrap=realloc -Wl,--wrap=malloc -Wl,--wrap=calloc'

def A(name, variant, *args, **kw):
    d = dict(name=name, harness='h_alloc.c', variant=variant, args=list(args), cflags=WRAP)
    d.update(kw)
    return d

# ASan keeps freed blocks in quarantine, so a deleted type's block would never be handed to the next new(Type) by the
# allocator itself; with the quarantine off it is (only the force=0 instance depends on that)
NOQUARANTINE = {'ASAN_OPTIONS': 'quarantine_size_mb=0:thread_local_quarantine_size_kb=0'}

def insts():
    out = []
    for part in ('own', 'static', 'embedded', 'views', 'stackops'):
        out.append(A(part, 'base', 'part=' + part))
        out.append(A(part + '-asan', 'asan', 'part=' + part))
    # run-time types of different sizes following one another at one address: the freed type block is handed back by the
    # interposer (force=1, default) or left to the allocator (force=0; histories that did not get the address are not counted)
    out.append(A('recycle', 'base', 'part=recycle'))
    out.append(A('recycle-asan', 'asan', 'part=recycle'))
    out.append(A('recycle-natural', 'base', 'part=recycle', 'force=0'))
    out.append(A('recycle-natural-asan', 'asan', 'part=recycle', 'force=0', env=NOQUARANTINE))
    return out

CHECK = {
  'id': 'C19',
  'level': 'exploration',
  'rule': ('exhaustive grid: way of obtaining an object (new, new_raw, new_root, alloc/alloc_raw/alloc_root + construct, copy, $ stack literal, '
           'static object, element of Array/List by get and by forward/backward iteration, key and value of Table/Tree by iteration and get, '
           'cursor of a heap and a stack Range, items yielded by stack/heap Slice, reverse, Filter, Map, stack/heap Zip, enumerate and the objects '
           'inside the yielded tuples) x type (Int Float String Ref Box Tuple Array List Table Tree Range Slice Zip Filter Map File Function Mutex, '
           'a plain struct type, a run-time type with constructor+destructor, Type) x placement (container length, position, Array/List underneath, '
           'Int/String companion type) x operation (none, del, del_raw, del_root, dealloc, dealloc_raw, dealloc_root, destruct, resize shrink/grow, '
           'concat, append, push, pop, push_at, pop_at first/last, rem, assign, print_to; applied only where the library says the type implements '
           'the class). Every case: type_of and header allocation class as expected, all size(type) bytes read and written, every pointer given to '
           'free/realloc during the operation recorded by link-time interposition and compared with the ranges of the non-heap object (and of a stack '
           'String\'s literal / a stack Tuple\'s item array), exception in {ResourceError, ValueError} or no-op with value, header and containing '
           'container unchanged, heap objects reach free exactly once (block and owned buffer), successful in-place operations compared with a '
           'hard-coded value model. evaluations = cases judged; distinct_nontrivial = distinct (way, type, operation) triples in which the operation '
           'was refused with an exception or a tracked block/buffer of the subject reached free/realloc (i.e. not a pure no-op). '
           'part=stackops: stack Tuples of 0..3 items x {assign, concat} from {stack tuple, heap Tuple, Array, List, Range, Slice, Filter, empty Filter, '
           'Filter of a Slice, Map, Zip, Table, Tree, String, Int} of length 0..3, push, append, push_at at every index and one beyond, pop, pop_at at every '
           'index, -1 and one beyond, rem of every item and of an absent one, resize 0..4, sort; stack Strings ("" and "abc" in a writable stack buffer) x '
           'assign/concat/append/rem from 8 sources, resize 0..6, print_to: no free/realloc may see the object or its item array / buffer; after an '
           'exception the receiver is slot for slot (byte for byte) what it was, after a normal return it is untouched or holds exactly the result '
           'computed from the source\'s own iteration, reached in place (nontrivial there = distinct cases that were refused or done in place). '
           'copy(x) is taken of originals of every allocation class (heap, $ stack literal, Array/List element, Table/Tree value and key, static) '
           'for every type with and without an Assign instance: the copy must carry the heap tag, be registered with the collector '
           '(mem(current(GC), c); raw objects must not be), del must release it exactly once; drop-and-collect drops the only reference to a '
           'collector-managed object and forces collections: nothing may raise, a release happens at most once with what the object owns. '
           'Whether copy() of a kind of original works at all is asked once per kind in a forked child (a failed copy leaves garbage whose '
           'destructor raises inside a sweep). '
           'Collector-managed heap objects additionally: del / del_root between stop(gc) and start(gc) in a forked child - a freed block must not '
           'stay registered, a registered block must not have been freed. '
           'part=recycle ("size(type) bytes of it are usable" for run-time types that follow one another at ONE address): chain = a run-time '
           'type T1 of size s1 is created, objects of it are made through entry point e1 (all=1: then through every other one) and released, '
           'T1 is deleted, T2 of size s2 != s1 is created on the block T1 had, its first object comes from entry point e2, then one object from '
           'every other entry point; optionally a third type T3 (s3 != s2) on the same block; live = A and B alive, A deleted, C of another size on '
           'A\'s block while B lives on, objects in the order C | B C | C B C; swap = A and B deleted in either order, C and D created on their '
           'blocks with the sizes exchanged (first request answered with the most / least recently freed block), the last object before made of A '
           'or B, the first after of C or D. Sizes from {0, 1, 8, 24, 512}; entry points alloc_raw alloc alloc_root new_raw new new_root copy (of '
           'a stack-resident original; not for size 0, where the library refuses) and a stack-resident object (header_init on a buffer); type kinds: '
           'plain, size reported by a Size instance (recorded size differs), with a New instance (constructor fills all size(type) bytes); type '
           'objects made with new_raw / new / new_root. Per object: type_of is the type it was made of, heap/stack tag, size(type) is the size '
           'the type was created with, the byte count the library REQUESTED from calloc/malloc for the block (link-time interposition, ring of '
           'the last 512 requests) covers sizeof(struct Header) + size(type), all size(type) bytes written with a pattern and read back (ASan '
           'judges the accesses too), registered with the collector iff the entry point says so, released through the matching call. The block of '
           'a deleted type is handed to the next new(Type) by the interposer (a stash answering the next request of the same byte count) or, '
           'in the force=0 instances, by the allocator itself (ASan: quarantine off); a history counts as executed only if a new type really '
           'received the address of a deleted type of another size (recycle_reached / recycle_not_reached in the evidence). In the gcc build of '
           'this part every block is 1024 bytes longer than requested so that an overrun of a block requested too small cannot destroy the '
           'allocator and end the exploration (the verdict comes from the requested count); the ASan build has no slack. nontrivial there = '
           'distinct (family, type kind, entry points, grow/shrink) combinations reached'),
  'bounds': {
    'quick': 'containers of length 1 and 3 (first/last position), views over Array and List of length 1 and 3, 30 static objects, 21 types, 23 operations; stack-tuple grid with source lengths 0,1,3; gcc and clang ASan+UBSan builds of the whole grid; recycled type addresses: 3 type kinds x '
             '{2 in a row: 3 ways of managing the type x 20 ordered size pairs x 8 x 8 entry points x {first only, all}; 3 in a row: 80 size triples x 8 x 8 '
             'entry points, third entry point and type management rotating; live neighbour: 20 size pairs x 2 neighbour sizes x 8 x 8 entry points x 3 orders '
             '(half of them for the non-plain kinds); swap: 20 size pairs x 16 (delete order, hand-back order, last type before, first type after) x 8 x 2 '
             'entry points} = 69120 histories, 934752 objects, forced and allocator-chosen reuse, gcc and ASan+UBSan',
    'thorough': 'containers of length 1..8 at every position, five ways of building the container, views over Array and List of length 1..6 at every position; stack-tuple grid with source lengths 0..3; gcc and ASan+UBSan builds of the whole grid; recycled type addresses as quick with all 8 entry points for the '
                'third type and all 3 ways of managing the types in the 3-in-a-row family, no thinning of the live-neighbour family and all 8 x 8 entry points in the '
                'swap family (476160 histories, 7.7e6 objects)',
  },
  'assumptions': [
    'default build (CELLO_ALLOC_CHECK and CELLO_MAGIC_CHECK on); the allocation class is read from the public struct Header',
    'mismatched deletion families are out of contract per the documentation (del_raw / dealloc_raw / destruct of a collector-managed object) and are not executed; del / del_root of a raw object is accepted as an ignored no-op',
    'free/realloc calls made inside libc (stdio) are not intercepted; only calls from the library and the harness are',
    'stack Array/List/Table/Tree/Mutex do not exist (their structs are private), so the $ column omits them',
    'assign(tuple, x) with x a String or an Int is not executed: the library runs foreach on an object without Iter and dereferences NULL (heap tuples too; reported as a C12 candidate); rem on a stack String is run on a writable buffer only (on a string literal it writes into read-only memory; reported as a candidate)',
    'recycled type addresses: objects of a type are all released before the type is deleted (an object that outlives its type is the caller\'s error); '
    'types with an Alloc instance of their own are not explored there (the library does not request their blocks)',
    'gcc/clang, glibc, the linker --wrap feature and the sanitizer run-times are trusted',
  ],
  'instances': {
    # "heap objects deleted once are released exactly once" when the deleting is done by destructors that delete what
    # they own (ownership graphs with cycles; harness/h_gc.c mode=own) in addition to the grid
    'quick': insts() + [dict(name='own-graphs3', harness='h_gc.c', variant='base', args=['mode=own', 'n=3'])],
    'thorough': insts() + [dict(name='own-graphs3', harness='h_gc.c', variant='base', args=['mode=own', 'n=3']),
                           dict(name='own-graphs4', harness='h_gc.c', variant='base', args=['mode=own', 'n=4'])],
  },
}
