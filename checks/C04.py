WB = '-DVF_WB'

def S(name, variant, *args, **kw):
    d = dict(name=name, harness='h_seq.c', variant=variant, args=['prop=C04'] + list(args), cflags=kw.pop('cflags', WB))
    d.update(kw)
    return d

CHECK = {
  'id': 'C04',
  'level': 'model_checking',
  'rule': ('explicit-state BFS to fixpoint, per container kind, over histories of push/pop/append/push_at/pop_at/set/rem/concat/assign/'
           'resize/sort/copy (arguments external objects and, for Array/List, elements of the receiver itself) on one real Array, List or Tuple with element values {0,1,2} and a length bound (operations that would exceed '
           'it are not enabled); a state is the element sequence plus, for Array (white-box), the pair (nitems,nslots), so every growth and '
           'shrink of the backing store below the bound is a distinct state; every state is re-entered by replaying its shortest history on a '
           'fresh container; in every state len, get(+i), get(-i), mem and forward iteration are compared with a C array; '
           'distinct_nontrivial = states holding a duplicate value or (Array) spare capacity; ladders cover capacity arithmetic to length 300'),
  'bounds': {
    'quick': 'length <= 6 (Array white-box, List, Tuple; gcc), <= 5 black-box Array, <= 4 under ASan+UBSan; alphabet 189-273 operations incl. '
             'every in-range positive and negative index and concat/assign with all 13 sequences of length <= 2 as Array, List and Tuple; ladders to 300 (150 under ASan); plain-struct elements length <= 4 (<= 3 under ASan); *-sfx1 instances: the same alphabet with the last operation of the history in the state key (small universes)',
    'thorough': 'length <= 8 (Array), <= 9 (List, Tuple), <= 6 black-box, <= 7 under ASan+UBSan; ladders to 1000 / 600 (300 under ASan); plain-struct elements length <= 5 / 6 (<= 4 under ASan); *-sfx1 / *-sfx2 instances: the last one / two operations of the history in the state key',
  },
  'assumptions': [
    'element values beyond {0,1,2} are represented by the universe (the containers look at elements only through assign, eq and lt)',
    'lengths beyond the BFS bound are covered only by the enumerated ladders',
    'argument conventions on which Array, List and Tuple disagree and which the property does not fix (push_at at index len or with a negative index, '
    'resize(n > len), any Tuple resize) are explored but judged only for "no corruption, old elements and their order preserved"; the reference follows the implementation there',
    'Array/List := Tuple yields a container of Ref (Tuple declares no element type); it is checked on a side object (len and referenced values) and not explored further',
    'List does not implement Sort; sort is explored for Array and Tuple',
    'aliasing calls whose argument is an element of the receiver (push/append/push_at/set of get(x,k)) are part of the Array and List alphabets '
    'wherever the pinned library handles them (Array pushes only in states with spare capacity, white-box); the aliasing calls it does not handle - '
    'Array push of an own element when the store must grow, concat(x,x), assign(x,x) - are opt-in (alias=3|5|9, see OPTIN below and proposed/seq-alias-*.md); '
    'for a Tuple an aliasing push means holding one object twice (D16)',
    'two oracle modes: full (len, iteration, get(+-i), mem after every operation) and light (len, forward/backward iteration and the white-box view only; '
    'get(i) and mem(v) are explicit operations and kind and index of the last indexed access and the present position of the element it touched are part of the state; element values {0,1}) - whatever the oracle calls between two operations '
    'can overwrite hidden cursors/caches, so histories are also explored with nothing indexed in between',
    'sort beyond the BFS bound: all permutations to length 8 (9 thorough), all 0/1 patterns to length 12 (14), enumerated families '
    '(rotations, organ-pipe, interleaved/consecutive runs, single transpositions of sorted and reversed, periodic few-valued) to length 64 (100), each under sort() and sort_by(gt)',
    'search-by-value calls with an own element (rem(x,get(x,k)), mem(x,get(x,k))) are part of every alphabet: the FIRST equal element goes whichever was passed',
    'cross-type assignment: A = assign(Array/List built with ANOTHER element type (Int, Probe, Blob20 = 20-byte plain struct, String) holding 0..3 elements, A): element type and contents '
    'must be the source\'s afterwards and the old Probe elements finalised exactly once (ledger), in every state',
    'Tuple sources that hold one object twice, (a,a) (a,a,b) (a,b,a): assign into a fresh and a non-empty Array/List and new(kind,Int,a,a,b) go through len/get and must work (run in a forked '
    'child, 3 s limit, label .../from-tuple-with-repeated-object/does-not-terminate); concat from such a Tuple iterates it and hangs on the pinned tree (D16 family) and is not offered',
    'for element types that own resources (Probe, Picky, String) the Array state also carries the number of vacated spare slots and what the last removal left there '
    '(tracked in the model: the bytes of a grown store are uninitialised and cannot be read deterministically), so reuse of a vacated slot without growth is explored from every such state',
    'plain user structs without any instance as elements (elem=plain: 16 bytes, elem=plain12: 12 bytes, values compared by memory): the whole alphabet, plus objects of '
    'four other plain types (same size; 12 bytes = same rounded Array slot; 24 bytes; the other element type) and Ints handed to push/append/set/push_at and as the elements of a concat '
    'source (Array, List, Tuple): each call must raise TypeError (ValueError accepted) and leave contents and len alone - silent success is never accepted; assign from an Array/List '
    'of another plain type converts the element type like every cross-type assign and is judged on a copy of A (iter_type, len, element types and bytes are the source\'s)',
    'in every state of every Array/List instance iter_type(A) is the element type the container was built with and every element handed out by forward iteration (all oracle modes) and by get() (full oracle) carries that type in its header',
    'a Tuple holding the same object twice is a separate opt-in dimension (instance tuple-same-object, known defect D16 of C11)',
    'white-box view obtained by compiling the repository\'s own Array.c and List.c into the harness; one instance runs black-box',
    'gcc/clang, glibc and the sanitizer run-times are trusted',
  ],
  'instances': {
    'quick': [
      # history suffix in the state key (lib/vf_bfs.h suffix=K): the last K operations keep histories apart that end in one visible state
      S('array3-sfx1', 'base', 'kind=array', 'maxlen=3', 'suffix=1'), S('tuple3-sfx1', 'base', 'kind=tuple', 'maxlen=3', 'suffix=1'), S('list3-sfx1', 'base', 'kind=list', 'maxlen=3', 'suffix=1'),
      S('array6', 'base', 'kind=array', 'maxlen=6'),
      S('list6', 'base', 'kind=list', 'maxlen=6'),
      S('tuple6', 'base', 'kind=tuple', 'maxlen=6'),
      S('array5-blackbox', 'base', 'kind=array', 'maxlen=5', cflags=''),
      S('array4-asan', 'asan', 'kind=array', 'maxlen=4'),
      S('list4-asan', 'asan', 'kind=list', 'maxlen=4'),
      S('tuple4-asan', 'asan', 'kind=tuple', 'maxlen=4'),
      S('tuple-same-object', 'base', 'kind=tuple', 'maxlen=3', 'same=1'),
      # light oracle: only len + iteration + white-box between operations; get(i)/mem(v) are explicit operations; kind and index of the
      # last indexed access and the present position of the element it touched are part of the state; two element values keep it affordable (hidden cursors / position caches survive from one operation to the next)
      S('list5-light', 'base', 'kind=list', 'maxlen=5', 'nvals=2', 'oracle=light'),
      S('array4-light', 'base', 'kind=array', 'maxlen=4', 'nvals=2', 'oracle=light'),
      S('tuple5-light', 'base', 'kind=tuple', 'maxlen=5', 'nvals=2', 'oracle=light'),
      S('list3-light-asan', 'asan', 'kind=list', 'maxlen=3', 'oracle=light'),
      # String elements (assign releases/reuses the element's old buffer): a reused vacated slot must have been cleared; the Array state carries
      # "vacated spare slots" (model-tracked) so that histories like push x3 ; pop_at(0) ; push are not merged with growing histories
      S('array-str4', 'base', 'kind=array', 'elem=str', 'maxlen=4'),
      S('array-str4-asan', 'asan', 'kind=array', 'elem=str', 'maxlen=4'),
      S('list-str3-asan', 'asan', 'kind=list', 'elem=str', 'maxlen=3'),
      # plain user structs without any instance (default memcpy assign / memcmp cmp): 16 bytes and 12 bytes (Array slot rounded to 16);
      # the whole alphabet over them, objects of other plain types (same size / same rounded slot / another size) and Ints refused as
      # elements and as concat sources, converting assign on a copy; in every state every element carries iter_type(A)
      S('array-plain4', 'base', 'kind=array', 'elem=plain', 'maxlen=4'),
      S('list-plain4', 'base', 'kind=list', 'elem=plain', 'maxlen=4'),
      S('array-plain12-3-asan', 'asan', 'kind=array', 'elem=plain12', 'maxlen=3'),
      # sort ladder: all permutations to length 8, enumerated families to length 64, sort() and sort_by(gt)
      S('sortladder-array', 'base', 'mode=sortladder', 'kind=array', 'sort_n=64'),
      S('sortladder-tuple', 'base', 'mode=sortladder', 'kind=tuple', 'sort_n=64'),
      S('sortladder-tuple-asan', 'asan', 'mode=sortladder', 'kind=tuple', 'sort_n=32', 'perm_n=7', 'bits_n=10'),
      S('ladder-array', 'base', 'mode=ladder', 'kind=array', 'ladder_n=300'),
      S('ladder-list', 'base', 'mode=ladder', 'kind=list', 'ladder_n=300'),
      S('ladder-tuple', 'base', 'mode=ladder', 'kind=tuple', 'ladder_n=300'),
      S('ladder-array-asan', 'asan', 'mode=ladder', 'kind=array', 'ladder_n=150'),
    ],
    'thorough': [
      # history suffix in the state key (lib/vf_bfs.h suffix=K): the last K operations keep histories apart that end in one visible state
      S('array4-sfx1', 'base', 'kind=array', 'maxlen=4', 'suffix=1'), S('tuple4-sfx1', 'base', 'kind=tuple', 'maxlen=4', 'suffix=1'), S('list4-sfx1', 'base', 'kind=list', 'maxlen=4', 'suffix=1'), S('list3-light-sfx1', 'base', 'kind=list', 'maxlen=3', 'nvals=2', 'oracle=light', 'suffix=1'),
      S('array8', 'base', 'kind=array', 'maxlen=8'),
      S('list9', 'base', 'kind=list', 'maxlen=9'),
      S('tuple9', 'base', 'kind=tuple', 'maxlen=9'),
      S('array6-blackbox', 'base', 'kind=array', 'maxlen=6', cflags=''),
      S('array7-asan', 'asan', 'kind=array', 'maxlen=7'),
      S('list7-asan', 'asan', 'kind=list', 'maxlen=7'),
      S('tuple7-asan', 'asan', 'kind=tuple', 'maxlen=7'),
      S('tuple-same-object', 'base', 'kind=tuple', 'maxlen=4', 'same=1'),
      S('list7-light', 'base', 'kind=list', 'maxlen=7', 'nvals=2', 'oracle=light'),
      S('list5-light-3vals', 'base', 'kind=list', 'maxlen=5', 'oracle=light'),
      S('array6-light', 'base', 'kind=array', 'maxlen=6', 'nvals=2', 'oracle=light'),
      S('tuple7-light', 'base', 'kind=tuple', 'maxlen=7', 'nvals=2', 'oracle=light'),
      S('list4-light-asan', 'asan', 'kind=list', 'maxlen=4', 'nvals=2', 'oracle=light'),
      S('array4-light-asan', 'asan', 'kind=array', 'maxlen=4', 'nvals=2', 'oracle=light'),
      S('array-str6', 'base', 'kind=array', 'elem=str', 'maxlen=6'),
      S('array-str5-asan', 'asan', 'kind=array', 'elem=str', 'maxlen=5'),
      S('list-str5-asan', 'asan', 'kind=list', 'elem=str', 'maxlen=5'),
      S('array-plain5', 'base', 'kind=array', 'elem=plain', 'maxlen=5'),
      S('array-plain12-5', 'base', 'kind=array', 'elem=plain12', 'maxlen=5'),
      S('list-plain6', 'base', 'kind=list', 'elem=plain', 'maxlen=6'),
      S('list-plain12-5', 'base', 'kind=list', 'elem=plain12', 'maxlen=5'),
      S('array-plain12-4-asan', 'asan', 'kind=array', 'elem=plain12', 'maxlen=4'),
      S('list-plain4-asan', 'asan', 'kind=list', 'elem=plain', 'maxlen=4'),
      S('sortladder-array', 'base', 'mode=sortladder', 'kind=array', 'sort_n=100', 'perm_n=9', 'bits_n=14'),
      S('sortladder-tuple', 'base', 'mode=sortladder', 'kind=tuple', 'sort_n=100', 'perm_n=9', 'bits_n=14'),
      S('sortladder-array-asan', 'asan', 'mode=sortladder', 'kind=array', 'sort_n=64'),
      S('sortladder-tuple-asan', 'asan', 'mode=sortladder', 'kind=tuple', 'sort_n=64'),
      S('ladder-array', 'base', 'mode=ladder', 'kind=array', 'ladder_n=1000'),
      S('ladder-list', 'base', 'mode=ladder', 'kind=list', 'ladder_n=600'),
      S('ladder-tuple', 'base', 'mode=ladder', 'kind=tuple', 'ladder_n=600'),
      S('ladder-array-asan', 'asan', 'mode=ladder', 'kind=array', 'ladder_n=300'),
      S('ladder-list-asan', 'asan', 'mode=ladder', 'kind=list', 'ladder_n=300'),
      S('ladder-tuple-asan', 'asan', 'mode=ladder', 'kind=tuple', 'ladder_n=300'),
    ],
  },
}

# Opt-in instances: each offers calls on which the pinned library misbehaves (own proposal each); they are NOT run by
# bin/check.  Move one into CHECK['instances'] once its repair is committed or its label is listed as a known finding.
OPTIN = [
  S('array-alias-grow-asan', 'asan', 'kind=array', 'maxlen=4', 'alias=3'),      # proposed/seq-alias-array-push-own-element.md
  S('array-alias-concat-self-asan', 'asan', 'kind=array', 'maxlen=4', 'alias=5'),  # proposed/seq-alias-concat-self.md
  S('list-alias-concat-self', 'base', 'kind=list', 'maxlen=4', 'alias=5'),          # hangs on the pinned tree (60 s watchdog)
  S('array-alias-assign-self', 'base', 'kind=array', 'maxlen=4', 'alias=9'),        # proposed/seq-alias-assign-self.md
  S('list-alias-assign-self', 'base', 'kind=list', 'maxlen=4', 'alias=9'),
  S('tuple-assign-from-view', 'base', 'kind=tuple', 'maxlen=4', 'viewassign=3'),    # proposed/seq-tuple-assign-from-view-appends.md
]
