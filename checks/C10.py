import os, sys
sys.path.insert(0, os.path.dirname(os.path.abspath(__file__)))
import _agg
CHECK = {'level': 'model_checking', 'rule': '(a) grids: the same Int/Float/String/Type/Ref/Box/struct value in stack, heap and container-embedded allocation classes must be eq and hash equally; hash_data for every length 0..64 x alignment 0..7 against an independent MurmurHash64A; copy/assign/swap over the grids. (b) construction histories: in every state of the Table, Tree and sequence state graphs hash is a function of the abstract value alone (states grouped by abstract value over the whole BFS), eq(copy(x),x), equal hashes, a container rebuilt from the reference model is eq, assign into fresh and non-empty targets, swap(A,B) exchanges two containers. distinct_nontrivial per harness rule', 'bounds': {'quick': 'Table 5 Int / 4 String keys; Tree; sequences length <= 5; grids as C09', 'thorough': 'Table 7 keys; sequences length <= 7; larger grids'}, 'assumptions': ['NaN excluded', 'Type objects cannot be copied/assigned by design (ValueError): not judged']}
CHECK['id'] = 'C10'
CHECK['instances'] = _agg.collect('C10')
