def T(name, variant, *args, **kw):
    d = dict(name=name, harness='h_roundtrip.c', variant=variant, args=list(args))
    d.update(kw)
    return d

CHECK = {
  'id': 'C15',
  'level': 'exploration',
  'rule': ('exhaustive grid: every (value | ordered pair of values joined by a separator: ", ", " ", the white-space-free ",", ";", "|", "::", "=>" and the framed "a=<1>;b=<2>;", "x:<1>,y:<2>") x writer (show_to, print_to %$, print_to with each '
           'numeric / %s specification) x compatible reader (look_from, scan_from %$, scan_from with each specification) x sink/source kind '
           '(heap String, File over tmpfile(), File over open_memstream/fmemopen) x start position {0,2}; each case writes through the real '
           'library, fetches the text from the sink, reads it back through the real library and compares: sink text == filler + text of each '
           'value written alone (String sink == File sink), writer and reader return start + characters written, File stream offset == that '
           'number, value read == value written (Float: == strtod of the written text; readers that C defines as float readers: strtof; '
           'raw %s readers: the token libc sscanf yields); in addition, for every value domain, single print_to calls whose argument list repeats an object - '
           '(x,x), (x,x,y), (x,y,x), (x,y,y,z) - read back by one scan_from into distinct destinations, and (x,y,z) read into (d,d,e) with the same '
           'destination twice (the later value must win, e must still be filled), every spec-based writer x compatible reader x separator x sink x start; distinct_nontrivial = cases whose value is negative or beyond int32 (Int), not '
           'representable as a float (Float), or contains anything but plain letters (String)'),
  'bounds': {
    'quick': ('89 Int values (0, +-1, +-9, +-10, 2^k and 2^k+-1 for 16 exponents up to 62, INT32/UINT32/INT64 limits and neighbours; 12 in pairs) x 15 writers x 13 readers; '
              '348 finite doubles (powers of 2 and 10 across the range, 2^24+-1, 2^53+-1, 1/3, 0.1, DBL_MAX/MIN, FLT_MAX/MIN and beyond, denormals, +-0, both signs; 16 in pairs) '
              'x 14 writers x 10 readers; all 2380 strings of length <= 3 over {a, space, ", \\, \', ?, \\n, \\t, \\a, 0x01, 0x7F, 0x80, 0xFF} plus one of '
              'length 40 (pairs from the 14 strings of length <= 1) x 3 writers x 3 readers; 3 sink kinds; repeated-argument lists over 6 Int, 6 Float and 15 String values (ordered pairs x,y with a third z); the same under ASan+UBSan'),
    'thorough': ('484 Int values (all 2^k, 2^k+-1, 10^k, 10^k+-1; 49 in pairs); 20438 finite doubles (every power of two -1074..1023 with both '
                 'neighbours, every power of ten -323..308 with neighbours and multiples, both signs; 68 in pairs); all 30941 strings of length <= 4 '
                 '(pairs from the 183 of length <= 2); repeated-argument lists over 12 Int, 12 Float and 30 String values; ASan+UBSan on the Int full grid, the quick Float grid and strings <= 3 with pairs <= 2'),
  },
  'assumptions': [
    'glibc strtod/strtof/sscanf/snprintf are the reference for "the best any reader can do at the printed precision" and for the C semantics of %s and of float readers without l',
    'Float equality is bit equality with strtod of the written text (so -0.0 must come back as -0.0); NaN and infinities are outside the property',
    'numeric specifications without l are exercised only for values in the range of int / unsigned int (C14 convention); left-justified widths are not used (trailing blanks are not part of a number)',
    'raw %s pairs only for non-empty strings without white space and only with the " " separator (%s stops at white space only, so "a,b" is one token - anything else is not reversible by the definition of %s)',
    'white-space-free and framed separators are used with pairs from the first 6 values of each pair grid; literals before/after the conversions only where one print_to / scan_from call carries the whole sequence',
    'for a File the position argument is the stream offset: the harness seeks to the start position before reading; sequential look_from calls are separated by a seek over the separator',
    'gcc/clang, glibc stdio (tmpfile, open_memstream, fmemopen) and the sanitizer run-times are trusted',
  ],
  'instances': {
    'quick': [
      T('int', 'base', 'type=int'),
      T('float', 'base', 'type=float', 'pairsepvals=4'),
      T('string', 'base', 'type=string'),
      T('int-asan', 'asan', 'type=int'),
      T('float-asan', 'asan', 'type=float', 'sinks=str,mem', 'repeatvals=4', 'pairsepvals=3'),
      T('string-asan', 'asan', 'type=string'),
    ],
    'thorough': [
      T('int', 'base', 'type=int', 'grid=full', 'repeatvals=12'),
      T('float-str', 'base', 'type=float', 'grid=full', 'sinks=str', 'repeatvals=12'),
      T('float-tmp', 'base', 'type=float', 'grid=full', 'sinks=tmp', 'repeatvals=12'),
      T('float-mem', 'base', 'type=float', 'grid=full', 'sinks=mem', 'repeatvals=12'),
      T('string-str', 'base', 'type=string', 'strlen=4', 'pairlen=2', 'sinks=str', 'repeatvals=30'),
      T('string-tmp', 'base', 'type=string', 'strlen=4', 'pairlen=2', 'sinks=tmp', 'repeatvals=30'),
      T('string-mem', 'base', 'type=string', 'strlen=4', 'pairlen=2', 'sinks=mem', 'repeatvals=30'),
      T('int-asan', 'asan', 'type=int', 'grid=full', 'repeatvals=12'),
      T('float-asan', 'asan', 'type=float'),
      T('string-asan', 'asan', 'type=string', 'strlen=3', 'pairlen=2', 'repeatvals=30'),
    ],
  },
}
