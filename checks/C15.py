def T(name, variant, *args, **kw):
    d = dict(name=name, harness='h_roundtrip.c', variant=variant, args=list(args))
    d.update(kw)
    return d

CHECK = {
  'id': 'C15',
  'level': 'exploration',
  'rule': 'tbd',
  'bounds': {'quick': 'tbd', 'thorough': 'tbd'},
  'assumptions': [],
  'instances': {
    'quick': [
      T('int', 'base', 'type=int'),
      T('float', 'base', 'type=float'),
      T('string', 'base', 'type=string'),
      T('int-asan', 'asan', 'type=int'),
      T('float-asan', 'asan', 'type=float', 'sinks=str,mem'),
      T('string-asan', 'asan', 'type=string'),
    ],
    'thorough': [
      T('int', 'base', 'type=int', 'grid=full'),
      T('float-str', 'base', 'type=float', 'grid=full', 'sinks=str'),
      T('float-tmp', 'base', 'type=float', 'grid=full', 'sinks=tmp'),
      T('float-mem', 'base', 'type=float', 'grid=full', 'sinks=mem'),
      T('string-str', 'base', 'type=string', 'strlen=4', 'pairlen=2', 'sinks=str'),
      T('string-tmp', 'base', 'type=string', 'strlen=4', 'pairlen=2', 'sinks=tmp'),
      T('string-mem', 'base', 'type=string', 'strlen=4', 'pairlen=2', 'sinks=mem'),
      T('int-asan', 'asan', 'type=int', 'grid=full'),
      T('float-asan', 'asan', 'type=float'),
      T('string-asan', 'asan', 'type=string', 'strlen=3', 'pairlen=2'),
    ],
  },
}
