/*
** h_gcreach.c - C01: the collector never reclaims a reachable object.
**
** mode=shapes  every directed graph on n nodes x every assignment of node kinds x every
**              assignment of root kinds, built on the real heap, one collection, then every
**              node the shadow graph reaches from the declared roots must still be registered
**              and intact.   Params: n=2|3 kinds=<letters> roots=<letters> collect=forced|threshold
**                                    part=i/k (split of the enumeration across processes)
** mode=ladder  a rooted container grown and shrunk through every rehash/realloc boundary with a
**              collection after every step
** mode=chain   chains of 10^2..10^6 links (each in a forked child with the default stack):
**              "every collection runs to completion"
**
** Every execution gets a fresh collector (as a new thread would) and ends with its teardown.
** White-box: includes GC.c (struct GC, GC_Mark, GC_Sweep).
*/

/* a root that lives only in a callee-saved register: r12 is reserved for this variable in the whole translation unit
** (GC.c included below is compiled here too); the library itself is built -O0 in the instances that use this root kind,
** so nothing on the way to the stack scan saves r12 on the stack except the collector's own register flush */
#if defined(__GNUC__) && !defined(__clang__) && defined(__x86_64__)
register void* vf_keepreg asm("r12");
#define VF_HAVE_REGROOT 1
#else
static void* vf_keepreg;
#define VF_HAVE_REGROOT 0
#endif

#include "GC.c"
#include "vf.h"

/* the last seven hold their references in containers whose key, value or element type is NOT a plain Ref: a 4-byte tag on the
** other side of a key/value pair (a side smaller than a pointer), or a plain struct stored inline whose fields are the references */
enum { K_PLAIN, K_REF, K_BOX, K_ARRAY, K_LIST, K_TABLE, K_TREE, K_TUPLE,
       K_TREE_SK, K_TREE_SV, K_TABLE_SK, K_TABLE_SV, K_ARRAY_P, K_LIST_P, K_TREE_P,
       /* constructed with Int element/key/value types and then given, by assign(), the contents of a container of Refs:
       ** whatever the container decided about itself at construction must not survive the change of its types */
       K_ARRAY_CV, K_LIST_CV, K_TABLE_CV, K_TREE_CV,
       /* a plain struct with two reference fields whose type ALSO implements C_Int, C_Float, C_Str, Cmp, Hash and Show: what a
       ** type converts to says nothing about what it refers to */
       K_PLAIN_CONV,
       /* a heap Tuple that holds NULL as its first item and its references behind it (a Tuple holds whatever it was given;
       ** an empty slot is no edge, and marking has to get past it) */
       K_TUPLE_N, K_N };
static const char KLET[] = "prbaltTuSVHhALPQqCcXN";
static const char* KNAME[] = { "plain", "Ref", "Box", "Array", "List", "Table", "Tree", "Tuple",
  "Tree<tag4,Ref>", "Tree<Ref,tag4>", "Table<tag4,Ref>", "Table<Ref,tag4>", "Array<struct>", "List<struct>", "Tree<Int,struct>",
  "Array<Int>:=Array<Ref>", "List<Int>:=List<Ref>", "Table<Int,Int>:=Table<Ref,Ref>", "Tree<Int,Int>:=Tree<Ref,Ref>", "plain-with-conversions", "Tuple-with-NULL-item" };
static int base_kind(int k) { return k == K_ARRAY_CV ? K_ARRAY : k == K_LIST_CV ? K_LIST : k == K_TABLE_CV ? K_TABLE : k == K_TREE_CV ? K_TREE : k == K_PLAIN_CONV ? K_PLAIN : k; }
struct PlainC { var a; var b; uint64_t canary; };
static int64_t PlainC_C_Int(var self) { return 7; }
static double PlainC_C_Float(var self) { return 7.5; }
static char* PlainC_C_Str(var self) { return "plainc"; }
static int PlainC_Cmp(var self, var obj) { return self < obj ? -1 : self > obj; }
static uint64_t PlainC_Hash(var self) { return 11; }
static int PlainC_Show(var self, var out, int pos) { return print_to(out, pos, "<plainc>"); }
var PlainC = Cello(PlainC, Instance(C_Int, PlainC_C_Int), Instance(C_Float, PlainC_C_Float), Instance(C_Str, PlainC_C_Str),
  Instance(Cmp, PlainC_Cmp), Instance(Hash, PlainC_Hash), Instance(Show, PlainC_Show, NULL));
enum { R_NONE, R_STACK, R_NEWROOT, R_ROOTREF, R_TLS, R_REG, R_N };
static const char RLET[] = "-snrtg";
static const char* RNAME[] = { "none", "stack", "new_root", "root-Ref-holder", "thread-local", "callee-saved-register" };

struct Plain { var a; var b; uint64_t canary; };
var Plain = Cello(Plain);
#define CANARY 0xFEEDFACECAFEBEEFULL
struct Tag4 { int32_t v; };
var Tag4 = Cello(Tag4);
#define TAG(k) $(Tag4, (int32_t)(k))

#define MAXN 4
struct shape { int n; int kind[MAXN]; int root[MAXN]; unsigned edges[MAXN]; int order; };

static var N[MAXN];            /* node pointers: static storage is not scanned by the collector */
static var HOLD[MAXN];         /* root-registered Ref holders */
static var* stack_bottom;
static struct GC* gc;
static int collect_mode;       /* 0 forced, 1 threshold */
static uint64_t reclaimed_unreachable, kept_unreachable;

static void __attribute__((noinline)) scrub_stack(void) {
  char pad[16384];
  memset(pad, 0, sizeof pad);
  __asm__ volatile("" :: "r"(pad) : "memory");
}

static int popcount(unsigned x) { int c = 0; while (x) { c += x & 1; x >>= 1; } return c; }

static void shape_str(struct shape* s, char* buf, size_t cap) {
  size_t o = snprintf(buf, cap, "n=%d c=%d o=%d ", s->n, collect_mode, s->order);
  for (int i = 0; i < s->n; i++) o += snprintf(buf + o, cap - o, "%c%c%x%s", KLET[s->kind[i]], RLET[s->root[i]], s->edges[i], i + 1 < s->n ? "," : "");
}

static void shape_pretty(struct shape* s, char* buf, size_t cap) {
  size_t o = 0;
  for (int i = 0; i < s->n; i++) {
    o += snprintf(buf + o, cap - o, "%s#%d:%s[root:%s]->{", i ? " " : "", i, KNAME[s->kind[i]], RNAME[s->root[i]]);
    for (int j = 0; j < s->n; j++) if (s->edges[i] >> j & 1) o += snprintf(buf + o, cap - o, "#%d", j);
    o += snprintf(buf + o, cap - o, "}");
  }
}

static int targets(struct shape* s, int i, int* out) {
  int k = 0;
  for (int j = 0; j < s->n; j++) if (s->edges[i] >> j & 1) out[k++] = j;
  return k;
}

/* kind arity and ownership constraints (in-contract shapes only) */
static int shape_ok(struct shape* s) {
  { int nreg = 0; for (int i = 0; i < s->n; i++) if (s->root[i] == R_REG) nreg++; if (nreg > 1 || (nreg && !VF_HAVE_REGROOT)) return 0; }
  for (int i = 0; i < s->n; i++) {
    int d = popcount(s->edges[i]);
    if ((s->kind[i] == K_PLAIN || s->kind[i] == K_PLAIN_CONV) && d > 2) return 0;
    if ((s->kind[i] == K_REF || s->kind[i] == K_BOX) && d > 1) return 0;
    if (s->kind[i] == K_BOX && d == 1) {
      int t[MAXN]; targets(s, i, t);
      int j = t[0];
      if (j == i) return 0;                      /* a Box cannot own itself */
      if (s->root[j] != R_NONE) return 0;         /* the owned object lives and dies with its Box */
      for (int p = 0; p < s->n; p++) if (p != i && (s->edges[p] >> j & 1)) return 0;  /* sole referrer */
      if (s->kind[j] == K_BOX) { /* chains of boxes are fine; cycles are not */
        int x = j, steps = 0;
        while (s->kind[x] == K_BOX && s->edges[x] && steps++ < MAXN) { int tt[MAXN]; targets(s, x, tt); x = tt[0]; if (x == i) return 0; }
      }
    }
  }
  return 1;
}

static var alloc_node(int kind, int as_root) {
  switch (kind) {
  case K_PLAIN: { struct Plain* p = as_root ? (var)new_root(Plain) : (var)new(Plain); p->canary = CANARY; return p; }
  case K_PLAIN_CONV: { struct PlainC* p = as_root ? (var)new_root(PlainC) : (var)new(PlainC); p->canary = CANARY; return p; }
  case K_REF:   return as_root ? (var)new_root(Ref) : (var)new(Ref);
  case K_BOX:   { struct Box* b = as_root ? (var)alloc_root(Box) : (var)alloc(Box); b->val = NULL; return b; }
  case K_ARRAY: return as_root ? (var)new_root(Array, Ref) : (var)new(Array, Ref);
  case K_LIST:  return as_root ? (var)new_root(List, Ref) : (var)new(List, Ref);
  case K_TABLE: return as_root ? (var)new_root(Table, Ref, Ref) : (var)new(Table, Ref, Ref);
  case K_TREE:  return as_root ? (var)new_root(Tree, Ref, Ref) : (var)new(Tree, Ref, Ref);
  case K_TUPLE: return as_root ? (var)new_root(Tuple) : (var)new(Tuple);
  case K_TUPLE_N: { var c = as_root ? (var)new_root(Tuple) : (var)new(Tuple); push(c, NULL); return c; }
  case K_TREE_SK:  return as_root ? (var)new_root(Tree, Tag4, Ref) : (var)new(Tree, Tag4, Ref);
  case K_TREE_SV:  return as_root ? (var)new_root(Tree, Ref, Tag4) : (var)new(Tree, Ref, Tag4);
  case K_TABLE_SK: return as_root ? (var)new_root(Table, Tag4, Ref) : (var)new(Table, Tag4, Ref);
  case K_TABLE_SV: return as_root ? (var)new_root(Table, Ref, Tag4) : (var)new(Table, Ref, Tag4);
  case K_ARRAY_P:  return as_root ? (var)new_root(Array, Plain) : (var)new(Array, Plain);
  case K_LIST_P:   return as_root ? (var)new_root(List, Plain) : (var)new(List, Plain);
  case K_TREE_P:   return as_root ? (var)new_root(Tree, Int, Plain) : (var)new(Tree, Int, Plain);
  case K_ARRAY_CV: { var c = as_root ? (var)new_root(Array, Int) : (var)new(Array, Int); push(c, $I(1)); return c; }
  case K_LIST_CV:  { var c = as_root ? (var)new_root(List, Int) : (var)new(List, Int); push(c, $I(1)); return c; }
  case K_TABLE_CV: { var c = as_root ? (var)new_root(Table, Int, Int) : (var)new(Table, Int, Int); set(c, $I(1), $I(2)); return c; }
  case K_TREE_CV:  { var c = as_root ? (var)new_root(Tree, Int, Int) : (var)new(Tree, Int, Int); set(c, $I(1), $I(2)); return c; }
  }
  return NULL;
}

static void __attribute__((noinline)) build(struct shape* s) {
  /* while the shape is under construction the program holds every node in a local, as any
  ** program would; allocations may trigger collections at any point during the build */
  volatile var hold[MAXN] = { NULL, NULL, NULL, NULL };
  for (int q = 0; q < s->n; q++) {
    int i = s->order ? s->n - 1 - q : q;
    N[i] = alloc_node(s->kind[i], s->root[i] == R_NEWROOT);
    hold[i] = N[i];
  }
  for (int i = 0; i < s->n; i++) {
    int t[MAXN]; int d = targets(s, i, t);
    switch (s->kind[i]) {
    case K_PLAIN: case K_PLAIN_CONV: { struct Plain* p = N[i]; if (d > 0) p->a = N[t[0]]; if (d > 1) p->b = N[t[1]]; break; }
    case K_REF: case K_BOX: if (d) ref(N[i], N[t[0]]); break;
    case K_ARRAY: case K_LIST: for (int k = 0; k < d; k++) push(N[i], $R(N[t[k]])); break;
    case K_TABLE: case K_TREE:
      for (int k = 0; k < d; k += 2) set(N[i], $R(N[t[k]]), $R(k + 1 < d ? N[t[k + 1]] : NULL));
      break;
    case K_TUPLE: case K_TUPLE_N: for (int k = 0; k < d; k++) push(N[i], N[t[k]]); break;
    case K_TREE_SK: case K_TABLE_SK: for (int k = 0; k < d; k++) set(N[i], TAG(k), $R(N[t[k]])); break;
    case K_TREE_SV: case K_TABLE_SV: for (int k = 0; k < d; k++) set(N[i], $R(N[t[k]]), TAG(k)); break;
    case K_ARRAY_P: case K_LIST_P: for (int k = 0; k < d; k += 2) push(N[i], $(Plain, N[t[k]], k + 1 < d ? N[t[k + 1]] : NULL, CANARY)); break;
    case K_TREE_P: for (int k = 0; k < d; k += 2) set(N[i], $I(k), $(Plain, N[t[k]], k + 1 < d ? N[t[k + 1]] : NULL, CANARY)); break;
    case K_ARRAY_CV: case K_LIST_CV: {
      volatile var tmp = s->kind[i] == K_ARRAY_CV ? (var)new(Array, Ref) : (var)new(List, Ref);
      for (int k = 0; k < d; k++) push((var)tmp, $R(N[t[k]]));
      assign(N[i], (var)tmp); tmp = NULL; break; }
    case K_TABLE_CV: case K_TREE_CV: {
      volatile var tmp = s->kind[i] == K_TABLE_CV ? (var)new(Table, Ref, Ref) : (var)new(Tree, Ref, Ref);
      for (int k = 0; k < d; k += 2) set((var)tmp, $R(N[t[k]]), $R(k + 1 < d ? N[t[k + 1]] : NULL));
      assign(N[i], (var)tmp); tmp = NULL; break; }
    }
  }
  for (int i = 0; i < s->n; i++) {
    HOLD[i] = NULL;
    if (s->root[i] == R_ROOTREF) { HOLD[i] = new_root(Ref); ref(HOLD[i], N[i]); }
    if (s->root[i] == R_TLS) { char key[8]; snprintf(key, sizeof key, "vr%d", i); set(current(Thread), $S(key), N[i]); }
  }
  for (int i = 0; i < MAXN; i++) hold[i] = NULL;
}

static void __attribute__((noinline)) do_collect(void) {
  if (collect_mode == 0) {
    GC_Mark(gc);
    GC_Sweep(gc);
    return;
  }
  /* allocate garbage until the collector runs on its own */
  for (int k = 0; k < 4096; k++) {
    size_t before = gc->nitems;
    new(Int);
    if (gc->nitems <= before) return;
  }
  vf_note("threshold mode: no collection within 4096 allocations");
}

/* read node i back and compare with what was stored; any exception or mismatch is a violation */
static const char* verify_node(struct shape* s, int i) {
  int t[MAXN]; int d = targets(s, i, t);
  var x = N[i];
  switch (base_kind(s->kind[i])) {
  case K_PLAIN: { struct Plain* p = x;
    if (p->canary != CANARY) return "contents-corrupted";
    if (type_of(x) != (s->kind[i] == K_PLAIN_CONV ? PlainC : Plain)) return "type-changed";
    if (d > 0 && p->a != N[t[0]]) return "contents-corrupted";
    if (d > 1 && p->b != N[t[1]]) return "contents-corrupted";
    return NULL; }
  case K_REF: case K_BOX:
    if (type_of(x) != (s->kind[i] == K_REF ? Ref : Box)) return "type-changed";
    if (deref(x) != (d ? N[t[0]] : NULL)) return "contents-corrupted";
    return NULL;
  case K_ARRAY: case K_LIST:
    if (len(x) != (size_t)d) return "contents-corrupted";
    for (int k = 0; k < d; k++) if (deref(get(x, $I(k))) != N[t[k]]) return "contents-corrupted";
    return NULL;
  case K_TABLE: case K_TREE:
    if (len(x) != (size_t)((d + 1) / 2)) return "contents-corrupted";
    for (int k = 0; k < d; k += 2) if (deref(get(x, $R(N[t[k]]))) != (k + 1 < d ? N[t[k + 1]] : NULL)) return "contents-corrupted";
    return NULL;
  case K_TUPLE:
    if (len(x) != (size_t)d) return "contents-corrupted";
    for (int k = 0; k < d; k++) if (get(x, $I(k)) != N[t[k]]) return "contents-corrupted";
    return NULL;
  case K_TUPLE_N:
    if (len(x) != (size_t)d + 1 || get(x, $I(0)) != NULL) return "contents-corrupted";
    for (int k = 0; k < d; k++) if (get(x, $I(k + 1)) != N[t[k]]) return "contents-corrupted";
    return NULL;
  case K_TREE_SK: case K_TABLE_SK:
    if (len(x) != (size_t)d) return "contents-corrupted";
    for (int k = 0; k < d; k++) if (deref(get(x, TAG(k))) != N[t[k]]) return "contents-corrupted";
    return NULL;
  case K_TREE_SV: case K_TABLE_SV:
    if (len(x) != (size_t)d) return "contents-corrupted";
    for (int k = 0; k < d; k++) if (((struct Tag4*)get(x, $R(N[t[k]])))->v != k) return "contents-corrupted";
    return NULL;
  case K_ARRAY_P: case K_LIST_P: case K_TREE_P:
    if (len(x) != (size_t)((d + 1) / 2)) return "contents-corrupted";
    for (int k = 0; k < d; k += 2) {
      struct Plain* q = get(x, $I(s->kind[i] == K_TREE_P ? k : k / 2));
      if (q->canary != CANARY || q->a != N[t[k]] || q->b != (k + 1 < d ? N[t[k + 1]] : NULL)) return "contents-corrupted";
    }
    return NULL;
  }
  return NULL;
}

static char labelbuf[200];
static uint64_t outcome_bits;

static void __attribute__((noinline)) run_shape(struct shape* s) {
  volatile var stackroots[MAXN] = { NULL, NULL, NULL, NULL };
  char cs[128], pretty[512];
  shape_str(s, cs, sizeof cs);
  shape_pretty(s, pretty, sizeof pretty);
  vf_set_cur("%s | %s collect=%s", cs, pretty, collect_mode ? "threshold" : "forced");

  gc = new_raw(GC, $R(stack_bottom));
  volatile int bad = 0;
  var e = VF_CATCH(build(s));
  if (e) { vf_violation("shape/build/raises", NULL, "building the heap shape raised %s", vf_exc_name(e)); bad = 1; }
  if (!bad) {
    for (int i = 0; i < s->n; i++) if (s->root[i] == R_STACK) stackroots[i] = N[i];
    for (int i = 0; i < s->n; i++) if (s->root[i] == R_REG) vf_keepreg = N[i];   /* loaded straight from static storage into r12 */
    scrub_stack();
    int has_reg = 0; for (int i = 0; i < s->n; i++) if (s->root[i] == R_REG) has_reg = 1;
    if (has_reg) {
      /* no try block here: its jmp_buf (in this frame, inside the scanned range) would itself hold a copy of r12 */
      do_collect(); e = NULL;
    } else e = VF_CATCH(do_collect());
    if (e) { vf_violation("shape/collect/raises", NULL, "the collection raised %s", vf_exc_name(e)); bad = 1; }
  }
  if (vf_keepreg == (void*)1) bad = 1;   /* keeps the register variable observably live across the collection */
  if (!bad) {
    /* shadow reachability from the declared roots */
    int reach[MAXN] = {0}; int changed = 1;
    int rkind[MAXN] = {0}, viak[MAXN];   /* which root kind keeps a node alive, and through which representation */
    /* thread-local roots are propagated last, so a node they alone keep alive is labelled as such */
    static const int prio[] = { R_STACK, R_NEWROOT, R_ROOTREF, R_REG, R_TLS };
    for (int i = 0; i < s->n; i++) viak[i] = -1;
    for (size_t pi = 0; pi < 5; pi++) {
      for (int i = 0; i < s->n; i++) if (s->root[i] == prio[pi] && !reach[i]) { reach[i] = 1; rkind[i] = prio[pi]; }
      changed = 1;
      while (changed) {
        changed = 0;
        for (int i = 0; i < s->n; i++) if (reach[i]) for (int j = 0; j < s->n; j++) if ((s->edges[i] >> j & 1) && !reach[j]) { reach[j] = 1; rkind[j] = rkind[i]; viak[j] = s->kind[i]; changed = 1; }
      }
    }
    int nreach = 0;
    for (int i = 0; i < s->n && !bad; i++) {
      volatile bool registered = false;
      e = VF_CATCH(registered = mem(gc, N[i]));
      if (e) { vf_violation("shape/mem/raises", NULL, "mem(gc, node) raised %s", vf_exc_name(e)); bad = 1; break; }
      if (reach[i]) {
        nreach++;
        /* how is it reachable: directly rooted, or only through another node (which kind)? */
        const char* via = viak[i] < 0 ? "direct" : KNAME[viak[i]];
        const char* rk = RNAME[rkind[i]];
        if (!registered) {
          snprintf(labelbuf, sizeof labelbuf, "shape/reachable-reclaimed/node:%s/via:%s/root:%s/%s", KNAME[s->kind[i]], via, rk, collect_mode ? "threshold" : "forced");
          vf_violation(labelbuf, NULL, "node #%d (%s) is reachable (%s, root kind %s) but the collection reclaimed it", i, KNAME[s->kind[i]], via, rk);
          bad = 1; break;
        }
        volatile const char* why = NULL;
        e = VF_CATCH(why = verify_node(s, i));
        if (e || why) {
          snprintf(labelbuf, sizeof labelbuf, "shape/reachable-damaged/node:%s/via:%s/root:%s/%s", KNAME[s->kind[i]], via, rk, e ? vf_exc_name(e) : (const char*)why);
          vf_violation(labelbuf, NULL, "node #%d (%s) is reachable but reading it back gave %s", i, KNAME[s->kind[i]], e ? vf_exc_name(e) : (const char*)why);
          bad = 1; break;
        }
      } else {
        if (!registered) { reclaimed_unreachable++; outcome_bits |= 1; } else { kept_unreachable++; outcome_bits |= 2; }
      }
    }
    if (nreach && nreach < s->n) vf.nontrivial++;
  }
  /* teardown: release roots, thread-local entries, then the collector (which sweeps the rest) */
  for (int i = 0; i < s->n; i++) {
    if (s->root[i] == R_TLS) { char key[8]; snprintf(key, sizeof key, "vr%d", i); var e2 = VF_CATCH(rem(current(Thread), $S(key))); (void)e2; }
    stackroots[i] = NULL;
  }
  vf_keepreg = NULL;
  if (!bad) {
    for (int i = 0; i < s->n; i++) if (HOLD[i]) { del_root(HOLD[i]); HOLD[i] = NULL; }
    /* root nodes: a Box that is a root owns its target, which the del below finalises too */
    for (int i = 0; i < s->n; i++) if (s->root[i] == R_NEWROOT) { var e2 = VF_CATCH(del_root(N[i])); (void)e2; }
  }
  e = VF_CATCH(del_raw(gc));
  gc = NULL;
  if (e && !bad) vf_violation("shape/teardown/raises", NULL, "collector teardown raised %s", vf_exc_name(e));
  vf.executions++; vf.transitions++;
  if (vf_want_sample()) vf_sample("%s", vf_cur);
}

/* ---- enumeration ------------------------------------------------------------------ */

static int allowed_kinds[K_N], n_allowed_kinds, allowed_roots[R_N], n_allowed_roots;

static void enumerate_shapes(int n, int part, int nparts) {
  struct shape s; memset(&s, 0, sizeof s); s.n = n;
  unsigned nmask = 1u << n;
  uint64_t idx = 0;
  int ki[MAXN] = {0}, ri[MAXN] = {0}; unsigned em[MAXN] = {0};
  /* odometer over (kind, root, edges) per node, simplest first */
  uint64_t per = (uint64_t)n_allowed_kinds * n_allowed_roots * nmask;
  uint64_t total = 1; for (int i = 0; i < n; i++) total *= per;
  vf_watchdog(120);   /* armed before the first case (a marker that never returns must be a verdict, not a hung check) */
  for (uint64_t code = 0; code < total; code++) {
    uint64_t c = code; int ok = 1;
    for (int i = 0; i < n; i++) {
      uint64_t d = c % per; c /= per;
      s.edges[i] = (unsigned)(d % nmask); d /= nmask;
      s.root[i] = allowed_roots[d % n_allowed_roots]; d /= n_allowed_roots;
      s.kind[i] = allowed_kinds[d];
    }
    if (!shape_ok(&s)) continue;
    idx++;
    if ((int)(idx % nparts) != part) continue;
    if ((idx & 255) == 0) { vf_watchdog(120); if (vf_deadline_hit()) { vf_note("deadline hit at shape code %" PRIu64 " of %" PRIu64, code, total); return; } }
    for (s.order = 0; s.order < (n > 1 ? 2 : 1); s.order++) run_shape(&s);
    vf.states++;
  }
}

static int parse_shape(const char* str, struct shape* s) {
  int n, c, o; int used = 0;
  if (sscanf(str, "n=%d c=%d o=%d %n", &n, &c, &o, &used) < 3) return 0;
  s->n = n; collect_mode = c; s->order = o;
  const char* p = str + used;
  for (int i = 0; i < n; i++) {
    const char* k = strchr(KLET, p[0]); const char* r = strchr(RLET, p[1]);
    if (!k || !r) return 0;
    s->kind[i] = (int)(k - KLET); s->root[i] = (int)(r - RLET);
    s->edges[i] = (unsigned)strtoul(p + 2, (char**)&p, 16);
    if (*p == ',') p++;
  }
  return 1;
}

/* ---- container size ladder --------------------------------------------------------- */

static void __attribute__((noinline)) ladder_fill(var cont, int kind, var* kids, int from, int to) {
  for (int k = from; k < to; k++) {
    kids[k] = new(Int, $I(1000 + k));
    switch (kind) {
    case K_ARRAY: case K_LIST: push(cont, $R(kids[k])); break;
    case K_TABLE: case K_TREE: if (k & 1) set(cont, $R(kids[k - 1]), $R(kids[k])); else set(cont, $R(kids[k]), $R(NULL)); break;
    case K_TUPLE: push(cont, kids[k]); break;
    case K_TREE_SK: case K_TABLE_SK: set(cont, TAG(k), $R(kids[k])); break;
    case K_TREE_SV: case K_TABLE_SV: set(cont, $R(kids[k]), TAG(k)); break;
    case K_ARRAY_P: case K_LIST_P: push(cont, $(Plain, kids[k], NULL, CANARY)); break;
    case K_TREE_P: set(cont, $I(k), $(Plain, NULL, kids[k], CANARY)); break;
    }
  }
}

static void __attribute__((noinline)) ladder_remove_last(var cont, int kind, var* kids, int k) {
  switch (kind) {
  case K_ARRAY: case K_LIST: case K_TUPLE: case K_ARRAY_P: case K_LIST_P: pop(cont); break;
  case K_TREE_SK: case K_TABLE_SK: rem(cont, TAG(k)); break;
  case K_TREE_SV: case K_TABLE_SV: rem(cont, $R(kids[k])); break;
  case K_TREE_P: rem(cont, $I(k)); break;
  case K_TABLE: case K_TREE:
    if (k & 1) { set(cont, $R(kids[k - 1]), $R(NULL)); }   /* the value goes away, its key stays */
    else rem(cont, $R(kids[k]));
    break;
  }
}

static void ladder(void) {
  vf.phase = "c01-ladder";
  static const int sizes[] = { 0, 1, 5, 6, 11, 12, 23, 24, 53, 54, 101, 102 };
  static var kids[128];
  int kinds[] = { K_ARRAY, K_LIST, K_TABLE, K_TREE, K_TUPLE, K_TREE_SK, K_TREE_SV, K_TABLE_SK, K_TABLE_SV, K_ARRAY_P, K_LIST_P, K_TREE_P };
  for (size_t ki = 0; ki < sizeof kinds / sizeof kinds[0]; ki++) {
    for (int cm = 0; cm < 2; cm++) {
      int kind = kinds[ki];
      collect_mode = cm;
      vf_watchdog(120);
      vf_set_cur("ladder kind=%s collect=%s", KNAME[kind], cm ? "threshold" : "forced");
      gc = new_raw(GC, $R(stack_bottom));
      volatile var root = alloc_node(kind, 0);   /* held in this frame: a stack root */
      int have = 0, bad = 0;
      /* grow through every size class, then shrink one element at a time */
      for (size_t si = 0; si < sizeof sizes / sizeof sizes[0] && !bad; si++) {
        ladder_fill((var)root, kind, kids, have, sizes[si]);
        have = sizes[si];
        scrub_stack(); do_collect();
        vf.transitions++;
        for (int k = 0; k < have; k++) {
          if (!mem(gc, kids[k]) ) { snprintf(labelbuf, sizeof labelbuf, "ladder/%s/grow/child-reclaimed/%s", KNAME[kind], cm ? "threshold" : "forced"); vf_violation(labelbuf, NULL, "child %d of a rooted %s holding %d children was reclaimed", k, KNAME[kind], have); bad = 1; break; }
          if (c_int(kids[k]) != 1000 + k) { snprintf(labelbuf, sizeof labelbuf, "ladder/%s/grow/child-damaged", KNAME[kind]); vf_violation(labelbuf, NULL, "child %d damaged", k); bad = 1; break; }
        }
        if (!mem(gc, (var)root)) { vf_violation("ladder/container-reclaimed", NULL, "the rooted container itself was reclaimed"); bad = 1; }
        vf.evaluations++; vf.nontrivial++;
      }
      while (have > 0 && !bad) {
        ladder_remove_last((var)root, kind, kids, have - 1);
        have--;
        scrub_stack(); do_collect();
        vf.transitions++;
        for (int k = 0; k < have; k++) {
          if (!mem(gc, kids[k])) { snprintf(labelbuf, sizeof labelbuf, "ladder/%s/shrink/child-reclaimed/%s", KNAME[kind], cm ? "threshold" : "forced"); vf_violation(labelbuf, NULL, "child %d of a rooted %s holding %d children was reclaimed", k, KNAME[kind], have); bad = 1; break; }
          if (c_int(kids[k]) != 1000 + k) { snprintf(labelbuf, sizeof labelbuf, "ladder/%s/shrink/child-damaged", KNAME[kind]); vf_violation(labelbuf, NULL, "child %d damaged", k); bad = 1; break; }
        }
        if (!mem(gc, kids[have])) reclaimed_unreachable++; else kept_unreachable++;
        vf.evaluations++;
      }
      root = NULL;
      del_raw(gc); gc = NULL;
      vf.executions++; vf.states++;
      vf_sample("%s", vf_cur);
    }
  }
}

/* ---- long chains ------------------------------------------------------------------- */

struct chain_arg { int kind; long len; };

static void chain_child(void* a_) {
  struct chain_arg* a = a_;
  /* fresh collector for the child */
  gc = new_raw(GC, $R(stack_bottom));
  volatile var head = NULL;
  var prev = NULL;
  for (long i = 0; i < a->len; i++) {
    var x;
    switch (a->kind) {
    case 0: { struct Plain* p = new(Plain); p->canary = CANARY; p->a = prev; x = p; break; }
    case 1: x = new(Ref); ref(x, prev); break;
    case 2: { struct Box* b = alloc(Box); b->val = prev; x = b; break; }
    default: x = new(List, Ref); if (prev) push(x, $R(prev)); break;
    }
    prev = x; head = x;
  }
  GC_Mark(gc); GC_Sweep(gc);
  /* the whole chain is reachable from `head` */
  long n = 0; var x = (var)head;
  while (x && n < a->len + 1) {
    if (!mem(gc, x)) _exit(41);
    n++;
    switch (a->kind) {
    case 0: x = ((struct Plain*)x)->a; break;
    case 1: case 2: x = deref(x); break;
    default: x = len(x) ? deref(get(x, $I(0))) : NULL; break;
    }
  }
  if (n != a->len) _exit(42);
  _exit(0);
}

static void chain(void) {
  vf.phase = "c01-chain";
  static const char* ck[] = { "plain-next-pointer", "Ref", "Box", "nested-one-element-List" };
  long maxlen = vf_param_i("maxlen", 100000);
  for (int kind = 0; kind < 4; kind++) {
    for (long len = 100; len <= maxlen; len *= 10) {
      struct chain_arg a = { kind, len };
      vf_set_cur("chain kind=%d len=%ld | %s chain of %ld links, forced collection", kind, len, ck[kind], len);
      struct vf_child r = vf_fork_run(chain_child, &a, 300);
      vf.executions++; vf.transitions++; vf.states++; vf.evaluations++;
      if (len >= 10000) vf.nontrivial++;
      const char* sym = NULL;
      if (r.timed_out) sym = "collection-does-not-finish";
      else if (r.signaled) sym = r.sig == SIGSEGV ? "collector-crash-SIGSEGV" : "collector-crash-signal";
      else if (r.status == 41) sym = "reachable-link-reclaimed";
      else if (r.status == 42) sym = "chain-broken";
      else if (r.status != 0) sym = "child-failed";
      if (sym) {
        snprintf(labelbuf, sizeof labelbuf, "chain/%s/len=%ld/%s", ck[kind], len, sym);
        vf_violation(labelbuf, NULL, "a %s chain of %ld links, all reachable from one stack root: %s (the marking phase recurses once per link)", ck[kind], len, sym);
      }
      vf_sample("%s => %s", vf_cur, sym ? sym : "ok");
    }
  }
}


/* ---- collections inside element callbacks ------------------------------------------------------------------------
** mode=callbacks: a rooted container whose elements (or keys, or values) are of a type with its own constructor, assignment
** and destructor, each element holding the ONLY reference to a managed leaf object.  One container operation is run with a
** forced collection inside the k-th element callback it makes - for every operation of the kind, every position, every k -
** so the collection sees the container in each of its intermediate states.  Afterwards every leaf referenced by an element
** the reference model says is still contained must be registered and intact. */

struct Trig { var leaf; int64_t id; uint64_t live; };
extern var Trig;
static int cb_count, cb_fire_at;   /* callbacks seen in this operation; collect inside the cb_fire_at-th (0 = never) */
static int cb_kinds;               /* bit 1 assign, bit 2 destruct, bit 4 construct: which callbacks count */
static void cb_point(int kindbit) {
  if (!(cb_kinds & kindbit) || !gc) return;
  cb_count++;
  if (cb_count == cb_fire_at) { GC_Mark(gc); GC_Sweep(gc); }
}
static void Trig_New(var self, var args) {
  struct Trig* t = self; t->live = CANARY;
  if (len(args) >= 2) { t->leaf = get(args, $I(0)); t->id = c_int(get(args, $I(1))); } else { t->leaf = NULL; t->id = -1; }
  cb_point(4);
}
static void Trig_Del(var self) { struct Trig* t = self; cb_point(2); t->live = 0; t->leaf = NULL; }
static void Trig_Assign(var self, var obj) {
  struct Trig* t = self; struct Trig* o = obj;
  t->leaf = o->leaf; t->id = o->id; t->live = CANARY;
  cb_point(1);
}
static int Trig_Cmp(var self, var obj) { int64_t a = ((struct Trig*)self)->id, b = ((struct Trig*)obj)->id; return a < b ? -1 : a > b; }
static uint64_t Trig_Hash(var self) { return (uint64_t)((struct Trig*)self)->id * 55u; }
var Trig = Cello(Trig, Instance(New, Trig_New, Trig_Del), Instance(Assign, Trig_Assign), Instance(Cmp, Trig_Cmp), Instance(Hash, Trig_Hash));

#define CB_MAXE 12
static var LEAF[CB_MAXE];          /* static storage: not scanned */
enum { CK_ARRAY, CK_LIST, CK_TABLE_V, CK_TREE_V, CK_TABLE_K, CK_TREE_K, CK_N };
static const char* CKNAME[] = { "Array<elem>", "List<elem>", "Table<Int,elem>", "Tree<Int,elem>", "Table<elem,Int>", "Tree<elem,Int>" };
enum { CO_POP, CO_POP_AT, CO_REM, CO_PUSH, CO_PUSH_AT, CO_SET, CO_RESIZE, CO_CONCAT, CO_ASSIGN_FROM, CO_COPY, CO_N };
static const char* CONAME[] = { "pop", "pop_at", "rem", "push", "push_at", "set", "resize", "concat", "assign-from-other", "copy" };

static var __attribute__((noinline)) cb_leaf(int id) { return new(Int, $I(1000 + id)); }
static var cb_new_container(int ck) {
  switch (ck) {
  case CK_ARRAY: return new(Array, Trig); case CK_LIST: return new(List, Trig);
  case CK_TABLE_V: return new(Table, Int, Trig); case CK_TREE_V: return new(Tree, Int, Trig);
  case CK_TABLE_K: return new(Table, Trig, Int); default: return new(Tree, Trig, Int);
  }
}
static void __attribute__((noinline)) cb_insert(var c, int ck, int id) {
  /* the leaf is made here and referenced from this frame only until the element holds it */
  var lf = cb_leaf(id); LEAF[id] = lf;
  switch (ck) {
  case CK_ARRAY: case CK_LIST: push(c, $(Trig, lf, id, CANARY)); break;
  case CK_TABLE_V: case CK_TREE_V: set(c, $I(id * 55), $(Trig, lf, id, CANARY)); break;
  default: set(c, $(Trig, lf, id, CANARY), $I(id)); break;
  }
}
static int cb_is_seq(int ck) { return ck == CK_ARRAY || ck == CK_LIST; }

/* model: ids contained, in order for sequences */
static int cb_model[CB_MAXE], cb_key[CB_MAXE], cb_mn;   /* element id and (maps with Int keys) the key it is bound to */
static void cb_model_rem(int pos) { for (int i = pos; i + 1 < cb_mn; i++) { cb_model[i] = cb_model[i + 1]; cb_key[i] = cb_key[i + 1]; } cb_mn--; }
static void cb_model_ins(int pos, int id) { for (int i = cb_mn; i > pos; i--) { cb_model[i] = cb_model[i - 1]; cb_key[i] = cb_key[i - 1]; } cb_model[pos] = id; cb_key[pos] = id; cb_mn++; }

/* run operation `op` with argument `arg` on container c (n elements, ids 0..n-1); returns 0 if not applicable */
static int __attribute__((noinline)) cb_apply(var c, int ck, int op, int arg, int n, volatile var* other_out) {
  int seq = cb_is_seq(ck);
  int fresh = n;     /* id of a new element */
  switch (op) {
  case CO_POP: if (!seq || n == 0) return 0; pop(c); cb_model_rem(cb_mn - 1); return 1;
  case CO_POP_AT: if (!seq || arg >= n) return 0; pop_at(c, $I(arg)); cb_model_rem(arg); return 1;
  case CO_REM:
    if (arg >= n) return 0;
    if (seq) rem(c, $(Trig, NULL, arg, CANARY));
    else if (ck == CK_TABLE_V || ck == CK_TREE_V) rem(c, $I(arg * 55));
    else rem(c, $(Trig, NULL, arg, CANARY));
    for (int i = 0; i < cb_mn; i++) if (cb_model[i] == arg) { cb_model_rem(i); break; }
    return 1;
  case CO_PUSH: if (arg != 0) return 0; cb_insert(c, ck, fresh); cb_key[cb_mn] = fresh; cb_model[cb_mn++] = fresh; return 1;
  case CO_PUSH_AT: {
    if (!seq || arg > n) return 0;
    var lf = cb_leaf(fresh); LEAF[fresh] = lf;
    push_at(c, $(Trig, lf, fresh, CANARY), $I(arg)); cb_model_ins(arg, fresh); return 1; }
  case CO_SET: {
    if (arg >= n) return 0;
    var lf = cb_leaf(fresh); LEAF[fresh] = lf;
    if (seq) { set(c, $I(arg), $(Trig, lf, fresh, CANARY)); cb_model[arg] = fresh; }
    else if (ck == CK_TABLE_V || ck == CK_TREE_V) { set(c, $I(arg * 55), $(Trig, lf, fresh, CANARY)); for (int i = 0; i < cb_mn; i++) if (cb_model[i] == arg) cb_model[i] = fresh; }
    else { set(c, $(Trig, LEAF[arg], arg, CANARY), $I(77)); }   /* existing key (an equal key object holding the same leaf): value replaced */
    return 1; }
  case CO_RESIZE:
    if (ck == CK_TREE_V || ck == CK_TREE_K) { if (arg != 0) return 0; resize(c, 0); cb_mn = 0; return 1; }
    if (!seq) { if (arg != 0 && arg != n) return 0; resize(c, (size_t)arg); if (arg == 0) cb_mn = 0; return 1; }
    if (arg > n) return 0;           /* growing constructs blank elements: no leaves involved */
    resize(c, (size_t)arg); cb_mn = arg; return 1;
  case CO_CONCAT: case CO_ASSIGN_FROM: {
    if (arg != 0) return 0;
    if (op == CO_CONCAT && !seq) return 0;
    volatile var o = cb_new_container(ck);
    *other_out = o;
    cb_insert((var)o, ck, fresh); cb_insert((var)o, ck, fresh + 1);
    if (op == CO_CONCAT) concat(c, (var)o); else { assign(c, (var)o); cb_mn = 0; }
    cb_key[cb_mn] = fresh; cb_model[cb_mn++] = fresh; cb_key[cb_mn] = fresh + 1; cb_model[cb_mn++] = fresh + 1;
    return 1; }
  case CO_COPY: {
    if (arg != 0) return 0;
    *other_out = copy(c);            /* the copy holds the same leaves through its own elements */
    return 1; }
  }
  return 0;
}

static const char* cb_verify(var c, int ck, const int* ids, const int* keys, int n) {
  if (len(c) != (size_t)n) return "length-differs-from-reference";
  for (int i = 0; i < n; i++) {
    int id = ids[i];
    struct Trig* t;
    if (cb_is_seq(ck)) t = get(c, $I(i));
    else if (ck == CK_TABLE_V || ck == CK_TREE_V) t = get(c, $I(keys[i] * 55));
    else { t = NULL; foreach (k in c) { if (((struct Trig*)k)->id == id) t = k; } if (!t) return "key-missing"; }
    if (t->id != id) return "element-differs-from-reference";
    if (t->live != CANARY) return "element-finalised-while-contained";
    if (t->id < 0 || t->id >= CB_MAXE) return "element-corrupted";
    var lf = LEAF[t->id];
    if (t->leaf != lf) return "element-holds-another-leaf";
    if (!mem(gc, lf)) return "leaf-reclaimed";
    if (type_of(lf) != Int || c_int(lf) != 1000 + t->id) return "leaf-damaged";
  }
  return NULL;
}


/* a type whose assignment ALLOCATES: every copy makes its own two managed leaves, with a callback point after each -
** copy(x) / assign(fresh, x) / container-of-Deep operations must keep what the half-built object already holds alive */
struct Deep { var a; var b; int64_t id; };
extern var Deep;
static void Deep_New(var self, var args) { struct Deep* d = self; d->id = len(args) ? c_int(get(args, $I(0))) : -1; d->a = NULL; d->b = NULL; }
static void Deep_Assign(var self, var obj) {
  struct Deep* d = self; struct Deep* o = obj;
  d->id = o->id;
  d->a = new(Int, $I(o->id * 2));     cb_point(1);
  d->b = new(Int, $I(o->id * 2 + 1)); cb_point(1);
}
var Deep = Cello(Deep, Instance(New, Deep_New), Instance(Assign, Deep_Assign));
static const char* deep_ok(var x, int id) {
  struct Deep* d = x;
  if (d->id != id) return "copy-holds-another-value";
  if (!d->a || !d->b) return "copy-incomplete";
  if (!mem(gc, d->a) || !mem(gc, d->b)) return "sub-object-of-the-copy-reclaimed";
  if (type_of(d->a) != Int || type_of(d->b) != Int || c_int(d->a) != id * 2 || c_int(d->b) != id * 2 + 1) return "sub-object-of-the-copy-damaged";
  return NULL;
}
/* only receivers that are themselves reachable while the assignment runs: a registered object held on the stack, or an
** element that is already counted in its container.  (An element still under construction - push, a new key - is not yet
** reachable by the property's definition, and the library builds elements before it links them.) */
enum { DO_COPY, DO_ASSIGN_FRESH, DO_ARRAY_SET, DO_LIST_SET, DO_ASSIGN_HELD_TWICE, DO_N };
static const char* DONAME[] = { "copy(x)", "assign(new(T), x)", "set(Array<T>, existing index, x)", "set(List<T>, existing index, x)", "assign(y, x) twice" };
static void deep_mode(void) {
  for (int op = 0; op < DO_N; op++) {
    int ncb = 0;
    for (int k = 0; k <= ncb; k++) {
      vf_watchdog(60);
      vf_set_cur("deepcopy op=%d k=%d | %s with an assignment that allocates two managed sub-objects, forced collection inside callback #%d%s", op, k, DONAME[op], k, k ? "" : " (none: counting run)");
      gc = new_raw(GC, $R(stack_bottom));
      volatile var src = new(Deep, $I(7)); volatile var src2 = new(Deep, $I(8));
      volatile var res = NULL, cont = NULL;
      scrub_stack();
      cb_kinds = 1; cb_count = 0; cb_fire_at = k;
      var e = VF_CATCH({
        switch (op) {
        case DO_COPY: res = copy((var)src); break;
        case DO_ASSIGN_FRESH: res = new(Deep, $I(0)); assign((var)res, (var)src); break;
        case DO_ARRAY_SET: case DO_LIST_SET: {
          cb_fire_at = 0;                          /* building the container is not the operation under test */
          cont = op == DO_ARRAY_SET ? (var)new(Array, Deep) : (var)new(List, Deep);
          push((var)cont, (var)src2); push((var)cont, (var)src);
          cb_count = 0; cb_fire_at = k;
          set((var)cont, $I(0), (var)src); set((var)cont, $I(1), (var)src2);
          break; }
        case DO_ASSIGN_HELD_TWICE: res = new(Deep, $I(0)); assign((var)res, (var)src2); assign((var)res, (var)src); break;
        }
      });
      cb_fire_at = 0;
      if (k == 0) ncb = cb_count;
      vf.executions++; vf.transitions++; vf.states++; if (k) vf.nontrivial++;
      const char* why = NULL;
      if (e) why = "operation-raises";
      else {
        scrub_stack(); GC_Mark(gc); GC_Sweep(gc);
        volatile const char* w = NULL;
        var e2 = VF_CATCH({
          if (res) w = deep_ok((var)res, 7);
          if (!w && cont) {
            if (len((var)cont) != 2) w = "container-length";
            else for (int i = 0; i < 2 && !w; i++) w = deep_ok(get((var)cont, $I(i)), 7 + i);
          }
        });
        why = e2 ? "reading-back-raises" : (const char*)w;
      }
      vf.evaluations++;
      if (why) {
        snprintf(labelbuf, sizeof labelbuf, "callbacks/allocating-assign/%s/%s/%s", DONAME[op], k ? "collection-inside-callback" : "collection-after-operation", why);
        vf_violation(labelbuf, NULL, "%s, collection inside callback #%d of %d: %s", DONAME[op], k, ncb, why);
      }
      src = NULL; src2 = NULL; res = NULL; cont = NULL;
      var e3 = VF_CATCH(del_raw(gc)); (void)e3; gc = NULL;
    }
  }
  cb_kinds = (int)vf_param_i("cbkinds", 7);
}

static void callbacks_mode(void) {
  vf.phase = "c01-callbacks";
  int maxn = (int)vf_param_i("maxn", 4);
  cb_kinds = (int)vf_param_i("cbkinds", 7);
  for (int ck = 0; ck < CK_N; ck++) for (int n = 0; n <= maxn; n++) for (int op = 0; op < CO_N; op++) for (int arg = 0; arg <= n + 1; arg++) {
    /* dry run counts the callbacks of the operation; then one execution per callback with the collection inside it */
    int ncb = 0;
    for (int k = 0; k <= ncb; k++) {
      vf_watchdog(60);
      vf_set_cur("callbacks kind=%d n=%d op=%d arg=%d k=%d | %s holding %d elements, %s(%d), forced collection inside element callback #%d%s", ck, n, op, arg, k, CKNAME[ck], n, CONAME[op], arg, k, k ? "" : " (none: counting run)");
      gc = new_raw(GC, $R(stack_bottom));
      volatile var root = cb_new_container(ck);
      volatile var other = NULL;
      cb_fire_at = 0;
      for (int i = 0; i < n; i++) cb_insert((var)root, ck, i);
      cb_mn = 0; for (int i = 0; i < n; i++) { cb_key[cb_mn] = i; cb_model[cb_mn++] = i; }
      if (ck == CK_TREE_V || ck == CK_TREE_K || ck == CK_TABLE_V || ck == CK_TABLE_K) { /* maps: the model is a set; verify looks elements up by key */ }
      scrub_stack();
      cb_count = 0; cb_fire_at = k;
      volatile int applicable = 0;
      var e = VF_CATCH(applicable = cb_apply((var)root, ck, op, arg, n, &other));
      cb_fire_at = 0;
      /* not offered for this kind/size, or refused by the kind's own conventions (push_at at len on a List ...) in the counting run */
      if ((!applicable && !e) || (e && k == 0)) { root = NULL; other = NULL; var e0 = VF_CATCH(del_raw(gc)); (void)e0; gc = NULL; break; }
      if (k == 0) ncb = cb_count;
      vf.executions++; vf.transitions++;
      if (k > 0) vf.nontrivial++;
      const char* why = NULL;
      if (e) why = "operation-raises";
      else {
        scrub_stack();
        GC_Mark(gc); GC_Sweep(gc);      /* and one more collection once the operation is complete */
        /* for maps whose value was re-set the model id changed: handled in cb_apply */
        volatile const char* w = NULL;
        var e2 = VF_CATCH(w = cb_verify((var)root, ck, cb_model, cb_key, cb_mn));
        why = e2 ? "reading-back-raises" : (const char*)w;
        if (!why && other && (op == CO_COPY)) { int ids[CB_MAXE]; for (int i = 0; i < n; i++) ids[i] = i; e2 = VF_CATCH(w = cb_verify((var)other, ck, ids, ids, n)); why = e2 ? "reading-back-raises" : (const char*)w; if (why) { static char b2[64]; snprintf(b2, sizeof b2, "copy/%s", why); why = b2; } }
        if (!why && other && (op == CO_CONCAT || op == CO_ASSIGN_FROM)) { int ids[2] = { n, n + 1 }; e2 = VF_CATCH(w = cb_verify((var)other, ck, ids, ids, 2)); why = e2 ? "reading-back-raises" : (const char*)w; if (why) { static char b3[64]; snprintf(b3, sizeof b3, "source/%s", why); why = b3; } }
      }
      vf.evaluations++;
      if (why) {
        snprintf(labelbuf, sizeof labelbuf, "callbacks/%s/%s/%s/%s", CKNAME[ck], CONAME[op], k ? "collection-inside-callback" : "collection-after-operation", why);
        vf_violation(labelbuf, NULL, "%s of %d elements, %s(%d), collection inside element callback #%d of %d: %s", CKNAME[ck], n, CONAME[op], arg, k, ncb, why);
      }
      if (vf_want_sample()) vf_sample("%s", vf_cur);
      root = NULL; other = NULL;
      var e3 = VF_CATCH(del_raw(gc)); (void)e3; gc = NULL;
      vf.states++;
    }
  }
}

int main(int argc, char** argv) {
  vf_init(argc, argv);
  var bottom_marker = NULL;
  stack_bottom = &bottom_marker;
  del_raw(current(GC));

  const char* mode = vf_param("mode", "shapes");
  if (strcmp(mode, "ladder") == 0) { ladder(); }
  else if (strcmp(mode, "callbacks") == 0) { callbacks_mode(); deep_mode(); }
  else if (strcmp(mode, "chain") == 0) {
    if (vf.replay) { long k, l; if (sscanf(vf.replay, "chain kind=%ld len=%ld", &k, &l) == 2) { /* run just that one */
        struct chain_arg a = { (int)k, l }; struct vf_child r = vf_fork_run(chain_child, &a, 300);
        printf("chain kind=%ld len=%ld: exited=%d status=%d signaled=%d sig=%d timeout=%d\n", k, l, r.exited, r.status, r.signaled, r.sig, r.timed_out);
        if (r.signaled || r.status) vf_violation("chain/replay/failed", vf.replay, "replayed chain failed (signal %d status %d)", r.sig, r.status);
      } }
    else chain();
  }
  else {
    vf.phase = "c01-shapes";
    const char* ks = vf_param("kinds", "prbaltTu"), *rs = vf_param("roots", RLET);
    for (const char* p = ks; *p; p++) { const char* q = strchr(KLET, *p); if (q) allowed_kinds[n_allowed_kinds++] = (int)(q - KLET); }
    for (const char* p = rs; *p; p++) { const char* q = strchr(RLET, *p); if (q) allowed_roots[n_allowed_roots++] = (int)(q - RLET); }
    collect_mode = vf_param_is("collect", "threshold", "forced");
    if (vf.replay) {
      struct shape s; memset(&s, 0, sizeof s);
      if (!parse_shape(vf.replay, &s)) { fprintf(stderr, "cannot parse shape '%s'\n", vf.replay); _exit(2); }
      run_shape(&s);
      printf("replayed: %s\n", vf_cur);
    } else {
      int part = 0, nparts = 1;
      sscanf(vf_param("part", "0/1"), "%d/%d", &part, &nparts);
      enumerate_shapes((int)vf_param_i("n", 2), part, nparts);
    }
  }
  vf_extra("unreachable_reclaimed", "%" PRIu64, reclaimed_unreachable);
  vf_extra("unreachable_retained", "%" PRIu64, kept_unreachable);
  vf.outcomes = (outcome_bits & 1) + (outcome_bits >> 1 & 1);
  vf_finish();
  return 0;
}
