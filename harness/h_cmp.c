/*
** h_cmp.c - C09 on the value types: cmp is a consistent total order that agrees with
** the C reference order, and eq/neq/lt/gt/le/ge are exactly its predicates.
**
** Exhaustive grids (no sampling):  ALL ordered pairs and ALL triples of every grid.
**
**   int     boundary integers (0, +-1, +-2^16, +-(2^31-1), +-2^31, +-(2^31+1), +-2^32,
**           +-(2^32+-1), +-2^62, INT64_MIN/MAX and neighbours, ...)   45 (small) / 87 (large)
**   float   +-0, +-denormals, +-DBL_MIN, 1+-eps, +-2^53, +-1e300, +-DBL_MAX, +-inf (NaN excluded)
**   string  every string of length <= 3 (small) / <= 4 (large) over {a, b, 0x80, 0xFF}
**   type    every type object exported by Cello.h (+ heap-allocated twins of three names)
**   raw     a Cello type of 8 raw bytes WITHOUT a Cmp instance (default byte-wise cmp)
**   raw1 raw3 raw4 raw7 raw9 raw12 raw16 raw20 raw21   the same for structs of those sizes (tails
**           of 1..7 bytes behind the last whole word; pairs that differ only in the last byte)
**   raw63 raw64 raw65 raw72 raw100 raw127 raw128 raw129 raw200 raw300   big structs: first / last byte and
**           the bytes on both sides of every 64-byte boundary varied (reduced grid, see vf_cmp.h)
**
** Parameters:  dom=all | comma list of int,float,string,type,recycled,reptuple,mixed,converted,raw     grid=small|large
**              (rawall = every raw* domain, rawbig = raw63 .. raw300)
**              recycled = run-time record types created, deleted and re-created with another size (vf_cmp.h)
**              reptuple = Tuples referencing one object at several positions as left operand of container cmp
**              mixed = values of different types (a refusal is fine, an answer must be an order)
**              converted = Array/List/Table/Tree constructed with other element (key/value) types and then given their
**                          contents by assign(), against directly built containers of the same contents (see run_converted;
**                          must be named, dom=all does not include it)
**              replay="<dom> pair i j" | "<dom> triple i j k" | "<dom> triples i j"
**                     | "<dom> tree|table <order>"
**
** Per ordered pair (a_i, b_j) (a and b are two independently allocated heap objects, so
** i == j compares two different objects of equal value):
**   sign(cmp(a,b)) == reference sign; cmp == 0 only for equal values;
**   sign(cmp(b,a)) == -sign(cmp(a,b)); cmp(a,a) == 0 on the very same object;
**   eq/neq/lt/gt/le/ge == (c==0, c!=0, c<0, c>0, c<=0, c>=0) for the c that cmp returned;
**   stack-allocated twins ($I, $F, $S, $(Raw8)) give the same sign.
** Per triple (i,j,k), from the implementation's answers alone:
**   x=cmp(i,j) <= 0 and y=cmp(j,k) <= 0  =>  cmp(i,k) <= 0, strictly if x or y is strict;
**   the mirror image for >=.
** Containers keyed on the grid (int, string, raw*: Tree and Table; float: Tree; raw sizes that are
** not a multiple of 8: Table only, a Tree node would misalign the value's header): half of
** the distinct values are inserted, every grid value is looked up (present ones found
** with their value, absent ones KeyError), the rest inserted in four enumerated orders,
** Tree iteration must be strictly monotone in the reference order, backward = reverse.
*/

#include "vf_cmp.h"

/* ---- domains ------------------------------------------------------------------------- */

struct dom {
  const char* name;
  int n;
  var A[MAXN], B[MAXN];                 /* two independently allocated objects per value */
  int (*ref)(int i, int j);             /* reference sign */
  const char* (*feat)(int i, int j);    /* input feature used in labels */
  void (*desc)(int i, char* buf, size_t cap);
  int (*stackcmp)(int i, int j);        /* cmp of two stack-allocated twins, or NULL */
  var ktype;                            /* key type for the container part, or NULL */
  int use_table;
  int no_tree;                          /* key size would misalign a Tree node (see build_domain) */
  signed char* R;                       /* n*n reference matrix */
};

/* ---- oracle plumbing ----------------------------------------------------------------- */

static struct dom D;
static char lbl[200];

static const char* L(const char* feat, const char* symptom) {
  snprintf(lbl, sizeof lbl, "cmp/%s/%s/%s", D.name, feat, symptom);
  return lbl;
}

static void pair_case(char* buf, size_t cap, int i, int j) {
  char a[64], b[64]; D.desc(i, a, sizeof a); D.desc(j, b, sizeof b);
  snprintf(buf, cap, "%s pair %d %d | a=%s b=%s", D.name, i, j, a, b);
}

static int is_nontrivial_pair(int i, int j) {
  /* values differ and the pair has a boundary feature of its domain */
  if (D.R[i * D.n + j] == 0) {
    /* equal by reference but different representation (signed zeros, heap twin of a type) */
    return i != j;
  }
  const char* f = D.feat(i, j);
  return strcmp(f, "diff-fits-int32") != 0 && strcmp(f, "normal") != 0 && strcmp(f, "ascii") != 0
      && strcmp(f, "different-initial") != 0 && strcmp(f, "first-byte-low") != 0 && strcmp(f, "later-byte-low") != 0;
  /* (struct pairs that differ only in their LAST byte count whatever the byte values) */
}

#define CHECK(cond, symptom, ...) do { vf.evaluations++; if (!(cond)) { \
    char kase_[256]; pair_case(kase_, sizeof kase_, i, j); \
    vf_violation(L(feat, symptom), kase_, __VA_ARGS__); bad = 1; } } while (0)

static int do_pair(int i, int j) {
  var a = D.A[i], b = D.B[j];
  int bad = 0;
  int r = D.R[i * D.n + j];
  const char* feat = D.feat(i, j);
  volatile int c = 0, c2 = 0;
  var e = VF_CATCH(c = cmp(a, b));
  vf.executions++;
  if (e) { vf.evaluations++; char k[256]; pair_case(k, sizeof k, i, j); vf_violation(L(feat, "cmp-raises"), k, "cmp raised %s", vf_exc_name(e)); return 1; }
  int s = SIGN(c);
  if (r != 0 && s == 0) CHECK(0, "cmp-zero-for-unequal", "cmp(a,b) = 0 but the values differ (reference sign %d)", r);
  else if (r == 0 && s != 0) CHECK(0, "cmp-nonzero-for-equal", "cmp(a,b) = %d but the values are equal", (int)c);
  else CHECK(s == r, "cmp-sign", "cmp(a,b) = %d, the reference order says sign %d", (int)c, r);
  c2 = cmp(b, a);
  CHECK(SIGN(c2) == -s, "antisymmetry", "cmp(a,b) = %d and cmp(b,a) = %d", (int)c, (int)c2);
  bool p;
  p = eq(a, b);  CHECK(p == (c == 0), "eq",  "eq = %d but cmp = %d", (int)p, (int)c);
  p = neq(a, b); CHECK(p == (c != 0), "neq", "neq = %d but cmp = %d", (int)p, (int)c);
  p = lt(a, b);  CHECK(p == (c < 0),  "lt",  "lt = %d but cmp = %d", (int)p, (int)c);
  p = gt(a, b);  CHECK(p == (c > 0),  "gt",  "gt = %d but cmp = %d", (int)p, (int)c);
  p = le(a, b);  CHECK(p == (c <= 0), "le",  "le = %d but cmp = %d", (int)p, (int)c);
  p = ge(a, b);  CHECK(p == (c >= 0), "ge",  "ge = %d but cmp = %d", (int)p, (int)c);
  if (D.stackcmp) {
    int cs = D.stackcmp(i, j);
    CHECK(SIGN(cs) == s, "stack-vs-heap", "cmp of stack-allocated twins = %d, of heap objects = %d", cs, (int)c);
  }
  if (i == j) {
    int cr = cmp(a, a);
    CHECK(cr == 0, "reflexive", "cmp(a,a) = %d on the same object", cr);
    cr = cmp(b, b);
    CHECK(cr == 0, "reflexive", "cmp(a,a) = %d on the same object", cr);
  }
  if (is_nontrivial_pair(i, j)) vf.nontrivial++;
  if (!bad && vf_want_sample()) { char k[256]; pair_case(k, sizeof k, i, j); vf_sample("%s -> cmp=%d", k, (int)c); }
  return bad;
}

static void triple_violation(int i, int j, int k, int x, int y, int z) {
  char a[64], b[64], c[64], kase[320];
  D.desc(i, a, sizeof a); D.desc(j, b, sizeof b); D.desc(k, c, sizeof c);
  snprintf(kase, sizeof kase, "%s triple %d %d %d | a=%s b=%s c=%s", D.name, i, j, k, a, b, c);
  vf_violation(L("triple", "transitivity"), kase, "sign cmp(a,b) = %d, sign cmp(b,c) = %d, but sign cmp(a,c) = %d", x, y, z);
}

static void do_triples_row(int i, int j, int konly) {
  int n = D.n;
  int x = SIGN(cmp(D.A[i], D.B[j]));
  int rx = D.R[i * n + j];
  for (int k = 0; k < n; k++) {
    if (konly >= 0 && k != konly) continue;
    int y = SIGN(cmp(D.A[j], D.B[k]));
    int z = SIGN(cmp(D.A[i], D.B[k]));
    vf.executions++; vf.evaluations++;
    int ok = 1;
    if (x <= 0 && y <= 0) { if (z > 0) ok = 0; if ((x < 0 || y < 0) && z >= 0) ok = 0; }
    if (x >= 0 && y >= 0) { if (z < 0) ok = 0; if ((x > 0 || y > 0) && z <= 0) ok = 0; }
    if (!ok) triple_violation(i, j, k, x, y, z);
    /* non-trivial: a strict chain a<b<c or a>b>c in the reference order (the premise holds) */
    int ry = D.R[j * n + k];
    if (rx != 0 && rx == ry) vf.nontrivial++;
  }
}

/* ---- containers keyed on the grid ------------------------------------------------------ */

static int rank_[MAXN], sorted[MAXN], ndistinct;

static void compute_ranks(void) {
  int n = D.n;
  for (int i = 0; i < n; i++) sorted[i] = i;
  for (int i = 1; i < n; i++) {
    int v = sorted[i], j = i;
    while (j > 0 && D.R[sorted[j-1] * n + v] > 0) { sorted[j] = sorted[j-1]; j--; }
    sorted[j] = v;
  }
  int r = -1;
  for (int q = 0; q < n; q++) {
    if (q == 0 || D.R[sorted[q-1] * n + sorted[q]] != 0) r++;
    rank_[sorted[q]] = r;
  }
  ndistinct = r + 1;
}

static char cbuf[128];
#define CV(symptom, ...) do { vf_violation(L(kind, symptom), cbuf, __VA_ARGS__); bad = 1; } while (0)

static int check_lookup(var t, const char* kind, const int* present, const char* when) {
  int bad = 0;
  for (int i = 0; i < D.n && !bad; i++) {
    char ds[64]; D.desc(i, ds, sizeof ds);
    int want = present[rank_[i]];
    volatile bool isin = false; volatile var got = NULL;
    var e = VF_CATCH(isin = mem(t, D.B[i]));
    vf.evaluations++;
    if (e) { CV("mem-raises", "%s: mem(%s) raised %s", when, ds, vf_exc_name(e)); break; }
    if ((int)isin != want) { CV(want ? "mem-misses-present-key" : "mem-finds-absent-key", "%s: mem(%s) = %d, expected %d", when, ds, (int)isin, want); break; }
    e = VF_CATCH(got = get(t, D.B[i]));
    vf.evaluations++;
    if (want) {
      if (e) { CV("get-raises-for-present-key", "%s: get(%s) raised %s", when, ds, vf_exc_name(e)); break; }
      if (c_int(got) != rank_[i]) { CV("get-wrong-value", "%s: get(%s) = %" PRId64 ", stored %d", when, ds, c_int(got), rank_[i]); break; }
    } else if (e != KeyError) { CV("get-absent-key", "%s: get(%s) of an absent key gave %s", when, ds, vf_exc_name(e)); break; }
  }
  return bad;
}

static int insert_pos(int order, int q, int n) {
  /* q-th distinct rank to insert: 1 ascending; 2 descending; 3 ends inward (0 = grid order, handled by the caller) */
  if (order == 1) return q;
  if (order == 2) return n - 1 - q;
  return (q & 1) ? n - 1 - q / 2 : q / 2;
}

static void do_container(int is_table, int order) {
  const char* kind = is_table ? "table" : "tree";
  int n = D.n, bad = 0;
  snprintf(cbuf, sizeof cbuf, "%s %s %d", D.name, kind, order);
  vf_set_cur("%s", cbuf);
  vf_watchdog(120);
  vf.executions++;
  var t = is_table ? (var)new_raw(Table, D.ktype, Int) : (var)new_raw(Tree, D.ktype, Int);
  int present[MAXN]; memset(present, 0, sizeof present);
  int rep[MAXN];                       /* representative grid index per rank */
  for (int q = n - 1; q >= 0; q--) rep[rank_[sorted[q]]] = sorted[q];
  int count = 0;
  var e;
  /* phase 1: even ranks, in grid (simplest-first) order */
  for (int i = 0; i < n && !bad; i++) {
    int r = rank_[i];
    if ((r & 1) || present[r]) continue;
    e = VF_CATCH(set(t, D.A[i], $I(r)));
    if (e) { CV("set-raises", "set raised %s", vf_exc_name(e)); break; }
    present[r] = 1; count++;
    vf.evaluations++;
    if (len(t) != (size_t)count) { char ds[64]; D.desc(i, ds, sizeof ds); CV("len-after-insert", "len = %zu after inserting %d distinct keys (last %s)", len(t), count, ds); }
  }
  if (!bad) bad = check_lookup(t, kind, present, "half inserted");
  /* phase 2: the remaining ranks in the enumerated order (0 grid order, 1 ascending, 2 descending, 3 ends inward) */
  int ins[MAXN], nins = 0;
  if (order == 0) for (int i = 0; i < n; i++) ins[nins++] = i;
  else for (int q = 0; q < ndistinct; q++) ins[nins++] = rep[insert_pos(order, q, ndistinct)];
  for (int q = 0; q < nins && !bad; q++) {
    int i = ins[q], r = rank_[i];
    if (present[r]) continue;
    e = VF_CATCH(set(t, D.A[i], $I(r)));
    if (e) { CV("set-raises", "set raised %s", vf_exc_name(e)); break; }
    present[r] = 1; count++;
    vf.evaluations++;
    if (len(t) != (size_t)count) { char ds[64]; D.desc(i, ds, sizeof ds); CV("len-after-insert", "len = %zu after inserting %d distinct keys (last %s)", len(t), count, ds); }
  }
  if (!bad) bad = check_lookup(t, kind, present, "all inserted");
  /* setting every key again through an equal twin object must not add an entry */
  for (int i = 0; i < n && !bad; i++) {
    e = VF_CATCH(set(t, D.B[i], $I(rank_[i])));
    if (e) { CV("set-raises", "set raised %s", vf_exc_name(e)); break; }
    vf.evaluations++;
    if (len(t) != (size_t)ndistinct) { char ds[64]; D.desc(i, ds, sizeof ds); CV("len-after-update", "len = %zu after setting existing key %s again (%d distinct keys)", len(t), ds, ndistinct); }
  }
  /* Tree iteration: every distinct key once, strictly monotone in the reference order */
  if (!is_table && !bad) {
    int seq[MAXN + 8]; int cnt = 0, dir = 0;
    var it = iter_init(t);
    while (it != Terminal && cnt < ndistinct + 4) {
      int r = (int)c_int(get(t, it));
      seq[cnt] = r;
      if (cnt > 0) {
        int step = SIGN(r - seq[cnt-1]);
        vf.evaluations++;
        if (step == 0 || (dir != 0 && step != dir)) { CV("iteration-not-monotone", "iteration yields rank %d after rank %d (direction so far %d)", r, seq[cnt-1], dir); break; }
        dir = step;
      }
      cnt++;
      it = iter_next(t, it);
    }
    vf.evaluations++;
    if (!bad && cnt != ndistinct) CV("iteration-count", "iteration yields %d keys, %d distinct keys were inserted", cnt, ndistinct);
    if (!bad) {
      int back = 0; it = iter_last(t);
      while (it != Terminal && back < ndistinct + 4) {
        int r = (int)c_int(get(t, it));
        if (back >= cnt || seq[cnt - 1 - back] != r) { CV("iteration-backward", "backward iteration is not the reverse of forward iteration at position %d", back); break; }
        back++;
        it = iter_prev(t, it);
      }
      vf.evaluations++;
      if (!bad && back != cnt) CV("iteration-backward", "backward iteration yields %d keys, forward %d", back, cnt);
    }
  }
  /* phase 3: remove the even ranks again */
  for (int r = 0; r < ndistinct && !bad; r += 2) {
    e = VF_CATCH(rem(t, D.B[rep[r]]));
    if (e) { CV("rem-raises", "rem of a present key raised %s", vf_exc_name(e)); break; }
    present[r] = 0; count--;
    vf.evaluations++;
    if (len(t) != (size_t)count) CV("len-after-remove", "len = %zu, expected %d", len(t), count);
  }
  if (!bad) bad = check_lookup(t, kind, present, "half removed");
  if (!bad) vf.nontrivial++;            /* a full insert/lookup/iterate/remove history over boundary keys */
  if (vf_want_sample()) vf_sample("%s (%d distinct keys)%s", cbuf, ndistinct, bad ? " FAILED" : "");
  del_raw(t);
}

/* ---- driver ---------------------------------------------------------------------------- */

static void build_domain(const char* name) {
  memset(&D, 0, sizeof D);
  D.name = name;
  if (!strcmp(name, "int")) {
    D.n = ni; D.ref = int_ref; D.feat = int_feat; D.desc = int_desc; D.stackcmp = int_stackcmp; D.ktype = Int; D.use_table = 1;
    for (int i = 0; i < ni; i++) { D.A[i] = new_raw(Int, $I(iv[i])); D.B[i] = new_raw(Int, $I(iv[i])); }
  } else if (!strcmp(name, "float")) {
    D.n = fn; D.ref = flt_ref; D.feat = flt_feat; D.desc = flt_desc; D.stackcmp = flt_stackcmp; D.ktype = Float; D.use_table = 0;
    for (int i = 0; i < fn; i++) { D.A[i] = new_raw(Float, $F(fv[i])); D.B[i] = new_raw(Float, $F(fv[i])); }
  } else if (!strcmp(name, "string")) {
    D.n = sn; D.ref = str_ref; D.feat = str_feat; D.desc = str_desc; D.stackcmp = str_stackcmp; D.ktype = String; D.use_table = 1;
    for (int i = 0; i < sn; i++) { D.A[i] = new_raw(String, $S(sv[i])); D.B[i] = new_raw(String, $S(sv[i])); }
  } else if (!strcmp(name, "type")) {
    D.n = tn; D.ref = type_ref; D.feat = type_feat; D.desc = type_desc; D.stackcmp = NULL; D.ktype = NULL;
    for (int i = 0; i < tn; i++) {
      D.A[i] = tobj[i]; D.B[i] = tobj[i];
      /* heap-allocated twins carrying the same name */
      if (tobj[i] == Int || tobj[i] == String || tobj[i] == Raw8) D.B[i] = new_raw(Type, $S((char*)tname[i]), $I(8));
    }
  } else if (raw_find(name)) {
    RW = raw_find(name);
    /* a Tree puts the value's header right behind the key: only key sizes that are a multiple of 8 keep it aligned */
    D.n = RW->n; D.ref = raw_ref; D.feat = raw_feat; D.desc = raw_desc; D.stackcmp = raw_stackcmp; D.ktype = RW->type; D.use_table = 1;
    D.no_tree = RW->size % 8 != 0 && !vf_param_i("oddtree", 0);   /* oddtree=1: do not skip (for a tree that rounds its key size) */
    for (int i = 0; i < RW->n; i++) {
#ifdef VF_ASAN
      /* exactly sized heap objects: the sanitizer sees a comparison that reads past the struct */
      D.A[i] = alloc_raw(RW->type); D.B[i] = alloc_raw(RW->type);
#else
      /* heap-class objects followed by two DIFFERENT canary zones: a comparison that reads past the struct
      ** calls equal values unequal (header_init(..., AllocHeap) is what alloc_raw does) */
      char* ba = calloc(1, sizeof(struct Header) + RW->size + 72); char* bb = calloc(1, sizeof(struct Header) + RW->size + 72);
      D.A[i] = header_init(ba, RW->type, AllocHeap); D.B[i] = header_init(bb, RW->type, AllocHeap);
      memset((char*)D.A[i] + RW->size, 0xA5, 72); memset((char*)D.B[i] + RW->size, 0x5A, 72);
#endif
      memcpy(D.A[i], RW->v[i], RW->size);
      memcpy(D.B[i], RW->v[i], RW->size);
    }
  } else { fprintf(stderr, "h_cmp: unknown domain %s\n", name); _exit(2); }
  D.R = malloc((size_t)D.n * D.n);
  for (int i = 0; i < D.n; i++) for (int j = 0; j < D.n; j++) D.R[i * D.n + j] = (signed char)D.ref(i, j);
  compute_ranks();
}

static char phasebuf[32];

static void run_domain(const char* name) {
  build_domain(name);
  snprintf(phasebuf, sizeof phasebuf, "cmp-%s", name);
  vf.phase = phasebuf;
  int n = D.n;

  if (vf.replay) {
    char dn[16], kind[16]; int a = -1, b = -1, c = -1;
    int got = sscanf(vf.replay, "%15s %15s %d %d %d", dn, kind, &a, &b, &c);
    if (got < 3 || strcmp(dn, name) != 0) return;
    vf_set_cur("%s", vf.replay);
    if (!strcmp(kind, "pair") && got >= 4 && a >= 0 && a < n && b >= 0 && b < n) do_pair(a, b);
    else if (!strcmp(kind, "triple") && got == 5 && a >= 0 && a < n && b >= 0 && b < n && c >= 0 && c < n) do_triples_row(a, b, c);
    else if (!strcmp(kind, "triples") && got >= 4 && a >= 0 && a < n && b >= 0 && b < n) do_triples_row(a, b, -1);
    else if (!strcmp(kind, "tree") && D.ktype && !D.no_tree) do_container(0, a);
    else if (!strcmp(kind, "table") && D.ktype && D.use_table) do_container(1, a);
    else vf_note("replay case not understood: %s", vf.replay);
    return;
  }

  /* the type grid must consist of type objects */
  if (!strcmp(name, "type")) for (int i = 0; i < n; i++) if (type_of(D.A[i]) != Type || type_of(D.B[i]) != Type) {
    fprintf(stderr, "h_cmp: %s is not a Type object\n", tname[i]); _exit(2);
  }

  vf_watchdog(600);
  for (int i = 0; i < n; i++) for (int j = 0; j < n; j++) {
    char a[64], b[64]; D.desc(i, a, sizeof a); D.desc(j, b, sizeof b);
    vf_set_cur("%s pair %d %d | a=%s b=%s", name, i, j, a, b);
    do_pair(i, j);
  }
  for (int i = 0; i < n; i++) for (int j = 0; j < n; j++) {
    vf_set_cur("%s triples %d %d", name, i, j);
    vf_watchdog(600);
    do_triples_row(i, j, -1);
  }
  if (D.ktype) for (int order = 0; order < 4; order++) {
    if (!D.no_tree) do_container(0, order);
    if (D.use_table) do_container(1, order);
  }
  vf_extra(name, "{\"values\": %d, \"distinct\": %d, \"pairs\": %d, \"triples\": %" PRIu64 "}", n, ndistinct, n * n, (uint64_t)n * n * n);
}

/* ---- recycled run-time types (see vf_cmp.h) ------------------------------------------------
**
** Sub-families by the operation that is the very FIRST library call on objects of the new type:
** 0 cmp, 1 eq, 2 gt.  In the first pass over the sizes the first pair differs only in its LAST
** byte (a stale smaller size calls it equal), in the second pass it is a pair of equal values
** with different bytes behind the objects (a stale larger size calls it unequal).  Then all 49
** ordered pairs get the full pair oracle, on caller-block objects (stack and heap class) and
** on exactly sized alloc_raw objects.
*/
static uint64_t rec_generations, rec_same_address;
static const char* rec_family_name[] = { "cmp", "eq", "gt" };

static void recycled_family(int fam, int upto) {
  static char A[VFR_NVALS][VFR_BLOCK] __attribute__((aligned(16))), B[VFR_NVALS][VFR_BLOCK] __attribute__((aligned(16)));
  uintptr_t prev_addr = 0; size_t prev_size = 0;
  int G = 2 * VFR_NSIZES;
  for (int g = 0; g < G && g <= upto; g++) {
    size_t size = vfr_sizes[g % VFR_NSIZES];
    int second_pass = (g / VFR_NSIZES) & 1;
    const char* trans = prev_size == 0 ? "first-type" : size > prev_size ? "larger-than-previous" : "smaller-than-previous";
    vf_set_cur("recycled %s %d | size=%zu previous size=%zu", rec_family_name[fam], g, size, prev_size);
    char kase[96]; snprintf(kase, sizeof kase, "%s", vf_cur);
    var T = vfr_type_new(g);
    int same = prev_addr != 0 && (uintptr_t)T == prev_addr;
    rec_generations++; if (same) rec_same_address++;
    vf.executions++;
    var a[VFR_NVALS], b[VFR_NVALS];
    for (int v = 0; v < VFR_NVALS; v++) {
      a[v] = vfr_obj(A[v], T, (g + v) & 1, size, v, 0xA5);
      b[v] = vfr_obj(B[v], T, (g + v + 1) & 1, size, v, 0x5A);
    }
    /* the very first operation on the new type */
    int fi = 0, fj = second_pass ? 0 : 5;
    int r = vfr_ref(size, fi, fj);
    vf.evaluations++;
    if (fam == 0) {
      int c = cmp(a[fi], b[fj]);
      if (SIGN(c) != r) vf_violation(L(trans, r == 0 ? "first-cmp-nonzero-for-equal" : c == 0 ? "first-cmp-zero-for-unequal" : "first-cmp-sign"), kase,
        "first cmp on a new %zu-byte run-time type (%s as the deleted %zu-byte type) = %d, values %s", size, same ? "same address" : "other address", prev_size, c, r ? "differ only in the last byte" : "are equal");
    } else if (fam == 1) {
      bool e = eq(a[fi], b[fj]);
      if (e != (r == 0)) vf_violation(L(trans, "first-eq"), kase, "first eq on a new %zu-byte run-time type (%s as the deleted %zu-byte type) = %d, values %s", size, same ? "same address" : "other address", prev_size, (int)e, r ? "differ only in the last byte" : "are equal");
    } else {
      bool e = gt(a[fi], b[fj]);
      if (e != (r > 0)) vf_violation(L(trans, "first-gt"), kase, "first gt on a new %zu-byte run-time type (%s as the deleted %zu-byte type) = %d, reference sign %d", size, same ? "same address" : "other address", prev_size, (int)e, r);
    }
    /* all ordered pairs */
    for (int i = 0; i < VFR_NVALS; i++) for (int j = 0; j < VFR_NVALS; j++) {
      int rr = vfr_ref(size, i, j);
      int c = cmp(a[i], b[j]), c2 = cmp(b[j], a[i]);
      vf.evaluations += 9;
      if (SIGN(c) != rr) vf_violation(L(trans, rr == 0 ? "cmp-nonzero-for-equal" : c == 0 ? "cmp-zero-for-unequal" : "cmp-sign"), kase, "value %d vs value %d of a %zu-byte run-time type: cmp = %d, reference sign %d", i, j, size, c, rr);
      if (SIGN(c2) != -SIGN(c)) vf_violation(L(trans, "antisymmetry"), kase, "value %d vs value %d: cmp(a,b) = %d, cmp(b,a) = %d", i, j, c, c2);
      if (eq(a[i], b[j]) != (c == 0) || neq(a[i], b[j]) != (c != 0) || lt(a[i], b[j]) != (c < 0) || gt(a[i], b[j]) != (c > 0)
       || le(a[i], b[j]) != (c <= 0) || ge(a[i], b[j]) != (c >= 0)) vf_violation(L(trans, "predicates"), kase, "value %d vs value %d: eq/neq/lt/gt/le/ge are not the predicates of cmp = %d", i, j, c);
      if (i == j && cmp(a[i], a[i]) != 0) vf_violation(L(trans, "reflexive"), kase, "cmp(a,a) != 0");
    }
    /* exactly sized objects from the library's own allocator (a read past the struct is the sanitizer's to see) */
    var x = alloc_raw(T), y = alloc_raw(T);
    static const int probe[3][2] = { {0, 5}, {0, 0}, {6, 0} };
    for (int q = 0; q < 3; q++) {
      vfr_value(size, probe[q][0], x); vfr_value(size, probe[q][1], y);
      int rr = vfr_ref(size, probe[q][0], probe[q][1]);
      int c = cmp(x, y);
      vf.evaluations++;
      if (SIGN(c) != rr) vf_violation(L(trans, "alloc-raw-cmp-sign"), kase, "alloc_raw objects, value %d vs %d of a %zu-byte run-time type: cmp = %d, reference sign %d", probe[q][0], probe[q][1], size, c, rr);
    }
    del_raw(x); del_raw(y);
    if (same && size != prev_size) vf.nontrivial++;
    if (vf_want_sample()) vf_sample("%s (%s)", kase, same ? "type block recycled at the same address" : "type at a new address");
    prev_addr = (uintptr_t)T; prev_size = size;
    del_raw(T);
  }
}

static void run_recycled(void) {
  vf.phase = "cmp-recycled-type";
  D.name = "recycled-type";
  if (vf.replay) {
    char dn[16], fam[16]; int g = -1;
    if (sscanf(vf.replay, "%15s %15s %d", dn, fam, &g) != 3) return;
    for (int f = 0; f < 3; f++) if (!strcmp(fam, rec_family_name[f])) recycled_family(f, g);
    return;
  }
  vf_watchdog(120);
  for (int f = 0; f < 3; f++) recycled_family(f, 1 << 30);
  vf_extra("recycled_types", "{\"generations\": %" PRIu64 ", \"new_type_at_the_address_of_the_deleted_one\": %" PRIu64 "}", rec_generations, rec_same_address);
  if (rec_same_address == 0) vf_note("recycled run-time types: the allocator never handed the deleted Type block back (sanitizer quarantine?); the same-address cases were NOT exercised in this instance and are not counted");
}

/* ---- values of DIFFERENT types -------------------------------------------------------------------
**
** HEAD refuses every comparison between two different value types (Int, Float, String, plain struct, Ref,
** Box, Type) with an exception in BOTH directions - measured, the one exception being cmp(String, Type),
** which String answers through the Type's C_Str face while Type refuses the mirror image.  A refusal is
** fine; an ANSWER must still be an order:  for every ordered pair of the pool (values of all these types,
** Ints and Floats incl. non-integral, beyond 2^53, negative, infinite; Tuples holding mixed elements)
**   both directions answered  => sign(cmp(a,b)) == -sign(cmp(b,a)); cmp == 0 => eq both ways
**   exactly one answered      => violation unless it is String-vs-Type (recorded as a feature)
** and for every triple whose three comparisons are all answered, transitivity.
*/
#define MX_MAX 64
#define MX_RAISED 9
struct mx_obj { var o; const char* type; char desc[40]; int mixed_tuple; };
static struct mx_obj mx[MX_MAX]; static int nmx;
static signed char MXM[MX_MAX][MX_MAX];

static void mx_add(var o, const char* type, int mixed_tuple, const char* fmt, ...) {
  mx[nmx].o = o; mx[nmx].type = type; mx[nmx].mixed_tuple = mixed_tuple;
  va_list ap; va_start(ap, fmt); vsnprintf(mx[nmx].desc, sizeof mx[nmx].desc, fmt, ap); va_end(ap);
  nmx++;
}
static var mx_tuple(var a, var b) { var t = new_raw(Tuple); push(t, a); if (b) push(t, b); return t; }

static void mx_build(void) {
  static const int64_t ints[] = { 0, 1, -1, 2, 9007199254740993LL, -9007199254740993LL, INT64_MAX, INT64_MIN };
  static const double flts[] = { 0.0, -0.0, 1.0, 1.5, 0.5, -1.0, -1.75, 2.0, 9007199254740992.0, 9007199254740994.0, 9.3e18, 1e300, -INFINITY, INFINITY };
  static const char* strs[] = { "", "1", "1.5", "a", "Int" };
  var I[8], F[14];
  for (size_t k = 0; k < 8; k++) { I[k] = new_raw(Int, $I(ints[k])); mx_add(I[k], "Int", 0, "I(%" PRId64 ")", ints[k]); }
  for (size_t k = 0; k < 14; k++) { F[k] = new_raw(Float, $F(flts[k])); mx_add(F[k], "Float", 0, "F(%g)", flts[k]); }
  for (size_t k = 0; k < 5; k++) mx_add(new_raw(String, $S((char*)strs[k])), "String", 0, "S(\"%s\")", strs[k]);
  RW = raw_find("raw");
  for (int k = 0; k < 2; k++) { var r = alloc_raw(Raw8); memcpy(r, RW->v[k ? RW->n - 1 : 0], 8); mx_add(r, "Raw8", 0, "Raw8#%d", k); }
  mx_add(new_raw(Ref, I[1]), "Ref", 0, "Ref(I1)"); mx_add(new_raw(Ref, F[3]), "Ref", 0, "Ref(F1.5)");
  { struct Box* b = alloc_raw(Box); b->val = I[1]; mx_add(b, "Box", 0, "Box(I1)"); }   /* never deleted: the Box must not free its target */
  mx_add(Int, "Type", 0, "Type Int"); mx_add(Float, "Type", 0, "Type Float"); mx_add(String, "Type", 0, "Type String");
  /* Tuples: same-type elements and mixed elements (I[1]=1, I[3]=2, I[2]=-1, F[2]=1.0, F[3]=1.5, F[5]=-1.0, F[6]=-1.75) */
  mx_add(mx_tuple(I[1], NULL), "Tuple", 0, "(I1)");      mx_add(mx_tuple(F[3], NULL), "Tuple", 0, "(F1.5)");
  mx_add(mx_tuple(F[2], NULL), "Tuple", 0, "(F1.0)");    mx_add(mx_tuple(I[3], NULL), "Tuple", 0, "(I2)");
  mx_add(mx_tuple(I[2], NULL), "Tuple", 0, "(I-1)");     mx_add(mx_tuple(F[5], NULL), "Tuple", 0, "(F-1.0)");
  mx_add(mx_tuple(F[6], NULL), "Tuple", 0, "(F-1.75)");
  mx_add(mx_tuple(I[1], F[3]), "Tuple", 1, "(I1,F1.5)"); mx_add(mx_tuple(F[3], I[1]), "Tuple", 1, "(F1.5,I1)");
  mx_add(mx_tuple(I[1], I[3]), "Tuple", 0, "(I1,I2)");   mx_add(mx_tuple(F[2], F[3]), "Tuple", 0, "(F1.0,F1.5)");
  mx_add(mx_tuple(F[2], I[3]), "Tuple", 1, "(F1.0,I2)"); mx_add(mx_tuple(I[1], F[2]), "Tuple", 1, "(I1,F1.0)");
}

static void run_mixed(void) {
  vf.phase = "cmp-mixed-types";
  D.name = "mixed-types";
  mx_build();
  int oi = -1, oj = -1, ok_ = -1; char kind[16] = "";
  if (vf.replay && sscanf(vf.replay, "mixed %15s %d %d %d", kind, &oi, &oj, &ok_) < 3) return;
  vf_watchdog(120);
  uint64_t refused = 0, answered = 0, oneway_known = 0;
  for (int i = 0; i < nmx; i++) for (int j = 0; j < nmx; j++) {
    vf_set_cur("mixed pair %d %d | a=%s b=%s", i, j, mx[i].desc, mx[j].desc);
    volatile int c = 0;
    var ex = VF_CATCH(c = cmp(mx[i].o, mx[j].o));
    MXM[i][j] = ex ? MX_RAISED : (signed char)SIGN(c);
    vf.executions++;
  }
  for (int i = 0; i < nmx; i++) for (int j = i + 1; j < nmx; j++) {
    if (vf.replay && !(!strcmp(kind, "pair") && ((i == oi && j == oj) || (i == oj && j == oi)))) continue;
    char kase[160], feat[48];
    snprintf(kase, sizeof kase, "mixed pair %d %d | a=%s b=%s", i, j, mx[i].desc, mx[j].desc);
    vf_set_cur("%s", kase);
    snprintf(feat, sizeof feat, "%s-vs-%s", mx[i].type, mx[j].type);
    int x = MXM[i][j], y = MXM[j][i];
    int cross = strcmp(mx[i].type, mx[j].type) != 0 || mx[i].mixed_tuple || mx[j].mixed_tuple;
    vf.evaluations++;
    if (x == MX_RAISED && y == MX_RAISED) { refused++; if (cross) vf.nontrivial++; continue; }
    if (x == MX_RAISED || y == MX_RAISED) {
      int si = x == MX_RAISED ? j : i, oi2 = x == MX_RAISED ? i : j;     /* si answered as the left operand */
      if (!strcmp(mx[si].type, "String") && !strcmp(mx[oi2].type, "Type")) { oneway_known++; continue; }
      vf_violation(L(feat, "answered-one-way-only"), kase, "cmp(%s, %s) answers %d but the mirror image raises: not an order", mx[si].desc, mx[oi2].desc, (int)MXM[si][oi2]);
      continue;
    }
    answered++;
    if (cross) vf.nontrivial++;
    vf.evaluations += 2;
    if (x != -y) vf_violation(L(feat, "antisymmetry"), kase, "sign cmp(a,b) = %d, sign cmp(b,a) = %d", x, y);
    if (x == 0 || y == 0) {
      volatile bool e1 = false, e2 = false;
      var ex = VF_CATCH(e1 = eq(mx[i].o, mx[j].o); e2 = eq(mx[j].o, mx[i].o));
      if (ex || !e1 || !e2 || x != y) vf_violation(L(feat, "cmp-zero-one-way"), kase, "cmp(a,b) = %d, cmp(b,a) = %d, eq = %d / %d%s", x, y, (int)e1, (int)e2, ex ? " (eq raised)" : "");
    }
    if (cross && vf_want_sample()) vf_sample("%s -> %d / %d", kase, x, y);
  }
  for (int i = 0; i < nmx; i++) for (int j = 0; j < nmx; j++) {
    if (i == j || MXM[i][j] == MX_RAISED) continue;
    for (int k = 0; k < nmx; k++) {
      if (k == i || k == j || MXM[j][k] == MX_RAISED || MXM[i][k] == MX_RAISED) continue;
      if (vf.replay && !(!strcmp(kind, "triple") && i == oi && j == oj && k == ok_)) continue;
      int x = MXM[i][j], y = MXM[j][k], z = MXM[i][k], ok = 1;
      vf.evaluations++;
      if (x <= 0 && y <= 0) { if (z > 0) ok = 0; if ((x < 0 || y < 0) && z >= 0) ok = 0; }
      if (x >= 0 && y >= 0) { if (z < 0) ok = 0; if ((x > 0 || y > 0) && z <= 0) ok = 0; }
      if (!ok) {
        char kase[200];
        snprintf(kase, sizeof kase, "mixed triple %d %d %d | a=%s b=%s c=%s", i, j, k, mx[i].desc, mx[j].desc, mx[k].desc);
        int crossT = strcmp(mx[i].type, mx[j].type) || strcmp(mx[j].type, mx[k].type);
        vf_violation(L(crossT ? "mixed-type-triple" : "same-type-triple", "transitivity"), kase, "sign cmp(a,b) = %d, sign cmp(b,c) = %d, but sign cmp(a,c) = %d", x, y, z);
      }
    }
  }
  if (vf.replay) return;
  vf_extra("mixed_types", "{\"pool\": %d, \"unordered_pairs\": %d, \"refused_both_ways\": %" PRIu64 ", \"answered_both_ways\": %" PRIu64 ", \"string_vs_type_one_way\": %" PRIu64 "}",
    nmx, nmx * (nmx - 1) / 2, refused, answered, oneway_known);
}

/* ---- Tuples that reference ONE object at several positions -------------------------------------
**
** Tuple_Cmp, Tuple_Hash, len and get walk a Tuple by index, so such a Tuple is a perfectly good value
** as the LEFT operand of cmp/eq/...; only ITERATING it (iter_next finds the cursor by pointer identity)
** is the known finding D16, and the right operand of every container cmp is iterated.  Judged:
**   left  = Tuple (stack and heap) over Int values {1,2} with a shared object at positions (0,1), (0,2),
**           (1,2), (0,1,2) of a length-3 tuple (the other positions hold objects of their own), and
**           maximally shared tuples of length 2 and 4 (two objects in all: (1,1) (1,2,1,2) (1,1,2,2) ...)
**   right = Array, List, Tuple of every sequence of length 0..4 over {1,2}, all distinct objects
**   sign(cmp) == lexicographic reference with the length as tie-break, the six predicates are the
**   predicates of cmp, eq => equal hash, antisymmetry against cmp(plain Tuple with the same values, right)
**   mirrored (cmp(right, plain-left) is in contract).
** Observed, never judged (D16): the same shared tuples as RIGHT operand, in a forked child with a time
** limit; the numbers of wrong answers and of hangs go into the evidence.
*/
#define RT_MAXLEFT 96
#define RT_MAXRIGHT 96
struct rt_left { int len; int val[4]; int obj[4]; int stack; char desc[48]; var t; var plain; };
struct rt_right { int len; int val[4]; int kind; var c; };
static struct rt_left rtl[RT_MAXLEFT]; static int nrtl;
static struct rt_right rtr[RT_MAXRIGHT]; static int nrtr;
static var rt_pool[2][8];               /* rt_pool[v-1][k]: k-th Int object holding value v */
static var rt_stack_items[RT_MAXLEFT][5];
static struct Tuple* rt_stack_tuples[RT_MAXLEFT];
static const char* rt_kind[] = { "array", "list", "tuple" };

static int rt_ref(const int* a, int la, const int* b, int lb) {
  for (int k = 0; k < la && k < lb; k++) if (a[k] != b[k]) return a[k] < b[k] ? -1 : 1;
  return la < lb ? -1 : la > lb ? 1 : 0;
}

static void rt_add_left(int len, const int* val, const int* obj, const char* pattern) {
  for (int st = 0; st < 2; st++) {
    struct rt_left* l = &rtl[nrtl];
    l->len = len; l->stack = st;
    size_t o = snprintf(l->desc, sizeof l->desc, "%s(", st ? "stack" : "heap");
    for (int k = 0; k < len; k++) { l->val[k] = val[k]; l->obj[k] = obj[k]; o += snprintf(l->desc + o, sizeof l->desc - o, "%s%d%c", k ? "," : "", val[k], 'a' + obj[k]); }
    snprintf(l->desc + o, sizeof l->desc - o, ") shared %s", pattern);
    /* plain twin: same values, every position an object of its own */
    l->plain = new_raw(Tuple);
    for (int k = 0; k < len; k++) push(l->plain, rt_pool[val[k]-1][4 + k]);
    if (st) {
      for (int k = 0; k < len; k++) rt_stack_items[nrtl][k] = rt_pool[val[k]-1][obj[k]];
      rt_stack_items[nrtl][len] = Terminal;
      rt_stack_tuples[nrtl] = header_init(calloc(1, sizeof(struct Header) + sizeof(struct Tuple)), Tuple, AllocStack);
      rt_stack_tuples[nrtl]->items = rt_stack_items[nrtl];
      l->t = rt_stack_tuples[nrtl];
    } else {
      l->t = new_raw(Tuple);
      for (int k = 0; k < len; k++) push(l->t, rt_pool[val[k]-1][obj[k]]);
    }
    nrtl++;
  }
}

static void rt_build(void) {
  for (int v = 0; v < 2; v++) for (int k = 0; k < 8; k++) rt_pool[v][k] = new_raw(Int, $I(v + 1));
  /* length 3, one shared object at the positions of the pattern, the rest objects of their own */
  static const int pat[4][3] = { {1,1,0}, {1,0,1}, {0,1,1}, {1,1,1} };
  static const char* patname[4] = { "(0,1)", "(0,2)", "(1,2)", "(0,1,2)" };
  for (int p = 0; p < 4; p++) for (int c = 0; c < 8; c++) {
    int val[3] = { 1 + ((c >> 2) & 1), 1 + ((c >> 1) & 1), 1 + (c & 1) }, obj[3], ok = 1, sv = 0;
    for (int k = 0; k < 3; k++) if (pat[p][k]) { if (!sv) sv = val[k]; else if (val[k] != sv) ok = 0; }
    if (!ok) continue;
    for (int k = 0; k < 3; k++) obj[k] = pat[p][k] ? 0 : 1 + k;
    rt_add_left(3, val, obj, patname[p]);
  }
  /* maximal sharing: one object per value, lengths 2 and 4, only the sequences that repeat a value */
  for (int len = 2; len <= 4; len += 2) for (int c = 0; c < (1 << len); c++) {
    int val[4], obj[4] = { 0, 0, 0, 0 }, n1 = 0;
    for (int k = 0; k < len; k++) { val[k] = 1 + ((c >> (len - 1 - k)) & 1); n1 += val[k] == 1; }
    if (len == 2 && n1 == 1) continue;
    rt_add_left(len, val, obj, "every-equal-value");
  }
  /* right operands: every sequence of length 0..4 over {1,2}, distinct objects, three kinds */
  for (int len = 0; len <= 4; len++) for (int c = 0; c < (1 << len); c++) for (int kind = 0; kind < 3; kind++) {
    struct rt_right* r = &rtr[nrtr++];
    r->len = len; r->kind = kind;
    r->c = kind == 0 ? (var)new_raw(Array, Int) : kind == 1 ? (var)new_raw(List, Int) : (var)new_raw(Tuple);
    for (int k = 0; k < len; k++) { r->val[k] = 1 + ((c >> (len - 1 - k)) & 1); push(r->c, rt_pool[r->val[k]-1][4 + k]); }
  }
}

static uint64_t* rt_shared;             /* [0] right answers, [1] wrong answers of the observed (not judged) direction */

static void rt_observe_child(void* arg) {
  struct rt_left* l = arg;
  for (int j = 0; j < nrtr; j++) {
    int r = -rt_ref(l->val, l->len, rtr[j].val, rtr[j].len);
    int c = cmp(rtr[j].c, l->t);
    if (SIGN(c) == r) rt_shared[0]++; else rt_shared[1]++;
  }
  for (int j = 0; j < nrtl; j++) {       /* shared tuple against shared tuple */
    int r = rt_ref(rtl[j].val, rtl[j].len, l->val, l->len);
    int c = cmp(rtl[j].t, l->t);
    if (SIGN(c) == r) rt_shared[2]++; else rt_shared[3]++;
  }
}

static void run_reptuple(void) {
  vf.phase = "cmp-shared-object-tuple";
  D.name = "shared-object-tuple";
  rt_build();
  int only_i = -1, only_j = -1;
  if (vf.replay && sscanf(vf.replay, "reptuple pair %d %d", &only_i, &only_j) != 2) return;
  vf_watchdog(120);
  for (int i = 0; i < nrtl; i++) for (int j = 0; j < nrtr; j++) {
    if (only_i >= 0 && (i != only_i || j != only_j)) continue;
    struct rt_left* l = &rtl[i]; struct rt_right* rr = &rtr[j];
    char kase[160]; size_t o = snprintf(kase, sizeof kase, "reptuple pair %d %d | left=%s right=%s(", i, j, l->desc, rt_kind[rr->kind]);
    for (int k = 0; k < rr->len; k++) o += snprintf(kase + o, sizeof kase - o, "%s%d", k ? "," : "", rr->val[k]);
    snprintf(kase + o, sizeof kase - o, ")");
    vf_set_cur("%s", kase);
    vf.executions++;
    const char* feat = rt_kind[rr->kind];
    int r = rt_ref(l->val, l->len, rr->val, rr->len);
    int c = cmp(l->t, rr->c);
    vf.evaluations += 9;
    if (SIGN(c) != r) vf_violation(L(feat, r == 0 ? "cmp-nonzero-for-equal" : c == 0 ? "cmp-zero-for-unequal" : "cmp-sign"), kase, "cmp(tuple with a shared object, %s) = %d, reference sign %d", feat, c, r);
    bool p;
    p = eq(l->t, rr->c);  if (p != (c == 0)) vf_violation(L(feat, "eq"), kase, "eq = %d but cmp = %d", (int)p, c);
    p = neq(l->t, rr->c); if (p != (c != 0)) vf_violation(L(feat, "neq"), kase, "neq = %d but cmp = %d", (int)p, c);
    p = lt(l->t, rr->c);  if (p != (c < 0))  vf_violation(L(feat, "lt"), kase, "lt = %d but cmp = %d", (int)p, c);
    p = gt(l->t, rr->c);  if (p != (c > 0))  vf_violation(L(feat, "gt"), kase, "gt = %d but cmp = %d", (int)p, c);
    p = le(l->t, rr->c);  if (p != (c <= 0)) vf_violation(L(feat, "le"), kase, "le = %d but cmp = %d", (int)p, c);
    p = ge(l->t, rr->c);  if (p != (c >= 0)) vf_violation(L(feat, "ge"), kase, "ge = %d but cmp = %d", (int)p, c);
    /* the mirrored comparison with the plain twin of the left tuple is in contract: antisymmetry of the VALUE order */
    int cm = cmp(rr->c, l->plain);
    if (SIGN(cm) != -SIGN(c)) vf_violation(L(feat, "antisymmetry-against-plain-twin"), kase, "cmp(shared tuple, x) = %d but cmp(x, tuple of the same values as distinct objects) = %d", c, cm);
    if (r == 0) { vf.evaluations++; if (hash(l->t) != hash(rr->c)) vf_violation(L(feat, "equal-values-hash-differs"), kase, "equal by value but hash %016" PRIx64 " vs %016" PRIx64, hash(l->t), hash(rr->c)); }
    vf.nontrivial++;
    if (vf_want_sample()) vf_sample("%s -> cmp=%d", kase, c);
  }
  if (only_i >= 0) return;
  /* the other direction iterates the shared tuple: known finding D16, observed only */
  rt_shared = mmap(NULL, 4096, PROT_READ | PROT_WRITE, MAP_SHARED | MAP_ANONYMOUS, -1, 0);
  int hangs = 0, died = 0;
  for (int i = 0; i < nrtl; i++) {
    struct vf_child ch = vf_fork_run(rt_observe_child, &rtl[i], 10);
    if (ch.timed_out) hangs++; else if (!ch.exited || ch.status != 0) died++;
  }
  vf_extra("shared_object_tuples", "{\"left_operands\": %d, \"right_operands\": %d, \"judged_pairs\": %d, "
    "\"observed_as_RIGHT_operand_of_array_list_tuple\": {\"right\": %" PRIu64 ", \"wrong\": %" PRIu64 "}, "
    "\"observed_shared_vs_shared\": {\"right\": %" PRIu64 ", \"wrong\": %" PRIu64 "}, \"children_timed_out\": %d, \"children_died\": %d}",
    nrtl, nrtr, nrtl * nrtr, rt_shared[0], rt_shared[1], rt_shared[2], rt_shared[3], hangs, died);
  vf_note("tuples with a shared object as RIGHT operand (iterated: known finding D16, not judged): %" PRIu64 " right / %" PRIu64 " wrong answers against Array/List/Tuple left operands, %" PRIu64 " / %" PRIu64 " against shared-object left operands, %d hangs",
    rt_shared[0], rt_shared[1], rt_shared[2], rt_shared[3], hangs);
}

/* ---- assign-converted containers -----------------------------------------------------------------
**
** An Array, List, Table or Tree takes over the element (key / value) type of the source of assign().  A container
** that was CONSTRUCTED with other types (empty or already holding two elements) and then received its contents
** through assign() must from then on compare exactly like a container built directly with the final types: whatever
** the container remembered about its first element type (a comparison looked up at construction, a size, ...) is
** stale.  Families by final element type F: Int, Float, String and Ver (a user type with its OWN Cmp - major, then
** minor - that is also convertible to an integer, its major number, so a foreign Int comparison answers instead of
** refusing).  First types T0: every other family and a 12-byte plain struct without Cmp.
**
**   sequences  contents = every sequence of length <= 2 (small) / <= 3 (large) over three ordered values of F
**              operands  = per content: direct Array/List (pushed; constructed with arguments), direct Tuple (distinct
**                          objects), and Array/List x T0 x {constructed empty, holding 2 T0-elements} x assigned from a
**                          direct Array / List of F
**              oracle    = ALL ordered pairs of operands: sign(cmp) == lexicographic reference (shorter is smaller),
**                          cmp == 0 only for equal contents, the six predicates are the predicates of cmp, cmp(a,a) == 0,
**                          antisymmetry on the observed matrix.  Agreement with the reference total preorder for
**                          every pair is agreement of a converted container with the direct one of the same contents
**                          against every third operand, and implies transitivity.
**   maps       key type F, value type the next family; contents = every partial map from 2 (small) / 3 (large) ordered
**              keys to 2 values; operands = direct Tree (ascending / descending insertion), direct Table, Tree/Table x
**              (K0,V0) in {both other, only the key type other, only the value type other} x {empty, 2 entries} x
**              assigned from a direct Tree / Table; every converted Table has a TWIN: a fresh Table<K,V> assigned
**              from the same source (same slot layout).
**              oracle    = pairs of order-defined operands (Trees; Tables with <= 1 entry - Table_Cmp walks in slot
**                          order, the property does not list Table and D10 is the known consequence): as for sequences,
**                          reference = lexicographic over (key, value) in the direction a Tree iterates (probed; the
**                          pinned tree walks descending keys - the property fixes "key then value", not the direction).  Every pair: no exception, predicates
**                          derive from cmp.  Every converted Table: cmp with its twin is 0 both ways and it gives the
**                          same sign as its twin against and under every operand of the pool.
** replay="converted <family> seq|map pair <i> <j>" rebuilds the pool (deterministic) and judges that pair.
*/
struct Ver { int64_t major, minor; };
extern var Ver;
static int64_t Ver_C_Int(var self) { return ((struct Ver*)self)->major; }
static int Ver_Cmp(var self, var obj) {
  struct Ver* x = self; struct Ver* y = cast(obj, Ver);
  if (x->major != y->major) return x->major < y->major ? -1 : 1;
  return x->minor < y->minor ? -1 : x->minor > y->minor ? 1 : 0;
}
var Ver = Cello(Ver, Instance(Cmp, Ver_Cmp), Instance(C_Int, Ver_C_Int));

enum { CF_INT, CF_FLOAT, CF_STRING, CF_VER, CF_N, CF_RAW12 = CF_N };
static const char* CFN[] = { "Int", "Float", "String", "Ver", "Raw12" };
static const char* cf_valname[CF_N][3] = { { "-1", "2", "4294967298" }, { "1.5", "2.5", "2.75" }, { "\"ab\"", "\"abc\"", "\"b\"" }, { "v1.0", "v1.1", "v2.0" } };
enum { CK_ARRAY, CK_LIST, CK_TUPLE, CK_TREE, CK_TABLE };
static const char* CKN[] = { "array", "list", "tuple", "tree", "table" };
enum { CR_DIRECT, CR_CONVERTED, CR_TWIN };

static var cf_type(int fam) { return fam == CF_INT ? Int : fam == CF_FLOAT ? Float : fam == CF_STRING ? String : fam == CF_VER ? Ver : Raw12; }
static var cf_new(int fam, int v) {
  static const int64_t iv_[3] = { -1, 2, 4294967298LL };
  static const double fv_[3] = { 1.5, 2.5, 2.75 };
  static const char* sv_[3] = { "ab", "abc", "b" };
  switch (fam) {
  case CF_INT:    return new_raw(Int, $I(iv_[v]));
  case CF_FLOAT:  return new_raw(Float, $F(fv_[v]));
  case CF_STRING: return new_raw(String, $S((char*)sv_[v]));
  case CF_VER:  { struct Ver* x = alloc_raw(Ver); x->major = v == 2 ? 2 : 1; x->minor = v == 1 ? 1 : 0; return x; }
  default:      { struct Raw12* r = alloc_raw(Raw12); r->x = v; r->y = 7; r->z = -v; return r; }
  }
}
static var cf_obj[CF_N + 1][3];        /* carriers: Array, List, Table and Tree copy what they are given */

#define CV_MAXOPS 1600
struct cv_op {
  var c; int kind, role, content, twin;            /* twin: pool index of the twin of a converted Table, else -1 */
  int n; int key[3], val[3];                       /* sequences: val[0..n); maps: entries in key order */
  int defined;                                     /* its position in the order is fixed by the property */
  char cls[40], desc[112];
};
static struct cv_op* cvo; static int ncvo;
static signed char* CVS;                           /* observed sign matrix, MX_RAISED = the comparison raised */
static int cv_fam; static const char* cv_part;
static uint64_t cv_build_failures;

static int cv_tree_descending;                     /* the direction in which a Tree iterates (the pinned tree: descending keys); probed, not assumed */
static int cv_refsign(const struct cv_op* a, const struct cv_op* b, int is_map) {
  for (int q = 0; q < a->n && q < b->n; q++) {
    int ka = is_map && cv_tree_descending ? a->n - 1 - q : q, kb = is_map && cv_tree_descending ? b->n - 1 - q : q;
    if (is_map && a->key[ka] != b->key[kb]) return a->key[ka] < b->key[kb] ? -1 : 1;
    if (a->val[ka] != b->val[kb]) return a->val[ka] < b->val[kb] ? -1 : 1;
  }
  return a->n < b->n ? -1 : a->n > b->n ? 1 : 0;
}

static const char* CVL(const struct cv_op* a, const struct cv_op* b, const char* symptom) {
  snprintf(lbl, sizeof lbl, "cmp/converted-%s/%s-vs-%s/%s", CFN[cv_fam], a->cls, b ? b->cls : "-", symptom);
  return lbl;
}

static struct cv_op* cv_add(var c, int kind, int role, int content, int is_map, int n, const int* key, const int* val, int vfam, const char* cls, const char* how) {
  if (ncvo >= CV_MAXOPS) { fprintf(stderr, "h_cmp: converted pool too large\n"); _exit(2); }
  struct cv_op* o = &cvo[ncvo++];
  memset(o, 0, sizeof *o);
  o->c = c; o->kind = kind; o->role = role; o->content = content; o->twin = -1; o->n = n;
  for (int k = 0; k < n; k++) { o->key[k] = key ? key[k] : k; o->val[k] = val[k]; }
  o->defined = kind != CK_TABLE || n <= 1;
  snprintf(o->cls, sizeof o->cls, "%s", cls);
  size_t w = snprintf(o->desc, sizeof o->desc, "%s %s", how, is_map ? "{" : "[");
  for (int k = 0; k < n && w + 32 < sizeof o->desc; k++) {
    if (is_map) w += snprintf(o->desc + w, sizeof o->desc - w, "%s%s:%s", k ? "," : "", cf_valname[cv_fam][o->key[k]], cf_valname[vfam][o->val[k]]);
    else w += snprintf(o->desc + w, sizeof o->desc - w, "%s%s", k ? "," : "", cf_valname[cv_fam][o->val[k]]);
  }
  snprintf(o->desc + w, sizeof o->desc - w, "%s", is_map ? "}" : "]");
  return o;
}

static var cv_seq_direct(int kind, int fam, int n, const int* v, int with_args) {
  var T = cf_type(fam);
  if (kind == CK_TUPLE) { var t = new_raw(Tuple); for (int k = 0; k < n; k++) push(t, cf_new(fam, v[k])); return t; }
  var K = kind == CK_ARRAY ? Array : List;
  if (with_args) {
    var* o = cf_obj[fam];
    return n == 0 ? new_raw_with(K, tuple(T)) : n == 1 ? new_raw_with(K, tuple(T, o[v[0]])) : n == 2 ? new_raw_with(K, tuple(T, o[v[0]], o[v[1]])) : new_raw_with(K, tuple(T, o[v[0]], o[v[1]], o[v[2]]));
  }
  var x = new_raw_with(K, tuple(T));
  for (int k = 0; k < n; k++) push(x, cf_obj[fam][v[k]]);
  return x;
}

static volatile var cv_tmp, cv_tmp2;

static void cv_build_failed(const char* what, var e) {
  char kase[200]; snprintf(kase, sizeof kase, "converted %s %s build | %s", CFN[cv_fam], cv_part, what);
  snprintf(lbl, sizeof lbl, "cmp/converted-%s/build/assign-raises", CFN[cv_fam]);
  vf_violation(lbl, kase, "building the operand raised %s", vf_exc_name(e));
  cv_build_failures++;
}

static void cv_build_seqs(int fam, int maxlen) {
  ncvo = 0; cv_fam = fam; cv_part = "seq";
  int content = 0;
  for (int n = 0; n <= maxlen; n++) {
    int cnt = 1; for (int k = 0; k < n; k++) cnt *= 3;
    for (int c = 0; c < cnt; c++, content++) {
      int v[3] = { 0, 0, 0 }; { int x = c; for (int k = n - 1; k >= 0; k--) { v[k] = x % 3; x /= 3; } }
      char how[64];
      for (int kind = CK_ARRAY; kind <= CK_TUPLE; kind++) {
        snprintf(how, sizeof how, "%s<%s> pushed", CKN[kind], kind == CK_TUPLE ? "-" : CFN[fam]);
        cv_add(cv_seq_direct(kind, fam, n, v, 0), kind, CR_DIRECT, content, 0, n, NULL, v, fam, CKN[kind], how);
      }
      for (int kind = CK_ARRAY; kind <= CK_LIST; kind++) {
        snprintf(how, sizeof how, "new(%s,%s,...)", CKN[kind], CFN[fam]);
        cv_add(cv_seq_direct(kind, fam, n, v, 1), kind, CR_DIRECT, content, 0, n, NULL, v, fam, CKN[kind], how);
      }
      for (int kind = CK_ARRAY; kind <= CK_LIST; kind++) for (int t0 = 0; t0 <= CF_RAW12; t0++) {
        if (t0 == fam) continue;
        for (int pre = 0; pre <= 2; pre += 2) for (int sk = CK_ARRAY; sk <= CK_LIST; sk++) {
          char cls[40]; snprintf(cls, sizeof cls, "%s:=%s", CKN[kind], CFN[t0]);
          snprintf(how, sizeof how, "%s<%s>[%d items] := %s<%s>", CKN[kind], CFN[t0], pre, CKN[sk], CFN[fam]);
          var e = VF_CATCH({
            cv_tmp = new_raw_with(kind == CK_ARRAY ? Array : List, tuple(cf_type(t0)));
            for (int k = 0; k < pre; k++) push(cv_tmp, cf_obj[t0][(k + 1) % 3]);
            cv_tmp2 = cv_seq_direct(sk, fam, n, v, 0);
            assign(cv_tmp, cv_tmp2);
            del_raw(cv_tmp2);
          });
          if (e) { cv_build_failed(how, e); continue; }
          cv_add(cv_tmp, kind, CR_CONVERTED, content, 0, n, NULL, v, fam, cls, how);
        }
      }
    }
  }
}

static var cv_map_direct(int kind, int kf, int vf_, int n, const int* key, const int* val, int descending) {
  var x = new_raw_with(kind == CK_TREE ? Tree : Table, tuple(cf_type(kf), cf_type(vf_)));
  for (int q = 0; q < n; q++) { int k = descending ? n - 1 - q : q; set(x, cf_obj[kf][key[k]], cf_obj[vf_][val[k]]); }
  return x;
}

static void cv_build_maps(int kf, int nkeys) {
  ncvo = 0; cv_fam = kf; cv_part = "map";
  int vf_ = (kf + 1) % CF_N;
  int ncontents = 1; for (int k = 0; k < nkeys; k++) ncontents *= 3;
  for (int c = 0; c < ncontents; c++) {
    int key[3], val[3], n = 0;
    { int x = c; for (int k = 0; k < nkeys; k++) { int d = x % 3; x /= 3; if (d) { key[n] = k; val[n] = d - 1; n++; } } }
    char how[64];
    for (int desc = 0; desc < 2; desc++) {
      snprintf(how, sizeof how, "tree<%s,%s> set %s", CFN[kf], CFN[vf_], desc ? "descending" : "ascending");
      cv_add(cv_map_direct(CK_TREE, kf, vf_, n, key, val, desc), CK_TREE, CR_DIRECT, c, 1, n, key, val, vf_, "tree", how);
    }
    snprintf(how, sizeof how, "table<%s,%s> set ascending", CFN[kf], CFN[vf_]);
    cv_add(cv_map_direct(CK_TABLE, kf, vf_, n, key, val, 0), CK_TABLE, CR_DIRECT, c, 1, n, key, val, vf_, "table", how);
    for (int kind = CK_TREE; kind <= CK_TABLE; kind++) for (int var_ = 0; var_ < 3; var_++) {
      int k0 = var_ == 2 ? kf : (kf + 2) % CF_N, v0 = var_ == 1 ? vf_ : (vf_ + 2) % CF_N;      /* 0 both other, 1 only the key type, 2 only the value type */
      for (int pre = 0; pre <= 2; pre += 2) for (int sk = CK_TREE; sk <= CK_TABLE; sk++) {
        char cls[40]; snprintf(cls, sizeof cls, "%s:=%s,%s", CKN[kind], CFN[k0], CFN[v0]);
        snprintf(how, sizeof how, "%s<%s,%s>[%d] := %s<%s,%s>", CKN[kind], CFN[k0], CFN[v0], pre, CKN[sk], CFN[kf], CFN[vf_]);
        cv_tmp = NULL; cv_tmp2 = NULL;
        volatile var twin = NULL;
        var e = VF_CATCH({
          cv_tmp = new_raw_with(kind == CK_TREE ? Tree : Table, tuple(cf_type(k0), cf_type(v0)));
          if (pre) { set(cv_tmp, cf_obj[k0][0], cf_obj[v0][1]); set(cv_tmp, cf_obj[k0][2], cf_obj[v0][0]); }
          cv_tmp2 = cv_map_direct(sk, kf, vf_, n, key, val, 0);
          assign(cv_tmp, cv_tmp2);
          if (kind == CK_TABLE) { twin = new_raw(Table, cf_type(kf), cf_type(vf_)); assign(twin, cv_tmp2); }
          del_raw(cv_tmp2);
        });
        if (e) { cv_build_failed(how, e); continue; }
        struct cv_op* o = cv_add(cv_tmp, kind, CR_CONVERTED, c, 1, n, key, val, vf_, cls, how);
        if (kind == CK_TABLE) {
          o->twin = ncvo;
          char how2[64]; snprintf(how2, sizeof how2, "fresh table<%s,%s> := %s (twin of %d)", CFN[kf], CFN[vf_], CKN[sk], ncvo - 1);
          cv_add(twin, CK_TABLE, CR_TWIN, c, 1, n, key, val, vf_, "table(twin)", how2);
        }
      }
    }
  }
}

static uint64_t cv_pairs, cv_defined_pairs, cv_twin_checks;

static void cv_kase(char* buf, size_t cap, int i, int j) {
  snprintf(buf, cap, "converted %s %s pair %d %d | a=%s b=%s", CFN[cv_fam], cv_part, i, j, cvo[i].desc, cvo[j].desc);
}

static void cv_pair(int i, int j, int is_map) {
  struct cv_op* a = &cvo[i]; struct cv_op* b = &cvo[j];
  char kase[320]; cv_kase(kase, sizeof kase, i, j);
  vf_set_cur("%s", kase);
  volatile int c = 0;
  var e = VF_CATCH(c = cmp(a->c, b->c));
  vf.executions++; vf.evaluations++; cv_pairs++;
  CVS[(size_t)i * ncvo + j] = e ? MX_RAISED : (signed char)SIGN(c);
  if (e) { vf_violation(CVL(a, b, "cmp-raises"), kase, "cmp raised %s", vf_exc_name(e)); return; }
  int interesting = a->role == CR_CONVERTED || b->role == CR_CONVERTED;
  if (a->defined && b->defined) {
    int r = cv_refsign(a, b, is_map);
    cv_defined_pairs++;
    if (SIGN(c) != r) {
      vf_violation(CVL(a, b, r == 0 ? "cmp-nonzero-for-equal" : c == 0 ? "cmp-zero-for-unequal" : "cmp-sign"), kase,
        "cmp(a,b) = %d, the lexicographic order of the contents gives %d", (int)c, r);
      return;
    }
  }
  if (interesting || i == j) {
    volatile bool p_eq = 0, p_neq = 0, p_lt = 0, p_gt = 0, p_le = 0, p_ge = 0; volatile int cr = 0;
    e = VF_CATCH({ p_eq = eq(a->c, b->c); p_neq = neq(a->c, b->c); p_lt = lt(a->c, b->c); p_gt = gt(a->c, b->c); p_le = le(a->c, b->c); p_ge = ge(a->c, b->c);
                   if (i == j) cr = cmp(a->c, a->c); });
    vf.evaluations += 6;
    if (e) { vf_violation(CVL(a, b, "predicate-raises"), kase, "a predicate raised %s although cmp answered %d", vf_exc_name(e), (int)c); return; }
    if (p_eq != (c == 0) || p_neq != (c != 0) || p_lt != (c < 0) || p_gt != (c > 0) || p_le != (c <= 0) || p_ge != (c >= 0)) {
      vf_violation(CVL(a, b, "predicates"), kase, "cmp = %d but eq=%d neq=%d lt=%d gt=%d le=%d ge=%d", (int)c, (int)p_eq, (int)p_neq, (int)p_lt, (int)p_gt, (int)p_le, (int)p_ge);
      return;
    }
    if (i == j && cr != 0) { vf_violation(CVL(a, b, "reflexive"), kase, "cmp(a,a) = %d on the same object", (int)cr); return; }
  }
  if (interesting) { vf.nontrivial++; if (vf_want_sample()) vf_sample("%s -> cmp=%d", kase, (int)c); }
}

/* matrix oracles: antisymmetry among order-defined operands; a converted Table against its twin */
static void cv_matrix(int only_i, int only_j) {
  int n = ncvo;
  for (int i = 0; i < n; i++) for (int j = i + 1; j < n; j++) {
    if (only_i >= 0 && !((i == only_i && j == only_j) || (i == only_j && j == only_i))) continue;
    int x = CVS[(size_t)i * n + j], y = CVS[(size_t)j * n + i];
    if (x == MX_RAISED || y == MX_RAISED || !cvo[i].defined || !cvo[j].defined) continue;
    vf.evaluations++;
    if (x != -y) { char kase[320]; cv_kase(kase, sizeof kase, i, j); vf_violation(CVL(&cvo[i], &cvo[j], "antisymmetry"), kase, "sign cmp(a,b) = %d, sign cmp(b,a) = %d", x, y); }
  }
  for (int i = 0; i < n; i++) {
    int t = cvo[i].twin;
    if (t < 0) continue;
    for (int j = 0; j < n; j++) {
      if (only_i >= 0 && !((i == only_i && j == only_j) || (i == only_j && j == only_i))) continue;
      /* no special cases: the twin is equal to itself, so j == t demands 0, and j == i compares cmp(a,a) with cmp(twin,a) */
      int x = CVS[(size_t)i * n + j], xt = CVS[(size_t)t * n + j], y = CVS[(size_t)j * n + i], yt = CVS[(size_t)j * n + t];
      int self_ = j == t || j == i;
      vf.evaluations += 2; cv_twin_checks += 2;
      if (x != MX_RAISED && xt != MX_RAISED && x != xt) {
        char kase[320]; cv_kase(kase, sizeof kase, i, j);
        vf_violation(CVL(&cvo[i], &cvo[j], self_ ? "not-equal-to-twin" : "differs-from-twin-as-left"), kase, "cmp(converted, b) has sign %d, cmp(fresh table assigned from the same source, b) has sign %d", x, xt);
      }
      if (y != MX_RAISED && yt != MX_RAISED && y != yt) {
        char kase[320]; cv_kase(kase, sizeof kase, j, i);
        vf_violation(CVL(&cvo[j], &cvo[i], self_ ? "not-equal-to-twin" : "differs-from-twin-as-right"), kase, "cmp(a, converted) has sign %d, cmp(a, fresh table assigned from the same source) has sign %d", y, yt);
      }
    }
  }
}

static void run_converted(void) {
  vf.phase = "cmp-assign-converted";
  D.name = "converted";
  char fam[16] = "", part[8] = ""; int oi = -1, oj = -1;
  if (vf.replay && sscanf(vf.replay, "converted %15s %7s pair %d %d", fam, part, &oi, &oj) != 4) return;
  for (int f = 0; f <= CF_RAW12; f++) for (int v = 0; v < 3; v++) cf_obj[f][v] = cf_new(f, v);
  { /* which way does a Tree iterate?  The property fixes "key then value", not the direction */
    var t = new_raw(Tree, Int, Int); set(t, $I(1), $I(0)); set(t, $I(2), $I(0));
    cv_tree_descending = c_int(iter_init(t)) == 2;
    del_raw(t);
  }
  cvo = calloc(CV_MAXOPS, sizeof *cvo);
  CVS = malloc((size_t)CV_MAXOPS * CV_MAXOPS);
  int nseq[CF_N], nmap[CF_N];
  for (int f = 0; f < CF_N; f++) for (int is_map = 0; is_map < 2; is_map++) {
    if (vf.replay && (strcmp(fam, CFN[f]) != 0 || strcmp(part, is_map ? "map" : "seq") != 0)) continue;
    vf_watchdog(600);
    vf_set_cur("converted %s %s build", CFN[f], is_map ? "map" : "seq");
    if (is_map) cv_build_maps(f, vfg_large ? 3 : 2); else cv_build_seqs(f, vfg_large ? 3 : 2);
    (is_map ? nmap : nseq)[f] = ncvo;
    memset(CVS, MX_RAISED, (size_t)ncvo * ncvo);
    for (int i = 0; i < ncvo; i++) for (int j = 0; j < ncvo; j++) {
      if (vf.replay) {
        /* the pair itself and, for the twin oracle, the comparisons of the twin of either side */
        int ti = oi >= 0 && oi < ncvo ? cvo[oi].twin : -1, tj = oj >= 0 && oj < ncvo ? cvo[oj].twin : -1;
        int need = (i == oi && j == oj) || (i == oj && j == oi) || (ti >= 0 && ((i == ti && j == oj) || (i == oj && j == ti) || (i == ti && j == ti))) || (tj >= 0 && ((i == tj && j == oi) || (i == oi && j == tj) || (i == tj && j == tj)));
        if (!need) continue;
      }
      cv_pair(i, j, is_map);
    }
    cv_matrix(vf.replay ? oi : -1, vf.replay ? oj : -1);
  }
  if (vf.replay) return;
  vf_extra("assign_converted", "{\"operands_per_family_sequences\": %d, \"operands_per_family_maps\": %d, \"ordered_pairs\": %" PRIu64 ", \"pairs_judged_against_the_reference_order\": %" PRIu64
    ", \"twin_agreement_checks\": %" PRIu64 ", \"operands_that_could_not_be_built\": %" PRIu64 "}", nseq[0], nmap[0], cv_pairs, cv_defined_pairs, cv_twin_checks, cv_build_failures);
}

/* an uncaught Cello exception ends in exit(1): attribute it to the case in progress and keep the results */
static void on_uncaught_exit(void) {
  char label[96];
  snprintf(label, sizeof label, "%s/uncaught-exception", vf.phase ? vf.phase : "run");
  vf.aborted = 1;
  vf_violation(label, vf_cur_valid ? vf_cur : "(no case in progress)", "the library raised an exception nobody expected while executing the case (exploration of this instance stopped here)");
  vf_write();
}

int main(int argc, char** argv) {
  vf_init(argc, argv);
  atexit(on_uncaught_exit);
  vfg_build(vf_param_is("grid", "large", "small"));

  const char* doms = vf_param("dom", "all");
  if (vf.replay) {
    char dn[16];
    if (sscanf(vf.replay, "%15s", dn) == 1) { if (!strcmp(dn, "recycled")) run_recycled(); else if (!strcmp(dn, "reptuple")) run_reptuple(); else if (!strcmp(dn, "mixed")) run_mixed(); else if (!strcmp(dn, "converted")) run_converted(); else run_domain(dn); }
    vf_finish();
  }
  static const char* all[] = { "int", "float", "string", "type", "raw", "raw1", "raw3", "raw4", "raw7", "raw9", "raw12", "raw16", "raw20", "raw21", "raw63", "raw64", "raw65", "raw72", "raw100", "raw127", "raw128", "raw129", "raw200", "raw300" };
  for (size_t q = 0; q < sizeof all / sizeof all[0]; q++) {
    if (!vfg_dom_selected(doms, all[q])) continue;
    run_domain(all[q]);
  }
  if (vfg_dom_selected(doms, "recycled")) run_recycled();
  if (vfg_dom_selected(doms, "reptuple")) run_reptuple();
  if (vfg_dom_selected(doms, "mixed")) run_mixed();
  if (strcmp(doms, "all") != 0 && vfg_dom_selected(doms, "converted")) run_converted();   /* an instance of its own, not part of dom=all */
  vf.states = 0;
  vf_finish();
  return 0;
}
