/*
** h_alloc.c - C19: objects keep their true type and allocation class; non-heap objects
** are never freed or reallocated; heap objects deleted once are released exactly once.
**
** Exhaustive grid:   way of obtaining an object  x  type  x  placement variant  x  operation
**
**   ways     new new_raw new_root alloc+construct alloc_raw+construct alloc_root+construct
**            copy  $-stack literal  static object  element of Array/List (get, forward and
**            backward iteration)  key / value of Table/Tree (iteration, get)  cursor of a heap
**            and of a stack Range (iter_init, get)  items yielded by stack and heap Slice,
**            reverse(), Filter, Map, stack and heap Zip, enumerate (the yielded tuple and
**            the objects inside it)
**   types    Int Float String Ref Box Tuple Array List Table Tree Range Slice Zip Filter Map
**            File Function Mutex, a plain static struct type, a run-time type made with
**            new(Type, ...) that has a constructor and a destructor, and Type itself
**   ops      none(del-free identity oracle) del del_raw del_root dealloc dealloc_raw
**            dealloc_root destruct resize(shrink) resize(grow) concat append push pop
**            push_at pop_at(first) pop_at(last) rem assign print_to
**            - an operation is applied only if the type implements the class (asked of the
**            library with type_implements_method), so the grid follows the library.
**
** Oracle per case: see judge().  Allocator interposition: lib/vf_alloc.h.
**
** Parameters: part=own|static|embedded|views|stackops|recycle|all   replay="src=.. type=.. var=.. op=.."
**             part=recycle force=0|1: run-time types of different sizes following one another at one address (see there)
*/

#include "vf_alloc.h"

/* ---- types ------------------------------------------------------------------------ */

enum { T_INT, T_FLOAT, T_STRING, T_REF, T_BOX, T_TUPLE, T_ARRAY, T_LIST, T_TABLE, T_TREE,
       T_RANGE, T_SLICE, T_ZIP, T_FILTER, T_MAP, T_FILE, T_FUNCTION, T_MUTEX, T_PLAIN, T_RT, T_TYPE, NTY };

static const char* tyname[NTY] = { "Int", "Float", "String", "Ref", "Box", "Tuple", "Array", "List", "Table", "Tree",
  "Range", "Slice", "Zip", "Filter", "Map", "File", "Function", "Mutex", "Plain", "RT", "Type" };

struct Plain { int64_t a; int64_t b; };
var Plain = Cello(Plain);

struct RT { int64_t a; int64_t b; };
static var RT;                       /* run-time type: new_raw(Type, "RT", 16, New instance) */
static int64_t rt_ctor, rt_dtor;

static void RT_New(var self, var args) {
  struct RT* r = self; rt_ctor++;
  r->a = len(args) > 0 ? c_int(get(args, $I(0))) : 0;
  r->b = len(args) > 1 ? c_int(get(args, $I(1))) : 0;
}
static void RT_Del(var self) { struct RT* r = self; rt_dtor++; r->b = -1; }

static var TY(int t) {
  switch (t) {
    case T_INT: return Int; case T_FLOAT: return Float; case T_STRING: return String; case T_REF: return Ref;
    case T_BOX: return Box; case T_TUPLE: return Tuple; case T_ARRAY: return Array; case T_LIST: return List;
    case T_TABLE: return Table; case T_TREE: return Tree; case T_RANGE: return Range; case T_SLICE: return Slice;
    case T_ZIP: return Zip; case T_FILTER: return Filter; case T_MAP: return Map; case T_FILE: return File;
    case T_FUNCTION: return Function; case T_MUTEX: return Mutex; case T_PLAIN: return Plain; case T_RT: return RT;
    case T_TYPE: return Type;
  }
  return NULL;
}

/* ---- fixed objects the cases are built from ------------------------------------------ */

static var K[12];                    /* raw Ints 0..11 */
static var K10, K20, K50, F25, Sabc, Sdyn, Pl34, FnIdent, FnTrue;
static var ARGS[NTY];                /* raw Tuples: constructor arguments per type */
static var* ROOT;                    /* stack-resident slots in main (scanned by the collector) */
#define PA   (ROOT[0])               /* Array [1,2,3] of Int that views are built over in the *own* part */
#define TAB5 (ROOT[1])               /* Table {5:50} */
#define TRE5 (ROOT[2])               /* Tree  {5:50} */
#define CUR  (ROOT[3])               /* the heap object under test */
#define CONT (ROOT[4])               /* the container under test */
#define AUX  (ROOT[5])
#define AUX2 (ROOT[6])
#define ARR5 (ROOT[7])               /* Array [5] of Int */
#define NROOT 8

static var fn_ident(var args) { return args; }
static var fn_true(var args) { return args; }   /* non-NULL = keep (Filter) */

static var args_for(int t) {
  if (t == T_BOX) set(ARGS[T_BOX], $I(0), new(Int, $I(9)));   /* a Box owns its target: fresh one each time */
  return ARGS[t];
}

/* ---- value fingerprints (no addresses) --------------------------------------------- */

static const char* known_iter(var p) { return p == PA ? "PA" : p == CONT ? "CONT" : p == NULL ? "null" : "other"; }
static const char* known_fn(var p) { return p == FnIdent ? "ident" : p == FnTrue ? "true" : p == NULL ? "null" : "other"; }

static size_t fp(int t, var o, char* b, size_t cap);

static size_t fp_range(var o, char* b, size_t cap) {
  struct Range* r = o;
  return snprintf(b, cap, "range(%" PRId64 ",%" PRId64 ",%" PRId64 ")", r->start, r->stop, r->step);
}

static int ty_index(var type) { for (int t = 0; t < NTY; t++) if (TY(t) == type) return t; return -1; }

/* fingerprint of an object whose type is taken from its header (elements of tuples) */
static size_t fp_any(var o, char* b, size_t cap) {
  if (o == NULL) return snprintf(b, cap, "null");
  int t = ty_index(type_of(o));
  if (t < 0) return snprintf(b, cap, "?");
  return fp(t, o, b, cap);
}

static size_t fp(int t, var o, char* b, size_t cap) {
  size_t n = 0;
  if (cap < 32) { if (cap) b[0] = 0; return 0; }
  switch (t) {
    case T_INT:    return snprintf(b, cap, "%" PRId64, ((struct Int*)o)->val);
    case T_FLOAT:  return snprintf(b, cap, "%g", ((struct Float*)o)->val);
    case T_STRING: return snprintf(b, cap, "\"%s\"", ((struct String*)o)->val ? ((struct String*)o)->val : "(null)");
    case T_REF: {
      var v = ((struct Ref*)o)->val; int k = -1;
      for (int i = 0; i < 12; i++) if (v == K[i]) k = i;
      return k >= 0 ? snprintf(b, cap, "ref:k%d", k) : snprintf(b, cap, "ref:%s", v ? "other" : "null"); }
    case T_BOX: {
      var v = ((struct Box*)o)->val;
      if (!v) return snprintf(b, cap, "box:null");
      return snprintf(b, cap, "box:%" PRId64, ((struct Int*)v)->val); }
    case T_TUPLE: {
      struct Tuple* tp = o;
      n += snprintf(b + n, cap - n, "(");
      for (size_t i = 0; tp->items && tp->items[i] != Terminal && i < 12 && n + 40 < cap; i++) {
        if (i) n += snprintf(b + n, cap - n, ",");
        n += fp_any(tp->items[i], b + n, cap - n);
      }
      n += snprintf(b + n, cap - n, ")");
      return n; }
    case T_ARRAY: case T_LIST: {
      size_t l = len(o);
      n += snprintf(b + n, cap - n, "[");
      for (size_t i = 0; i < l && i < 12 && n + 40 < cap; i++) {
        if (i) n += snprintf(b + n, cap - n, ",");
        n += fp_any(get(o, $I(i)), b + n, cap - n);
      }
      n += snprintf(b + n, cap - n, "]");
      return n; }
    case T_TABLE: case T_TREE: {
      n += snprintf(b + n, cap - n, "{");
      int first = 1;
      for (int k = 0; k < 12 && n + 40 < cap; k++) {
        if (!mem(o, K[k])) continue;
        n += snprintf(b + n, cap - n, "%s%d:", first ? "" : ",", k); first = 0;
        n += fp_any(get(o, K[k]), b + n, cap - n);
      }
      n += snprintf(b + n, cap - n, "}#%zu", len(o));
      return n; }
    case T_RANGE:  return fp_range(o, b, cap);
    case T_SLICE: {
      struct Slice* s = o;
      n += snprintf(b + n, cap - n, "slice(%s,", known_iter(s->iter));
      n += s->range ? fp_range(s->range, b + n, cap - n) : (size_t)snprintf(b + n, cap - n, "null");
      n += snprintf(b + n, cap - n, ")");
      return n; }
    case T_ZIP: {
      struct Zip* z = o;
      return snprintf(b, cap, "zip(%zu,%zu)", z->iters ? len(z->iters) : (size_t)99, z->values ? len(z->values) : (size_t)99); }
    case T_FILTER: return snprintf(b, cap, "filter(%s,%s)", known_iter(((struct Filter*)o)->iter), known_fn(((struct Filter*)o)->func));
    case T_MAP:    return snprintf(b, cap, "map(%s,%s)", known_iter(((struct Map*)o)->iter), known_fn(((struct Map*)o)->func));
    case T_FILE:   return snprintf(b, cap, "file:%s", ((struct File*)o)->file ? "open" : "closed");
    case T_FUNCTION: return snprintf(b, cap, "fn:%s", ((struct Function*)o)->func == fn_ident ? "ident" : ((struct Function*)o)->func == fn_true ? "true" : "other");
    case T_MUTEX:  return snprintf(b, cap, "mutex");
    case T_PLAIN:  return snprintf(b, cap, "plain(%" PRId64 ",%" PRId64 ")", ((struct Plain*)o)->a, ((struct Plain*)o)->b);
    case T_RT:     return snprintf(b, cap, "rt(%" PRId64 ",%" PRId64 ")", ((struct RT*)o)->a, ((struct RT*)o)->b);
    case T_TYPE:   return snprintf(b, cap, "type(%s,%zu)", c_str(o), size(o));
  }
  return 0;
}

/* the value every freshly obtained subject must show (hard-coded, independent of the library) */
static const char* std_fp(int t) {
  static const char* s[NTY] = { "7", "2.5", "\"abc\"", "ref:k5", "box:9", "(1,2,3)", "[1,2,3]", "[1,2,3]",
    "{1:10,2:20}#2", "{1:10,2:20}#2", "range(0,5,1)", "slice(PA,range(0,1,1))", "zip(2,2)", "filter(PA,true)", "map(PA,ident)",
    "file:closed", "fn:ident", "mutex", "plain(3,4)", "rt(3,4)", "type(Dyn,8)" };
  return s[t];
}

/* ---- operations -------------------------------------------------------------------- */

enum { OP_NONE, OP_DEL, OP_DEL_RAW, OP_DEL_ROOT, OP_DEALLOC, OP_DEALLOC_RAW, OP_DEALLOC_ROOT, OP_DESTRUCT,
       OP_RESIZE_SHRINK, OP_RESIZE_GROW, OP_CONCAT, OP_APPEND, OP_PUSH, OP_POP, OP_PUSH_AT, OP_POP_AT0, OP_POP_ATLAST,
       OP_REM, OP_ASSIGN, OP_PRINT_TO,
       OP_DROP_COLLECT,                           /* drop the only reference to a collector-managed object and force collections */
       OP_DEL_STOPPED, OP_DEL_ROOT_STOPPED,       /* del / del_root between stop(gc) and start(gc); collector-managed heap objects only, forked */
       NOPS };

static const char* opname[NOPS] = { "none", "del", "del_raw", "del_root", "dealloc", "dealloc_raw", "dealloc_root", "destruct",
  "resize_shrink", "resize_grow", "concat", "append", "push", "pop", "push_at", "pop_at_first", "pop_at_last",
  "rem", "assign", "print_to", "drop-and-collect", "del-while-stopped", "del_root-while-stopped" };

static int is_delete_op(int op) { return op >= OP_DEL && op <= OP_DEALLOC_ROOT; }
static int is_dealloc_op(int op) { return op >= OP_DEALLOC && op <= OP_DEALLOC_ROOT; }
static int is_seq(int t) { return t == T_TUPLE || t == T_ARRAY || t == T_LIST; }
static int is_map(int t) { return t == T_TABLE || t == T_TREE; }

/* does the operation make sense for the type?  The class membership is asked of the library. */
static int op_applies(int t, int op) {
  var ty = TY(t);
  switch (op) {
    case OP_NONE: case OP_DEL: case OP_DEL_RAW: case OP_DEL_ROOT: case OP_DEALLOC: case OP_DEALLOC_RAW: case OP_DEALLOC_ROOT: case OP_DESTRUCT:
      return 1;
    case OP_RESIZE_SHRINK: return type_implements_method(ty, Resize, resize);
    case OP_RESIZE_GROW:   return type_implements_method(ty, Resize, resize) && (t == T_STRING || t == T_TABLE || t == T_TUPLE);
    case OP_CONCAT:        return type_implements_method(ty, Concat, concat) && (t == T_STRING || is_seq(t));
    case OP_APPEND:        return type_implements_method(ty, Concat, append) && (t == T_STRING || is_seq(t));
    case OP_PUSH:          return type_implements_method(ty, Push, push) && is_seq(t);
    case OP_POP:           return type_implements_method(ty, Push, pop) && is_seq(t);
    case OP_PUSH_AT:       return type_implements_method(ty, Push, push_at) && is_seq(t);
    case OP_POP_AT0: case OP_POP_ATLAST: return type_implements_method(ty, Push, pop_at) && is_seq(t);
    case OP_REM:           return type_implements_method(ty, Get, rem) && (is_seq(t) || is_map(t));
    case OP_ASSIGN:        return type_implements_method(ty, Assign, assign) && (t == T_STRING || is_seq(t) || is_map(t));
    case OP_PRINT_TO:      return t == T_STRING && type_implements_method(ty, Format, format_to);
    case OP_DROP_COLLECT: case OP_DEL_STOPPED: case OP_DEL_ROOT_STOPPED: return 1;
  }
  return 0;
}

/* value the object must show after a *successful* operation; NULL = not modelled (no value check) */
static const char* model_after(int t, int op, int on_heap_buffer) {
  if (t == T_STRING) switch (op) {
    case OP_RESIZE_SHRINK: return "\"a\""; case OP_RESIZE_GROW: return "\"abc\"";
    case OP_CONCAT: case OP_APPEND: return "\"abcxy\""; case OP_ASSIGN: return "\"q\""; case OP_PRINT_TO: return "\"42\"";
  }
  if (is_seq(t)) {
    const char* r = NULL;
    switch (op) {
      case OP_PUSH: case OP_APPEND: r = "1,2,3,4"; break;
      case OP_POP: case OP_POP_ATLAST: case OP_REM: r = "1,2"; break;
      case OP_PUSH_AT: r = "4,1,2,3"; break; case OP_POP_AT0: r = "2,3"; break;
      case OP_CONCAT: r = "1,2,3,4,5"; break; case OP_RESIZE_SHRINK: r = "1"; break; case OP_ASSIGN: r = "5"; break;
    }
    if (!r) return NULL;
    static char buf[64];
    snprintf(buf, sizeof buf, t == T_TUPLE ? "(%s)" : "[%s]", r);
    return buf;
  }
  if (is_map(t)) switch (op) {
    case OP_RESIZE_SHRINK: return "{}#0"; case OP_RESIZE_GROW: return "{1:10,2:20}#2";
    case OP_REM: return "{2:20}#1"; case OP_ASSIGN: return "{5:50}#1";
  }
  return NULL;
}

static void do_op(var o, int t, int op) {
  switch (op) {
    case OP_DEL: del(o); break;
    case OP_DEL_RAW: del_raw(o); break;
    case OP_DEL_ROOT: del_root(o); break;
    case OP_DEALLOC: dealloc(o); break;
    case OP_DEALLOC_RAW: dealloc_raw(o); break;
    case OP_DEALLOC_ROOT: dealloc_root(o); break;
    case OP_DESTRUCT: destruct(o); break;
    case OP_RESIZE_SHRINK: resize(o, is_map(t) ? 0 : 1); break;
    case OP_RESIZE_GROW: resize(o, t == T_STRING ? 5 : 8); break;
    case OP_CONCAT: if (t == T_STRING) concat(o, $S("xy")); else concat(o, tuple(K[4], K[5])); break;
    case OP_APPEND: if (t == T_STRING) append(o, $S("xy")); else append(o, K[4]); break;
    case OP_PUSH: push(o, K[4]); break;
    case OP_POP: pop(o); break;
    case OP_PUSH_AT: push_at(o, K[4], $I(0)); break;
    case OP_POP_AT0: pop_at(o, $I(0)); break;
    case OP_POP_ATLAST: pop_at(o, $I(-1)); break;
    case OP_REM: rem(o, is_map(t) ? K[1] : K[3]); break;
    case OP_ASSIGN:
      if (t == T_STRING) assign(o, $S("q"));
      else if (t == T_TUPLE) assign(o, tuple(K[5]));
      else if (is_seq(t)) assign(o, ARR5);                       /* from a tuple an Array/List would become a container of Ref */
      else assign(o, t == T_TABLE ? TAB5 : TRE5);
      break;
    case OP_PRINT_TO: print_to(o, 0, "%i", $I(42)); break;
  }
}

/* ---- the subject of a case ----------------------------------------------------------- */

enum { K_OWN, K_NONHEAP, K_BORROWED };       /* heap object made by the case | stack/static/embedded | heap object owned by another object */
enum { M_RAW, M_GC, M_ROOT };

struct subj {
  var o; int t; var type; int cls; int kind; int mgmt;
  var cont; int ct; int et, kt, vt;          /* containing container, its kind (T_ARRAY ...), element / key / value types */
  const char* expect;                        /* fingerprint it must show when obtained */
  int released;
};

static const char* cur_src = "?"; static int cur_var, cur_op, cur_t;
static int in_child;
static struct vf_set seen_nontrivial, seen_outcomes;
static uint64_t n_refused, n_noop, n_released, n_modified, n_forked, n_copy_unavailable;

static const char* clsname(int cls) {
  return cls == AllocStatic ? "static" : cls == AllocStack ? "stack" : cls == AllocHeap ? "heap" : cls == AllocData ? "data" : "?";
}

static const char* cur_tyname_override;
static char labbuf[200];
static const char* LAB(struct subj* s, const char* symptom) {
  snprintf(labbuf, sizeof labbuf, "%s/%s/%s/%s", clsname(s->cls), cur_tyname_override ? cur_tyname_override : tyname[s->t], opname[cur_op], symptom);
  return labbuf;
}

static void mark_nontrivial(void) {
  char k[128]; snprintf(k, sizeof k, "%s/%s/%s", cur_src, tyname[cur_t], opname[cur_op]);
  if (vf_set_put(&seen_nontrivial, k, 1) < 0) vf.nontrivial++;
}

static void outcome(struct subj* s, const char* what) {
  char k[160]; snprintf(k, sizeof k, "%s/%s/%s/%s", clsname(s->cls), tyname[s->t], opname[cur_op], what);
  if (vf_set_put(&seen_outcomes, k, 1) < 0) vf.outcomes++;
}

/* buffer / object owned by the subject that its destructor releases (NULL if none we know of) */
static void* owned_ptr(int t, var o, size_t* nbytes) {
  if (nbytes) *nbytes = 0;
  if (t == T_STRING) { char* v = ((struct String*)o)->val; if (v && nbytes) *nbytes = strlen(v) + 1; return v; }
  if (t == T_TUPLE) {
    struct Tuple* tp = o; size_t n = 0;
    if (tp->items) { while (tp->items[n] != Terminal) n++; if (nbytes) *nbytes = (n + 1) * sizeof(var); }
    return tp->items; }
  if (t == T_BOX) { var v = ((struct Box*)o)->val; if (v && nbytes) *nbytes = sizeof(struct Header) + sizeof(struct Int); return v ? (void*)header(v) : NULL; }
  return NULL;
}

static void __attribute__((noinline)) scrub_stack(void) {
  char pad[16384];
  memset(pad, 0, sizeof pad);
  __asm__ volatile("" :: "r"(pad) : "memory");
}

/* enough collector-managed garbage that at least one mark + sweep runs (the registry of this harness holds a few dozen entries) */
static void __attribute__((noinline)) allocation_burst(void) {
  for (int i = 0; i < 400; i++) { var g = new(Int, $I(i)); (void)g; }
}

/* type_of, allocation class, magic number, every byte readable and writable */
static int identity(struct subj* s, const char* when) {
  volatile var ty = NULL;
  var e = VF_CATCH(ty = type_of(s->o));
  if (e) { vf_violation(LAB(s, "type_of-raises"), NULL, "%s: type_of raised %s", when, vf_exc_name(e)); return 1; }
  if (ty != s->type) {
    vf_violation(LAB(s, "wrong-type"), NULL, "%s: type_of gives %s, expected %s", when, c_str((var)ty), c_str(s->type)); return 1; }
  struct Header* h = header(s->o);
#if CELLO_ALLOC_CHECK == 1
  if ((intptr_t)h->alloc != s->cls) {
    vf_violation(LAB(s, "wrong-alloc-class"), NULL, "%s: header allocation class is %s (%ld), expected %s", when,
      clsname((int)(intptr_t)h->alloc), (long)(intptr_t)h->alloc, clsname(s->cls)); return 1; }
#endif
#if CELLO_MAGIC_CHECK == 1
  if (h->magic != (var)CELLO_MAGIC_NUM) { vf_violation(LAB(s, "bad-magic"), NULL, "%s: header magic number is wrong", when); return 1; }
#endif
  size_t n = size(s->type);
  volatile unsigned char* b = s->o;
  for (size_t i = 0; i < n; i++) { unsigned char c = b[i]; b[i] = c; }
#ifndef CELLO_NGC
  if (s->kind == K_OWN && !s->released) {
    /* new / alloc / copy and the root variants register the object with the collector, the raw variants do not */
    bool reg = mem(current(GC), s->o);
    if (reg != (s->mgmt != M_RAW)) {
      vf_violation(LAB(s, reg ? "raw-object-registered" : "not-registered-with-collector"), NULL, "%s: mem(current(GC), obj) is %s", when, reg ? "true for a raw object" : "false for a collector-managed object");
      return 1; }
  }
#endif
  return 0;
}

static int cmpstr(const void* a, const void* b) { return strcmp(*(char* const*)a, *(char* const*)b); }

/* one entry of a container fingerprint: header class + value, or SUBJ for the subject itself */
static size_t fp_entry(struct subj* s, int t, var e, char* b, size_t cap) {
  size_t n = 0;
  struct Header* h = header(e);
  int tyok = h->type == TY(t);
#if CELLO_ALLOC_CHECK == 1
  n += snprintf(b + n, cap - n, "<%s%s>", tyok ? "" : "WRONGTYPE ", clsname((int)(intptr_t)h->alloc));
#else
  n += snprintf(b + n, cap - n, "<%s>", tyok ? "" : "WRONGTYPE ");
#endif
  if (e == s->o) n += snprintf(b + n, cap - n, "SUBJ");
  else if (tyok) n += fp(t, e, b + n, cap - n);
  return n;
}

/* fingerprint of the containing container: length, every element's header and value (the subject's value excluded) */
static void cont_fp_raw(struct subj* s, char* b, size_t cap) {
  size_t n = 0; b[0] = 0;
  if (!s->cont) return;
  size_t l = len(s->cont);
  n += snprintf(b + n, cap - n, "len=%zu;", l);
  if (s->ct == T_ARRAY || s->ct == T_LIST) {
    for (size_t i = 0; i < l && n + 200 < cap; i++) { n += fp_entry(s, s->et, get(s->cont, $I(i)), b + n, cap - n); n += snprintf(b + n, cap - n, ";"); }
    return;
  }
  char* ent[16]; int ne = 0;
  var k = iter_init(s->cont);
  while (k != Terminal && ne < 16) {
    char tmp[512]; size_t m = 0;
    m += fp_entry(s, s->kt, k, tmp + m, sizeof tmp - m);
    m += snprintf(tmp + m, sizeof tmp - m, "=>");
    m += fp_entry(s, s->vt, get(s->cont, k), tmp + m, sizeof tmp - m);
    ent[ne++] = strdup(tmp);
    k = iter_next(s->cont, k);
  }
  qsort(ent, ne, sizeof ent[0], cmpstr);
  for (int i = 0; i < ne; i++) { if (n + 520 < cap) n += snprintf(b + n, cap - n, "%s;", ent[i]); __real_free(ent[i]); }
}

static void cont_fp(struct subj* s, char* b, size_t cap) {
  var e = VF_CATCH(cont_fp_raw(s, b, cap));
  if (e) snprintf(b, cap, "UNREADABLE: walking the container raised %s", vf_exc_name(e));
}

/* after a destructor ran on an embedded / stack object: zero it and construct it again (placement pattern) */
static void reconstruct(struct subj* s) {
  if (s->cls == AllocStatic) return;             /* type objects have no destructor and are never rebuilt */
  size_t n = size(s->type);
  memset(s->o, 0, n);
  var e = VF_CATCH(construct_with(s->o, args_for(s->t)));
  if (e) vf_violation(LAB(s, "reconstruct-raises"), NULL, "construct on the zeroed object raised %s", vf_exc_name(e));
}

static int matched_delete(int mgmt) { return mgmt == M_RAW ? OP_DEL_RAW : mgmt == M_GC ? OP_DEL : OP_DEL_ROOT; }

/* release a heap object made by the case with the deletion function that matches how it was made: exactly once */
static void release_own(struct subj* s, int destructed) {
  int op = destructed ? OP_DEALLOC_RAW : matched_delete(s->mgmt);
  void* block = header(s->o);
  void* own = destructed ? NULL : owned_ptr(s->t, s->o, NULL);
  int64_t d0 = rt_dtor;
  al_begin(); al_tracked(block); al_tracked(own);
  al_start();
  var e = VF_CATCH(do_op(s->o, s->t, op));
  al_stop();
  s->released = 1;
  if (e) { vf_violation(LAB(s, "final-delete-raises"), NULL, "%s of the heap object afterwards raised %s", opname[op], vf_exc_name(e)); return; }
  int nf = al_count(block, 0);
  if (nf != 1 || al_count(block, 1)) {
    vf_violation(LAB(s, nf == 0 ? "final-delete-not-released" : "final-delete-released-twice"), NULL,
      "%s afterwards: the object's block reached free %d times and realloc %d times (exactly one free expected)", opname[op], nf, al_count(block, 1)); return; }
  if (own && al_count(own, 0) != 1) {
    vf_violation(LAB(s, "final-delete-owned-buffer"), NULL, "%s afterwards: the buffer owned by the object reached free %d times (1 expected)", opname[op], al_count(own, 0)); return; }
  if (s->t == T_RT && !destructed && rt_dtor - d0 != 1) {
    vf_violation(LAB(s, "final-delete-destructor-count"), NULL, "%s afterwards ran the destructor %" PRId64 " times", opname[op], rt_dtor - d0); return; }
}

static int exc_ok_refusal(var e) { return e == ResourceError || e == ValueError; }

/* conventions the property does not fix: a heap Tuple cannot grow by resize (FormatError by design) */
static int convention_refusal(struct subj* s, int op, var e) {
  return s->t == T_TUPLE && op == OP_RESIZE_GROW && e == FormatError && s->cls != AllocStack && s->cls != AllocStatic;
}

/* The thread's exception record keeps the message of the last throw in a String of its own (struct Exception { var obj; var msg; ... }
   in Exception.c, not public); a throw replaces that String's buffer, i.e. frees a block that existed before the call.  The block
   belongs to the exception record, not to the object operated on, so exactly this address is exempt from "a refused call freed
   nothing that existed before".  If the layout ever differs (second member not a String) nothing is exempt. */
struct exc_head { var obj; var msg; };
static void* exception_msg_buffer(void) {
  volatile void* r = NULL;
  var e = VF_CATCH({
    struct exc_head* x = current(Exception);
#if CELLO_MAGIC_CHECK == 1
    if (x && x->msg && header(x->msg)->magic == (var)CELLO_MAGIC_NUM && type_of(x->msg) == String) r = ((struct String*)x->msg)->val;
#endif
  });
  (void)e;
  return (void*)r;
}

/* ---- the oracle ---------------------------------------------------------------------- */

static void judge(struct subj* s, int op) {
  char f0[1024], f1[1024], c0[4096], c1[4096];
  unsigned char bytes0[512];
  vf.evaluations++; vf.executions++;
  s->released = 0;

  if (identity(s, "when obtained")) return;
  volatile size_t fl = 0;
  var e = VF_CATCH(fl = fp(s->t, s->o, f0, sizeof f0));
  if (e) { vf_violation(LAB(s, "value-unreadable"), NULL, "reading the value raised %s", vf_exc_name(e)); return; }
  if (s->expect && strcmp(f0, s->expect) != 0) {
    vf_violation(LAB(s, "wrong-value-when-obtained"), NULL, "object shows %s, expected %s", f0, s->expect); return; }
  if (op == OP_NONE) { outcome(s, "identity-ok"); return; }
  if (s->kind == K_BORROWED) return;

  size_t sz = size(s->type); if (sz > sizeof bytes0) sz = sizeof bytes0;
  memcpy(bytes0, s->o, sz);
  cont_fp(s, c0, sizeof c0);
  int64_t d0 = rt_dtor;
  size_t ownn = 0;
  void* own = owned_ptr(s->t, s->o, &ownn);
  void* block = header(s->o);
  size_t blockn = sizeof(struct Header) + (size(s->type) ? size(s->type) : sizeof(var));

  if (op == OP_DEL_STOPPED || op == OP_DEL_ROOT_STOPPED) {
    /* explicit delete while the collector is stopped (forked child only).  Whatever the library decides to do - ignore the
       call (the leak is C06's known finding) or finalise at once - block and registry must agree afterwards: a block that
       was freed must not stay registered (the next sweep would release it again), a block that was not freed must. */
    if (!in_child || s->kind != K_OWN) return;
    al_begin(); al_tracked(block); al_tracked(own);
    stop(current(GC));
    al_start();
    var e1 = VF_CATCH(if (op == OP_DEL_STOPPED) del(s->o); else del_root(s->o));
    al_stop();
    start(current(GC));
    if (e1) _exit(12);
    int nf = al_count(block, 0);
    volatile bool still = false;
    e1 = VF_CATCH(still = mem(current(GC), s->o));
    if (nf > 1) _exit(13);
    if (nf == 1 && still) _exit(10);
    if (nf == 0 && !still) _exit(17);
    _exit(nf == 0 ? 18 : 0);
  }

  /* ===== heap object made by this case ===== */
  if (s->kind == K_OWN && op == OP_DROP_COLLECT) {
    /* the collector takes over: every reference the harness holds is dropped, then collections are forced.  Whether the
       conservative scan still sees a stale copy of the pointer is not ours to say - only: nothing raises out of a
       collection, and if the block is released it is released once, together with what it owns. */
    al_begin(); al_tracked(block); al_tracked(own);
    s->o = NULL; CUR = NULL; s->released = 1;
    scrub_stack();
    al_start();
    e = VF_CATCH(allocation_burst());
    al_stop();
    int nf = al_count(block, 0);
    if (e) { mark_nontrivial(); vf_violation(LAB(s, "collection-raises"), NULL, "a collection after the object became unreachable raised %s", vf_exc_name(e)); return; }
    if (nf > 1 || al_count(block, 1)) { vf_violation(LAB(s, "released-twice"), NULL, "the collector passed the object's block to free %d times", nf); return; }
    if (nf == 1) {
      mark_nontrivial();
      if (own && al_count(own, 0) != 1) { vf_violation(LAB(s, "owned-buffer-free-count"), NULL, "the collector released the object but what it owns reached free %d times", al_count(own, 0)); return; }
      if (s->t == T_RT && rt_dtor - d0 != 1) { vf_violation(LAB(s, "destructor-count"), NULL, "the collector ran the destructor %" PRId64 " times", rt_dtor - d0); return; }
      n_released++; outcome(s, "reclaimed-by-collection");
    } else outcome(s, "not-reclaimed-yet");
    return;
  }
  if (s->kind == K_OWN) {
    int destructed = 0;
    if (is_delete_op(op)) {
      int expect = (op == OP_DEL || op == OP_DEL_ROOT) ? (s->mgmt == M_RAW ? 0 : 1)
                 : (op == OP_DEL_RAW) ? (s->mgmt == M_RAW ? 1 : -1)
                 : (s->mgmt == M_RAW ? 1 : 2);
      if (expect == 2) {
        /* dealloc of an object that is registered with the collector: runs in a forked child (see fork_case) */
        var e1 = VF_CATCH(destruct(s->o));
        if (e1) _exit(12);
        al_begin(); al_tracked(block); al_start();
        e1 = VF_CATCH(do_op(s->o, s->t, op));
        al_stop();
        if (e1) _exit(12);
        if (al_count(block, 0) != 1) _exit(13);
        volatile bool still = false;
        e1 = VF_CATCH(still = mem(current(GC), s->o));
        _exit(still ? 10 : 0);
      }
      if (is_dealloc_op(op)) { var e1 = VF_CATCH(destruct(s->o)); (void)e1; destructed = 1; own = NULL; d0 = rt_dtor; }
      al_begin(); al_tracked(block); al_tracked(own);
      al_start();
      e = VF_CATCH(do_op(s->o, s->t, op));
      al_stop();
      int nf = al_count(block, 0), nr = al_count(block, 1);
      if (e || nf || nr) mark_nontrivial();
      if (e) { vf_violation(LAB(s, "raises"), NULL, "%s of a heap object raised %s", opname[op], vf_exc_name(e)); s->released = nf > 0; return; }
      if (nr) { vf_violation(LAB(s, "block-realloced"), NULL, "the object's block was passed to realloc"); s->released = 1; return; }
      if (expect == 1 ? nf != 1 : nf > 1) {
        vf_violation(LAB(s, nf == 0 ? "not-released" : "released-twice"), NULL, "the object's block reached free %d times (%s expected)", nf, expect == 1 ? "exactly once" : "at most once");
        s->released = nf > 0; return; }
      s->released = nf == 1;
      if (s->released) {
        n_released++;
        if (own && al_count(own, 0) != 1) { vf_violation(LAB(s, "owned-buffer-free-count"), NULL, "the buffer owned by the object reached free %d times (1 expected)", al_count(own, 0)); return; }
        if (s->t == T_RT && rt_dtor - d0 != (destructed ? 0 : 1)) { vf_violation(LAB(s, "destructor-count"), NULL, "destructor ran %" PRId64 " times", rt_dtor - d0); return; }
        outcome(s, "released-once");
      } else {
        n_noop++;
        /* deletion function of another family: ignored - the object must be untouched */
        if (identity(s, "after an ignored delete")) return;
        fp(s->t, s->o, f1, sizeof f1);
        if (strcmp(f0, f1) != 0) { vf_violation(LAB(s, "noop-but-changed"), NULL, "object was not released but changed: %s -> %s", f0, f1); return; }
        outcome(s, "ignored");
      }
      return;
    }
    if (op == OP_DESTRUCT) {
      al_begin(); al_tracked(block); al_tracked(own); al_forbid(block, blockn, "the object's own block");
      al_start();
      e = VF_CATCH(destruct(s->o));
      al_stop();
      if (e || al_forb_hits || (own && al_count(own, 0)) || rt_dtor != d0) mark_nontrivial();
      if (e) { vf_violation(LAB(s, "raises"), NULL, "destruct of a heap object raised %s", vf_exc_name(e)); return; }
      if (al_forb_hits) { vf_violation(LAB(s, "destruct-freed-block"), NULL, "destruct passed the object's block to %s", al_forb_kind ? "realloc" : "free"); s->released = 1; return; }
      if (own && al_count(own, 0) != 1) { vf_violation(LAB(s, "owned-buffer-free-count"), NULL, "destruct freed the owned buffer %d times (1 expected)", al_count(own, 0)); }
      if (s->t == T_RT && rt_dtor - d0 != 1) { vf_violation(LAB(s, "destructor-count"), NULL, "destructor ran %" PRId64 " times", rt_dtor - d0); }
      if (identity(s, "after destruct")) return;
      outcome(s, "destructed");
      release_own(s, 1);
      return;
    }
    /* resizing / reallocating operation on a heap object: must work, the block itself never moves */
    al_begin(); al_tracked(own); al_forbid(block, blockn, "the object's own block");
    al_start();
    e = VF_CATCH(do_op(s->o, s->t, op));
    al_stop();
    if (al_count(own, 0) + al_count(own, 1) > 0 || e) mark_nontrivial();
    if (al_forb_hits) { vf_violation(LAB(s, "block-freed-by-op"), NULL, "%s passed the object's own block to %s", opname[op], al_forb_kind ? "realloc" : "free"); s->released = 1; return; }
    if (e && !convention_refusal(s, op, e)) { vf_violation(LAB(s, "raises"), NULL, "%s on a heap object raised %s", opname[op], vf_exc_name(e)); return; }
    if (identity(s, "after the operation")) return;
    fp(s->t, s->o, f1, sizeof f1);
    const char* m = e ? f0 : model_after(s->t, op, 1);
    if (m && strcmp(f1, m) != 0) { vf_violation(LAB(s, "wrong-value-after"), NULL, "after %s the object shows %s, expected %s", opname[op], f1, m); return; }
    n_modified++;
    outcome(s, e ? "convention-refusal" : "modified");
    return;
  }

  /* ===== stack, static or container-embedded object ===== */
  void* excbuf = exception_msg_buffer();          /* read right before the call */
  al_begin();
  al_forbid(block, blockn, "the object itself");
  int buffer_is_heap = (s->cls == AllocData) || s->t == T_BOX;     /* embedded String/Tuple own a heap buffer; a Box owns a heap object */
  if (own) { if (buffer_is_heap) al_tracked(own); else al_forbid(own, ownn, s->t == T_STRING ? "the character buffer of a stack String" : "the item array of a stack Tuple"); }
  al_start();
  e = VF_CATCH(do_op(s->o, s->t, op));
  al_stop();
  int own_freed = (own && buffer_is_heap) ? al_count(own, 0) : 0;
  int own_realloc = (own && buffer_is_heap) ? al_count(own, 1) : 0;
  if (e || own_freed || own_realloc || al_forb_hits) mark_nontrivial();

  if (al_forb_hits) {
    vf_violation(LAB(s, "freed-nonheap-memory"), NULL, "%s passed a pointer %ld bytes into %s to %s", opname[op], al_forb_off, al_forb_what, al_forb_kind ? "realloc" : "free");
    return; }
  if (e && !exc_ok_refusal(e) && !convention_refusal(s, op, e)) {
    char sym[64]; snprintf(sym, sizeof sym, "wrong-exception-%s", vf_exc_name(e));
    vf_violation(LAB(s, sym), NULL, "%s of a %s object raised %s (ResourceError or ValueError expected)", opname[op], clsname(s->cls), vf_exc_name(e));
    /* continue: the object must still be intact */
  }
  int must_be_intact = e != NULL || is_delete_op(op);
  if (must_be_intact) {
    const char* how = e ? "refused" : "noop";
    char sym[64];
    if (own_freed || own_realloc) {
      snprintf(sym, sizeof sym, "%s-but-owned-buffer-freed", how);
      vf_violation(LAB(s, sym), NULL, "%s %s (%s) but the destructor had already released what the object owns (free x%d)", opname[op],
        e ? "was refused" : "returned", vf_exc_name(e), own_freed);
      reconstruct(s); return; }
    if (e && is_delete_op(op) && (s->t == T_ARRAY || s->t == T_LIST || is_map(s->t)) && al_nfree_preexisting(excbuf) > 0) {
      /* the buffers of a container are private: a refused delete of an embedded container must not free any block that existed
         before the call (temporaries of the exception message are allocated and freed inside the window and do not count, nor does
         the old message buffer of the thread's exception record, which every throw replaces) */
      snprintf(sym, sizeof sym, "%s-but-owned-buffer-freed", how);
      vf_violation(LAB(s, sym), NULL, "%s %s (%s) but %d blocks that existed before the call were freed: the destructor had already released the container's storage", opname[op],
        e ? "was refused" : "returned", vf_exc_name(e), al_nfree_preexisting(excbuf));
      reconstruct(s); return; }
    if (rt_dtor != d0) {
      snprintf(sym, sizeof sym, "%s-but-destructor-ran", how);
      vf_violation(LAB(s, sym), NULL, "%s %s (%s) but the object's destructor ran first", opname[op], e ? "was refused" : "returned", vf_exc_name(e));
      reconstruct(s); return; }
    if (identity(s, "after a refused operation")) return;
    fp(s->t, s->o, f1, sizeof f1);
    if (strcmp(f0, f1) != 0 || memcmp(bytes0, s->o, sz) != 0) {
      snprintf(sym, sizeof sym, "%s-but-changed", how);
      vf_violation(LAB(s, sym), NULL, "%s %s (%s) but the object changed: %s -> %s", opname[op], e ? "was refused" : "returned", vf_exc_name(e), f0, f1);
      return; }
    cont_fp(s, c1, sizeof c1);
    if (strcmp(c0, c1) != 0) { vf_violation(LAB(s, "container-changed"), NULL, "the containing container changed: %s -> %s", c0, c1); return; }
    if (e) n_refused++; else n_noop++;
    outcome(s, e ? vf_exc_name(e) : "ignored");
    return;
  }
  if (op == OP_DESTRUCT) {
    /* a destructor may release what the object owns, never the object; afterwards the memory is constructed again */
    if (own && buffer_is_heap && own_freed != 1) {
      vf_violation(LAB(s, "owned-buffer-free-count"), NULL, "destruct freed the owned buffer %d times (1 expected)", own_freed); reconstruct(s); return; }
    if (s->t == T_RT && rt_dtor - d0 != 1) { vf_violation(LAB(s, "destructor-count"), NULL, "destructor ran %" PRId64 " times", rt_dtor - d0); }
    reconstruct(s);
    if (identity(s, "after destruct + construct")) return;
    fp(s->t, s->o, f1, sizeof f1);
    if (strcmp(f1, s->cls == AllocStatic ? f0 : std_fp(s->t)) != 0) { vf_violation(LAB(s, "wrong-value-after-reconstruct"), NULL, "after destruct, zero, construct the object shows %s, expected %s", f1, std_fp(s->t)); return; }
    cont_fp(s, c1, sizeof c1);
    if (strcmp(c0, c1) != 0) { vf_violation(LAB(s, "container-changed"), NULL, "the containing container changed: %s -> %s", c0, c1); return; }
    outcome(s, "destructed");
    return;
  }
  /* a reallocating operation that went through: only possible when the buffer is on the heap (embedded String / Tuple / container) */
  if (identity(s, "after the operation")) return;
  fp(s->t, s->o, f1, sizeof f1);
  const char* m = (s->cls == AllocData) ? model_after(s->t, op, 1) : f0;
  if (m && strcmp(f1, m) != 0) {
    vf_violation(LAB(s, s->cls == AllocData ? "wrong-value-after" : "succeeded-and-changed"), NULL, "after %s the %s object shows %s, expected %s", opname[op], clsname(s->cls), f1, m); return; }
  cont_fp(s, c1, sizeof c1);
  if (strcmp(c0, c1) != 0) { vf_violation(LAB(s, "container-changed"), NULL, "the containing container changed: %s -> %s", c0, c1); return; }
  n_modified++;
  outcome(s, "modified");
}

/* ---- ways of obtaining an object ---------------------------------------------------------- */

enum { S_NEW, S_NEW_RAW, S_NEW_ROOT, S_ALLOC, S_ALLOC_RAW, S_ALLOC_ROOT, S_COPY, S_STACK, S_STATIC,
       S_ARRAY_GET, S_ARRAY_ITER, S_ARRAY_BACK, S_LIST_GET, S_LIST_ITER, S_LIST_BACK,
       S_TABLE_KEY, S_TABLE_VAL_GET, S_TABLE_VAL_ITERGET, S_TREE_KEY, S_TREE_VAL_GET, S_TREE_VAL_ITERGET,
       S_RANGE_HEAP_ITER, S_RANGE_HEAP_GET, S_RANGE_STACK_ITER, S_RANGE_STACK_GET,
       S_SLICE_STACK, S_SLICE_HEAP, S_REVERSE, S_FILTER, S_MAP,
       S_ZIP_STACK_ITEM, S_ZIP_STACK_INNER, S_ZIP_HEAP_ITEM, S_ZIP_HEAP_INNER,
       S_ENUM_ITEM, S_ENUM_INDEX, S_ENUM_INNER, NSRC };

static const char* srcname[NSRC] = { "new", "new_raw", "new_root", "alloc+construct", "alloc_raw+construct", "alloc_root+construct", "copy", "$", "static",
  "array-get", "array-iter", "array-iter-backward", "list-get", "list-iter", "list-iter-backward",
  "table-key-iter", "table-val-get", "table-val-get-iterated-key", "tree-key-iter", "tree-val-get", "tree-val-get-iterated-key",
  "heap-range-iter", "heap-range-get", "stack-range-iter", "stack-range-get",
  "stack-slice-item", "heap-slice-item", "reverse-item", "filter-item", "map-item",
  "stack-zip-item", "stack-zip-inner", "heap-zip-item", "heap-zip-inner",
  "enumerate-item", "enumerate-index", "enumerate-inner" };

static var PROTO[NTY];               /* raw-free: managed objects kept alive through ROOT (see main) */
static var STATICS[40]; static const char* static_names[40]; static int nstatics;

static const int ELEMS[] = { T_INT, T_FLOAT, T_STRING, T_REF, T_BOX, T_TUPLE, T_ARRAY, T_LIST, T_TABLE, T_TREE, T_FILTER, T_MAP, T_FILE, T_FUNCTION, T_PLAIN, T_RT };
static const int KEYS[]  = { T_INT, T_FLOAT, T_STRING, T_REF, T_PLAIN, T_RT };
#define NELEMS ((int)(sizeof ELEMS / sizeof ELEMS[0]))
#define NKEYS  ((int)(sizeof KEYS / sizeof KEYS[0]))
static int is_elem(int t) { for (int i = 0; i < NELEMS; i++) if (ELEMS[i] == t) return 1; return 0; }
static int is_key(int t)  { for (int i = 0; i < NKEYS; i++) if (KEYS[i] == t) return 1; return 0; }
static int has_stack_literal(int t) { return t != T_ARRAY && t != T_LIST && t != T_TABLE && t != T_TREE && t != T_MUTEX && t != T_TYPE; }

static int int_other(int i) { return (i < 7 ? i : i + 1) % 12; }    /* Int values of the other positions: never the standard value 7 */

/* call f with an object of type t to be stored in a container: the standard value, or a distinct one for position i */
static void with_elem(int t, int i, int std, void (*f)(var, void*), void* ctx) {
  static const char* nm[] = { "k0", "k1", "k2", "k3", "k4", "k5", "k6", "k7", "k8", "k9" };
  switch (t) {
    case T_INT:    f(std ? K[7] : K[int_other(i)], ctx); break;
    case T_FLOAT:  f($F(std ? 2.5 : i + 0.25), ctx); break;
    case T_STRING: f(std ? Sabc : (var)$S((char*)nm[i % 10]), ctx); break;
    case T_REF:    f($R(std ? K[5] : K[i < 5 ? i : (i + 1) % 12]), ctx); break;
    case T_BOX:    f($B(new(Int, $I(9))), ctx); break;
    case T_PLAIN:  f($(Plain, std ? 3 : i + 10, 4), ctx); break;
    case T_RT:     f($(RT, std ? 3 : i + 10, 4), ctx); break;
    default:       f(PROTO[t], ctx); break;
  }
}

struct putctx { var cont; var key; int vt, vi, vstd; };
static void cb_push(var obj, void* c) { push(((struct putctx*)c)->cont, obj); }
static void cb_setval(var obj, void* c) { struct putctx* p = c; set(p->cont, p->key, obj); }
static void cb_setkey(var obj, void* c) { struct putctx* p = c; p->key = obj; with_elem(p->vt, p->vi, p->vstd, cb_setval, p); }

/* sequence container of n elements of type t, the standard value at position p */
static var mk_seq(int ct, int t, int n, int p) {
  CONT = new_with(TY(ct), tuple(TY(t)));
  struct putctx c = { CONT, NULL, 0, 0, 0 };
  for (int i = 0; i < n; i++) with_elem(t, i, i == p, cb_push, &c);
  return CONT;
}

/* map container of n entries; either the key (kstd) or the value at entry p is the standard value */
static var mk_map(int ct, int kt, int vt, int n, int p, int subject_is_key) {
  CONT = new_with(TY(ct), tuple(TY(kt), TY(vt)));
  struct putctx c = { CONT, NULL, vt, 0, 0 };
  for (int i = 0; i < n; i++) {
    c.vi = i;
    if (subject_is_key) { c.vstd = 0; with_elem(kt, i, i == p, cb_setkey, &c); }
    else                { c.vstd = i == p; with_elem(kt, i, 0, cb_setkey, &c); }
  }
  return CONT;
}

static var mk_own(int t, int src) {
  var ty = TY(t), args = args_for(t);
  switch (src) {
    case S_NEW:        return new_with(ty, args);
    case S_NEW_RAW:    return new_raw_with(ty, args);
    case S_NEW_ROOT:   return new_root_with(ty, args);
    case S_ALLOC:      return construct_with(alloc(ty), args);
    case S_ALLOC_RAW:  return construct_with(alloc_raw(ty), args);
    case S_ALLOC_ROOT: return construct_with(alloc_root(ty), args);
  }
  return NULL;
}

static void subj_init(struct subj* s, var o, int t, int cls, int kind) {
  memset(s, 0, sizeof *s);
  s->o = o; s->t = t; s->type = TY(t); s->cls = cls; s->kind = kind; s->expect = std_fp(t);
}

static void finish_own(struct subj* s);
static void judge(struct subj* s, int op);
static int probe_only;          /* forked child that only finds out whether copy() of this kind of original works */

/* copy(orig): the copy is a collector-managed heap object of its own, whatever the original's allocation class */
static void copy_and_judge(struct subj* s, var orig, int t, int op) {
  volatile var cp = NULL;
  var e = VF_CATCH(cp = copy(orig));
  CUR = cp;
  if (probe_only) _exit((e || !cp) ? 15 : 0);
  if (e || !cp) {
    /* Range, Slice, Zip (Assign needs a constructed target), Type (by design): no object to judge */
    n_copy_unavailable++; vf.evaluations++;
    if (in_child) _exit(15);
    return;
  }
  int same = cp == orig;
  cp = NULL;                                      /* the root slot CUR is the only reference the harness keeps */
  subj_init(s, CUR, t, AllocHeap, K_OWN); s->mgmt = M_GC;
  if (same) { vf_violation(LAB(s, "copy-is-the-original"), NULL, "copy returned the object it was given"); CUR = NULL; return; }
  judge(s, op);
  finish_own(s);
}

static void finish_own(struct subj* s) {
  if (!s->released) release_own(s, 0);
  CUR = NULL;
}

static void finish_cont(void) {
  if (AUX) { var e0 = VF_CATCH(del(AUX)); if (e0) vf_violation("cleanup/view-delete-raises", NULL, "deleting the heap view afterwards raised %s", vf_exc_name(e0)); AUX = NULL; }
  if (CONT) { var e = VF_CATCH(del(CONT)); if (e) vf_violation("cleanup/container-delete-raises", NULL, "deleting the container afterwards raised %s", vf_exc_name(e)); }
  CONT = NULL; AUX = NULL; AUX2 = NULL;
}

/* walk forward (dir 0) or backward (dir 1) to the p-th position of a sequence of n */
static var seq_walk(var c, int n, int p, int dir) {
  var it;
  if (!dir) { it = iter_init(c); for (int i = 0; i < p && it != Terminal; i++) it = iter_next(c, it); }
  else      { it = iter_last(c); for (int i = n - 1; i > p && it != Terminal; i--) it = iter_prev(c, it); }
  return it;
}

/* find the iterated key of a map whose value fingerprint is want (the standard key) or that equals Int key p */
static var map_find_key(var c, int kt, int n, const char* want, int p) {
  char b[256];
  var it = iter_init(c);
  for (int i = 0; i < n + 2 && it != Terminal; i++) {
    if (want) { fp(kt, it, b, sizeof b); if (strcmp(b, want) == 0) return it; }
    else if (c_int(it) == p) return it;
    it = iter_next(c, it);
  }
  return NULL;
}

/* how the container of an embedded subject came into being: 0 push/set one by one, 1 (maps) String companion type,
   2 assign(fresh container, built one), 3 copy(built one), 4 concat(empty, built one) for sequences / rehash by resize for a Table */
static var rebuild(int ct, int t, int mode) {
  if (mode < 2) return CONT;
  if (mode == 4 && ct == T_TABLE) { resize(CONT, 40); return CONT; }
  AUX2 = CONT; CONT = NULL;
  if (mode == 2) { CONT = (ct == T_ARRAY || ct == T_LIST) ? new_with(TY(ct), tuple(Int)) : new_with(TY(ct), tuple(Int, Int)); assign(CONT, AUX2); }
  else if (mode == 3) CONT = copy(AUX2);
  else { CONT = new_with(TY(ct), tuple(TY(t))); concat(CONT, AUX2); }
  del(AUX2); AUX2 = NULL;
  return CONT;
}

#define VAR_N(v) (((v) / 100) % 100)
#define VAR_P(v) ((v) % 100)
#define VAR_C(v) ((v) / 10000)
#define MKVAR(c, n, p) ((c) * 10000 + (n) * 100 + (p))

static void not_obtained(struct subj* s, const char* what) {
  vf_violation(LAB(s, "not-obtained"), NULL, "%s", what);
}

/* build the subject of (src, t, v), judge op on it, clean up */
static void run_case(int src, int t, int v, int op) {
  struct subj s;
  int n = VAR_N(v), p = VAR_P(v), c = VAR_C(v);
  cur_src = srcname[src]; cur_var = v; cur_op = op; cur_t = t; cur_tyname_override = NULL;
  vf_set_cur("src=%s type=%s var=%d op=%s", srcname[src], tyname[t], v, opname[op]);
  vf_watchdog(20);
  int64_t c0 = rt_ctor;

  switch (src) {
  case S_NEW: case S_NEW_RAW: case S_NEW_ROOT: case S_ALLOC: case S_ALLOC_RAW: case S_ALLOC_ROOT: {
    CUR = mk_own(t, src);
    subj_init(&s, CUR, t, AllocHeap, K_OWN);
    s.mgmt = (src == S_NEW || src == S_ALLOC) ? M_GC : (src == S_NEW_RAW || src == S_ALLOC_RAW) ? M_RAW : M_ROOT;
    if (t == T_RT && rt_ctor - c0 != 1) vf_violation(LAB(&s, "constructor-count"), NULL, "constructor ran %" PRId64 " times", rt_ctor - c0);
    judge(&s, op);
    finish_own(&s);
    break; }
  case S_COPY: {
    /* c: where the original lives - 0 heap, 1 $ stack literal, 2/3 element of an Array/List, 4/5 value of a Table/Tree,
       6/7 key of a Table/Tree, 8 static object.  The copy is always a collector-managed heap object of its own. */
    struct Box* stackbox = $B(NULL);           /* a Box owns its target: the original is a stack Box that is never destructed */
    var orig = NULL;
#define CPY(expr) do { orig = (expr); copy_and_judge(&s, orig, t, op); } while (0)
    if (c == 0) {
      if (t == T_BOX) { stackbox->val = new(Int, $I(9)); CPY(stackbox); }
      else { AUX = new_with(TY(t), args_for(t)); CPY(AUX); { var e2 = VF_CATCH(del(AUX)); (void)e2; } AUX = NULL; }
    } else if (c == 1) {
      switch (t) {
        case T_INT: CPY($I(7)); break;
        case T_FLOAT: CPY($F(2.5)); break;
        case T_STRING: CPY($S("abc")); break;
        case T_REF: CPY($R(K[5])); break;
        case T_BOX: stackbox->val = new(Int, $I(9)); CPY(stackbox); break;
        case T_TUPLE: CPY(tuple(K[1], K[2], K[3])); break;
        case T_RANGE: CPY(range(K[5])); break;
        case T_SLICE: CPY(slice(PA, $I(1))); break;
        case T_ZIP: CPY(zip(PA, PA)); break;
        case T_FILTER: CPY(filter(PA, FnTrue)); break;
        case T_MAP: CPY(map(PA, FnIdent)); break;
        case T_FILE: CPY($(File, NULL)); break;
        case T_FUNCTION: CPY($(Function, fn_ident)); break;
        case T_PLAIN: CPY($(Plain, 3, 4)); break;
        case T_RT: CPY($(RT, 3, 4)); break;
      }
    } else if (c == 2 || c == 3) {
      var cont = mk_seq(c == 2 ? T_ARRAY : T_LIST, t, 3, 1);
      CPY(get(cont, $I(1)));
      finish_cont();
    } else if (c >= 4 && c <= 7) {
      int ct = (c & 1) ? T_TREE : T_TABLE, iskey = c >= 6;
      var cont = mk_map(ct, iskey ? t : T_INT, iskey ? T_INT : t, 3, 1, iskey);
      var o = iskey ? map_find_key(cont, t, 3, std_fp(t), 0) : get(cont, K[int_other(1)]);
      if (o) CPY(o); else { subj_init(&s, NULL, t, AllocHeap, K_OWN); not_obtained(&s, "the map did not hand out the entry that was set"); }
      finish_cont();
    } else {
      CPY(TY(t));                                /* a static type object: Type refuses to be copied (by design) */
    }
#undef CPY
    break; }
  case S_STACK: {
#define STK(expr) do { subj_init(&s, (expr), t, AllocStack, K_NONHEAP); judge(&s, op); } while (0)
    switch (t) {
      case T_INT: STK($I(7)); break;
      case T_FLOAT: STK($F(2.5)); break;
      case T_STRING: STK($S("abc")); break;
      case T_REF: STK($R(K[5])); break;
      case T_BOX: STK($B(new(Int, $I(9)))); break;
      case T_TUPLE: STK(tuple(K[1], K[2], K[3])); break;
      case T_RANGE: STK(range(K[5])); break;
      case T_SLICE: STK(slice(PA, $I(1))); break;
      case T_ZIP: STK(zip(PA, PA)); break;
      case T_FILTER: STK(filter(PA, FnTrue)); break;
      case T_MAP: STK(map(PA, FnIdent)); break;
      case T_FILE: STK($(File, NULL)); break;
      case T_FUNCTION: STK($(Function, fn_ident)); break;
      case T_PLAIN: STK($(Plain, 3, 4)); break;
      case T_RT: STK($(RT, 3, 4)); break;
    }
    break; }
  case S_STATIC: {
    static char exp[96];
    subj_init(&s, STATICS[v], T_TYPE, AllocStatic, K_NONHEAP);
    cur_tyname_override = static_names[v];
    snprintf(exp, sizeof exp, "type(%s,%zu)", static_names[v], size(STATICS[v]));
    s.expect = exp;
    if (strcmp(c_str(STATICS[v]), static_names[v]) != 0) vf_violation(LAB(&s, "static-name"), NULL, "static object shows name %s", c_str(STATICS[v]));
    judge(&s, op);
    break; }
  case S_ARRAY_GET: case S_ARRAY_ITER: case S_ARRAY_BACK: case S_LIST_GET: case S_LIST_ITER: case S_LIST_BACK: {
    int ct = src <= S_ARRAY_BACK ? T_ARRAY : T_LIST;
    int how = (src - S_ARRAY_GET) % 3;
    var cont = mk_seq(ct, t, n, p);
    cont = rebuild(ct, t, c);
    var o = how == 0 ? get(cont, $I(p)) : seq_walk(cont, n, p, how == 2);
    subj_init(&s, o, t, AllocData, K_NONHEAP); s.cont = cont; s.ct = ct; s.et = t;
    if (o == Terminal || o == NULL) { not_obtained(&s, "iteration ended before the element"); finish_cont(); break; }
    if (iter_type(cont) != TY(t)) vf_violation(LAB(&s, "iter_type"), NULL, "iter_type of the container is not the element type");
    if (how && o != get(cont, $I(p))) vf_violation(LAB(&s, "iter-get-differ"), NULL, "iteration and get(%d) hand out different objects", p);
    judge(&s, op);
    finish_cont();
    break; }
  case S_TABLE_KEY: case S_TREE_KEY: case S_TABLE_VAL_GET: case S_TREE_VAL_GET: case S_TABLE_VAL_ITERGET: case S_TREE_VAL_ITERGET: {
    int ct = src < S_TREE_KEY ? T_TABLE : T_TREE;
    int role = (src - (ct == T_TABLE ? S_TABLE_KEY : S_TREE_KEY));     /* 0 key, 1 value via get(Int key), 2 value via get(iterated key) */
    int other = c == 1 ? T_STRING : T_INT;
    int kt = role == 0 ? t : other, vt = role == 0 ? other : t;
    var cont = mk_map(ct, kt, vt, n, p, role == 0);
    cont = rebuild(ct, t, c);
    var o = NULL;
    if (role == 0) o = map_find_key(cont, kt, n, std_fp(kt), 0);
    else {
      /* the key of entry p: Int p, or String "k<p>" */
      var k = NULL;
      if (role == 2) {
        var it = iter_init(cont);
        for (int i = 0; i < n + 2 && it != Terminal; i++) {
          if (kt == T_INT ? c_int(it) == int_other(p) : strcmp(c_str(it), ((const char*[]){"k0","k1","k2","k3","k4","k5","k6","k7","k8","k9"})[p % 10]) == 0) { k = it; break; }
          it = iter_next(cont, it);
        }
      } else k = kt == T_INT ? K[int_other(p)] : (var)$S((char*)((const char*[]){"k0","k1","k2","k3","k4","k5","k6","k7","k8","k9"})[p % 10]);
      if (k) o = get(cont, k);
    }
    subj_init(&s, o, t, AllocData, K_NONHEAP); s.cont = cont; s.ct = ct; s.kt = kt; s.vt = vt;
    if (o == NULL) { not_obtained(&s, "iteration did not yield the key that was set"); finish_cont(); break; }
    if (key_type(cont) != TY(kt) || val_type(cont) != TY(vt) || iter_type(cont) != TY(kt))
      vf_violation(LAB(&s, "key_type-val_type"), NULL, "key_type / val_type / iter_type of the container are not the declared types");
    judge(&s, op);
    finish_cont();
    break; }
  case S_RANGE_HEAP_ITER: case S_RANGE_HEAP_GET: {
    CONT = new(Range, K[5]);
    var o = src == S_RANGE_HEAP_ITER ? iter_init(CONT) : get(CONT, $I(2));
    subj_init(&s, o, T_INT, AllocHeap, K_BORROWED);
    s.expect = src == S_RANGE_HEAP_ITER ? "0" : "2";
    judge(&s, op);
    finish_cont();
    break; }
  case S_RANGE_STACK_ITER: case S_RANGE_STACK_GET: {
    var r = range(K[5]);
    var o = src == S_RANGE_STACK_ITER ? iter_init(r) : get(r, $I(2));
    subj_init(&s, o, T_INT, AllocStack, K_NONHEAP);
    s.expect = src == S_RANGE_STACK_ITER ? "0" : "2";
    judge(&s, op);
    break; }
  default: {
    /* views over a container U of n elements of type t, the standard value at position p */
    int ct = c == 1 ? T_LIST : T_ARRAY;
    var U = mk_seq(ct, t, n, p);
    var view = NULL, item = NULL;
    /* the stack views live in this block (compound literals), so all of them are made here */
    var v_slice = slice(U), v_rev = reverse(U), v_filter = filter(U, FnTrue), v_map = map(U, FnIdent), v_zip = zip(U, U), v_enum = enumerate(U);
    switch (src) {
      case S_SLICE_STACK: view = v_slice; item = seq_walk(view, n, p, 0); break;
      case S_SLICE_HEAP:  AUX = new(Slice, U); view = AUX; item = seq_walk(view, n, p, 0); break;
      case S_REVERSE:     view = v_rev; item = seq_walk(view, n, n - 1 - p, 0); break;
      case S_FILTER:      view = v_filter; item = seq_walk(view, n, p, 0); break;
      case S_MAP:         view = v_map; item = seq_walk(view, n, p, 0); break;
      case S_ZIP_STACK_ITEM: case S_ZIP_STACK_INNER: view = v_zip; item = seq_walk(view, n, p, 0); break;
      case S_ZIP_HEAP_ITEM: case S_ZIP_HEAP_INNER: AUX = new(Zip, U, U); view = AUX; item = seq_walk(view, n, p, 0); break;
      case S_ENUM_ITEM: case S_ENUM_INDEX: case S_ENUM_INNER: view = v_enum; item = seq_walk(view, n, p, 0); break;
    }
    static char exp[256];
    if (src <= S_MAP) {
      subj_init(&s, item, t, AllocData, K_NONHEAP);
      if (src != S_MAP && iter_type(view) != TY(t)) vf_violation(LAB(&s, "iter_type"), NULL, "iter_type of the view is not the element type");
    } else if (src == S_ZIP_STACK_ITEM || src == S_ZIP_HEAP_ITEM || src == S_ENUM_ITEM) {
      subj_init(&s, item, T_TUPLE, src == S_ZIP_HEAP_ITEM ? AllocHeap : AllocStack, src == S_ZIP_HEAP_ITEM ? K_BORROWED : K_NONHEAP);
      if (src == S_ENUM_ITEM) snprintf(exp, sizeof exp, "(%d,%s)", p, std_fp(t)); else snprintf(exp, sizeof exp, "(%s,%s)", std_fp(t), std_fp(t));
      s.expect = exp;
      if (iter_type(view) != Tuple) vf_violation(LAB(&s, "iter_type"), NULL, "iter_type of a Zip is not Tuple");
    } else if (src == S_ENUM_INDEX) {
      subj_init(&s, (item && item != Terminal) ? get(item, $I(0)) : NULL, T_INT, AllocStack, K_NONHEAP);
      snprintf(exp, sizeof exp, "%d", p); s.expect = exp;
    } else {
      subj_init(&s, (item && item != Terminal) ? get(item, $I(1)) : NULL, t, AllocData, K_NONHEAP);
    }
    s.cont = U; s.ct = ct; s.et = t;
    if (item == NULL || item == Terminal || s.o == NULL) { not_obtained(&s, "the view ended before the item"); finish_cont(); break; }
    if (s.cls == AllocData && s.o != get(U, $I(p))) vf_violation(LAB(&s, "view-item-identity"), NULL, "the view does not yield the underlying element %d", p);
    judge(&s, op);
    finish_cont();
    break; }
  }
}

/* ---- enumeration ----------------------------------------------------------------------- */

struct fk { int src, t, v, op; };

#ifdef VF_ASAN
static void child_san_death(void) { _exit(16); }
#endif

static void child_fn(void* a) {
  struct fk* k = a;
  in_child = 1;
#ifdef VF_ASAN
  __sanitizer_set_death_callback(child_san_death);
#endif
  run_case(k->src, k->t, k->v, k->op);
  _exit(14);
}

/* dealloc / dealloc_raw / dealloc_root of an object that is registered with the collector: the documented meaning is
   "deallocate manually; if registered with the collector the entry is removed".  The case runs in a forked child because a
   block that is freed but still registered makes the collector touch freed memory later. */
static void fork_case(int src, int t, int v, int op) {
  struct fk k = { src, t, v, op };
  struct subj s; memset(&s, 0, sizeof s); s.t = t; s.cls = AllocHeap;
  cur_src = srcname[src]; cur_var = v; cur_op = op; cur_t = t; cur_tyname_override = NULL;
  vf_set_cur("src=%s type=%s var=%d op=%s", srcname[src], tyname[t], v, opname[op]);
  struct vf_child r = vf_fork_run(child_fn, &k, 20);
  n_forked++; vf.evaluations++; vf.executions++;
  const char* m = (src == S_NEW_ROOT || src == S_ALLOC_ROOT) ? "root" : "managed";
  char lab[160];
  if (r.signaled) {
    snprintf(lab, sizeof lab, "heap/%s/%s/crash", m, opname[op]);
    vf_violation(lab, NULL, "child %s (signal %d) while deallocating a collector-registered object", r.timed_out ? "hung" : "crashed", r.sig);
    return; }
  switch (r.status) {
    case 0: mark_nontrivial(); outcome(&s, "deallocated-and-unregistered"); break;
    case 15: n_copy_unavailable++; break;
    case 18: n_noop++; outcome(&s, "ignored-while-stopped"); break;     /* not freed, still registered: consistent (the leak is C06's finding) */
    case 17:
      snprintf(lab, sizeof lab, "heap/%s/%s/unregistered-but-not-released", m, opname[op]);
      vf_violation(lab, NULL, "%s removed the registry entry of a %s object obtained by %s but never freed its block", opname[op], tyname[t], srcname[src]);
      break;
    case 10:
      mark_nontrivial();
      snprintf(lab, sizeof lab, "heap/%s/%s/collector-entry-left", m, opname[op]);
      vf_violation(lab, NULL, "%s freed the block of a %s object obtained by %s, but the object is still registered with the collector "
        "(mem(current(GC), obj) is true): the next collection reads the freed block and releases it a second time", opname[op], tyname[t], srcname[src]);
      break;
    case 12: snprintf(lab, sizeof lab, "heap/%s/%s/raises", m, opname[op]); vf_violation(lab, NULL, "destruct or %s raised on a heap %s", opname[op], tyname[t]); break;
    case 13: snprintf(lab, sizeof lab, "heap/%s/%s/block-free-count", m, opname[op]); vf_violation(lab, NULL, "%s did not pass the block to free exactly once", opname[op]); break;
    case 16: snprintf(lab, sizeof lab, "heap/%s/%s/sanitizer", m, opname[op]); vf_violation(lab, NULL, "sanitizer report in the child"); break;
    default: snprintf(lab, sizeof lab, "heap/%s/%s/child-status-%d", m, opname[op], r.status); vf_violation(lab, NULL, "unexpected child exit status %d", r.status); break;
  }
}

/* Does copy() of a type-t original of class c hand out an object at all?  Asked of the library once per (c, t) in a forked child:
   where it raises (Range, Slice, Zip: their Assign needs a constructed target; Type: by design) the half-built block that alloc()
   registered stays behind as garbage whose destructor raises when it is swept - and an exception out of a sweep leaves the collector's
   pending list in place, which stops every later collection of the process.  So such copies are never made in the exploring process. */
static signed char copy_works[9][NTY];
static void probe_fn(void* a) { struct fk* k = a; in_child = 1; probe_only = 1; run_case(k->src, k->t, k->v, k->op); _exit(15); }
static int copy_probe(int c, int t) {
  if (copy_works[c][t] == 0) {
    struct fk k = { S_COPY, t, MKVAR(c, 3, 1) - (c == 0 ? MKVAR(0, 3, 1) : 0), OP_NONE };
    struct vf_child r = vf_fork_run(probe_fn, &k, 20);
    copy_works[c][t] = (r.exited && r.status == 0) ? 1 : -1;
  }
  return copy_works[c][t] > 0;
}

static int r_src = -1, r_t = -1, r_v = -1, r_op = -1;     /* replay filter */
static uint64_t n_skipped_contract;

static void one(int src, int t, int v, int op) {
  if (vf.replay && (src != r_src || t != r_t || v != r_v || op != r_op)) return;
  if (vf.viol_total > 4000) { vf.exhaustive = 0; return; }
  int managed_own = src == S_NEW || src == S_NEW_ROOT || src == S_ALLOC || src == S_ALLOC_ROOT || src == S_COPY;
  if (op >= OP_DEL_STOPPED && !managed_own) return;
  if (op == OP_DROP_COLLECT && !(src == S_NEW || src == S_ALLOC || src == S_COPY)) return;   /* only what the collector may reclaim */
  /* "they must be destructed with the corresponding deletion functions"; the raw variants do not go via the collector */
  if (managed_own && (op == OP_DEL_RAW || op == OP_DEALLOC_RAW || op == OP_DESTRUCT)) { n_skipped_contract++; return; }
  if (src == S_COPY && !copy_probe(VAR_C(v), t)) { n_copy_unavailable++; vf.evaluations++; return; }
  if (vf_want_sample()) vf_sample("src=%s type=%s var=%d op=%s", srcname[src], tyname[t], v, opname[op]);
  if (managed_own && (is_dealloc_op(op) || op >= OP_DEL_STOPPED)) { fork_case(src, t, v, op); return; }
  /* anything the case raises outside the operation under test (building the container, walking it, reading values) */
  var e = VF_CATCH(run_case(src, t, v, op));
  if (e) {
    char lab[160]; snprintf(lab, sizeof lab, "uncaught/%s/%s/%s/%s", srcname[src], tyname[t], opname[op], vf_exc_name(e));
    vf_violation(lab, NULL, "%s was raised while obtaining or inspecting the object (outside the operation under test)", vf_exc_name(e));
    CUR = NULL; CONT = NULL; AUX = NULL; AUX2 = NULL;
  }
}

static int part_is(const char* p) { const char* q = vf_param("part", "all"); return strcmp(q, "all") == 0 || strcmp(q, p) == 0; }

static void enumerate_all(void) {
  int thorough = strcmp(vf.tier, "thorough") == 0;
  int vars[64], nvars = 0;
  if (thorough) { for (int n = 1; n <= 8; n++) for (int p = 0; p < n; p++) vars[nvars++] = MKVAR(0, n, p); }
  else { vars[nvars++] = MKVAR(0, 1, 0); vars[nvars++] = MKVAR(0, 3, 0); vars[nvars++] = MKVAR(0, 3, 2); }
  int vvars[64], nvv = 0;
  if (thorough) { for (int n = 1; n <= 6; n++) for (int p = 0; p < n; p++) vvars[nvv++] = MKVAR(0, n, p); }
  else { vvars[nvv++] = MKVAR(0, 3, 1); vvars[nvv++] = MKVAR(0, 1, 0); }

  if (part_is("own")) {
    vf.phase = "own";
    for (int src = S_NEW; src <= S_COPY; src++)
      for (int t = 0; t < NTY; t++) {
        if (src == S_COPY && t == T_MUTEX) continue;          /* a copied pthread mutex has no meaning */
        for (int op = 0; op < NOPS; op++) if (op_applies(t, op)) one(src, t, 0, op);
      }
    /* copy of an original of every allocation class (the forked collector-entry cases do not depend on the original) */
    for (int c = 1; c <= 8; c++)
      for (int t = 0; t < NTY; t++) {
        if (c == 1 && !has_stack_literal(t)) continue;
        if ((c == 2 || c == 3 || c == 4 || c == 5) && (!is_elem(t) || t == T_BOX)) continue;   /* copy and element would own one Box target */
        if ((c == 6 || c == 7) && !is_key(t)) continue;
        if (c == 8 && t != T_TYPE) continue;
        for (int op = 0; op < NOPS; op++) {
          if (!op_applies(t, op) || is_dealloc_op(op) || op >= OP_DEL_STOPPED) continue;
          one(S_COPY, t, MKVAR(c, 3, 1), op);
        }
      }
  }
  if (part_is("static")) {
    vf.phase = "stack";
    for (int t = 0; t < NTY; t++) if (has_stack_literal(t))
      for (int op = 0; op < NOPS; op++) if (op_applies(t, op)) one(S_STACK, t, 0, op);
    vf.phase = "static";
    for (int i = 0; i < nstatics; i++)
      for (int op = 0; op < NOPS; op++) if (op_applies(T_TYPE, op)) one(S_STATIC, T_TYPE, i, op);
    vf.phase = "range";
    for (int src = S_RANGE_HEAP_ITER; src <= S_RANGE_STACK_GET; src++)
      for (int op = 0; op < NOPS; op++) if (op_applies(T_INT, op)) one(src, T_INT, 0, op);
  }
  if (part_is("embedded")) {
    vf.phase = "embedded";
    for (int src = S_ARRAY_GET; src <= S_LIST_BACK; src++)
      for (int i = 0; i < NELEMS; i++) for (int c = 0; c <= 4; c++) for (int vi = 0; vi < nvars; vi++) {
        if (c == 1 || (c >= 2 && ELEMS[i] == T_BOX)) continue;      /* two containers must not own the target of one Box */
        for (int op = 0; op < NOPS; op++) if (op_applies(ELEMS[i], op)) one(src, ELEMS[i], vars[vi] + c * 10000, op);
      }
    for (int src = S_TABLE_KEY; src <= S_TREE_VAL_ITERGET; src++) {
      int role = (src - S_TABLE_KEY) % 3;
      for (int t = 0; t < NTY; t++) {
        if (role == 0 ? !is_key(t) : !is_elem(t)) continue;
        for (int c = 0; c <= 4; c++) for (int vi = 0; vi < nvars; vi++)
          for (int op = 0; op < NOPS; op++) {
            if (!op_applies(t, op)) continue;
            if (c >= 2 && t == T_BOX) continue;
            if (c == 4 && src >= S_TREE_KEY) continue;           /* a Tree has no rehash */
            if (role == 0 && op > OP_DESTRUCT) continue;       /* changing the value of a key inside its map is the caller's error */
            one(src, t, vars[vi] + c * 10000, op);
          }
      }
    }
  }
  if (part_is("views")) {
    vf.phase = "views";
    for (int src = S_SLICE_STACK; src < NSRC; src++)
      for (int i = 0; i < NELEMS; i++) for (int c = 0; c <= 1; c++) for (int vi = 0; vi < nvv; vi++) {
        int t = ELEMS[i];
        int st = (src == S_ZIP_STACK_ITEM || src == S_ZIP_HEAP_ITEM || src == S_ENUM_ITEM) ? T_TUPLE : src == S_ENUM_INDEX ? T_INT : t;
        for (int op = 0; op < NOPS; op++) {
          if (!op_applies(st, op)) continue;
          if (st == T_TUPLE && op == OP_REM && t != T_INT) continue;     /* rem compares the Int argument with the items */
          one(src, t, vvars[vi] + c * 10000, op);
        }
      }
  }
}

/* ---- part=stackops: every resizing operation on stack Tuples (0..3 items) and stack Strings -------------------------
**
** Receiver: a Tuple whose struct and item array are compound literals of this frame (exactly what tuple(...) makes), or a
** String whose struct is on the stack and whose characters are a writable stack buffer.  Operations: assign and concat from
** every kind of source (stack tuple, heap Tuple, Array, List, Range, Slice, Filter, empty Filter, Filter of a Slice, Map, Zip,
** Table, Tree, String, Int) of length 0..3, push, append, push_at (every index and one beyond), pop, pop_at (every index, -1,
** one beyond), rem (every item, an absent one), resize 0..4 (0 = clear), sort.
** Oracle: no free/realloc ever sees a pointer into the tuple or its item array; if the call raised, the tuple is slot for slot
** what it was (same item-array address, same pointers, Terminal where it was); if it returned, the tuple is either untouched
** or holds exactly the result of the operation (computed here from the source's own iteration), reached in place.
*/

enum { SK_STACK_TUPLE, SK_HEAP_TUPLE, SK_ARRAY, SK_LIST, SK_RANGE, SK_SLICE, SK_FILTER, SK_FILTER_EMPTY, SK_FILTER_OF_SLICE,
       SK_MAP, SK_ZIP, SK_TABLE, SK_TREE, SK_STRING, SK_INT, NSK };
static const char* skname[NSK] = { "stack-tuple", "heap-tuple", "array", "list", "range", "slice", "filter", "empty-filter", "filter-of-slice",
  "map", "zip", "table", "tree", "string", "int" };

enum { TO_ASSIGN, TO_CONCAT, TO_PUSH, TO_APPEND, TO_PUSH_AT, TO_POP, TO_POP_AT, TO_REM, TO_RESIZE, TO_SORT, NTO };
static const char* toname[NTO] = { "assign", "concat", "push", "append", "push_at", "pop", "pop_at", "rem", "resize", "sort" };

enum { X_STRICT, X_INDEX, X_ABSENT, X_ANY };     /* which exceptions count as a proper refusal */

static var FnFalse;
static var fn_false(var args) { return NULL; }
static uint64_t so_refused, so_noop, so_inplace;

static int exc_in_class(var e, int xc) {
  if (e == ValueError || e == ResourceError) return 1;
  if (xc == X_INDEX) return e == IndexOutOfBoundsError;
  if (xc == X_ABSENT) return e == KeyError || e == IndexOutOfBoundsError;
  return xc == X_ANY;
}

static void so_mark(const char* key) { if (vf_set_put(&seen_nontrivial, key, 1) < 0) vf.nontrivial++; }

static int cmp_int_ptr(const void* a, const void* b) {
  int64_t x = c_int(*(var*)a), y = c_int(*(var*)b); return x < y ? -1 : x > y;
}

/* one stack-tuple case; arg = source length m (assign/concat), index (push_at/pop_at/rem), size (resize) */
static void stack_tuple_case(int n, int op, int sk, int arg) {
  char kase[200], lab[200], key[200];
  if (op == TO_ASSIGN || op == TO_CONCAT) snprintf(kase, sizeof kase, "stackop recv=tuple n=%d op=%s src=%s arg=%d", n, toname[op], skname[sk], arg);
  else snprintf(kase, sizeof kase, "stackop recv=tuple n=%d op=%s src=- arg=%d", n, toname[op], arg);
  if (vf.replay && strcmp(kase, vf.replay) != 0) return;
  vf_set_cur("%s", kase);
  vf_watchdog(20);
  if (vf_want_sample()) vf_sample("%s", kase);
  snprintf(key, sizeof key, "stackop/tuple/%d/%s/%s/%d", n, toname[op], (op == TO_ASSIGN || op == TO_CONCAT) ? skname[sk] : "-", arg);
#define SOLAB(sym) (snprintf(lab, sizeof lab, "stack/Tuple/%s%s%s/%s", toname[op], (op == TO_ASSIGN || op == TO_CONCAT) ? "-from-" : "", \
                    (op == TO_ASSIGN || op == TO_CONCAT) ? skname[sk] : "", sym), lab)

  /* receiver: values 3,1,2 so that sort has something to do */
  static const int rv[3] = { 3, 1, 2 };
  var ritems[6]; var before[6];
  for (int i = 0; i < n; i++) ritems[i] = K[rv[i]];
  ritems[n] = Terminal; ritems[n + 1] = NULL; ritems[n + 2] = NULL;
  memcpy(before, ritems, sizeof before);
  struct Tuple* rt = $(Tuple, ritems);

  /* sources (all made here: the stack ones live in this frame) */
  int m = (op == TO_ASSIGN || op == TO_CONCAT) ? arg : 0;
  var sitems[5]; for (int i = 0; i < m; i++) sitems[i] = K[4 + i]; sitems[m] = Terminal;
  struct Tuple* s_tuple = $(Tuple, sitems);
  var src = NULL;
  var v_slice = NULL, v_filter = NULL, v_fempty = NULL, v_fslice = NULL, v_map = NULL, v_zip = NULL, v_range = NULL;
  if (op == TO_ASSIGN || op == TO_CONCAT) {
    CONT = new_with(Array, tuple(Int));
    for (int i = 0; i < m; i++) push(CONT, K[4 + i]);
    v_slice = slice(CONT); v_filter = filter(CONT, FnTrue); v_fempty = filter(CONT, FnFalse); v_fslice = filter(v_slice, FnTrue);
    v_map = map(CONT, FnIdent); v_zip = zip(CONT, CONT); v_range = range($I(m));
    switch (sk) {
      case SK_STACK_TUPLE: src = s_tuple; break;
      case SK_HEAP_TUPLE: AUX = new_with(Tuple, s_tuple); src = AUX; break;
      case SK_ARRAY: src = CONT; break;
      case SK_LIST: AUX = new_with(List, tuple(Int)); for (int i = 0; i < m; i++) push(AUX, K[4 + i]); src = AUX; break;
      case SK_RANGE: src = v_range; break;
      case SK_SLICE: src = v_slice; break;
      case SK_FILTER: src = v_filter; break;
      case SK_FILTER_EMPTY: src = v_fempty; break;
      case SK_FILTER_OF_SLICE: src = v_fslice; break;
      case SK_MAP: src = v_map; break;
      case SK_ZIP: src = v_zip; break;
      case SK_TABLE: AUX = new_with(Table, tuple(Int, Int)); for (int i = 0; i < m; i++) set(AUX, K[4 + i], K[i]); src = AUX; break;
      case SK_TREE: AUX = new_with(Tree, tuple(Int, Int)); for (int i = 0; i < m; i++) set(AUX, K[4 + i], K[i]); src = AUX; break;
      case SK_STRING: src = m == 0 ? (var)$S("") : m == 1 ? (var)$S("x") : (var)$S("xyz"); break;
      case SK_INT: src = K[m]; break;
    }
  }

  /* what the source yields, in order (pointers); iterable = 0 if walking it raises (String, Int) */
  var yielded[8]; volatile int ny = 0; int iterable = 1;
  if (src) {
    if (!implements_method(src, Iter, iter_init)) iterable = 0;        /* foreach on such an object dereferences NULL */
    else {
      var e0 = VF_CATCH({ foreach (it in src) { if (ny < 8) { yielded[ny] = it; ny++; } } });
      if (e0) { iterable = 0; ny = 0; }
    }
  }

  /* the result of the operation if it were carried out (pointers, Terminal-terminated) */
  var model[12]; int nm = -1;        /* nm = -1: no successful outcome exists for these arguments */
  int xc = X_STRICT;
  switch (op) {
    case TO_ASSIGN: if (iterable) { nm = 0; for (int i = 0; i < ny; i++) model[nm++] = yielded[i]; } else xc = X_ANY; break;
    case TO_CONCAT: if (iterable) { nm = 0; for (int i = 0; i < n; i++) model[nm++] = before[i]; for (int i = 0; i < ny; i++) model[nm++] = yielded[i]; } else xc = X_ANY;
      if (!implements_method(src, Len, len)) xc = X_ANY;       /* Tuple concat asks the source for its length first (a Filter has none): a type refusal */
      break;
    case TO_PUSH: case TO_APPEND: nm = 0; for (int i = 0; i < n; i++) model[nm++] = before[i]; model[nm++] = K[9]; break;
    case TO_PUSH_AT: if (arg >= 0 && arg < n) { nm = 0; for (int i = 0; i < n; i++) { if (i == arg) model[nm++] = K[9]; model[nm++] = before[i]; } } else xc = X_INDEX; break;
    case TO_POP: if (n > 0) { nm = 0; for (int i = 0; i < n - 1; i++) model[nm++] = before[i]; } else xc = X_INDEX; break;
    case TO_POP_AT: { int idx = arg < 0 ? n + arg : arg;
      if (idx >= 0 && idx < n) { nm = 0; for (int i = 0; i < n; i++) if (i != idx) model[nm++] = before[i]; } else xc = X_INDEX; break; }
    case TO_REM: if (arg < n) { nm = 0; for (int i = 0; i < n; i++) if (i != arg) model[nm++] = before[i]; } else xc = X_ABSENT; break;
    case TO_RESIZE: if (arg < n) { nm = 0; for (int i = 0; i < arg; i++) model[nm++] = before[i]; } else xc = X_ANY; break;   /* growth: convention not fixed */
    case TO_SORT: nm = n; memcpy(model, before, n * sizeof(var)); qsort(model, n, sizeof(var), cmp_int_ptr); break;
  }

  vf.evaluations++; vf.executions++;
  al_begin();
  al_forbid(header(rt), sizeof(struct Header) + sizeof(struct Tuple), "the stack Tuple itself");
  al_forbid(ritems, sizeof ritems, "the item array of a stack Tuple");
  al_start();
  var e = VF_CATCH({
    switch (op) {
      case TO_ASSIGN: assign(rt, src); break;
      case TO_CONCAT: concat(rt, src); break;
      case TO_PUSH: push(rt, K[9]); break;
      case TO_APPEND: append(rt, K[9]); break;
      case TO_PUSH_AT: push_at(rt, K[9], $I(arg)); break;
      case TO_POP: pop(rt); break;
      case TO_POP_AT: pop_at(rt, $I(arg)); break;
      case TO_REM: rem(rt, arg < n ? before[arg] : K[11]); break;
      case TO_RESIZE: resize(rt, (size_t)arg); break;
      case TO_SORT: sort(rt); break;
    }
  });
  al_stop();

  int unchanged = rt->items == ritems && memcmp(before, ritems, sizeof before) == 0;
  char was[64] = "", now[64] = ""; size_t a = 0, b = 0;
  for (int i = 0; i < n; i++) a += snprintf(was + a, sizeof was - a, "%s%d", i ? "," : "", rv[i]);
  if (rt->items == ritems) for (int i = 0; i < 5 && ritems[i] != Terminal && ritems[i] != NULL; i++) b += snprintf(now + b, sizeof now - b, "%s%" PRId64, i ? "," : "", c_int(ritems[i]));
  else snprintf(now, sizeof now, "<item array replaced>");

  if (al_forb_hits) {
    vf_violation(SOLAB("freed-nonheap-memory"), kase, "%s passed a pointer %ld bytes into %s to %s", toname[op], al_forb_off, al_forb_what, al_forb_kind ? "realloc" : "free");
  } else if (e) {
    so_mark(key);
    if (!unchanged) {
      vf_violation(SOLAB("refused-but-changed"), kase, "%s raised %s but the stack tuple (%s) is now (%s)%s", toname[op], vf_exc_name(e), was, now,
        header(rt)->type == Tuple ? "" : " and its header changed");
    } else if (!exc_in_class(e, xc)) {
      char sym[64]; snprintf(sym, sizeof sym, "wrong-exception-%s", vf_exc_name(e));
      vf_violation(SOLAB(sym), kase, "%s on a stack tuple raised %s", toname[op], vf_exc_name(e));
    } else { so_refused++; char o[96]; snprintf(o, sizeof o, "stackop/tuple/%s/%s", toname[op], vf_exc_name(e)); if (vf_set_put(&seen_outcomes, o, 1) < 0) vf.outcomes++; }
  } else if (unchanged) {
    so_noop++;
    /* returning without doing anything is only all right if there was nothing to do or nothing that could be done in place */
    char o[96]; snprintf(o, sizeof o, "stackop/tuple/%s/returned-unchanged", toname[op]); if (vf_set_put(&seen_outcomes, o, 1) < 0) vf.outcomes++;
  } else {
    int ok = nm >= 0 && rt->items == ritems;
    for (int i = 0; ok && i < nm; i++) ok = ritems[i] == model[i];
    ok = ok && ritems[nm] == Terminal;
    if (!ok) vf_violation(SOLAB("returned-with-wrong-items"), kase, "%s returned normally; the stack tuple (%s) is now (%s), which is neither untouched nor the result of the operation", toname[op], was, now);
    else { so_inplace++; so_mark(key); char o[96]; snprintf(o, sizeof o, "stackop/tuple/%s/done-in-place", toname[op]); if (vf_set_put(&seen_outcomes, o, 1) < 0) vf.outcomes++; }
  }
  if (header(rt)->type != Tuple) vf_violation(SOLAB("header-changed"), kase, "the stack tuple's header no longer says Tuple");
#if CELLO_ALLOC_CHECK == 1
  if ((intptr_t)header(rt)->alloc != AllocStack) vf_violation(SOLAB("header-changed"), kase, "the stack tuple's allocation class changed");
#endif
  if (AUX) { var e2 = VF_CATCH(del(AUX)); (void)e2; AUX = NULL; }
  if (CONT) { var e2 = VF_CATCH(del(CONT)); (void)e2; CONT = NULL; }
#undef SOLAB
}

enum { RO_ASSIGN, RO_CONCAT, RO_APPEND, RO_RESIZE, RO_PRINT_TO, RO_REM, NRO };
static const char* roname[NRO] = { "assign", "concat", "append", "resize", "print_to", "rem" };

/* one stack-String case: receiver "" or "abc" in a writable stack buffer */
static void stack_string_case(int rlen, int op, int arg) {
  static const char* srcs[] = { "", "ab", "abc", "abcdef", "b", "zz" };
  char kase[200], lab[200], key[200];
  snprintf(kase, sizeof kase, "stackop recv=string n=%d op=%s src=- arg=%d", rlen, roname[op], arg);
  if (vf.replay && strcmp(kase, vf.replay) != 0) return;
  vf_set_cur("%s", kase);
  if (vf_want_sample()) vf_sample("%s", kase);
  snprintf(key, sizeof key, "stackop/string/%d/%s/%d", rlen, roname[op], arg);
#define SOLAB(sym) (snprintf(lab, sizeof lab, "stack/String/%s-buffer/%s", roname[op], sym), lab)
  char buf[16], was[16]; memset(buf, 0, sizeof buf);
  if (rlen) strcpy(buf, "abc");
  memcpy(was, buf, sizeof buf);
  struct String* rs = $S(buf);
  AUX = new(String, $S("abcdef"));
  /* arg: index into srcs, 6 = heap String, 7 = Int */
  var src = arg < 6 ? (var)$S((char*)srcs[arg < 6 ? arg : 0]) : arg == 6 ? AUX : K[4];
  const char* model = NULL; char mb[32]; int xc = X_STRICT;
  switch (op) {
    case RO_ASSIGN: if (arg == 7) xc = X_ANY; break;                     /* every assign would need to own the buffer */
    case RO_CONCAT: case RO_APPEND: if (arg == 7) xc = X_ANY; break;
    case RO_RESIZE: case RO_PRINT_TO: break;
    case RO_REM: {
      const char* sub = arg < 6 ? srcs[arg] : arg == 6 ? "abcdef" : NULL;
      if (!sub) { xc = X_ANY; break; }
      char* at = strstr(was, sub);
      if (!at) { xc = X_ABSENT; break; }
      snprintf(mb, sizeof mb, "%.*s%s", (int)(at - was), was, at + strlen(sub)); model = mb;   /* in place: no reallocation needed */
      break; }
  }
  vf.evaluations++; vf.executions++;
  al_begin();
  al_forbid(header(rs), sizeof(struct Header) + sizeof(struct String), "the stack String itself");
  al_forbid(buf, sizeof buf, "the character buffer of a stack String");
  al_start();
  var e = VF_CATCH({
    switch (op) {
      case RO_ASSIGN: assign(rs, src); break;
      case RO_CONCAT: concat(rs, src); break;
      case RO_APPEND: append(rs, src); break;
      case RO_RESIZE: resize(rs, (size_t)arg); break;
      case RO_PRINT_TO: print_to(rs, 0, "%i", $I(arg)); break;
      case RO_REM: rem(rs, src); break;
    }
  });
  al_stop();
  int unchanged = rs->val == buf && memcmp(was, buf, sizeof buf) == 0;
  if (al_forb_hits) {
    vf_violation(SOLAB("freed-nonheap-memory"), kase, "%s passed a pointer %ld bytes into %s to %s", roname[op], al_forb_off, al_forb_what, al_forb_kind ? "realloc" : "free");
  } else if (e) {
    so_mark(key);
    if (!unchanged) vf_violation(SOLAB("refused-but-changed"), kase, "%s raised %s but the stack string \"%s\" is now \"%.15s\"", roname[op], vf_exc_name(e), was, rs->val == buf ? buf : "<buffer replaced>");
    else if (!exc_in_class(e, xc)) { char sym[64]; snprintf(sym, sizeof sym, "wrong-exception-%s", vf_exc_name(e)); vf_violation(SOLAB(sym), kase, "%s on a stack string raised %s", roname[op], vf_exc_name(e)); }
    else so_refused++;
  } else if (unchanged) {
    so_noop++;
  } else {
    if (!(model && rs->val == buf && strcmp(buf, model) == 0))
      vf_violation(SOLAB("returned-with-wrong-value"), kase, "%s returned normally; the stack string \"%s\" is now \"%.15s\" (expected %s%s%s)", roname[op], was,
        rs->val == buf ? buf : "<buffer replaced>", model ? "\"" : "", model ? model : "a refusal or no change", model ? "\"" : "");
    else { so_inplace++; so_mark(key); }
  }
  if (header(rs)->type != String) vf_violation(SOLAB("header-changed"), kase, "the stack string's header no longer says String");
  { var e2 = VF_CATCH(del(AUX)); (void)e2; AUX = NULL; }
#undef SOLAB
}

static void enumerate_stackops(void) {
  int thorough = strcmp(vf.tier, "thorough") == 0;
  vf.phase = "stackops";
  FnFalse = new_raw(Function); ((struct Function*)FnFalse)->func = fn_false;
  for (int n = 0; n <= 3; n++) {
    for (int op = 0; op < NTO; op++) {
      switch (op) {
        case TO_ASSIGN: case TO_CONCAT:
          for (int sk = 0; sk < NSK; sk++) for (int m = 0; m <= 3; m++) {
            if (!thorough && m == 2) continue;
            /* assign(tuple, x) with x neither Len+Get nor Iter (String, Int) runs foreach on it inside the library: instance(x, Iter)
               is NULL and is dereferenced (SIGSEGV on heap tuples as well) - reported as a C12 candidate, not executed here */
            if (op == TO_ASSIGN && (sk == SK_STRING || sk == SK_INT)) continue;
            stack_tuple_case(n, op, sk, m);
          }
          break;
        case TO_PUSH: case TO_APPEND: case TO_POP: case TO_SORT: stack_tuple_case(n, op, 0, 0); break;
        case TO_PUSH_AT: for (int i = 0; i <= n + 1; i++) stack_tuple_case(n, op, 0, i); break;
        case TO_POP_AT: for (int i = -1; i <= n; i++) stack_tuple_case(n, op, 0, i); break;
        case TO_REM: for (int i = 0; i <= n; i++) stack_tuple_case(n, op, 0, i); break;
        case TO_RESIZE: for (int k = 0; k <= 4; k++) stack_tuple_case(n, op, 0, k); break;
      }
    }
  }
  for (int rlen = 0; rlen <= 3; rlen += 3) {
    for (int a = 0; a <= 7; a++) { stack_string_case(rlen, RO_ASSIGN, a); stack_string_case(rlen, RO_CONCAT, a); stack_string_case(rlen, RO_APPEND, a); stack_string_case(rlen, RO_REM, a); }
    for (int k = 0; k <= 6; k++) stack_string_case(rlen, RO_RESIZE, k);
    for (int v = 0; v <= 1; v++) stack_string_case(rlen, RO_PRINT_TO, v * 12345);
  }
}

/* ---- part=recycle: run-time types of different sizes that follow one another at ONE address ------------------------------
**
** "size(type) bytes of every object are usable" must hold for the type the object is made of NOW: a run-time type can be
** deleted and the allocator can hand its block to the next new(Type, ...), so an address that meant "8 bytes" a moment
** ago means "512 bytes" now.  Histories:
**   chain    T1 (size s1) is created, objects of it are made through entry point e1 (all=1: then through every other entry
**            point), released, T1 is deleted; T2 (s2 != s1) is created ON T1's BLOCK, its first object comes from entry
**            point e2, then one object from every other entry point; all judged, released, T2 deleted; optionally a third
**            type T3 (s3 != s2) on the same block.
**   live     A and B are both alive (objects of A, then of B); A is deleted and C (another size) takes its block while B
**            lives on; objects in the order C | B C | C B C.
**   swap     A and B are deleted (either order) and C, D are created on their blocks, C with B's size and D with A's
**            (LIFO and FIFO handing-back); the last object before came from A or B, the first one after from C or D.
** Type kinds: plain (size given to new(Type)), size reported by a Size instance (the recorded size says something else),
** with a New instance (constructor fills the object, destructor).  The type objects themselves are made with new_raw /
** new / new_root.  Entry points: alloc_raw alloc alloc_root new_raw new new_root copy (of a stack-resident original) and a
** stack-resident object (header written by header_init, never through the allocator).
** Per object: type_of is the type it was made of, heap/stack tag, registered with the collector iff the entry point says
** so, the byte count the library REQUESTED for its block (allocator interposition) covers header + size(type), all
** size(type) bytes written and read back (ASan judges the accesses as well).
** A block is handed back by the interposer's stash (force=1, default) or left to the allocator (force=0); a history in
** which no new type received the address of a deleted one did not reach the case: judged all the same, counted separately
** (recycle_not_reached), never as an execution.
*/

enum { RE_ALLOC_RAW, RE_ALLOC, RE_ALLOC_ROOT, RE_NEW_RAW, RE_NEW, RE_NEW_ROOT, RE_COPY, RE_STACK, NRE };
static const char* re_name[NRE] = { "alloc_raw", "alloc", "alloc_root", "new_raw", "new", "new_root", "copy", "stack" };
#define NRSZ 5
static const size_t RSZ[NRSZ] = { 0, 1, 8, 24, 512 };
enum { RK_PLAIN, RK_SIZEINST, RK_NEW, NRK };
static const char* rk_name[NRK] = { "plain", "size-instance", "constructor" };

static size_t rsz_0(void) { return 0; }    static size_t rsz_1(void) { return 1; }   static size_t rsz_8(void) { return 8; }
static size_t rsz_24(void) { return 24; }  static size_t rsz_512(void) { return 512; }
static var RE_SZI[NRSZ][4 + 1];            /* Size instances, one per size */
static var RE_NWI[4 + 2];                  /* New instance */
static var re_size_inst[NRSZ], re_new_inst;
static const char* const re_tnames[4] = { "RcA", "RcB", "RcC", "RcD" };
static size_t re_expect;                   /* size of the type whose object is being made (for the constructor) */
static uint64_t re_ctor, re_dtor, re_ctor_skipped;
static uint64_t re_cases, re_reached, re_not_reached, re_objects, re_copy_unavailable, re_req_unknown, re_same_addr_types;
static int re_force = 1;
static var re_small_type; static uint64_t re_copy_skipped_after_violation;

static void RE_New(var self, var args) {
  size_t have;
  re_ctor++;
  /* a constructor fills its object; into a block that is too small it would destroy the heap before the oracle speaks */
  if (header(self)->alloc == (var)AllocHeap && (!al_requested(header(self), &have) || have < sizeof(struct Header) + re_expect)) { re_ctor_skipped++; return; }
  memset(self, 0xA5, re_expect);
}
static void RE_Del(var self) { re_dtor++; }

static void re_setup(void) {
  static size_t (*const fns[NRSZ])(void) = { rsz_0, rsz_1, rsz_8, rsz_24, rsz_512 };
  for (int i = 0; i < NRSZ; i++) {
    struct Size* b = header_init(RE_SZI[i], Size, AllocStatic);
    b->size = fns[i]; re_size_inst[i] = b;
  }
  struct New* n = header_init(RE_NWI, New, AllocStatic);
  n->construct_with = RE_New; n->destruct = RE_Del; re_new_inst = n;
}

/* mg: 0 new_raw, 1 new, 2 new_root */
static var re_mktype(const char* nm, int kind, int si, int mg) {
  var items[4]; int n = 0;
  items[n++] = $S((char*)nm);
  /* with a Size instance the recorded size is a different number: the instance decides what size(type) is */
  items[n++] = $I((int64_t)(kind == RK_SIZEINST ? RSZ[(si + 2) % NRSZ] : RSZ[si]));
  if (kind == RK_SIZEINST) items[n++] = re_size_inst[si];
  if (kind == RK_NEW) items[n++] = re_new_inst;
  items[n] = Terminal;
  var args = $(Tuple, items);
  re_small_type = NULL;
  return mg == 0 ? new_raw_with(Type, args) : mg == 1 ? new_with(Type, args) : new_root_with(Type, args);
}
static void re_deltype(var T, int mg) { if (mg == 0) del_raw(T); else if (mg == 1) del(T); else del_root(T); }

struct reobj { var o; int ep; };
static char re_stackbuf[2][sizeof(struct Header) + 512 + 16];

static var re_make(var T, int ep) {
  switch (ep) {
    case RE_ALLOC_RAW:  return alloc_raw(T);
    case RE_ALLOC:      return alloc(T);
    case RE_ALLOC_ROOT: return alloc_root(T);
    case RE_NEW_RAW:    return new_raw_with(T, tuple());
    case RE_NEW:        return new_with(T, tuple());
    case RE_NEW_ROOT:   return new_root_with(T, tuple());
    case RE_COPY:       memset(re_stackbuf[0], 0, sizeof re_stackbuf[0]); return copy(header_init(re_stackbuf[0], T, AllocStack));
    default:            memset(re_stackbuf[1], 0, sizeof re_stackbuf[1]); return header_init(re_stackbuf[1], T, AllocStack);
  }
}
static void re_release(var o, int ep) {
  switch (ep) {
    case RE_ALLOC_RAW:  dealloc_raw(o); break;
    case RE_ALLOC:      del(o); break;           /* registered with the collector: del unregisters (dealloc leaves the entry: recorded finding) */
    case RE_ALLOC_ROOT: del_root(o); break;
    case RE_NEW_RAW:    del_raw(o); break;
    case RE_NEW:        del(o); break;
    case RE_NEW_ROOT:   del_root(o); break;
    case RE_COPY:       del(o); break;
    default: break;
  }
}

static char re_lab[200];
static const char* RELAB(int ep, int first, const char* dir, const char* symptom) {
  snprintf(re_lab, sizeof re_lab, "%s/type-on-recycled-address/%s/%s/%s/%s", ep == RE_STACK ? "stack" : "heap", re_name[ep], first ? "first-object-of-the-new-type" : "later-object", dir, symptom);
  return re_lab;
}

/* make one object of T (size s) through ep and judge it; returns the object (NULL: none) */
static var re_obj(var T, size_t s, int ep, int first, const char* dir) {
  volatile var ov = NULL;
  re_expect = s;
  /* copy() of an object without Assign is a memcpy of size(type) bytes; for size 0 the library refuses with TypeError after
     it has allocated the target, which stays behind as collector garbage of a type that is about to be deleted: not executed */
  if (ep == RE_COPY && s == 0) { re_copy_unavailable++; return NULL; }
  /* a block of this type was already found too small: copy() would memcpy size(type) bytes over the end of the next one and
     take the heap (and the rest of the exploration) with it - the violation is reported, the consequence is not executed */
  if (ep == RE_COPY && re_small_type == T) { re_copy_skipped_after_violation++; return NULL; }
  var e = VF_CATCH(ov = re_make(T, ep));
  var o = ov;
  if (ep == RE_COPY && (e || !o)) {
    vf_violation(RELAB(ep, first, dir, "copy-raises"), NULL, "copy of a stack-resident object of a %zu-byte run-time type raised %s", s, vf_exc_name(e));
    return NULL;
  }
  if (e || !o) { vf_violation(RELAB(ep, first, dir, "allocation-raises"), NULL, "%s of a %zu-byte run-time type raised %s", re_name[ep], s, vf_exc_name(e)); return NULL; }
  vf.evaluations++; vf.transitions++; re_objects++;
  volatile var ty = NULL;
  e = VF_CATCH(ty = type_of(o));
  if (e || ty != T) { vf_violation(RELAB(ep, first, dir, "wrong-type"), NULL, "type_of(object) is not the type it was made of (%s)", e ? vf_exc_name(e) : "another type"); return o; }
  struct Header* h = header(o);
#if CELLO_ALLOC_CHECK == 1
  if ((intptr_t)h->alloc != (ep == RE_STACK ? AllocStack : AllocHeap)) { vf_violation(RELAB(ep, first, dir, "wrong-alloc-class"), NULL, "header allocation class is %s", clsname((int)(intptr_t)h->alloc)); return o; }
#endif
  volatile size_t rs = 0;
  e = VF_CATCH(rs = size(T));
  if (e || rs != s) { vf_violation(RELAB(ep, first, dir, "size-of-type-wrong"), NULL, "size(type) = %zu (%s), the type was created with %zu", (size_t)rs, vf_exc_name(e), s); return o; }
  if (ep != RE_STACK) {
    size_t req = 0, need = sizeof(struct Header) + s;
    if (al_requested(h, &req)) {
      if (req < need) {
        vf_violation(RELAB(ep, first, dir, "block-smaller-than-size-of-type"), NULL,
          "the library requested %zu bytes for an object of a type whose size is %zu (header %zu + %zu = %zu needed): size(type) bytes are not usable", req, s, sizeof(struct Header), s, need);
        re_small_type = T;
        return o;                                  /* not written to: the write would run over the end of the block */
      }
    } else {
      re_req_unknown++;          /* the block did not come from malloc/calloc/realloc as far as the interposer saw: the sanitizer build judges the accesses */
    }
  }
  /* all size(type) bytes: write a pattern, read it back */
  volatile unsigned char* b = o; int bad = 0;
  for (size_t i = 0; i < s; i++) b[i] = (unsigned char)(i * 7 + 1);
  for (size_t i = 0; i < s; i++) if (b[i] != (unsigned char)(i * 7 + 1)) bad = 1;
  if (bad) vf_violation(RELAB(ep, first, dir, "bytes-do-not-hold"), NULL, "a pattern written over the %zu bytes of the object does not read back", s);
  if (header(o)->type != T) vf_violation(RELAB(ep, first, dir, "header-overwritten"), NULL, "writing the object's own bytes changed its header");
#ifndef CELLO_NGC
  if (ep != RE_STACK) {
    int want = !(ep == RE_ALLOC_RAW || ep == RE_NEW_RAW);
    volatile bool reg = false;
    e = VF_CATCH(reg = mem(current(GC), o));
    if (e || (int)reg != want) vf_violation(RELAB(ep, first, dir, reg ? "raw-object-registered" : "not-registered-with-collector"), NULL, "mem(current(GC), obj) = %d (%s)", (int)reg, vf_exc_name(e));
  }
#endif
  { char k[96]; snprintf(k, sizeof k, "re/%s/%d/%s", re_name[ep], first, dir); if (vf_set_put(&seen_outcomes, k, 1) < 0) vf.outcomes++; }
  return o;
}

/* objects of T: first through ep, then (all) through every other entry point; everything released afterwards */
static void re_objects_of(var T, size_t s, int ep, int all, int first, const char* dir, int release_backwards) {
  struct reobj live[NRE]; int nl = 0;
  for (int k = 0; k < (all ? NRE : 1); k++) {
    int e = (ep + k) % NRE;
    var o = re_obj(T, s, e, first && k == 0, dir);
    if (o) { live[nl].o = o; live[nl].ep = e; nl++; }
  }
  for (int k = 0; k < nl; k++) {
    int i = release_backwards ? nl - 1 - k : k;
    var e = VF_CATCH(re_release(live[i].o, live[i].ep));
    if (e) vf_violation(RELAB(live[i].ep, 0, dir, "release-raises"), NULL, "releasing the object raised %s", vf_exc_name(e));
  }
}

static int re_filter(void) { return vf.replay && strcmp(vf.replay, vf_cur) != 0; }

static void re_count(int reached, const char* key) {
  re_cases++;
  if (reached) { re_reached++; vf.executions++; if (vf_set_put(&seen_nontrivial, key, 1) < 0) vf.nontrivial++; if (vf_want_sample()) vf_sample("%s", vf_cur); }
  else re_not_reached++;
}

static const char* re_dir(size_t from, size_t to) { return to > from ? "larger-than-the-type-before" : to < from ? "smaller-than-the-type-before" : "same-size"; }

/* chain of nt types on one block */
static void recycle_chain(int kind, int mg, int nt, const int* si, const int* ep, int all) {
  if (nt == 2) vf_set_cur("typerecycle chain kind=%s mg=%d sizes=%zu,%zu ep=%s,%s all=%d", rk_name[kind], mg, RSZ[si[0]], RSZ[si[1]], re_name[ep[0]], re_name[ep[1]], all);
  else vf_set_cur("typerecycle chain kind=%s mg=%d sizes=%zu,%zu,%zu ep=%s,%s,%s all=%d", rk_name[kind], mg, RSZ[si[0]], RSZ[si[1]], RSZ[si[2]], re_name[ep[0]], re_name[ep[1]], re_name[ep[2]], all);
  if (re_filter()) return;
  vf_watchdog(60);
  uintptr_t prev = 0; int reused = 0;
  for (int i = 0; i < nt; i++) {
    volatile var Tv = NULL;
    var e = VF_CATCH(Tv = re_mktype(re_tnames[i], kind, si[i], mg));
    if (e || !Tv) { vf_violation("heap/type-on-recycled-address/new-type-raises", NULL, "new(Type, ...) raised %s", vf_exc_name(e)); break; }
    AUX = Tv;
    int same = i > 0 && (uintptr_t)Tv == prev;
    if (same) { reused++; re_same_addr_types++; }
    re_objects_of(Tv, RSZ[si[i]], ep[i], all || i == nt - 1, i > 0 && same, i == 0 ? "first-type" : same ? re_dir(RSZ[si[i - 1]], RSZ[si[i]]) : "address-not-reused", (i + mg) & 1);
    prev = (uintptr_t)Tv;
    if (re_force && i < nt - 1) al_arm_reuse(header(Tv));
    AUX = NULL;
    e = VF_CATCH(re_deltype(Tv, mg));
    if (e) vf_violation("heap/type-on-recycled-address/del-type-raises", NULL, "deleting the run-time type raised %s", vf_exc_name(e));
  }
  al_reuse_reset();
  char key[128]; snprintf(key, sizeof key, "re/chain%d/%s/%s/%s/%s/%d", nt, rk_name[kind], re_name[ep[0]], re_name[ep[1]], re_dir(RSZ[si[0]], RSZ[si[1]]), nt > 2 ? ep[2] : -1);
  re_count(reused == nt - 1, key);
}

/* A and B alive; A deleted, C on A's block while B lives on; objects in the order pat 0: C | 1: B C | 2: C B C */
static void recycle_live(int kind, int sa, int sb, int sc, int e1, int e3, int pat) {
  vf_set_cur("typerecycle live kind=%s sizes=%zu,%zu,%zu ep=%s,%s order=%d", rk_name[kind], RSZ[sa], RSZ[sb], RSZ[sc], re_name[e1], re_name[e3], pat);
  if (re_filter()) return;
  vf_watchdog(60);
  var A = re_mktype(re_tnames[0], kind, sa, 0); AUX = A;
  var B = re_mktype(re_tnames[1], kind, sb, 0); AUX2 = B;
  re_objects_of(B, RSZ[sb], e1, 0, 0, "first-type", 0);
  re_objects_of(A, RSZ[sa], e1, 0, 0, "first-type", 0);          /* the last object before the recycle is one of A */
  uintptr_t pa = (uintptr_t)A;
  if (re_force) al_arm_reuse(header(A));
  AUX = NULL; del_raw(A);
  var C = re_mktype(re_tnames[2], kind, sc, 0); AUX = C;
  int same = (uintptr_t)C == pa;
  if (same) re_same_addr_types++;
  const char* dir = same ? re_dir(RSZ[sa], RSZ[sc]) : "address-not-reused";
  if (pat == 1) re_objects_of(B, RSZ[sb], (e3 + 1) % NRE, 0, 0, "live-neighbour-type", 0);
  re_objects_of(C, RSZ[sc], e3, pat != 1, same && pat != 1, dir, 1);
  if (pat == 2) { re_objects_of(B, RSZ[sb], e1, 0, 0, "live-neighbour-type", 0); re_objects_of(C, RSZ[sc], (e3 + 3) % NRE, 0, 0, dir, 0); }
  AUX = NULL; AUX2 = NULL;
  del_raw(C); del_raw(B);
  al_reuse_reset();
  char key[128]; snprintf(key, sizeof key, "re/live/%s/%s/%s/%s/%d", rk_name[kind], re_name[e1], re_name[e3], re_dir(RSZ[sa], RSZ[sc]), pat);
  re_count(same, key);
}

/* A, B deleted (order), C and D on their blocks with the sizes exchanged; policy: which freed block the first request receives */
static void recycle_swap(int kind, int sa, int sb, int delorder, int policy, int lastA, int firstC, int e1, int e3) {
  vf_set_cur("typerecycle swap kind=%s sizes=%zu,%zu delorder=%d policy=%d last=%s first=%s ep=%s,%s", rk_name[kind], RSZ[sa], RSZ[sb], delorder, policy, lastA ? "A" : "B", firstC ? "C" : "D", re_name[e1], re_name[e3]);
  if (re_filter()) return;
  vf_watchdog(60);
  var A = re_mktype(re_tnames[0], kind, sa, 0); AUX = A;
  var B = re_mktype(re_tnames[1], kind, sb, 0); AUX2 = B;
  if (lastA) { re_objects_of(B, RSZ[sb], e1, 0, 0, "first-type", 0); re_objects_of(A, RSZ[sa], e1, 0, 0, "first-type", 0); }
  else       { re_objects_of(A, RSZ[sa], e1, 0, 0, "first-type", 0); re_objects_of(B, RSZ[sb], e1, 0, 0, "first-type", 0); }
  uintptr_t pa = (uintptr_t)A, pb = (uintptr_t)B;
  al_stash_policy = policy;
  if (re_force) { al_arm_reuse(header(A)); al_arm_reuse(header(B)); }
  AUX = NULL; AUX2 = NULL;
  if (delorder) { del_raw(B); del_raw(A); } else { del_raw(A); del_raw(B); }
  /* the sizes are exchanged: the type created on A's block gets B's size and the other way round.  Which block the first
     request receives follows from the policy when the interposer hands blocks back; left to the allocator it is a guess
     (looked at afterwards: a history in which no type got a block of another size did not reach the case) */
  uintptr_t expect_first = ((policy == 0) == (delorder == 0)) ? pb : pa;
  int sc = expect_first == pa ? sb : sa, sd = expect_first == pa ? sa : sb;
  var C = re_mktype(re_tnames[2], kind, sc, 0); AUX = C;
  var D = re_mktype(re_tnames[3], kind, sd, 0); AUX2 = D;
  size_t before_c = (uintptr_t)C == pa ? RSZ[sa] : (uintptr_t)C == pb ? RSZ[sb] : (size_t)-1;
  size_t before_d = (uintptr_t)D == pa ? RSZ[sa] : (uintptr_t)D == pb ? RSZ[sb] : (size_t)-1;
  int reach = (before_c != (size_t)-1 && before_c != RSZ[sc]) || (before_d != (size_t)-1 && before_d != RSZ[sd]);
  if (before_c != (size_t)-1) re_same_addr_types++;
  if (before_d != (size_t)-1) re_same_addr_types++;
  const char* dc = before_c == (size_t)-1 ? "address-not-reused" : re_dir(before_c, RSZ[sc]);
  const char* dd = before_d == (size_t)-1 ? "address-not-reused" : re_dir(before_d, RSZ[sd]);
  if (firstC) { re_objects_of(C, RSZ[sc], e3, 1, before_c != (size_t)-1, dc, 0); re_objects_of(D, RSZ[sd], e3, 1, 0, dd, 1); }
  else        { re_objects_of(D, RSZ[sd], e3, 1, before_d != (size_t)-1, dd, 0); re_objects_of(C, RSZ[sc], e3, 1, 0, dc, 1); }
  AUX = NULL; AUX2 = NULL;
  del_raw(C); del_raw(D);
  al_reuse_reset(); al_stash_policy = 0;
  char key[128]; snprintf(key, sizeof key, "re/swap/%s/%s/%s/%d%d%d%d", rk_name[kind], re_name[e1], re_name[e3], delorder, policy, lastA, firstC);
  re_count(reach, key);
}

static void enumerate_recycle(void) {
  int thorough = strcmp(vf.tier, "thorough") == 0 || vf.replay != NULL;      /* the thorough grid contains the quick one */
  vf.phase = "recycle";
  re_force = (int)vf_param_i("force", 1);
  re_setup();
#ifndef VF_ASAN
  al_pad = 1024;           /* see vf_alloc.h: an overrun of a block that was requested too small must not end the exploration */
#endif
  /* two types in a row: every ordered pair of different sizes x first entry points x type kind x how the types are managed */
  for (int kind = 0; kind < NRK; kind++) for (int mg = 0; mg < 3; mg++)
    for (int s1 = 0; s1 < NRSZ; s1++) for (int s2 = 0; s2 < NRSZ; s2++) {
      if (s1 == s2) continue;
      for (int e1 = 0; e1 < NRE; e1++) for (int e2 = 0; e2 < NRE; e2++) for (int all = 0; all < 2; all++) {
        int si[2] = { s1, s2 }, ep[2] = { e1, e2 };
        recycle_chain(kind, mg, 2, si, ep, all);
      }
    }
  /* three in a row */
  for (int kind = 0; kind < NRK; kind++)
    for (int s1 = 0; s1 < NRSZ; s1++) for (int s2 = 0; s2 < NRSZ; s2++) for (int s3 = 0; s3 < NRSZ; s3++) {
      if (s1 == s2 || s2 == s3) continue;
      for (int e1 = 0; e1 < NRE; e1++) for (int e2 = 0; e2 < NRE; e2++) for (int k3 = 0; k3 < (thorough ? NRE : 1); k3++) for (int mg = 0; mg < (thorough ? 3 : 1); mg++) {
        int si[3] = { s1, s2, s3 }, ep[3] = { e1, e2, thorough ? k3 : (e1 + e2 + 1) % NRE };
        recycle_chain(kind, thorough ? mg : (e1 + e2) % 3, 3, si, ep, (e1 ^ e2) & 1);
      }
    }
  /* a live neighbour type */
  for (int kind = 0; kind < NRK; kind++)
    for (int sa = 0; sa < NRSZ; sa++) for (int sc = 0; sc < NRSZ; sc++) {
      if (sa == sc) continue;
      for (int sbk = 0; sbk < 2; sbk++) for (int e1 = 0; e1 < NRE; e1++) for (int e3 = 0; e3 < NRE; e3++) for (int pat = 0; pat < 3; pat++) {
        if (!thorough && ((e1 + e3 + pat) % 2) && kind) continue;
        recycle_live(kind, sa, sbk ? sc : (sa + 2) % NRSZ, sc, e1, e3, pat);
      }
    }
  /* two blocks, sizes exchanged */
  for (int kind = 0; kind < NRK; kind++)
    for (int sa = 0; sa < NRSZ; sa++) for (int sb = 0; sb < NRSZ; sb++) {
      if (sa == sb) continue;
      for (int bits = 0; bits < 16; bits++) for (int e1 = 0; e1 < NRE; e1++) for (int k3 = 0; k3 < (thorough ? NRE : 2); k3++) {
        int e3 = thorough ? k3 : k3 == 0 ? e1 : (e1 + 3) % NRE;
        recycle_swap(kind, sa, sb, bits & 1, (bits >> 1) & 1, (bits >> 2) & 1, (bits >> 3) & 1, e1, e3);
      }
    }
  vf_extra("recycle_histories", "%" PRIu64, re_cases);
  vf_extra("recycle_reached_type_on_the_address_of_a_deleted_type_of_another_size", "%" PRIu64, re_reached);
  vf_extra("recycle_not_reached", "%" PRIu64, re_not_reached);
  vf_extra("recycle_types_created_on_a_recycled_address", "%" PRIu64, re_same_addr_types);
  vf_extra("recycle_blocks_handed_back_by_the_interposer", "%" PRIu64, al_reuse_forced);
  vf_extra("recycle_objects_judged", "%" PRIu64, re_objects);
  vf_extra("recycle_copy_of_size0_refused", "%" PRIu64, re_copy_unavailable);
  vf_extra("recycle_requested_size_unknown", "%" PRIu64, re_req_unknown);
  vf_extra("recycle_constructor_calls", "%" PRIu64, re_ctor);
  vf_extra("recycle_constructor_fill_skipped", "%" PRIu64, re_ctor_skipped);
  vf_extra("recycle_destructor_calls", "%" PRIu64, re_dtor);
  if (re_req_unknown) { vf.exhaustive = 0; vf_note("%" PRIu64 " heap objects whose block request the interposer did not see: the requested-size oracle did not apply to them", re_req_unknown); }
  al_pad = 0;
  if (re_cases && !re_reached) vf_note("no new type ever received the address of a deleted one: the recycle part established nothing in this instance");
  else if (re_not_reached) vf_note("recycle: %" PRIu64 " of %" PRIu64 " histories did not put a type on the address of a deleted type of another size and are not counted as executions", re_not_reached, re_cases);
}

static void add_static(var o, const char* nm) { STATICS[nstatics] = o; static_names[nstatics] = nm; nstatics++; }

int main(int argc, char** argv) {
  vf_init(argc, argv);
  var roots[NROOT + NTY];
  memset(roots, 0, sizeof roots);
  ROOT = roots;
  vf_set_init(&seen_nontrivial, 4096); vf_set_init(&seen_outcomes, 4096);
  vf_set_cur("(initialisation)");

  for (int i = 0; i < 12; i++) K[i] = new_raw(Int, $I(i));
  K10 = new_raw(Int, $I(10)); K20 = new_raw(Int, $I(20)); K50 = new_raw(Int, $I(50));
  F25 = new_raw(Float, $F(2.5)); Sabc = new_raw(String, $S("abc")); Sdyn = new_raw(String, $S("Dyn"));
  Pl34 = new_raw(Plain); ((struct Plain*)Pl34)->a = 3; ((struct Plain*)Pl34)->b = 4;
  FnIdent = new_raw(Function); ((struct Function*)FnIdent)->func = fn_ident;
  FnTrue = new_raw(Function); ((struct Function*)FnTrue)->func = fn_true;
  RT = new_raw(Type, $S("RT"), $I(sizeof(struct RT)), $(New, RT_New, RT_Del));

  PA = new(Array, Int, K[1], K[2], K[3]);
  ARR5 = new(Array, Int, K[5]);
  TAB5 = new(Table, Int, Int, K[5], K50);
  TRE5 = new(Tree, Int, Int, K[5], K50);

  ARGS[T_INT] = new_raw(Tuple, K[7]);            ARGS[T_FLOAT] = new_raw(Tuple, F25);
  ARGS[T_STRING] = new_raw(Tuple, Sabc);         ARGS[T_REF] = new_raw(Tuple, K[5]);
  ARGS[T_BOX] = new_raw(Tuple, K[9]);            ARGS[T_TUPLE] = new_raw(Tuple, K[1], K[2], K[3]);
  ARGS[T_ARRAY] = new_raw(Tuple, Int, K[1], K[2], K[3]);
  ARGS[T_LIST] = new_raw(Tuple, Int, K[1], K[2], K[3]);
  ARGS[T_TABLE] = new_raw(Tuple, Int, Int, K[1], K10, K[2], K20);
  ARGS[T_TREE] = new_raw(Tuple, Int, Int, K[1], K10, K[2], K20);
  ARGS[T_RANGE] = new_raw(Tuple, K[5]);          ARGS[T_SLICE] = new_raw(Tuple, PA, K[1]);
  ARGS[T_ZIP] = new_raw(Tuple, PA, PA);          ARGS[T_FILTER] = new_raw(Tuple, PA, FnTrue);
  ARGS[T_MAP] = new_raw(Tuple, PA, FnIdent);     ARGS[T_FILE] = new_raw(Tuple);
  ARGS[T_FUNCTION] = new_raw(Tuple, FnIdent);    ARGS[T_MUTEX] = new_raw(Tuple);
  ARGS[T_PLAIN] = new_raw(Tuple, Pl34);          ARGS[T_RT] = new_raw(Tuple, K[3], K[4]);
  ARGS[T_TYPE] = new_raw(Tuple, Sdyn, K[8]);

  /* prototypes that elements of containers are assigned from (kept alive through the root slots) */
  static const int protos[] = { T_TUPLE, T_LIST, T_TABLE, T_TREE, T_FILTER, T_MAP, T_FILE, T_FUNCTION };
  for (size_t i = 0; i < sizeof protos / sizeof protos[0]; i++) {
    int t = protos[i];
    roots[NROOT + t] = new_with(TY(t), ARGS[t]); PROTO[t] = roots[NROOT + t];
  }
  PROTO[T_ARRAY] = PA;

  add_static(Int, "Int"); add_static(Float, "Float"); add_static(String, "String"); add_static(Ref, "Ref"); add_static(Box, "Box");
  add_static(Tuple, "Tuple"); add_static(Array, "Array"); add_static(List, "List"); add_static(Table, "Table"); add_static(Tree, "Tree");
  add_static(Range, "Range"); add_static(Slice, "Slice"); add_static(Zip, "Zip"); add_static(Filter, "Filter"); add_static(Map, "Map");
  add_static(File, "File"); add_static(Process, "Process"); add_static(Function, "Function"); add_static(Mutex, "Mutex"); add_static(Thread, "Thread");
  add_static(Type, "Type"); add_static(Plain, "Plain"); add_static(Terminal, "Terminal"); add_static(_, "_");
  add_static(New, "New"); add_static(Alloc, "Alloc"); add_static(Exception, "Exception"); add_static(ValueError, "ValueError");
  add_static(ResourceError, "ResourceError"); add_static(GC, "GC");

  if (vf.replay && strncmp(vf.replay, "stackop ", 8) == 0) {
    enumerate_stackops();
    vf_finish();
  }
  if (vf.replay && strncmp(vf.replay, "typerecycle ", 12) == 0) {
    enumerate_recycle();
    vf_finish();
  }
  if (vf.replay) {
    char sn[64], tn[64], on[64]; int v = 0;
    if (sscanf(vf.replay, "src=%63s type=%63s var=%d op=%63s", sn, tn, &v, on) == 4) {
      for (int i = 0; i < NSRC; i++) if (strcmp(srcname[i], sn) == 0) r_src = i;
      for (int i = 0; i < NTY; i++) if (strcmp(tyname[i], tn) == 0) r_t = i;
      for (int i = 0; i < NOPS; i++) if (strcmp(opname[i], on) == 0) r_op = i;
      r_v = v;
    }
    if (r_src < 0 || r_t < 0 || r_op < 0) { fprintf(stderr, "h_alloc: cannot parse replay case '%s'\n", vf.replay); _exit(2); }
    vf_param("part", "all");
  }

  if (!vf_param_is("part", "stackops", "all")) enumerate_all();
  if (part_is("stackops")) enumerate_stackops();
  if (part_is("recycle")) enumerate_recycle();

  vf_extra("stackops_refused_unchanged", "%" PRIu64, so_refused);
  vf_extra("stackops_returned_unchanged", "%" PRIu64, so_noop);
  vf_extra("stackops_done_in_place", "%" PRIu64, so_inplace);
  vf_extra("refused_with_exception", "%" PRIu64, n_refused);
  vf_extra("ignored_noop", "%" PRIu64, n_noop);
  vf_extra("released_exactly_once", "%" PRIu64, n_released);
  vf_extra("modified_in_place", "%" PRIu64, n_modified);
  vf_extra("forked_cases", "%" PRIu64, n_forked);
  vf_extra("copy_unavailable", "%" PRIu64, n_copy_unavailable);
  vf_extra("skipped_out_of_contract", "%" PRIu64, n_skipped_contract);
  vf_extra("free_calls_seen", "%" PRIu64, al_total_free);
  vf_extra("realloc_calls_seen", "%" PRIu64, al_total_realloc);
  vf_extra("rt_constructed", "%" PRId64, rt_ctor);
  vf_extra("rt_destructed", "%" PRId64, rt_dtor);
  if (n_copy_unavailable) vf_note("copy() raised for %" PRIu64 " (type, op) combinations (Range, Slice, Zip: Assign needs a constructed target; Type: by design) - no object to judge", n_copy_unavailable);
  vf_finish();
  return 0;
}
