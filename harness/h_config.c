/*
** h_config.c - C18: build configurations agree on every in-contract program.
**
** The same executable source is compiled against libCello built in every configuration
** (default, CELLO_NDEBUG, method cache disabled, CELLO_NGC, all three; several optimisation
** levels and two compilers).  It enumerates in-contract programs (every operation sequence up
** to a depth over a small alphabet per domain; a reference model decides which sequences stay
** in contract, so the decision is the same in every configuration), writes every observable
** value into a transcript digest per program, and stores the digests in a file.  The driver
** (checks/C18.py post step) compares the digest files of all configurations program by program.
**
** Programs delete what they allocate, so they are valid with and without a collector; no error
** path is taken, so they are valid with the checks compiled out; nothing address-dependent is
** ever written to a transcript.
**
** Params: domain=<name>|all  depth=N  digests=<file>   (replay=<domain>:<index> prints one transcript)
*/

#include "vf.h"

static uint64_t dg;            /* running transcript digest of the current program */
static int tr_print;           /* replay: print the transcript */
static void T_u(uint64_t v) { dg = (dg ^ v) * 1099511628211ULL; dg ^= dg >> 29; if (tr_print) printf(" %" PRIu64, v); }
static void T_s(const char* s) { for (; *s; s++) { dg = (dg ^ (unsigned char)*s) * 1099511628211ULL; } dg = (dg ^ 0xff) * 1099511628211ULL; if (tr_print) printf(" \"%s\"", s); }
static void T_str(const char* s) { if (tr_print) printf(" \"%s\"", s); int p = tr_print; tr_print = 0; T_s(s); tr_print = p; }
static void T_mark(const char* m) { if (tr_print) printf("\n   %s:", m); }

static uint64_t* out_dg; static size_t out_n, out_cap;
static void emit(uint64_t d) {
  if (out_n == out_cap) { out_cap = out_cap ? out_cap * 2 : 1 << 16; out_dg = realloc(out_dg, out_cap * sizeof *out_dg); }
  out_dg[out_n++] = d;
}

/* decode program index -> op sequence (all sequences of length 1..depth over nops, shortest first) */
static int decode(uint64_t idx, int nops, int depth, int* ops) {
  uint64_t count = nops; int len = 1;
  while (len <= depth) { if (idx < count) break; idx -= count; count *= (uint64_t)nops; len++; }
  if (len > depth) return -1;
  for (int i = len - 1; i >= 0; i--) { ops[i] = (int)(idx % (uint64_t)nops); idx /= (uint64_t)nops; }
  return len;
}
static uint64_t nprograms(int nops, int depth) { uint64_t c = 0, p = 1; for (int i = 0; i < depth; i++) { p *= (uint64_t)nops; c += p; } return c; }

/* ---- domain: sequences (Array, List) ---------------------------------------------------- */

static int cmp_int_lt(var a, var b) { return c_int(a) < c_int(b); }

static void observe_seq(var x) {
  size_t n = len(x);
  T_mark("seq"); T_u(n);
  for (size_t i = 0; i < n; i++) T_u((uint64_t)c_int(get(x, $I((int64_t)i))));
  for (size_t i = 1; i <= n; i++) T_u((uint64_t)c_int(get(x, $I(-(int64_t)i))));
  foreach (e in x) T_u((uint64_t)c_int(e));
  for (int v = 0; v < 3; v++) T_u(mem(x, $I(v)));
  T_u(hash(x));
  var s = new_raw(String);
  int pos = 0;
  foreach (e in x) pos = print_to(s, pos, "%$,", e);
  T_str(c_str(s)); T_u((uint64_t)pos);
  del_raw(s);
}

static int run_seq(int kind, const int* ops, int n) {
  /* model */
  int m[16]; int ml = 0;
  var x = kind == 0 ? (var)new_raw(Array, Int) : (var)new_raw(List, Int);
  int ok = 1;
  for (int i = 0; i < n && ok; i++) {
    int op = ops[i];
    if (op < 3) { if (ml >= 8) { ok = 0; break; } push(x, $I(op)); m[ml++] = op; }
    else if (op == 3) { if (!ml) { ok = 0; break; } pop(x); ml--; }
    else if (op == 4) { if (!ml || ml >= 8) { ok = 0; break; } push_at(x, $I(2), $I(0)); memmove(m + 1, m, sizeof(int) * (size_t)ml); m[0] = 2; ml++; }
    else if (op == 5) { if (!ml) { ok = 0; break; } pop_at(x, $I(0)); memmove(m, m + 1, sizeof(int) * (size_t)(ml - 1)); ml--; }
    else if (op == 6) { if (ml < 2) { ok = 0; break; } set(x, $I(1), $I(0)); m[1] = 0; }
    else if (op == 7) { if (kind != 0) { ok = 0; break; } sort(x); for (int a = 0; a < ml; a++) for (int b = a + 1; b < ml; b++) if (m[b] < m[a]) { int t = m[a]; m[a] = m[b]; m[b] = t; } }
    else if (op == 8) { if (ml + 2 > 8) { ok = 0; break; } var y = new_raw(Array, Int, $I(1), $I(2)); concat(x, y); del_raw(y); m[ml++] = 1; m[ml++] = 2; }
    else if (op == 9) { if (ml < 2) { ok = 0; break; } resize(x, (size_t)ml - 1); ml--; }
    else if (op == 10) { var y = copy(x); var z = kind == 0 ? (var)new_raw(Array, Int) : (var)new_raw(List, Int); assign(z, y); del(y); del_raw(x); x = z; }
    else if (op == 11) { int f = -1; for (int a = 0; a < ml; a++) if (m[a] == 1) { f = a; break; } if (f < 0) { ok = 0; break; } rem(x, $I(1)); memmove(m + f, m + f + 1, sizeof(int) * (size_t)(ml - f - 1)); ml--; }
    else if (op == 13) { if (ml < 2 || ml >= 8) { ok = 0; break; } push_at(x, $I(1), $I(-2));
      /* negative index conventions differ per kind (measured): Array counts from the end of the new sequence, List inserts before old element len-2 */
      int at = kind == 0 ? ml - 1 : ml - 2; memmove(m + at + 1, m + at, sizeof(int) * (size_t)(ml - at)); m[at] = 1; ml++; }
    else if (op == 14) { if (!ml) { ok = 0; break; } pop_at(x, $I(-1)); ml--; }
    else if (op == 15) { if (!ml) { ok = 0; break; } set(x, $I(-1), $I(2)); m[ml - 1] = 2; }
    else if (op == 12) { if (ml < 1) { ok = 0; break; } var y = new_raw(List, Int, $I(0)); T_u((uint64_t)(cmp(x, y) > 0) + 2 * (uint64_t)(cmp(x, y) < 0)); T_u(eq(x, y)); del_raw(y); }
    if (ok) {
      observe_seq(x);
      if (len(x) != (size_t)ml) { fprintf(stderr, "h_config: sequence model out of step (harness error)\n"); _exit(2); }
      for (int q = 0; q < ml; q++) if (c_int(get(x, $I(q))) != m[q]) { T_mark("model-mismatch"); T_u((uint64_t)q); }
    }
  }
  del_raw(x);
  return ok;
}

/* ---- domain: maps (Table, Tree) ---------------------------------------------------------- */

static void observe_map(var t) {
  T_mark("map"); T_u(len(t));
  for (int k = 0; k < 4; k++) { bool isin = mem(t, $I(k * 55)); T_u(isin); if (isin) T_u((uint64_t)c_int(get(t, $I(k * 55)))); }
  foreach (k in t) { T_u((uint64_t)c_int(k)); T_u((uint64_t)c_int(get(t, k))); }
  T_u(hash(t));
}

static int run_map(int kind, const int* ops, int n) {
  int present[4] = {0}, cnt = 0;
  var t = kind == 0 ? (var)new_raw(Table, Int, Int) : (var)new_raw(Tree, Int, Int);
  int ok = 1;
  for (int i = 0; i < n && ok; i++) {
    int op = ops[i];
    if (op < 8) { int k = op / 2, v = op % 2; set(t, $I(k * 55), $I(v)); if (!present[k]) { present[k] = 1; cnt++; } }
    else if (op < 12) { int k = op - 8; if (!present[k]) { ok = 0; break; } rem(t, $I(k * 55)); present[k] = 0; cnt--; }
    else if (op == 12) { resize(t, 0); memset(present, 0, sizeof present); cnt = 0; }
    else if (op == 13) { var c = copy(t); T_u(eq(c, t)); T_u(hash(c) == hash(t)); del_raw(t); t = kind == 0 ? (var)new_raw(Table, Int, Int) : (var)new_raw(Tree, Int, Int); assign(t, c); del(c); }
    else if (op == 14) { if (kind != 0 || cnt == 0) { ok = 0; break; } resize(t, (size_t)cnt); }            /* shrink to fit: in contract */
    else if (op == 15) { if (kind != 0) { ok = 0; break; } resize(t, (size_t)cnt * 2 + 3); }                    /* reserve */
    if (ok) observe_map(t);
  }
  del_raw(t);
  return ok;
}

/* ---- domain: strings ---------------------------------------------------------------------- */

static int run_str(const int* ops, int n) {
  char m[64] = "";
  var s = new_raw(String, $S(""));
  static const char* lit[] = { "a", "b", "ab", "" };
  int ok = 1;
  for (int i = 0; i < n && ok; i++) {
    int op = ops[i];
    if (op < 4) { if (strlen(m) + strlen(lit[op]) > 12) { ok = 0; break; } concat(s, $S((char*)lit[op])); strcat(m, lit[op]); }
    else if (op < 7) { const char* u = lit[op - 4]; char* p = strstr(m, u); if (!p) { ok = 0; break; } rem(s, $S((char*)u)); memmove(p, p + strlen(u), strlen(p + strlen(u)) + 1); }
    else if (op == 7) { assign(s, $S("ba")); strcpy(m, "ba"); }
    else if (op == 8) { size_t l = strlen(m); if (l < 1) { ok = 0; break; } int r = print_to(s, (int)l - 1, "%s%li", $S("x"), $I(-7)); T_u((uint64_t)r); m[l - 1] = 0; strcat(m, "x-7"); }
    else if (op == 9) { size_t l = strlen(m); if (l < 1) { ok = 0; break; } resize(s, l - 1); m[l - 1] = 0; }
    if (ok) {
      T_mark("str"); T_u(len(s)); T_str(c_str(s)); T_u(hash(s)); T_u(mem(s, $S("ab"))); T_u((uint64_t)(cmp(s, $S("ab")) > 0) + 2 * (uint64_t)(cmp(s, $S("ab")) < 0)); T_u(eq(s, $S(m)));
    }
  }
  del_raw(s);
  return ok;
}

/* ---- domain: formatting --------------------------------------------------------------------- */

static uint64_t run_fmt_all(void) {
  static const char* ispec[] = { "%d", "%5d", "%-5d|", "%05d", "%+d", "% d", "%x", "%#x", "%o", "%li", "%lu", "%lx", "%10.4li", "%c", "%%%d%%" };
  static const int64_t ival[] = { 0, 1, -1, 42, 2147483647LL, -2147483647LL - 1, 65, 255 };
  static const char* fspec[] = { "%f", "%.0f", "%10.3f", "%-10.2f|", "%e", "%g", "%+.1f", "%a", "%lf", "%.10g" };
  static const double fval[] = { 0.0, -0.0, 1.0, -1.5, 0.1, 123456.789, 1e300, 1e-300, 3.0 };
  static const char* sspec[] = { "%s", "%5s", "%-5s|", "%.2s", "[%s]" };
  static const char* sval[] = { "", "a", "hello", "a much longer string of text" };
  uint64_t count = 0;
  var out = new_raw(String);
  for (size_t a = 0; a < sizeof ispec / sizeof *ispec; a++) for (size_t b = 0; b < sizeof ival / sizeof *ival; b++) {
    if (strstr(ispec[a], "%c") && (ival[b] < 32 || ival[b] > 126)) continue;
    dg = 14695981039346656037ULL; T_mark(ispec[a]);
    int64_t v = ival[b];
    if (!strchr(ispec[a], 'l') && (v > 2147483647LL || v < -2147483647LL - 1)) continue;
    int r = print_to(out, 0, ispec[a], $I(v)); T_u((uint64_t)r); T_str(c_str(out));
    r = print_to(out, 2, ispec[a], $I(v)); T_u((uint64_t)r); T_str(c_str(out));
    emit(dg); count++;
  }
  for (size_t a = 0; a < sizeof fspec / sizeof *fspec; a++) for (size_t b = 0; b < sizeof fval / sizeof *fval; b++) {
    dg = 14695981039346656037ULL; T_mark(fspec[a]);
    int r = print_to(out, 0, fspec[a], $F(fval[b])); T_u((uint64_t)r); T_str(c_str(out));
    emit(dg); count++;
  }
  for (size_t a = 0; a < sizeof sspec / sizeof *sspec; a++) for (size_t b = 0; b < sizeof sval / sizeof *sval; b++) {
    dg = 14695981039346656037ULL; T_mark(sspec[a]);
    int r = print_to(out, 0, sspec[a], $S((char*)sval[b])); T_u((uint64_t)r); T_str(c_str(out));
    r = print_to(out, 0, "%$ %$ %$", $I(ival[b]), $F(fval[b]), $S((char*)sval[b])); T_u((uint64_t)r); T_str(c_str(out));
    /* read it back */
    var i2 = $I(0); var f2 = $F(0.0); var s2 = new_raw(String);
    int rr = scan_from(out, 0, "%$ %$ %$", i2, f2, s2); T_u((uint64_t)rr); T_u((uint64_t)c_int(i2)); T_u((uint64_t)(c_float(f2) == fval[b])); T_str(c_str(s2));
    del_raw(s2);
    emit(dg); count++;
  }
  del_raw(out);
  return count;
}

/* ---- domain: exceptions ----------------------------------------------------------------------- */

static volatile int etr[64]; static volatile int en;
static void ev(int x) { if (en < 64) etr[en++] = x; }
static var EX[3];
static void thrower(int which) { if (which > 0) throw(EX[which - 1], "thrown %i", $I(which)); }

/* program: (a, b, c, f1, f2): outer try { stmt a; inner try { stmt b } catch(filter f1) { stmt c } } catch (filter f2) { } */
static int run_exc(const int* ops, int n) {
  if (n != 5) return 0;
  int a = ops[0] % 3, b = ops[1] % 3, c = ops[2] % 3, f1 = ops[3] % 3, f2 = ops[4] % 3;
  en = 0;
  var F1a = f1 == 1 ? ValueError : KeyError, F2a = f2 == 1 ? ValueError : KeyError;
  try {
    try {
      ev(1); thrower(a); ev(2);
      if (f1 == 0) { try { ev(3); thrower(b); ev(4); } catch (e) { ev(5); ev(e == ValueError ? 50 : 51); thrower(c); ev(6); } }
      else { try { ev(3); thrower(b); ev(4); } catch (e in F1a) { ev(5); ev(e == ValueError ? 50 : 51); thrower(c); ev(6); } }
      ev(7);
    } catch (e in F2a) { ev(8); ev(e == ValueError ? 80 : 81); }
    ev(9);
  } catch (e) { ev(10); ev(e == ValueError ? 100 : 101); }
  ev((int)len(current(Exception)));
  T_mark("exc"); for (int i = 0; i < en; i++) T_u((uint64_t)etr[i]);
  return 1;
}

/* ---- domain: iteration views ---------------------------------------------------------------------- */

static var pred_even(var x) { return (c_int(x) % 2 == 0) ? x : NULL; }
static var fn_double(var x) {
  static char cell[sizeof(struct Header) + sizeof(struct Int)];
  struct Int* r = header_init(cell, Int, AllocStatic);
  r->val = c_int(x) * 2;
  return r;
}

static int run_view(const int* ops, int n) {
  if (n != 4) return 0;
  int L = ops[0] % 5, start = ops[1] % 6 - 1, stop = ops[2] % 6 - 1, step = ops[3] % 3 + 1;   /* start/stop -1 means omitted */
  var a = new_raw(Array, Int);
  for (int i = 0; i < L; i++) push(a, $I(i + 1));
  T_mark("view");
  var S = start < 0 && stop < 0 ? (var)slice(a, _, _, $I(step)) : start < 0 ? (var)slice(a, _, $I(stop), $I(step)) : stop < 0 ? (var)slice(a, $I(start), _, $I(step)) : (var)slice(a, $I(start), $I(stop), $I(step));
  T_u(len(S)); foreach (e in S) T_u((uint64_t)c_int(e));
  for (size_t i = 0; i < len(S); i++) T_u((uint64_t)c_int(get(S, $I((int64_t)i))));
  var R = range($I(start < 0 ? 0 : start), $I(stop < 0 ? 4 : stop), $I(step));
  T_u(len(R)); foreach (e in R) T_u((uint64_t)c_int(e));
  foreach (e in reverse(a)) T_u((uint64_t)c_int(e));
  foreach (e in filter(a, $(Function, pred_even))) T_u((uint64_t)c_int(e));
  foreach (e in map(a, $(Function, fn_double))) T_u((uint64_t)c_int(e));
  foreach (p in zip(a, range($I(3)))) { T_u((uint64_t)c_int(get(p, $I(0)))); T_u((uint64_t)c_int(get(p, $I(1)))); }
  foreach (p in enumerate(a)) { T_u((uint64_t)c_int(get(p, $I(0)))); T_u((uint64_t)c_int(get(p, $I(1)))); }
  del_raw(a);
  return 1;
}

/* ---- domain: programs that rely on the collector (or, without one, simply never free) ------------------ */

static void __attribute__((noinline)) churn(int n) {
  for (int i = 0; i < n; i++) { var g = new(Int, $I(i)); (void)g; }
}

static var gc_rootobj;               /* a root-registered object kept in static storage only */
/* garbage that owns itself: two Boxes referring to each other; with a collector it is reclaimed at some point (each object
** finalised once), without one it is never freed - no error path either way */
static uint64_t __attribute__((noinline)) gc_ring(int i) {
  var a = new(Box, new(Int, $I(i)));
  var b = new(Box, new(Int, $I(i * 2)));
  uint64_t r = (uint64_t)c_int(deref(a)) + (uint64_t)c_int(deref(b));
  ref(a, b); ref(b, a);
  return r + (deref(deref(a)) is a);
}
/* garbage in which one object owns another (Box -> Int, a heap Range -> its cursor Int): both die in the same sweep, in either order */
static uint64_t __attribute__((noinline)) gc_owners(int i) {
  uint64_t r = 0;
  for (int k = 0; k < 3; k++) {
    var b = new(Box, new(Int, $I(i + k)));
    var rg = new(Range, $I(i + k + 2));
    r = r * 31 + (uint64_t)c_int(deref(b)) + (uint64_t)len(rg);
    foreach (x in rg) r += (uint64_t)c_int(x);
  }
  return r;
}
/* a live ring of heap Tuples (value, prev, next): every node is reached twice by the marking phase */
static var __attribute__((noinline)) gc_tuple_ring(int i) {
  var n[3];
  for (int k = 0; k < 3; k++) n[k] = new(Tuple, new(Int, $I(i * 10 + k)));
  for (int k = 0; k < 3; k++) { push(n[k], n[(k + 2) % 3]); push(n[k], n[(k + 1) % 3]); }
  return n[0];
}
static int run_gcuse(const int* ops, int n) {
  volatile var slot = NULL;           /* a stack root */
  int have_tls = 0, serial = 0;
  for (int i = 0; i < n; i++) {
    switch (ops[i]) {
    case 0: slot = new(Int, $I(100 + serial++)); break;
    case 1: { var s = new(String, $S("v")); print_to(s, 1, "%i", $I(serial++)); set(current(Thread), $S("cfgk"), s); have_tls = 1; break; }
    case 2: churn(300); break;
    case 3: if (have_tls) { rem(current(Thread), $S("cfgk")); have_tls = 0; } break;
    case 5: if (!gc_rootobj) gc_rootobj = new_root(Int, $I(500 + serial++)); break;
    case 6: if (gc_rootobj) { del_root(gc_rootobj); gc_rootobj = NULL; } break;
    case 4: { var v = new(Int, $I(7 + serial++)); var a = new(Array, Ref, v); slot = a; break; }   /* reachable only through a container */
    case 7: T_u(gc_ring(3 + serial++)); break;
    case 8: T_u(gc_owners(5 + serial++)); break;
    case 9: slot = gc_tuple_ring(serial++); break;
    }
    T_mark("gcuse");
    if (slot) {
      if (type_of((var)slot) is Int) T_u((uint64_t)c_int((var)slot));
      else if (type_of((var)slot) is Tuple) { var x = (var)slot; for (int k = 0; k < 4; k++) { T_u((uint64_t)c_int(get(x, $I(0)))); x = get(x, $I(2)); } }
      else { T_u((uint64_t)c_int(deref(get((var)slot, $I(0))))); }
    }
    if (have_tls) T_str(c_str(get(current(Thread), $S("cfgk"))));
    if (gc_rootobj) T_u((uint64_t)c_int(gc_rootobj));
  }
  if (gc_rootobj) { del_root(gc_rootobj); gc_rootobj = NULL; }
  if (have_tls) rem(current(Thread), $S("cfgk"));
  slot = NULL;
  return 1;
}

/* ---- domain: String elements inside containers (grown in place through the element handle) -------------- */

static int run_strarr(int kind, const int* ops, int n) {
  var x = kind == 0 ? (var)new_raw(Array, String) : kind == 1 ? (var)new_raw(List, String) : (var)new_raw(Table, String, String);
  int ml = 0, ok = 1;
  static const char* keys[] = { "k0", "k1", "k2" };
  int present[3] = {0};
  for (int i = 0; i < n && ok; i++) {
    int op = ops[i];
    if (kind < 2) {
      if (op == 0) { if (ml >= 5) { ok = 0; break; } push(x, $S("a")); ml++; }
      else if (op == 1) { if (ml >= 5) { ok = 0; break; } push(x, $S("bc")); ml++; }
      else if (op == 2) { if (!ml) { ok = 0; break; } concat(get(x, $I(0)), $S("x")); }
      else if (op == 3) { if (!ml) { ok = 0; break; } append(get(x, $I(-1)), $S("y")); }
      else if (op == 4) { if (!ml) { ok = 0; break; } pop(x); ml--; }
      else if (op == 5) { if (!ml) { ok = 0; break; } set(x, $I(0), $S("zz")); }
      else if (op == 6) { if (!ml) { ok = 0; break; } resize(get(x, $I(0)), 1); }
      else if (op == 7) { if (!ml) { ok = 0; break; } print_to(get(x, $I(-1)), 0, "%i!", $I(ml)); }
      T_mark("strarr"); T_u(len(x));
      foreach (e in x) { T_str(c_str(e)); T_u(len(e)); }
      T_u(hash(x));
    } else {
      if (op < 3) { set(x, $S((char*)keys[op]), $S("v")); present[op] = 1; }
      else if (op < 6) { int k = op - 3; if (!present[k]) { ok = 0; break; } concat(get(x, $S((char*)keys[k])), $S("+")); }
      else if (op == 6) { if (!present[0]) { ok = 0; break; } rem(x, $S("k0")); present[0] = 0; }
      else if (op == 7) { if (!present[1]) { ok = 0; break; } print_to(get(x, $S("k1")), 1, "%s", $S("w")); }
      T_mark("strtab"); T_u(len(x));
      for (int k = 0; k < 3; k++) if (present[k]) T_str(c_str(get(x, $S((char*)keys[k]))));
    }
  }
  del_raw(x);
  return ok;
}

/* ---- domain: values (cmp / hash / dispatch) ---------------------------------------------------------- */

/* run-time types with 0..8 class instances: name, size, which classes are found, and use as values */
struct Pt { int64_t x; int64_t y; };
static void Pt_New(var self, var args) { struct Pt* p = self; p->x = c_int(get(args, $I(0))); p->y = c_int(get(args, $I(1))); }
static void Pt_Assign(var self, var obj) { struct Pt* p = self; struct Pt* o = obj; p->x = o->x; p->y = o->y; }
static int Pt_Cmp(var self, var obj) { struct Pt* p = self; struct Pt* o = obj; if (p->x != o->x) return p->x < o->x ? -1 : 1; if (p->y != o->y) return p->y < o->y ? -1 : 1; return 0; }
static uint64_t Pt_Hash(var self) { struct Pt* p = self; return (uint64_t)(p->x * 31 + p->y); }
static int64_t Pt_C_Int(var self) { struct Pt* p = self; return p->x + p->y; }
static int Pt_Show(var self, var out, int pos) { struct Pt* p = self; return print_to(out, pos, "(%li,%li)", $I(p->x), $I(p->y)); }
static double Pt_C_Float(var self) { return (double)Pt_C_Int(self); }
static size_t Pt_Len(var self) { return 2; }
static uint64_t run_rtypes(void) {
  uint64_t count = 0;
  for (int n = 0; n <= 8; n++) {
    dg = 14695981039346656037ULL; T_mark("rtype"); T_u((uint64_t)n);
    /* the instance objects and the type live for the rest of the process (a type keeps pointers to what it was given) */
    var inst[8] = { alloc_raw(New), alloc_raw(Assign), alloc_raw(Cmp), alloc_raw(Hash), alloc_raw(C_Int), alloc_raw(Show), alloc_raw(C_Float), alloc_raw(Len) };
    ((struct New*)inst[0])->construct_with = Pt_New; ((struct Assign*)inst[1])->assign = Pt_Assign; ((struct Cmp*)inst[2])->cmp = Pt_Cmp; ((struct Hash*)inst[3])->hash = Pt_Hash;
    ((struct C_Int*)inst[4])->c_int = Pt_C_Int; ((struct Show*)inst[5])->show = Pt_Show; ((struct C_Float*)inst[6])->c_float = Pt_C_Float; ((struct Len*)inst[7])->len = Pt_Len;
    var args = new_raw(Tuple, $S("Pt"), $I(sizeof(struct Pt)));
    for (int i = 0; i < n; i++) push(args, inst[i]);
    var T = new_root_with(Type, args);
    del_raw(args);
    var classes[] = { New, Assign, Cmp, Hash, C_Int, Show, C_Float, Len, Iter, Get, Copy, Size };
    for (int round = 0; round < 2; round++) for (size_t c = 0; c < sizeof classes / sizeof *classes; c++) T_u(type_implements(T, classes[c]));
    T_str(c_str(T)); T_u(size(T));
    if (n >= 6) {
      var a = new(T, $I(3), $I(4)), b = new(T, $I(3), $I(4)), c = new(T, $I(5), $I(1));
      T_u((uint64_t)c_int(a)); T_u(eq(a, b)); T_u(lt(a, c)); T_u(hash(a));
      var arr = new(Array, T, c, a, b); sort(arr); foreach (x in arr) T_u((uint64_t)c_int(x));
      var s = new(String); print_to(s, 0, "%$ %$", a, c); T_str(c_str(s));
      var tb = new(Table, T, Int); set(tb, a, $I(1)); set(tb, c, $I(2)); set(tb, b, $I(3)); T_u(len(tb)); T_u((uint64_t)c_int(get(tb, a)));
    }
    emit(dg); count++;
  }
  return count;
}

/* a heap Zip over a heap Map that makes fresh managed objects: the pair handed out is the only holder of the mapped item while
** the loop body allocates */
static var cfg_fresh(var x) { return new(Int, $I(c_int(x) * 3 + 1)); }
static void __attribute__((noinline)) cfg_scrub(void) { volatile char pad[4096]; for (size_t i = 0; i < sizeof pad; i++) pad[i] = 0; }
static uint64_t run_zipmap(void) {
  dg = 14695981039346656037ULL; T_mark("zipmap");
  var base = new(Array, Int);
  for (int i = 0; i < 40; i++) push(base, $I(i));
  var m = new(Map, base, $(Function, cfg_fresh));
  var r = new(Range, $I(40));
  var z = new(Zip, r, m);
  foreach (pair in z) {
    cfg_scrub();
    for (int k = 0; k < 12; k++) { var g = new(Int, $I(k)); (void)g; }
    T_u((uint64_t)c_int(get(pair, $I(0)))); T_u((uint64_t)c_int(get(pair, $I(1))));
  }
  emit(dg);
  return 1;
}

static uint64_t run_values(void) {
  static const int64_t iv[] = { 0, 1, -1, 4294967296LL, -4294967296LL, INT64_MAX, INT64_MIN, 2147483648LL };
  static const double fv[] = { 0.0, -0.0, 1.0, -1.0, 1e300, -1e300, 5e-324, 0.1 };
  static const char* sv[] = { "", "a", "ab", "b", "\x80", "a\xff" };
  uint64_t count = 0;
  for (size_t a = 0; a < 8; a++) for (size_t b = 0; b < 8; b++) {
    dg = 14695981039346656037ULL; T_mark("int");
    int c = cmp($I(iv[a]), $I(iv[b])); T_u((uint64_t)(c > 0) + 2 * (uint64_t)(c < 0)); T_u(eq($I(iv[a]), $I(iv[b]))); T_u(lt($I(iv[a]), $I(iv[b]))); T_u(hash($I(iv[a])));
    c = cmp($F(fv[a]), $F(fv[b])); T_u((uint64_t)(c > 0) + 2 * (uint64_t)(c < 0)); T_u(ge($F(fv[a]), $F(fv[b]))); T_u(hash($F(fv[a])));
    if (a < 6 && b < 6) { c = cmp($S((char*)sv[a]), $S((char*)sv[b])); T_u((uint64_t)(c > 0) + 2 * (uint64_t)(c < 0)); T_u(hash($S((char*)sv[a]))); }
    emit(dg); count++;
  }
  /* dispatch: which classes each type implements, and cast */
  var types[] = { Int, Float, String, Array, List, Table, Tree, Tuple, Range, Slice, Zip, Filter, Map, Ref, Box, File, Function, Type };
  var classes[] = { New, Assign, Copy, Cmp, Hash, Len, Iter, Push, Concat, Get, Sort, Resize, C_Str, C_Int, C_Float, Show, Mark, Pointer, Call, Stream, Format, Swap, Alloc, Size, Cast, Start, Lock, Current };
  for (size_t t = 0; t < sizeof types / sizeof *types; t++) {
    dg = 14695981039346656037ULL; T_mark(c_str(types[t]));
    for (int round = 0; round < 2; round++)
      for (size_t c = 0; c < sizeof classes / sizeof *classes; c++) T_u(type_implements(types[t], classes[c]));
    T_u(size(types[t]) != 0); T_str(c_str(types[t]));
    emit(dg); count++;
  }
  count += run_rtypes();
  count += run_zipmap();
  return count;
}

/* ---- driver ---------------------------------------------------------------------------------------------- */

struct domain { const char* name; int nops; int depth; int fixedlen; };
static struct domain DOM[] = {
  { "array", 16, 4, 0 }, { "list", 16, 4, 0 }, { "table", 16, 4, 0 }, { "tree", 14, 4, 0 }, { "string", 10, 4, 0 },
  { "exc", 3, 5, 1 }, { "view", 6, 4, 1 },
  { "gcuse", 10, 4, 0 }, { "strarray", 8, 4, 0 }, { "strlist", 8, 4, 0 }, { "strtable", 8, 4, 0 },
};

static int run_prog(int d, const int* ops, int n) {
  switch (d) {
  case 0: return run_seq(0, ops, n); case 1: return run_seq(1, ops, n);
  case 2: return run_map(0, ops, n); case 3: return run_map(1, ops, n);
  case 4: return run_str(ops, n); case 5: return run_exc(ops, n); case 6: return run_view(ops, n);
  case 7: return run_gcuse(ops, n); case 8: return run_strarr(0, ops, n); case 9: return run_strarr(1, ops, n); case 10: return run_strarr(2, ops, n);
  }
  return 0;
}

int main(int argc, char** argv) {
  vf_init(argc, argv);
  EX[0] = ValueError; EX[1] = KeyError; EX[2] = IndexOutOfBoundsError;
  const char* which = vf_param("domain", "all");
  int extra_depth = (int)vf_param_i("extra", 0);
  if (vf.replay) {
    char dn[32]; unsigned long long idx;
    if (sscanf(vf.replay, "%31[^:]:%llu", dn, &idx) != 2) { fprintf(stderr, "bad replay case\n"); _exit(2); }
    tr_print = 1;
    for (size_t d = 0; d < sizeof DOM / sizeof *DOM; d++) if (!strcmp(DOM[d].name, dn)) {
      int ops[16]; int depth = DOM[d].depth + (DOM[d].fixedlen ? 0 : extra_depth);
      int n;
      if (DOM[d].fixedlen) { n = DOM[d].depth; uint64_t x = idx; for (int i = n - 1; i >= 0; i--) { ops[i] = (int)(x % (uint64_t)DOM[d].nops); x /= (uint64_t)DOM[d].nops; } }
      else n = decode(idx, DOM[d].nops, depth, ops);
      printf("program %s:%llu ops:", dn, idx); for (int i = 0; i < n; i++) printf(" %d", ops[i]);
      dg = 14695981039346656037ULL;
      volatile int ok = 0;
      var exc = VF_CATCH(ok = run_prog((int)d, ops, n));
      if (exc) { T_mark("raised"); T_str(c_str(exc)); ok = 1; }
      printf("\n in-contract=%d digest=%016" PRIx64 "\n", (int)ok, dg);
    }
    vf.states = 1; vf.executions = 1;
    vf_finish();
  }
  uint64_t total = 0, incontract = 0;
  for (size_t d = 0; d < sizeof DOM / sizeof *DOM; d++) {
    if (strcmp(which, "all") && strcmp(which, DOM[d].name)) continue;
    int depth = DOM[d].depth + (DOM[d].fixedlen ? 0 : extra_depth);
    uint64_t np = DOM[d].fixedlen ? 1 : nprograms(DOM[d].nops, depth);
    if (DOM[d].fixedlen) for (int i = 0; i < DOM[d].depth; i++) np *= (uint64_t)DOM[d].nops;
    size_t first = out_n;
    uint64_t dom_in = 0;
    for (uint64_t idx = 0; idx < np; idx++) {
      int ops[16]; int n;
      if (DOM[d].fixedlen) { n = DOM[d].depth; uint64_t x = idx; for (int i = n - 1; i >= 0; i--) { ops[i] = (int)(x % (uint64_t)DOM[d].nops); x /= (uint64_t)DOM[d].nops; } }
      else n = decode(idx, DOM[d].nops, depth, ops);
      if ((idx & 4095) == 0) { vf_watchdog(120); vf_set_cur("%s:%" PRIu64, DOM[d].name, idx); }
      dg = 14695981039346656037ULL;
      volatile int ok = 0;
      /* an in-contract program raises nothing; if one configuration raises, that is part of its transcript */
      var exc = VF_CATCH(ok = run_prog((int)d, ops, n));
      if (exc) { T_mark("raised"); T_str(c_str(exc)); ok = 1; }
      emit(ok ? dg : 0);
      if (ok) { dom_in++; if (vf_want_sample()) { char b[128]; size_t o = 0; for (int i = 0; i < n; i++) o += snprintf(b + o, sizeof b - o, "%d ", ops[i]); vf_sample("%s:%" PRIu64 " ops [%s] digest %016" PRIx64, DOM[d].name, idx, b, dg); } }
    }
    total += np; incontract += dom_in;
    vf_note("%s: %" PRIu64 " op sequences enumerated, %" PRIu64 " in contract (digests %zu..%zu)", DOM[d].name, np, dom_in, first, out_n);
  }
  if (!strcmp(which, "all") || !strcmp(which, "fmt")) { size_t f = out_n; uint64_t c = run_fmt_all(); total += c; incontract += c; vf_note("fmt: %" PRIu64 " formatting programs (digests %zu..%zu)", c, f, out_n); }
  if (!strcmp(which, "all") || !strcmp(which, "values")) { size_t f = out_n; uint64_t c = run_values(); total += c; incontract += c; vf_note("values: %" PRIu64 " value programs (digests %zu..%zu)", c, f, out_n); }
  vf_watchdog(0);
  const char* path = vf_param("digests", "digests.bin");
  FILE* f = fopen(path, "wb");
  if (!f) { perror("digests"); _exit(2); }
  fwrite(out_dg, sizeof *out_dg, out_n, f);
  fclose(f);
  vf.executions = incontract; vf.states = incontract; vf.transitions = total; vf.nontrivial = incontract;
  vf_extra("programs_in_contract", "%" PRIu64, incontract);
  vf_extra("digest_file", "\"%s\"", path);
  vf_finish();
  return 0;
}
