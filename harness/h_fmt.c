/*
** h_fmt.c - C14: print_to formatting equals C formatting, on every sink, exact positions.
**
** Exhaustive enumeration of the specification grammar
**     % [flags subset of "-+ #0"] [width] [.precision] [length modifier] conversion
** restricted, per conversion, to the combinations whose behaviour the C standard defines
** (table in conv_rule()), times a boundary value grid, times the context the specification
** stands in inside the format text, times the start position, times the sink.
** Every formatting is executed by the real print_to_with() and compared byte for byte
** with snprintf() given the same specification and the "corresponding C value" (the
** Int narrowed as the length modifier prescribes, the Float as double, the String's
** characters, the object pointer).
**
** Parameters
**   mode=grid|show|missing|ladder   grid: specification grid;  show: %$ on containers;
**                              missing: too few arguments;  ladder: chunks of exactly N output
**                              characters for every N in 1..n (n=300) and around powers of two up to pmax, three sinks, follow-up print
**                              repeat: argument lists holding the same object several times;
**                              reentrant: arguments whose c_str/c_int/c_float/show themselves print_to;
**                              longfmt: formats of 2^12 .. 2^23+4096 characters, main thread and small-stack pthread;
**                              fmtreuse: sequences of formats written into one reused mutable buffer;
**                              history: k caught formatting failures, then well-formed formattings;
**                              recycle: sinks created and destroyed per formatting, alternating types
**   conv=<letters>             conversions handled by this instance (from "diuoxXcsfFeEgGaAp$")
**   grid=full|mid|small        full: width {none,1,5,12} x precision {none,.0,.3,.10}, all values,
**                              mid:  width {none,5} x precision {none,.3}, values of level <= 1,
**                              small: as mid with values of level 0 and start {0,len}
**   file=memstream|tmpfile     what the File sink is made of
**   count_nt=0|1               whether this instance reports distinct non-trivial cases
**                              (0 for instances that revisit a grid under another build)
**
** Replay: the case strings produced below ("c=d m=hh f=5 w=1 p=2 v=3 x=4 s=1 k=0", "show h=..",
** "missing c=..") select exactly one execution (absent fields = all).
*/

#include "vf.h"
#include <limits.h>
#include <float.h>
#include <math.h>
#include <stddef.h>

#define PREFIX "0123456"
#define PLEN   7

/* ---- grammar ------------------------------------------------------------------------ */

static const char FLAGCH[5] = { '-', '+', ' ', '#', '0' };
enum { FL_MINUS = 1, FL_PLUS = 2, FL_SPACE = 4, FL_HASH = 8, FL_ZERO = 16 };
static const int WIDTHS[4] = { -1, 5, 1, 12 };       /* index 0,1 form the "mid" grid */
static const int PRECS[4]  = { -1, 3, 0, 10 };
enum { M_NONE, M_HH, M_H, M_L, M_LL, M_J, M_Z, M_T, M_COUNT };
static const char* MODS[M_COUNT] = { "", "hh", "h", "l", "ll", "j", "z", "t" };
static const char* MODNAME[M_COUNT] = { "-", "hh", "h", "l", "ll", "j", "z", "t" };

struct rule { unsigned flags; int width, prec; int nmods; int mods[M_COUNT]; int vkind; };
enum { VK_INT, VK_FLT, VK_STR, VK_CHR, VK_PTR, VK_ANY };

/*
** Which parts of the grammar are defined by C11 7.21.6.1 for a conversion:
**   '#' only with o x X a A e E f F g G;  '0' only with d i o u x X a A e E f F g G;
**   '+' and ' ' are described for signed conversions (d i and the floating ones) only;
**   a precision only with d i o u x X a A e E f F g G s;  hh h l ll j z t with the integer
**   conversions, l (no effect) with the floating ones.  (ls, lc, L, *, %n: out of grammar.)
*/
static int conv_rule(char c, struct rule* r) {
  memset(r, 0, sizeof *r);
  r->width = 1;
  switch (c) {
  case 'd': case 'i':
    r->flags = FL_MINUS | FL_PLUS | FL_SPACE | FL_ZERO; r->prec = 1; r->vkind = VK_INT;
    r->nmods = 8; for (int i = 0; i < 8; i++) r->mods[i] = i; return 1;
  case 'u':
    r->flags = FL_MINUS | FL_ZERO; r->prec = 1; r->vkind = VK_INT;
    r->nmods = 8; for (int i = 0; i < 8; i++) r->mods[i] = i; return 1;
  case 'o': case 'x': case 'X':
    r->flags = FL_MINUS | FL_HASH | FL_ZERO; r->prec = 1; r->vkind = VK_INT;
    r->nmods = 8; for (int i = 0; i < 8; i++) r->mods[i] = i; return 1;
  case 'f': case 'F': case 'e': case 'E': case 'g': case 'G': case 'a': case 'A':
    r->flags = FL_MINUS | FL_PLUS | FL_SPACE | FL_HASH | FL_ZERO; r->prec = 1; r->vkind = VK_FLT;
    r->nmods = 2; r->mods[0] = M_NONE; r->mods[1] = M_L; return 1;
  case 'c': r->flags = FL_MINUS; r->prec = 0; r->vkind = VK_CHR; r->nmods = 1; return 1;
  case 's': r->flags = FL_MINUS; r->prec = 1; r->vkind = VK_STR; r->nmods = 1; return 1;
  case 'p': r->flags = FL_MINUS; r->prec = 0; r->vkind = VK_PTR; r->nmods = 1; return 1;
  case '$': r->flags = 0; r->width = 0; r->prec = 0; r->vkind = VK_ANY; r->nmods = 1; return 1;
  }
  return 0;
}

struct spec { char conv; int mod; unsigned flags; int wi, pi; char text[40]; char bare[16]; };

static void spec_build(struct spec* s) {
  char* q = s->text;
  *q++ = '%';
  for (int b = 0; b < 5; b++) if (s->flags & (1u << b)) *q++ = FLAGCH[b];
  if (WIDTHS[s->wi] >= 0) q += sprintf(q, "%d", WIDTHS[s->wi]);
  if (PRECS[s->pi] >= 0) q += sprintf(q, ".%d", PRECS[s->pi]);
  q = stpcpy(q, MODS[s->mod]);
  *q++ = s->conv; *q = 0;
  snprintf(s->bare, sizeof s->bare, "%%%s%c", MODS[s->mod], s->conv);
}

/* ---- value grids -------------------------------------------------------------------- */

struct value { int kind; int level; int wide; int64_t i; double d; const char* s; var obj; const char* name; };

#define NIV 19
static struct value IV[NIV] = {
  { VK_INT, 0, 0, 0, 0, 0, 0, "0" }, { VK_INT, 2, 0, 1, 0, 0, 0, "1" }, { VK_INT, 0, 0, -1, 0, 0, 0, "-1" },
  { VK_INT, 1, 0, 42, 0, 0, 0, "42" }, { VK_INT, 2, 0, -42, 0, 0, 0, "-42" },
  { VK_INT, 2, 0, 127, 0, 0, 0, "127" }, { VK_INT, 1, 0, 128, 0, 0, 0, "128" }, { VK_INT, 2, 0, 255, 0, 0, 0, "255" },
  { VK_INT, 1, 0, -129, 0, 0, 0, "-129" }, { VK_INT, 1, 0, 32768, 0, 0, 0, "32768" }, { VK_INT, 2, 0, 65535, 0, 0, 0, "65535" },
  { VK_INT, 2, 0, -32769, 0, 0, 0, "-32769" },
  { VK_INT, 0, 0, INT_MAX, 0, 0, 0, "INT_MAX" }, { VK_INT, 0, 0, INT_MIN, 0, 0, 0, "INT_MIN" },
  /* beyond int: only for l ll j z t (no C value of type int corresponds to them) */
  { VK_INT, 1, 1, 4294967296LL, 0, 0, 0, "2^32" }, { VK_INT, 2, 1, 2147483648LL, 0, 0, 0, "2^31" },
  { VK_INT, 2, 1, -2147483649LL, 0, 0, 0, "-2^31-1" },
  { VK_INT, 0, 1, INT64_MAX, 0, 0, 0, "INT64_MAX" }, { VK_INT, 0, 1, INT64_MIN, 0, 0, 0, "INT64_MIN" },
};

#define NFV 15
static struct value FV[NFV] = {
  { VK_FLT, 0, 0, 0, 0.0, 0, 0, "0.0" }, { VK_FLT, 1, 0, 0, 1.0, 0, 0, "1.0" }, { VK_FLT, 0, 0, 0, -1.5, 0, 0, "-1.5" },
  { VK_FLT, 1, 0, 0, 0.1, 0, 0, "0.1" }, { VK_FLT, 2, 0, 0, 0.5, 0, 0, "0.5" }, { VK_FLT, 1, 0, 0, 2.5, 0, 0, "2.5" },
  { VK_FLT, 1, 0, 0, 9.9996, 0, 0, "9.9996" }, { VK_FLT, 0, 0, 0, 123456.789, 0, 0, "123456.789" },
  { VK_FLT, 2, 0, 0, 1e-5, 0, 0, "1e-5" }, { VK_FLT, 1, 0, 0, 1e300, 0, 0, "1e300" },
  { VK_FLT, 0, 0, 0, 4.9406564584124654e-324, 0, 0, "denormal-min" },
  { VK_FLT, 1, 0, 0, 0.0 /* -0.0 set at init */, 0, 0, "-0.0" },
  { VK_FLT, 0, 0, 0, 0.0 /* +inf */, 0, 0, "+inf" }, { VK_FLT, 2, 0, 0, 0.0 /* -inf */, 0, 0, "-inf" },
  { VK_FLT, 2, 0, 0, 0.0 /* nan */, 0, 0, "nan" },
};

#define NSV 6
static struct value SV[NSV] = {
  { VK_STR, 0, 0, 0, 0, "", 0, "empty" }, { VK_STR, 1, 0, 0, 0, "a", 0, "a" }, { VK_STR, 0, 0, 0, 0, "hello", 0, "hello" },
  { VK_STR, 1, 0, 0, 0, "100%d %s%%", 0, "with-percent" }, { VK_STR, 1, 0, 0, 0, "q\"uo\\te\n\t?", 0, "with-escapes" },
  { VK_STR, 0, 0, 0, 0, "0123456789abcdefghijABCDEFGHIJ0123456789", 0, "40chars" },
};

#define NCV 8
static struct value CV[NCV] = {
  { VK_CHR, 0, 0, 'A', 0, 0, 0, "'A'" }, { VK_CHR, 1, 0, ' ', 0, 0, 0, "' '" }, { VK_CHR, 0, 0, '%', 0, 0, 0, "'%'" },
  { VK_CHR, 1, 0, '~', 0, 0, 0, "'~'" }, { VK_CHR, 1, 0, '\n', 0, 0, 0, "'\\n'" }, { VK_CHR, 2, 0, 1, 0, 0, 0, "0x01" },
  { VK_CHR, 1, 0, 255, 0, 0, 0, "0xff" }, { VK_CHR, 2, 0, 321, 0, 0, 0, "321(=0x141)" },
};

#define NPV 6
static struct value PV[NPV] = {
  { VK_PTR, 0, 0, 0, 0, 0, 0, "heap-String-object" }, { VK_PTR, 0, 0, 0, 0, 0, 0, "static-Type-object" }, { VK_PTR, 1, 0, 0, 0, 0, 0, "NULL" },
  { VK_PTR, 0, 0, 0, 0, 0, 0, "stack-Ref-object(no Show)" },
  { VK_PTR, 1, 0, 0, 0, 0, 0, "Box-of-Int-4" }, { VK_PTR, 1, 0, 0, 0, 0, 0, "range(3)" },
};

/* ---- sinks -------------------------------------------------------------------------- */

static var SS;            /* heap String sink */
static var PFX;           /* String holding PREFIX */
static var FF;            /* File object over ffp (stack object in main) */
static FILE* ffp; static char* mbuf; static size_t msize;
static int file_is_tmp;
static char* rbuf; static size_t rcap;
static int maxlevel = 2, nW = 4, nP = 4, nStart = 3, count_nt = 1;
static const int STARTS[3] = { 0, PLEN, 3 };      /* index 0,1 form the "small" grid */

/* replay filter: -1 / 0 = any */
static int R_on, R_f = -1, R_w = -1, R_p = -1, R_v = -1, R_x = -1, R_s = -1, R_k = -1, R_h = -1, R_n = -1;
static char R_c, R_m[8];

static const char* CTXNAME[8] = { "alone", "start+literal", "literal+end", "spec-then-%s", "%i-then-spec",
                                  "between-literals", "between-%%", "twice-around-%%" };
static const char* SINKNAME[2] = { "string", "file" };

struct got { int ret; var exc; size_t len; int prefix_ok; int total_ok; const char* text; };


/* one formatting on one sink; fmt is an exact-size heap copy so that ASan sees any over-read */
static void run_sink(int sink, int start, const char* fmt, var args, struct got* g) {
  volatile int ret = -77777;
  memset(g, 0, sizeof *g);
  if (sink == 0) {
    assign(SS, PFX);
    var e = VF_CATCH(ret = print_to_with(SS, start, fmt, args));
    vf.executions++;
    g->exc = e; g->ret = ret;
    const char* r = c_str(SS);
    size_t rl = strlen(r);
    g->prefix_ok = rl >= (size_t)start && memcmp(r, PREFIX, start) == 0;
    g->len = rl >= (size_t)start ? rl - start : 0;
    g->text = rl >= (size_t)start ? r + start : "";
    g->total_ok = 1;
  } else {
    fseeko(ffp, 0, SEEK_SET);
    fwrite(PREFIX, 1, PLEN, ffp);
    var e = VF_CATCH(ret = print_to_with(FF, start, fmt, args));
    vf.executions++;
    g->exc = e; g->ret = ret;
    off_t end = ftello(ffp);
    fflush(ffp);
    const char* data;
    if (file_is_tmp) {
      if ((size_t)end + 1 > rcap) { rcap = end + 4096; rbuf = realloc(rbuf, rcap); }
      fseeko(ffp, 0, SEEK_SET);
      size_t n = fread(rbuf, 1, end, ffp);
      if (n != (size_t)end) { fprintf(stderr, "h_fmt: short read from the temporary file\n"); _exit(2); }
      data = rbuf;
    } else {
      data = mbuf;
    }
    g->prefix_ok = end >= PLEN && memcmp(data, PREFIX, PLEN) == 0;
    g->len = end >= PLEN ? (size_t)(end - PLEN) : 0;
    g->text = end >= PLEN ? data + PLEN : "";
    g->total_ok = 1;
  }
}

static char* printable(const char* s, size_t n) {
  static char b[4][600]; static int w; w = (w + 1) & 3;
  size_t o = 0;
  for (size_t i = 0; i < n && o + 6 < sizeof b[0]; i++) {
    unsigned char c = (unsigned char)s[i];
    if (c >= 0x20 && c < 0x7f && c != '\\') b[w][o++] = c;
    else o += snprintf(b[w] + o, sizeof b[0] - o, "\\x%02x", c);
  }
  b[w][o] = 0;
  return b[w];
}

/* context: format text, argument tuple selector, expected text around the specification's text E */
enum { A_A, A_AQ, A_IA, A_AA, A_NONE, A_I };
static int ctx_build(int x, const char* sp, const char* E, size_t el, char* fmt, char* exp, size_t* explen) {
  size_t o = 0;
  #define LIT(s) do { memcpy(exp + o, s, strlen(s)); o += strlen(s); } while (0)
  #define EE()   do { memcpy(exp + o, E, el); o += el; } while (0)
  int a = A_A;
  switch (x) {
  case 0: sprintf(fmt, "%s", sp);          EE(); break;
  case 1: sprintf(fmt, "%sxd5", sp);       EE(); LIT("xd5"); break;
  case 2: sprintf(fmt, "a5%s", sp);        LIT("a5"); EE(); break;
  case 3: sprintf(fmt, "%s%%s", sp);       EE(); LIT("Qq"); a = A_AQ; break;
  case 4: sprintf(fmt, "%%i%s", sp);       LIT("-7"); EE(); a = A_IA; break;
  case 5: sprintf(fmt, "<<%s>>", sp);      LIT("<<"); EE(); LIT(">>"); break;
  case 6: sprintf(fmt, "%%%%%s%%%%", sp);  LIT("%"); EE(); LIT("%"); break;
  case 7: sprintf(fmt, "%s%%%%%s", sp, sp); EE(); LIT("%"); EE(); a = A_AA; break;
  }
  exp[o] = 0; *explen = o;
  return a;
  #undef LIT
  #undef EE
}

static const char* modclass(int mod) { return mod == M_NONE ? "int" : (mod == M_HH || mod == M_H) ? "narrow" : "wide"; }

static char lbl[200];
static const char* cur_valtype = "?";     /* type name of the %$ argument in progress */
static const char* mklabel(const struct spec* s, int x, int k, const char* symptom) {
  snprintf(lbl, sizeof lbl, "print/%%%c/%s/%s/%s/%s", s->conv, s->conv == '$' ? cur_valtype : modclass(s->mod), CTXNAME[x], SINKNAME[k], symptom);
  return lbl;
}

/* judge one formatting; returns 1 if a violation was recorded */
static int judge(const struct spec* s, const char* casestr, const char* fmt, int x, int k, int start,
                 const struct got* g, const char* exp, size_t explen) {
  vf.evaluations++;
  if (g->exc) {
    char sym[64]; snprintf(sym, sizeof sym, "raises-%s", vf_exc_name(g->exc));
    vf_violation(mklabel(s, x, k, sym), casestr, "print_to(%s, %d, \"%s\") raised %s; C writes '%s'",
      SINKNAME[k], start, printable(fmt, strlen(fmt)), vf_exc_name(g->exc), printable(exp, explen));
    return 1;
  }
  if (!g->prefix_ok) {
    vf_violation(mklabel(s, x, k, "prefix-damaged"), casestr, "print_to(%s, %d, \"%s\"): the %d characters before the start position were changed",
      SINKNAME[k], start, printable(fmt, strlen(fmt)), k == 0 ? start : PLEN);
    return 1;
  }
  if (g->len != explen || memcmp(g->text, exp, explen) != 0) {
    const char* sym = "text-differs";
    if (g->len > explen && memcmp(g->text, exp, explen) == 0) sym = "extra-characters-after-text";
    else if (g->len < explen && memcmp(g->text, exp, g->len) == 0) sym = "text-truncated";
    vf_violation(mklabel(s, x, k, sym), casestr, "print_to(%s, %d, \"%s\") wrote '%s' (%zu chars); C printf writes '%s' (%zu chars)",
      SINKNAME[k], start, printable(fmt, strlen(fmt)), printable(g->text, g->len), g->len, printable(exp, explen), explen);
    return 1;
  }
  if (g->ret != start + (int)explen) {
    vf_violation(mklabel(s, x, k, "position"), casestr, "print_to(%s, %d, \"%s\") returned %d; start %d + %zu characters written = %d",
      SINKNAME[k], start, printable(fmt, strlen(fmt)), g->ret, start, explen, start + (int)explen);
    return 1;
  }
  return 0;
}

/* ---- oracle: snprintf with the corresponding C value --------------------------------- */

static int oracle(char* b, size_t n, const char* sp, char conv, int mod, const struct value* v) {
  switch (conv) {
  case 'd': case 'i':
    switch (mod) {
    case M_NONE: return snprintf(b, n, sp, (int)v->i);
    case M_HH:   return snprintf(b, n, sp, (int)(signed char)v->i);
    case M_H:    return snprintf(b, n, sp, (int)(short)v->i);
    case M_L:    return snprintf(b, n, sp, (long)v->i);
    case M_LL:   return snprintf(b, n, sp, (long long)v->i);
    case M_J:    return snprintf(b, n, sp, (intmax_t)v->i);
    case M_Z:    return snprintf(b, n, sp, (ssize_t)v->i);
    case M_T:    return snprintf(b, n, sp, (ptrdiff_t)v->i);
    }
    break;
  case 'u': case 'o': case 'x': case 'X':
    switch (mod) {
    case M_NONE: return snprintf(b, n, sp, (unsigned)v->i);
    case M_HH:   return snprintf(b, n, sp, (unsigned)(unsigned char)v->i);
    case M_H:    return snprintf(b, n, sp, (unsigned)(unsigned short)v->i);
    case M_L:    return snprintf(b, n, sp, (unsigned long)v->i);
    case M_LL:   return snprintf(b, n, sp, (unsigned long long)v->i);
    case M_J:    return snprintf(b, n, sp, (uintmax_t)v->i);
    case M_Z:    return snprintf(b, n, sp, (size_t)v->i);
    case M_T:    return snprintf(b, n, sp, (size_t)(ptrdiff_t)v->i);
    }
    break;
  case 'f': case 'F': case 'e': case 'E': case 'g': case 'G': case 'a': case 'A':
    return snprintf(b, n, sp, v->d);
  case 'c': return snprintf(b, n, sp, (int)v->i);
  case 's': return snprintf(b, n, sp, v->s);
  case 'p': return snprintf(b, n, sp, (void*)v->obj);
  }
  return -1;
}

/* ---- show_to itself: same text and "start + written" on every sink and start ------------ */

static char SHOWN[8192], JOIN[8192];
static size_t SHOWN_LEN;

static const char* cur_shape_feat = NULL;     /* element feature of the container shape in progress, for the labels */
static const char* valtype(var a) { return a ? c_str(type_of(a)) : "NULL"; }

/* runs show_to(o, String, 0) as the reference into SHOWN, then show_to on both sinks at every
** start; returns 0 if show_to keeps the protocol, 1 if a violation was recorded */
static int show_protocol(var o, const char* name) {
  static var whole = NULL;
  if (!whole) whole = new_raw(String);
  char lab[240];
  char tnb[200];
  const char* tn = valtype(o);
  if (cur_shape_feat) { snprintf(tnb, sizeof tnb, "%s/%s", tn, cur_shape_feat); tn = tnb; }
  SHOWN[0] = 0; SHOWN_LEN = 0;
  assign(whole, $S(""));
  volatile int sr = -1;
  volatile var e = VF_CATCH(sr = show_to(o, whole, 0));
  vf.executions++; vf.evaluations++;
  if (e) { snprintf(lab, sizeof lab, "show/%s/raises-%s", tn, vf_exc_name(e)); vf_violation(lab, NULL, "show_to(%s, string, 0) raised %s", name, vf_exc_name(e)); return 1; }
  size_t wl = strlen(c_str(whole));
  if (wl >= sizeof SHOWN) { vf_note("show text of %s too long for the harness buffer, skipped", name); return 1; }
  memcpy(SHOWN, c_str(whole), wl + 1); SHOWN_LEN = wl;
  if ((size_t)sr != wl) {
    snprintf(lab, sizeof lab, "show/%s/string/position-returned", tn);
    vf_violation(lab, NULL, "show_to(%s, string, 0) returned %d but wrote %zu characters '%s'", name, sr, wl, printable(SHOWN, wl));
    return 1;
  }
  static const int SHSTARTS[4] = { 0, 5, PLEN, 3 };
  for (volatile int si = 0; si < 4; si++) for (volatile int k = 0; k < 2; k++) {
    volatile int ret = -1;
    size_t gl; const char* gt; int pok;
    const int st = SHSTARTS[si];
    if (k == 0) {
      assign(SS, PFX);
      e = VF_CATCH(ret = show_to(o, SS, st));
      const char* r = c_str(SS); size_t rl = strlen(r);
      pok = rl >= (size_t)st && memcmp(r, PREFIX, st) == 0;
      gl = pok ? rl - st : rl; gt = pok ? r + st : r;
    } else {
      fseeko(ffp, 0, SEEK_SET); fwrite(PREFIX, 1, PLEN, ffp);
      e = VF_CATCH(ret = show_to(o, FF, st));
      off_t end = ftello(ffp); fflush(ffp);
      const char* data = mbuf;
      if (file_is_tmp) {
        if ((size_t)end + 1 > rcap) { rcap = end + 4096; rbuf = realloc(rbuf, rcap); }
        fseeko(ffp, 0, SEEK_SET); if (fread(rbuf, 1, end, ffp) != (size_t)end) _exit(2);
        data = rbuf;
      }
      pok = end >= PLEN && memcmp(data, PREFIX, PLEN) == 0;
      gl = pok ? (size_t)(end - PLEN) : (size_t)end; gt = pok ? data + PLEN : data;
    }
    vf.executions++; vf.evaluations++;
    const char* sym = NULL;
    if (e) sym = "raises";
    else if (!pok) sym = "prefix-damaged";
    else if (gl != wl || memcmp(gt, SHOWN, wl) != 0) sym = "text-depends-on-start-or-sink";
    else if (ret != st + (int)wl) sym = "position-returned";
    if (sym) {
      snprintf(lab, sizeof lab, "show/%s/%s/%s", tn, SINKNAME[k], sym);
      /* what that does to print_to with %$ (the statement of C14) */
      static char demo[300];
      char gcopy[200]; snprintf(gcopy, sizeof gcopy, "%s", printable(gt, gl));
      volatile int pr = -1;
      assign(SS, $S(""));
      var e2 = VF_CATCH(pr = print_to(SS, 0, "<<%$>>", o));
      snprintf(demo, sizeof demo, "print_to(string, 0, \"<<%%$>>\", obj) wrote '%s' and returned %d%s", printable(c_str(SS), strlen(c_str(SS))), pr, e2 ? " (raised)" : "");
      vf_violation(lab, NULL, "show_to(%s, %s, %d) wrote '%s' and returned %d (%s); expected text '%s' and position %d + %zu = %d; consequently %s, expected '<<%s>>' and %zu",
        name, SINKNAME[k], st, gcopy, ret, e ? vf_exc_name(e) : "no exception", printable(SHOWN, wl), st, wl, st + (int)wl, demo, printable(SHOWN, wl), wl + 4);
      return 1;
    }
  }
  return 0;
}

/* ---- grid mode ----------------------------------------------------------------------- */

static char E[2048], BARE[2048], FMT[256], EXP[4200], CASE[1400];

static void case_string(const struct spec* s, int vi, int x, int si, int k, const char* fmt, const struct value* v) {
  snprintf(CASE, sizeof CASE, "c=%c m=%s f=%u w=%d p=%d v=%d x=%d s=%d k=%d | format \"%s\" value %s context %s start %d sink %s",
    s->conv, MODNAME[s->mod], s->flags, s->wi, s->pi, vi, x, si, k, printable(fmt, strlen(fmt)), v->name, CTXNAME[x], STARTS[si], SINKNAME[k]);
}

/* all contexts x starts x sinks for one specification and one value object */
static void contexts(const struct spec* s, int vi, const struct value* v, var a, const char* e, size_t el) {
  var Q = $S("Qq");
  var I7 = $I(-7);
  var tA = tuple(a), tAQ = tuple(a, Q), tIA = tuple(I7, a), tAA = tuple(a, a);
  for (int x = 0; x < 8; x++) {
    if (R_on && R_x >= 0 && x != R_x) continue;
    size_t explen;
    int asel = ctx_build(x, s->text, e, el, FMT, EXP, &explen);
    var args = asel == A_A ? tA : asel == A_AQ ? tAQ : asel == A_IA ? tIA : tAA;
    size_t fl = strlen(FMT);
    char* fmt = malloc(fl + 1);            /* exact size: an over-read is an ASan report */
    memcpy(fmt, FMT, fl + 1);
    for (int si = 0; si < nStart; si++) {
      if (R_on && R_s >= 0 && si != R_s) continue;
      struct got g0, g1;
      int have0 = 0;
      for (int k = 0; k < 2; k++) {
        if (R_on && R_k >= 0 && k != R_k) continue;
        struct got* g = k == 0 ? &g0 : &g1;
        run_sink(k, STARTS[si], fmt, args, g);
        int bad = 0;
        if (g->exc || !g->prefix_ok || g->len != explen || memcmp(g->text, EXP, explen) != 0 || g->ret != STARTS[si] + (int)explen) {
          case_string(s, vi, x, si, k, FMT, v);
          bad = judge(s, CASE, FMT, x, k, STARTS[si], g, EXP, explen);
        } else vf.evaluations++;
        if (k == 0 && !bad) have0 = 1;   /* the String sink is not touched while the File sink runs */
        if (k == 1 && have0 && !bad && (g0.len != g1.len || memcmp(g0.text, g1.text, g0.len) != 0 || g0.ret != g1.ret)) {
          case_string(s, vi, x, si, k, FMT, v);
          vf_violation(mklabel(s, x, k, "sinks-differ"), CASE, "String sink got '%s' (returned %d), File sink got '%s' (returned %d)",
            printable(g0.text, g0.len), g0.ret, printable(g1.text, g1.len), g1.ret);
        }
        /* no samples whose text contains an address (evidence stays identical from run to run) */
        if (s->conv != 'p' && !(s->conv == '$' && v->kind >= VK_PTR) && vf_want_sample()) {
          vf_sample("print_to(%s, %d, \"%s\", %s) == '%s' -> %d", SINKNAME[k], STARTS[si], printable(FMT, fl), v->name, printable(EXP, explen), g->ret);
        }
      }
    }
    free(fmt);
  }
}

static uint64_t n_specs, n_pairs;

static void grid_conv(char conv) {
  struct rule r;
  if (!conv_rule(conv, &r)) { fprintf(stderr, "h_fmt: unknown conversion '%c'\n", conv); _exit(2); }
  for (int mi = 0; mi < r.nmods; mi++) {
    int mod = r.mods[mi];
    if (R_on && strcmp(R_m, MODNAME[mod]) != 0) continue;
    for (unsigned fl = 0; fl < 32; fl++) {
      if (fl & ~r.flags) continue;
      if (R_on && R_f >= 0 && (unsigned)R_f != fl) continue;
      for (int wi = 0; wi < (r.width ? nW : 1); wi++) {
        if (R_on && R_w >= 0 && R_w != wi) continue;
        for (int pi = 0; pi < (r.prec ? nP : 1); pi++) {
          if (R_on && R_p >= 0 && R_p != pi) continue;
          struct spec s = { conv, mod, fl, wi, pi, "", "" };
          spec_build(&s);
          n_specs++;
          /* the value grid of this conversion */
          struct value* grids[4]; int gn[4]; int ng = 0;
          switch (r.vkind) {
          case VK_INT: grids[ng] = IV; gn[ng++] = NIV; break;
          case VK_FLT: grids[ng] = FV; gn[ng++] = NFV; break;
          case VK_STR: grids[ng] = SV; gn[ng++] = NSV; break;
          case VK_CHR: grids[ng] = CV; gn[ng++] = NCV; break;
          case VK_PTR: grids[ng] = PV; gn[ng++] = NPV; break;
          case VK_ANY: grids[ng] = IV; gn[ng++] = NIV; grids[ng] = FV; gn[ng++] = NFV; grids[ng] = SV; gn[ng++] = NSV;
                       grids[ng] = PV; gn[ng++] = NPV; break;
          }
          int vi = -1;
          for (int gi = 0; gi < ng; gi++) for (int j = 0; j < gn[gi]; j++) {
            struct value* v = &grids[gi][j];
            vi++;
            if (v->level > maxlevel) continue;
            if (v->wide && !(mod >= M_L || conv == '$')) continue;
            if (R_on && R_v >= 0 && R_v != vi) continue;
            vf_watchdog(60);
            vf_set_cur("c=%c m=%s f=%u w=%d p=%d v=%d | specification \"%s\" value %s (all contexts, starts, sinks)",
              conv, MODNAME[mod], fl, wi, pi, vi, s.text, v->name);
            n_pairs++;
            /* stack value objects live in this block (not inside a switch) */
            var aI = $I(v->i), aF = $F(v->d), aS = $S((char*)(v->s ? v->s : ""));
            var a = (v->kind == VK_INT || v->kind == VK_CHR) ? aI : v->kind == VK_FLT ? aF : v->kind == VK_STR ? aS : v->obj;
            int el;
            if (conv == '$') {
              /* the reference for %$ is show_to of the same object; if show_to itself breaks the
              ** position protocol that is the finding, and the contexts would only repeat it */
              cur_valtype = valtype(a);
              if (show_protocol(a, v->name)) continue;
              el = (int)SHOWN_LEN;
              if ((size_t)el >= sizeof E) continue;
              memcpy(E, SHOWN, el + 1);
              if (count_nt && el > 0) vf.nontrivial++;
            } else {
              el = oracle(E, sizeof E, s.text, conv, mod, v);
              if (el < 0 || (size_t)el >= sizeof E) { fprintf(stderr, "h_fmt: oracle failed for %s\n", s.text); _exit(2); }
              int bl = oracle(BARE, sizeof BARE, s.bare, conv, mod, v);
              /* non-trivial: flags/width/precision change what the bare conversion would write */
              if (count_nt && (bl != el || memcmp(E, BARE, el) != 0)) vf.nontrivial++;
            }
            contexts(&s, vi, v, a, E, (size_t)el);
          }
        }
      }
    }
  }
}

/* ---- missing arguments ------------------------------------------------------------------ */

static void missing_conv(char conv) {
  struct rule r;
  conv_rule(conv, &r);
  cur_valtype = "Int";          /* the %$ argument of this mode is an Int */
  var Q = $S("Qq"); (void)Q;
  var I7 = $I(-7);
  for (int mi = 0; mi < r.nmods; mi++) {
    int mod = r.mods[mi];
    if (R_on && strcmp(R_m, MODNAME[mod]) != 0) continue;
    for (unsigned fl = 0; fl < 32; fl++) {
      if (fl & ~r.flags) continue;
      if (R_on && R_f >= 0 && (unsigned)R_f != fl) continue;
      for (int wi = 0; wi < (r.width ? nW : 1); wi++) {
        if (R_on && R_w >= 0 && R_w != wi) continue;
        for (int pi = 0; pi < (r.prec ? nP : 1); pi++) {
          if (R_on && R_p >= 0 && R_p != pi) continue;
          struct spec s = { conv, mod, fl, wi, pi, "", "" };
          spec_build(&s);
          n_specs++;
          var a = r.vkind == VK_FLT ? (var)$F(1.5) : r.vkind == VK_STR ? (var)$S("hello") : (var)$I(65);
          var t0 = tuple(), tA = tuple(a), tI = tuple(I7);
          for (int x = 0; x < 8; x++) {
            if (R_on && R_x >= 0 && x != R_x) continue;
            size_t explen;
            int asel = ctx_build(x, s.text, "", 0, FMT, EXP, &explen);
            int need = asel == A_A ? 1 : 2;
            size_t fl_ = strlen(FMT);
            char* fmt = malloc(fl_ + 1); memcpy(fmt, FMT, fl_ + 1);
            for (int n = 0; n < need; n++) {
              if (R_on && R_n >= 0 && n != R_n) continue;
              var args = n == 0 ? t0 : asel == A_IA ? tI : tA;
              for (int k = 0; k < 2; k++) {
                if (R_on && R_k >= 0 && k != R_k) continue;
                vf_watchdog(60);
                vf_set_cur("missing c=%c m=%s f=%u w=%d p=%d x=%d n=%d k=%d | format \"%s\" needs %d argument(s), %d given, sink %s",
                  conv, MODNAME[mod], fl, wi, pi, x, n, k, printable(FMT, fl_), need, n, SINKNAME[k]);
                struct got g;
                run_sink(k, 0, fmt, args, &g);
                vf.evaluations++;
                if (g.exc != FormatError) {
                  char sym[80];
                  if (g.exc) snprintf(sym, sizeof sym, "too-few-arguments/raises-%s", vf_exc_name(g.exc));
                  else snprintf(sym, sizeof sym, "too-few-arguments/no-exception");
                  vf_violation(mklabel(&s, x, k, sym), NULL, "print_to with \"%s\" and %d of %d arguments: %s; FormatError expected",
                    printable(FMT, fl_), n, need, g.exc ? vf_exc_name(g.exc) : "returned normally");
                } else if (count_nt && n > 0) vf.nontrivial++;   /* arguments ran out after some were consumed */
                if (len(current(Exception)) != 0) {
                  vf_violation(mklabel(&s, x, k, "too-few-arguments/exception-depth"), NULL, "exception depth not restored after FormatError");
                }
                if (vf_want_sample()) vf_sample("print_to(%s, 0, \"%s\") with %d of %d arguments -> %s", SINKNAME[k], printable(FMT, fl_), n, need, vf_exc_name(g.exc));
              }
            }
            free(fmt);
          }
        }
      }
    }
  }
}

/* ---- %$ on containers --------------------------------------------------------------------- */

#define NSHAPES 26          /* hand-written shapes */
#define NNEST   6           /* containers of containers holding grid values */
#define NKINDS  7
#define NGEN    (NKINDS * 18)
#define NSHAPES_ALL (NSHAPES + NNEST + NGEN)
#define NUSER   48          /* containers of plain user structs of sizes 1,3,5,8,12,20 */
#define NBASE   10          /* base containers the views are laid over */
#define NVIEW   10
#define NRANGE  27          /* Range objects and views over a big-valued Range */
#define NSHAPES_MAX (NSHAPES_ALL + NUSER + NBASE * NVIEW + NRANGE)
static const char* shape_name[NSHAPES_MAX];
static char shape_name_buf[NSHAPES_MAX][160];
static const char* shape_elem[NSHAPES_MAX];     /* element feature for the label (generated shapes) */
static char shape_elem_buf[NSHAPES_MAX][64];

/* element value grids that stress each element type's own show text */
enum { ET_INT, ET_FLT, ET_STR };
static const int64_t EI[8] = { 0, -1, 2147483647LL, 2147483648LL, 4294967301LL, -2147483649LL, INT64_MAX, INT64_MIN };
static const char* EIN[8] = { "0", "-1", "2^31-1", "2^31", "2^32+5", "-2^31-1", "INT64_MAX", "INT64_MIN" };
static const double EF[4] = { 0.5, -0.0, 1e300, 123456.789 };
static const char* EFN[4] = { "0.5", "-0.0", "1e300", "123456.789" };
static const char* ES[3] = { "", "q\"uo\\te\n%d%", "0123456789abcdefghijABCDEFGHIJ0123456789" };
static const char* ESN[3] = { "empty", "quote-backslash-newline-percent", "40chars" };
static const int ECOUNT[3] = { 8, 4, 3 };
static const char* ETN[3] = { "Int", "Float", "String" };
static const char* KINDN[NKINDS] = { "Array", "List", "Tuple", "Table-keys", "Table-values", "Tree-keys", "Tree-values" };

static var emk(int t, int i) {
  return t == ET_INT ? (var)new_raw(Int, $I(EI[i])) : t == ET_FLT ? (var)new_raw(Float, $F(EF[i])) : (var)new_raw(String, $S((char*)ES[i]));
}
static const char* ename(int t, int i) { return t == ET_INT ? EIN[i] : t == ET_FLT ? EFN[i] : ESN[i]; }
static var etype(int t) { return t == ET_INT ? Int : t == ET_FLT ? Float : String; }

/* a container of the given kind holding grid values lo..hi-1 of element type t */
static var build_kind(int kind, int t, int lo, int hi) {
  var o = NULL, T_ = etype(t);
  switch (kind) {
  case 0: o = new_raw(Array, T_); break;
  case 1: o = new_raw(List, T_); break;
  case 2: o = new_raw(Tuple); break;
  case 3: o = new_raw(Table, T_, Int); break;
  case 4: o = new_raw(Table, String, T_); break;
  case 5: o = new_raw(Tree, T_, Int); break;
  case 6: o = new_raw(Tree, Int, T_); break;
  }
  for (int i = lo; i < hi; i++) {
    var e = emk(t, i);
    char kb[16]; snprintf(kb, sizeof kb, "k%d", i);
    switch (kind) {
    case 0: case 1: case 2: push(o, e); break;
    case 3: case 5: set(o, e, $I(i)); break;
    case 4: set(o, $S(kb), e); break;
    case 6: set(o, $I(i), e); break;
    }
  }
  return o;
}

static var make_generated(int h) {
  if (h < NSHAPES + NNEST) {
    int n = h - NSHAPES;
    var o = NULL;
    const char* nm = "";
    switch (n) {
    case 0: nm = "Array(Array)[Array(Int grid), Array(Int)[5]]";
            o = new_raw(Array, Array, build_kind(0, ET_INT, 0, 8), build_kind(0, ET_INT, 0, 1)); break;
    case 1: nm = "List(Array)[Array(Float grid), Array(Int 2^31, 2^32+5, -2^31-1)]";
            o = new_raw(List, Array, build_kind(0, ET_FLT, 0, 4), build_kind(0, ET_INT, 3, 6)); break;
    case 2: nm = "Tuple(Array(Int grid), List(Float grid), Table(String->Int grid), Tree(Int grid->Int))";
            o = new_raw(Tuple, build_kind(0, ET_INT, 0, 8), build_kind(1, ET_FLT, 0, 4), build_kind(4, ET_INT, 0, 8), build_kind(5, ET_INT, 0, 8)); break;
    case 3: nm = "Table(String->Array(Int grid))";
            o = new_raw(Table, String, Array); set(o, $S("a"), build_kind(0, ET_INT, 0, 8)); set(o, $S("b"), build_kind(0, ET_INT, 4, 5)); break;
    case 4: nm = "Tree(Int->List(String grid))";
            o = new_raw(Tree, Int, List); set(o, $I(1), build_kind(1, ET_STR, 0, 3)); set(o, $I(2), build_kind(1, ET_INT, 3, 8)); break;
    case 5: nm = "List(Table)[Table(Int grid->Int)]";
            o = new_raw(List, Table, build_kind(3, ET_INT, 0, 8)); break;
    }
    snprintf(shape_name_buf[h], sizeof shape_name_buf[h], "%s", nm);
    shape_name[h] = shape_name_buf[h];
    shape_elem[h] = "nested";
    return o;
  }
  int g = h - NSHAPES - NNEST;
  int kind = g / 18, r = g % 18, t, lo, hi;
  if (r < 8) { t = ET_INT; lo = r; hi = r + 1; }
  else if (r < 12) { t = ET_FLT; lo = r - 8; hi = lo + 1; }
  else if (r < 15) { t = ET_STR; lo = r - 12; hi = lo + 1; }
  else { t = r - 15; lo = 0; hi = ECOUNT[t]; }
  if (hi - lo == 1) {
    snprintf(shape_name_buf[h], sizeof shape_name_buf[h], "%s of %s {%s}", KINDN[kind], ETN[t], ename(t, lo));
    snprintf(shape_elem_buf[h], sizeof shape_elem_buf[h], "%s=%s", ETN[t], ename(t, lo));
  } else {
    snprintf(shape_name_buf[h], sizeof shape_name_buf[h], "%s of the whole %s grid (%d values)", KINDN[kind], ETN[t], hi - lo);
    snprintf(shape_elem_buf[h], sizeof shape_elem_buf[h], "%s-grid", ETN[t]);
  }
  shape_name[h] = shape_name_buf[h];
  shape_elem[h] = shape_elem_buf[h];
  return build_kind(kind, t, lo, hi);
}

static var I_(int64_t v) { return new_raw(Int, $I(v)); }
static var S_(const char* s) { return new_raw(String, $S((char*)s)); }
static var F_(double d) { return new_raw(Float, $F(d)); }

static var make_shape(int h) {
  var o = NULL;
  #define NAME(n) shape_name[h] = n
  switch (h) {
  case 0: NAME("Array(Int)[]"); o = new_raw(Array, Int); break;
  case 1: NAME("Array(Int)[5]"); o = new_raw(Array, Int, $I(5)); break;
  case 2: NAME("Array(Int)[1,-2,3]"); o = new_raw(Array, Int, $I(1), $I(-2), $I(3)); break;
  case 3: NAME("Array(String)[a|b, c|empty]"); o = new_raw(Array, String, $S("a"), $S("b, c"), $S("")); break;
  case 4: NAME("Array(Float)[0.5,-1]"); o = new_raw(Array, Float, $F(0.5), $F(-1.0)); break;
  case 5: NAME("Array(Int)[0..8]"); o = new_raw(Array, Int); for (int i = 0; i < 9; i++) push(o, $I(i)); break;
  case 6: NAME("List(Int)[]"); o = new_raw(List, Int); break;
  case 7: NAME("List(Int)[7]"); o = new_raw(List, Int, $I(7)); break;
  case 8: NAME("List(Int)[3,1,2]"); o = new_raw(List, Int, $I(3), $I(1), $I(2)); break;
  case 9: NAME("List(String)[x|y]>]"); o = new_raw(List, String, $S("x"), $S("y]>")); break;
  case 10: NAME("List(Float)[0.25]"); o = new_raw(List, Float, $F(0.25)); break;
  case 11: NAME("Tuple()"); o = new_raw(Tuple); break;
  case 12: NAME("Tuple(1)"); o = new_raw(Tuple, I_(1)); break;
  case 13: NAME("Tuple(1,a,2.5)"); o = new_raw(Tuple, I_(1), S_("a"), F_(2.5)); break;
  case 14: NAME("Tuple(Tuple(1,2),Array[1,-2,3],z)"); o = new_raw(Tuple, new_raw(Tuple, I_(1), I_(2)), new_raw(Array, Int, $I(1), $I(-2), $I(3)), S_("z")); break;
  case 15: NAME("Table(String,Int){}"); o = new_raw(Table, String, Int); break;
  case 16: NAME("Table(String,Int){a:1}"); o = new_raw(Table, String, Int); set(o, $S("a"), $I(1)); break;
  case 17: NAME("Table(String,Int){a:1,b:2,c:3}"); o = new_raw(Table, String, Int); set(o, $S("a"), $I(1)); set(o, $S("b"), $I(2)); set(o, $S("c"), $I(3)); break;
  case 18: NAME("Table(Int,String){10:x,20:y,30:z,40:w}"); o = new_raw(Table, Int, String);
           set(o, $I(10), $S("x")); set(o, $I(20), $S("y")); set(o, $I(30), $S("z")); set(o, $I(40), $S("w")); break;
  case 19: NAME("Table(Int,Int) 12 entries"); o = new_raw(Table, Int, Int); for (int i = 0; i < 12; i++) set(o, $I(i * 55), $I(i)); break;
  case 20: NAME("Tree(Int,Int){}"); o = new_raw(Tree, Int, Int); break;
  case 21: NAME("Tree(Int,Int){1:10}"); o = new_raw(Tree, Int, Int); set(o, $I(1), $I(10)); break;
  case 22: NAME("Tree(Int,Int){2:20,1:10,3:30}"); o = new_raw(Tree, Int, Int); set(o, $I(2), $I(20)); set(o, $I(1), $I(10)); set(o, $I(3), $I(30)); break;
  case 23: NAME("Tree(String,String){k:v,a:b}"); o = new_raw(Tree, String, String); set(o, $S("k"), $S("v")); set(o, $S("a"), $S("b")); break;
  case 24: NAME("Tree(Int,Float) 9 entries"); o = new_raw(Tree, Int, Float); for (int i = 0; i < 9; i++) set(o, $I((i * 4) % 9), $F(i / 4.0)); break;
  case 25: NAME("Tuple(Table{a:1},List[7])"); { var t = new_raw(Table, String, Int); set(t, $S("a"), $I(1)); o = new_raw(Tuple, t, new_raw(List, Int, $I(7))); } break;
  }
  #undef NAME
  return o;
}

/* ---- expected show text of a container, element by element ---------------------------------
** Int / Float / String elements: show_to of a STAND-ALONE object holding the same value (so a
** container that formats its elements itself instead of through their own Show is found out);
** Array/List/Tuple/Table/Tree elements: their own prefix and suffix around the recursively
** expected body; anything else: its own show_to.  Returns the new offset, or cap on overflow. */


/* plain user structs (only a Show instance; cmp, hash, assign are the library's memory defaults) */
static int u_show(var self, var out, int pos, int n) {
  const unsigned char* c = self;
  return print_to(out, pos, "U%i(%i:%i)", $I(n), $I(c[0]), $I(c[n - 1]));
}
#define UTYPE(N) struct U##N { char c[N]; }; \
  static int U##N##_Show(var self, var out, int pos) { return u_show(self, out, pos, N); } \
  var U##N = Cello(U##N, Instance(Show, U##N##_Show, NULL));
UTYPE(1) UTYPE(3) UTYPE(5) UTYPE(8) UTYPE(12) UTYPE(20)
static const int USZ[6] = { 1, 3, 5, 8, 12, 20 };
static var utype(int i) { return i == 0 ? U1 : i == 1 ? U3 : i == 2 ? U5 : i == 3 ? U8 : i == 4 ? U12 : U20; }
static int is_utype(var ty) { for (int i = 0; i < 6; i++) if (ty == utype(i)) return 1; return 0; }
/* a value of user type i in a scratch block (the containers copy it) */
static var umk(int i, int v) {
  static union { char b[sizeof(struct Header) + 32]; var align; } blk;
  memset(&blk, 0, sizeof blk);
  char* o = header_init(blk.b, utype(i), AllocStack);
  for (int j = 0; j < USZ[i]; j++) o[j] = (char)(v + j);
  return o;
}

static int is_container(var ty) { return ty == Array || ty == List || ty == Tuple || ty == Table || ty == Tree || ty == Slice || ty == Range; }

static size_t app(char* buf, size_t o, size_t cap, const char* t, size_t n) {
  if (o >= cap || o + n + 1 > cap) return cap;
  memcpy(buf + o, t, n); buf[o + n] = 0;
  return o + n;
}

static size_t expect_text(var obj, char* buf, size_t o, size_t cap, int depth, size_t* top_count) {
  var tmp = new_raw(String);
  var ty = obj ? type_of(obj) : NULL;
  var sI = $I(0), sF = $F(0.0), sS = $S("");
  if (ty == Int || ty == Float || ty == String) {
    var sa;
    if (ty == Int) { ((struct Int*)sI)->val = c_int(obj); sa = sI; }
    else if (ty == Float) { ((struct Float*)sF)->val = c_float(obj); sa = sF; }
    else { ((struct String*)sS)->val = c_str(obj); sa = sS; }
    show_to(sa, tmp, 0); vf.executions++;
    o = app(buf, o, cap, c_str(tmp), strlen(c_str(tmp)));
  } else if (ty && is_utype(ty)) {
    var sa = new_raw(ty);                 /* a stand-alone object holding the same bytes */
    assign(sa, obj);
    show_to(sa, tmp, 0); vf.executions++;
    del_raw(sa);
    o = app(buf, o, cap, c_str(tmp), strlen(c_str(tmp)));
  } else if (ty && is_container(ty) && depth < 4) {
    show_to(obj, tmp, 0); vf.executions++;
    char* text = strdup(c_str(tmp));
    size_t tl = strlen(text), ob = strcspn(text, "[{(");
    char close = ob < tl ? (text[ob] == '[' ? ']' : text[ob] == '{' ? '}' : ')') : 0;
    char* cb = close ? strrchr(text, close) : NULL;
    if (!cb || (size_t)(cb - text) <= ob) o = app(buf, o, cap, text, tl);
    else {
      int is_map = ty == Table || ty == Tree;
      o = app(buf, o, cap, text, ob + 1);
      size_t count = 0, horizon = len(obj) + 4;
      foreach (item in obj) {
        if (count >= horizon || o >= cap) break;
        if (count > 0) o = app(buf, o, cap, ", ", 2);
        o = expect_text(item, buf, o, cap, depth + 1, NULL);
        if (is_map) { o = app(buf, o, cap, ":", 1); o = expect_text(get(obj, item), buf, o, cap, depth + 1, NULL); }
        count++;
      }
      if (top_count) *top_count = count;
      o = app(buf, o, cap, cb, strlen(cb));
    }
    free(text);
  } else {
    show_to(obj, tmp, 0); vf.executions++;
    o = app(buf, o, cap, c_str(tmp), strlen(c_str(tmp)));
  }
  del_raw(tmp);
  return o;
}

/* kind: 0 a container (everything is checked), 1 a view that shows its items in brackets (no len check),
** 2 an object shown without items (only: %$ == show_to, on both sinks, at every start) */
static void check_shape(int h, var o, int kind) {
  vf_watchdog(60);
  vf_set_cur("show h=%d | %s", h, shape_name[h]);
  cur_valtype = valtype(o);
  char lab[200];
  cur_shape_feat = shape_elem[h];
  int proto_bad = show_protocol(o, shape_name[h]);
  cur_shape_feat = NULL;
  if (proto_bad && SHOWN_LEN == 0) return;
  size_t wl = SHOWN_LEN;
  struct spec s = { '$', M_NONE, 0, 0, 0, "%$", "%$" };
  struct value v = { VK_ANY, 0, 0, 0, 0, NULL, o, shape_name[h] };
  if (kind == 2) {
    if (!proto_bad && wl < 1500) contexts(&s, 1000 + h, &v, o, SHOWN, wl);
    return;
  }
  /* generic parse: prefix up to the first opening bracket, body, last matching closing bracket */
  size_t ob = strcspn(SHOWN, "[{(");
  vf.evaluations++;
  if (ob == wl) { snprintf(lab, sizeof lab, "show/%s/no-bracket", c_str(type_of(o))); vf_violation(lab, NULL, "show text '%s' has no opening bracket", printable(SHOWN, wl)); return; }
  char close = SHOWN[ob] == '[' ? ']' : SHOWN[ob] == '{' ? '}' : ')';
  char* cb = strrchr(SHOWN, close);
  if (!cb || (size_t)(cb - SHOWN) <= ob) { snprintf(lab, sizeof lab, "show/%s/no-closing-bracket", c_str(type_of(o))); vf_violation(lab, NULL, "show text '%s' has no closing bracket", printable(SHOWN, wl)); return; }
  size_t bodylen = (size_t)(cb - SHOWN) - ob - 1;
  /* expected text: own prefix + ", "-join of the elements' own show texts (stand-alone objects of the
  ** same value, nested containers element by element) in iteration order + own suffix */
  size_t count = 0;
  volatile size_t jo = 0;
  var e = VF_CATCH(jo = expect_text(o, JOIN, 0, sizeof JOIN, 0, &count));
  if (e) { vf_note("show h=%d (%s): iterating the object raised %s, its show text could not be judged", h, shape_name[h], vf_exc_name(e)); return; }
  if (jo >= sizeof JOIN) return;
  const char* feat = kind == 1 ? "view" : len(o) == 0 ? "empty" : len(o) == 1 ? "one" : "many";
  char tyfeat[160];
  if (shape_elem[h]) snprintf(tyfeat, sizeof tyfeat, "%s/%s/%s", c_str(type_of(o)), feat, shape_elem[h]);
  else snprintf(tyfeat, sizeof tyfeat, "%s/%s", c_str(type_of(o)), feat);
  if (kind == 0 && count != len(o)) {
    snprintf(lab, sizeof lab, "show/%s/iteration-count", tyfeat);
    vf_violation(lab, NULL, "iteration of %s yields %zu elements, len is %zu", shape_name[h], count, len(o));
    return;
  }
  if (wl != jo || memcmp(SHOWN, JOIN, jo) != 0) {
    size_t eb = jo > ob + 1 + strlen(cb) ? jo - ob - 1 - strlen(cb) : 0;     /* expected body: same prefix and suffix lengths */
    snprintf(lab, sizeof lab, "show/%s/body-is-not-join-of-elements", tyfeat);
    vf_violation(lab, NULL, "show of %s has body '%s'; the elements' own show texts (stand-alone objects of the same values) joined by \", \" in iteration order are '%s'",
      shape_name[h], printable(SHOWN + ob + 1, bodylen), jo > ob + 1 ? printable(JOIN + ob + 1, eb) : "?");
  }
  if (count_nt && count >= 2) vf.nontrivial++;
  if (!strstr(SHOWN + ob, "At 0x") && vf_want_sample()) vf_sample("show(%s) body '%s'", shape_name[h], printable(SHOWN + ob + 1, bodylen));
  if (proto_bad) return;
  /* %$ in every context; contexts() builds case strings of the grid form, the value index 1000+h names the shape */
  if (wl < 1500) contexts(&s, 1000 + h, &v, o, SHOWN, wl);
}

/* containers whose key / value / element type is a plain user struct of size 1, 3, 5, 8, 12, 20 */
static var make_user(int h) {
  int u = h - NSHAPES_ALL, i = u / 8, role = u % 8, m = (i + 1) % 6;
  static const char* ROLE[8] = { "Table(U->Int)", "Table(Int->U)", "Tree(U->Int)", "Tree(Int->U)", "Array(U)", "List(U)", "Table(U->U')", "Tree(U->U')" };
  var T_ = utype(i), M_ = utype(m), o = NULL;
  switch (role) {
  case 0: o = new_raw(Table, T_, Int); break;
  case 1: o = new_raw(Table, Int, T_); break;
  case 2: o = new_raw(Tree, T_, Int); break;
  case 3: o = new_raw(Tree, Int, T_); break;
  case 4: o = new_raw(Array, T_); break;
  case 5: o = new_raw(List, T_); break;
  case 6: o = new_raw(Table, T_, M_); break;
  case 7: o = new_raw(Tree, T_, M_); break;
  }
  for (int j = 0; j < 3; j++) {
    static union { char b[sizeof(struct Header) + 32]; var align; } k2;
    var uv = umk(i, 10 * (j + 1));
    switch (role) {
    case 0: case 2: set(o, uv, $I(100 + j)); break;
    case 1: case 3: set(o, $I(7 * j), uv); break;
    case 4: case 5: push(o, uv); break;
    case 6: case 7: {
      /* the key has to survive the making of the value: copy it aside */
      memcpy(&k2, (char*)uv - sizeof(struct Header), sizeof(struct Header) + USZ[i]);
      var key = k2.b + sizeof(struct Header);
      set(o, key, umk(m, 50 + j));
      break; }
    }
  }
  snprintf(shape_name_buf[h], sizeof shape_name_buf[h], "%s with U = user struct of %d bytes%s, 3 entries", ROLE[role], USZ[i], role >= 6 ? " and U' the next size" : "");
  snprintf(shape_elem_buf[h], sizeof shape_elem_buf[h], "%s/struct-of-%d-bytes", ROLE[role], USZ[i]);
  shape_name[h] = shape_name_buf[h]; shape_elem[h] = shape_elem_buf[h];
  return o;
}

static var fn_odd(var x) { var ty = type_of(x); return (ty == Int ? (c_int(x) & 1) : 1) ? x : NULL; }
static var fn_same(var x) { return x; }

static const char* BASEN[NBASE] = { "Array(Int)[50..54]", "List(String)[a,b,c,d]", "Tuple(1,s,0.5,9)", "Table(Int 0..4 -> 100+7i)", "Table(String -> Int)",
  "Table(Int 10,20,30 -> String)", "Tree(Int 0..4 -> 100+7i)", "Tree(String -> Int)", "Tree(Int 10,20,30 -> String)", "Array(Int)[] (empty)" };
static const char* VIEWN[NVIEW] = { "slice(x)", "slice(x, 2)", "slice(x, 1, 3)", "slice(x, _, _, 2)", "reverse(x)", "slice(x, _, _, -2)",
  "filter(x, f)", "map(x, f)", "zip(x, x2)", "enumerate(x)" };

static var make_base(int b) {
  var o = NULL;
  static const char* SK[4] = { "a", "b", "c", "d" };
  switch (b) {
  case 0: o = new_raw(Array, Int); for (int i = 0; i < 5; i++) push(o, $I(50 + i)); break;
  case 1: o = new_raw(List, String); for (int i = 0; i < 4; i++) push(o, $S((char*)SK[i])); break;
  case 2: o = new_raw(Tuple, I_(1), S_("s"), F_(0.5), I_(9)); break;
  case 3: o = new_raw(Table, Int, Int); for (int i = 0; i < 5; i++) set(o, $I(i), $I(100 + 7 * i)); break;
  case 4: o = new_raw(Table, String, Int); for (int i = 0; i < 4; i++) set(o, $S((char*)SK[i]), $I(i + 1)); break;
  case 5: o = new_raw(Table, Int, String); for (int i = 0; i < 3; i++) set(o, $I(10 * (i + 1)), $S((char*)SK[i])); break;
  case 6: o = new_raw(Tree, Int, Int); for (int i = 0; i < 5; i++) set(o, $I(i), $I(100 + 7 * i)); break;
  case 7: o = new_raw(Tree, String, Int); for (int i = 0; i < 4; i++) set(o, $S((char*)SK[i]), $I(i + 1)); break;
  case 8: o = new_raw(Tree, Int, String); for (int i = 0; i < 3; i++) set(o, $I(10 * (i + 1)), $S((char*)SK[i])); break;
  case 9: o = new_raw(Array, Int); break;
  }
  return o;
}

static void show_views(void) {
  for (int b = 0; b < NBASE; b++) {
    int h0 = NSHAPES_ALL + NUSER + b * NVIEW;
    if (R_on && R_h >= 0 && (R_h < h0 || R_h >= h0 + NVIEW)) continue;
    var x = make_base(b);
    var x2 = new_raw(Array, Int, $I(1), $I(2), $I(3), $I(4), $I(5));
    var fo = $(Function, fn_odd), fs = $(Function, fn_same);
    /* the views are stack objects of this block */
    var views[NVIEW];
    int made = NVIEW;
    views[0] = slice(x);
    views[1] = slice(x, $I(2));
    views[2] = slice(x, $I(1), $I(3));
    views[3] = slice(x, _, _, $I(2));
    views[4] = reverse(x);
    views[5] = slice(x, _, _, $I(-2));
    views[6] = filter(x, fo);
    views[7] = map(x, fs);
    views[8] = zip(x, x2);
    views[9] = enumerate(x);
    for (int vw = 0; vw < made; vw++) {
      int h = h0 + vw;
      if (R_on && R_h >= 0 && R_h != h) continue;
      snprintf(shape_name_buf[h], sizeof shape_name_buf[h], "%s over x = %s", VIEWN[vw], BASEN[b]);
      snprintf(shape_elem_buf[h], sizeof shape_elem_buf[h], "%s/over-%s", VIEWN[vw], c_str(type_of(x)));
      shape_name[h] = shape_name_buf[h]; shape_elem[h] = shape_elem_buf[h];
      check_shape(h, views[vw], vw < 6 ? 1 : 2);
    }
  }
}

/* Range objects (their items are Ints; shown in brackets like a Slice) and views over a big-valued Range */
static void show_ranges(void) {
  int h0 = NSHAPES_ALL + NUSER + NBASE * NVIEW;
  static const char* RN[NRANGE] = {
    "range(0)", "range(1)", "range(3)", "range(2, 6)", "range(5, 5)", "range(6, 2)", "range(0, 7, 2)", "range(0, 10, 3)",
    "range(0, 5, -1)", "range(0, 6, -2)", "range(3, 3, -1)", "range(-3, 2)",
    "range(2147483646, 2147483651)", "range(-2147483650, -2147483645)", "range(3000000000, 3000000004)", "range(4294967294, 4294967299)",
    "range(-4294967298, -4294967293)", "range(9223372036854775800, 9223372036854775806, 2)", "range(-9223372036854775807, -9223372036854775803)",
    "range(3000000000, 3000000006, -2)",
    "new(Range, 3)", "new(Range, 2, 9, 3)", "new(Range, 3000000000, 3000000004)",
    "slice(x) over x = range(3000000000, 3000000005)", "reverse(x) over x = range(3000000000, 3000000005)",
    "slice(x, 1, 3) over x = range(3000000000, 3000000005)", "slice(x, _, _, 2) over x = range(3000000000, 3000000005)" };
  /* 0 empty, 1 items within int32, 2 items beyond int32 */
  static const int RF[NRANGE] = { 0, 1, 1, 1, 0, 0, 1, 1, 1, 1, 0, 1,  2, 2, 2, 2, 2, 2, 2, 2,  1, 1, 2,  2, 2, 2, 2 };
  static const char* RFN[3] = { "empty", "items-within-int32", "items-beyond-int32" };
  if (R_on && R_h >= 0 && (R_h < h0 || R_h >= h0 + NRANGE)) return;
  var x = range($I(3000000000LL), $I(3000000005LL));
  var rs[NRANGE];
  rs[0] = range($I(0)); rs[1] = range($I(1)); rs[2] = range($I(3)); rs[3] = range($I(2), $I(6)); rs[4] = range($I(5), $I(5)); rs[5] = range($I(6), $I(2));
  rs[6] = range($I(0), $I(7), $I(2)); rs[7] = range($I(0), $I(10), $I(3)); rs[8] = range($I(0), $I(5), $I(-1)); rs[9] = range($I(0), $I(6), $I(-2));
  rs[10] = range($I(3), $I(3), $I(-1)); rs[11] = range($I(-3), $I(2));
  rs[12] = range($I(2147483646LL), $I(2147483651LL)); rs[13] = range($I(-2147483650LL), $I(-2147483645LL));
  rs[14] = range($I(3000000000LL), $I(3000000004LL)); rs[15] = range($I(4294967294LL), $I(4294967299LL));
  rs[16] = range($I(-4294967298LL), $I(-4294967293LL));
  rs[17] = range($I(9223372036854775800LL), $I(9223372036854775806LL), $I(2));
  rs[18] = range($I(-9223372036854775807LL), $I(-9223372036854775803LL));
  rs[19] = range($I(3000000000LL), $I(3000000006LL), $I(-2));
  rs[20] = new(Range, $I(3)); rs[21] = new(Range, $I(2), $I(9), $I(3)); rs[22] = new(Range, $I(3000000000LL), $I(3000000004LL));
  rs[23] = slice(x); rs[24] = reverse(x); rs[25] = slice(x, $I(1), $I(3)); rs[26] = slice(x, _, _, $I(2));
  for (int i = 0; i < NRANGE; i++) {
    int h = h0 + i;
    if (R_on && R_h >= 0 && R_h != h) continue;
    snprintf(shape_name_buf[h], sizeof shape_name_buf[h], "%s", RN[i]);
    snprintf(shape_elem_buf[h], sizeof shape_elem_buf[h], "%s%s", i >= 23 ? "over-Range/" : i >= 20 ? "heap/" : "", RFN[RF[i]]);
    shape_name[h] = shape_name_buf[h]; shape_elem[h] = shape_elem_buf[h];
    check_shape(h, rs[i], 1);
  }
  for (int i = 20; i <= 22; i++) del(rs[i]);
}

static void show_mode(void) {
  for (int hi_ = 0; hi_ < NSHAPES_ALL + NUSER; hi_++) {
    /* simplest first: hand-written shapes, generated single-type shapes, the nested ones, then user structs */
    int h = hi_ < NSHAPES ? hi_ : hi_ < NSHAPES + NGEN ? hi_ + NNEST : hi_ < NSHAPES_ALL ? hi_ - NGEN : hi_;
    if (R_on && R_h >= 0 && R_h != h) continue;
    var o = h < NSHAPES ? make_shape(h) : h < NSHAPES_ALL ? make_generated(h) : make_user(h);
    check_shape(h, o, 0);
  }
  show_views();
  show_ranges();
}

/* ---- length ladder ------------------------------------------------------------------------
** Chunks (one format_to call inside print_to_with) whose C output is exactly N characters, for
** every N in 1..n, produced in several ways, at starts {0, 5, current length}, into the String
** sink, a File over open_memstream and a File over tmpfile(); each followed by a second
** print_to appended at the returned position, so that an early terminator, a lost character or
** a wrong position shows in the final content.  Crosses every internal buffer size a sink
** might use (64, 128, 256, 512, 1024 and their neighbours).
*/

#define LAD_MAX 8300
#define NFORMS 11
static const char* FORMNAME[NFORMS] = { "%Nd", "%-Ns|%i", "%.(N-2)f", "%.Nd", "N-literal", "N-literal+%d", "%s-of-N-chars",
                                        "%$-of-N-char-String", "%-Nc", "%N.3e", "%#0Nx" };
static const int LSTARTS[3] = { 0, 5, PLEN };
static const char* LSINK[3] = { "string", "file-memstream", "file-tmpfile" };
static FILE* LFP[3]; static var LFO[3];
static char LEXP[2 * LAD_MAX + 64], LFMT[2 * LAD_MAX + 64], LGOT[3][2 * LAD_MAX + 256];
static int R_form = -1;

static const char* lenclass(int n) {
  static char b[32];
  if (n < 63) return "len<63";
  int p = 64; while (p * 2 <= n + 1) p *= 2;         /* largest power of two with p-1 <= n */
  if (n >= p - 1 && n <= p + 1) snprintf(b, sizeof b, "len=%d", n);
  else snprintf(b, sizeof b, "len=%d..%d", p + 2, 2 * p - 2);
  return b;
}

static void pattern(char* b, int n) {
  static const char al[] = "abcdefghijklmnopqrstuvwxyz0123456789ABCDEFGHIJKLMNOPQRSTUVWXYZ";
  for (int i = 0; i < n; i++) b[i] = al[i % (sizeof al - 1)];
  b[n] = 0;
}

struct lres { int ret1, ret2; var exc; size_t len; int prefix_ok; };

/* print fmt/args at start, then "<%i>" of 99 at the returned position; collect everything after the prefix */
static void __attribute__((noinline)) ladder_run(int k, int start, const char* fmt, var args, struct lres* r) {
  volatile int r1 = -77777, r2 = -77777;
  var N99 = $I(99);
  var t99 = tuple(N99);
  memset(r, 0, sizeof *r);
  if (k == 0) {
    assign(SS, PFX);
    var e = VF_CATCH({ r1 = print_to_with(SS, start, fmt, args); if (r1 >= 0 && r1 < 100000) r2 = print_to_with(SS, r1, "<%i>", t99); });
    vf.executions += 2;
    r->exc = e;
    const char* g = c_str(SS); size_t gl = strlen(g);
    r->prefix_ok = gl >= (size_t)start && memcmp(g, PREFIX, start) == 0;
    size_t off = r->prefix_ok ? (size_t)start : 0;
    r->len = gl - off; if (r->len >= sizeof LGOT[0]) r->len = sizeof LGOT[0] - 1;
    memcpy(LGOT[k], g + off, r->len); LGOT[k][r->len] = 0;
  } else {
    FILE* f = LFP[k];
    fseeko(f, 0, SEEK_SET); fwrite(PREFIX, 1, PLEN, f);
    var e = VF_CATCH({ r1 = print_to_with(LFO[k], start, fmt, args); if (r1 >= 0 && r1 < 100000) r2 = print_to_with(LFO[k], r1, "<%i>", t99); });
    vf.executions += 2;
    r->exc = e;
    off_t end = ftello(f); fflush(f);
    const char* data = mbuf;
    if (k == 2) {
      if ((size_t)end + 1 > rcap) { rcap = end + 4096; rbuf = realloc(rbuf, rcap); }
      fseeko(f, 0, SEEK_SET); if (fread(rbuf, 1, end, f) != (size_t)end) { fprintf(stderr, "h_fmt: short read\n"); _exit(2); }
      data = rbuf;
    }
    r->prefix_ok = end >= PLEN && memcmp(data, PREFIX, PLEN) == 0;
    size_t off = r->prefix_ok ? PLEN : 0;
    r->len = (size_t)end - off; if (r->len >= sizeof LGOT[0]) r->len = sizeof LGOT[0] - 1;
    memcpy(LGOT[k], data + off, r->len); LGOT[k][r->len] = 0;
  }
  r->ret1 = r1; r->ret2 = r2;
}

static char* tail(const char* s, size_t n) {          /* the last characters, where ladder faults show */
  return n > 40 ? printable(s + n - 40, 40) : printable(s, n);
}

static void ladder_mode(void) {
  int maxn = (int)vf_param_i("n", 300);
  if (maxn > LAD_MAX) maxn = LAD_MAX;
  LFP[1] = ffp; LFO[1] = FF;                    /* main made these (open_memstream) */
  LFP[2] = tmpfile();
  if (!LFP[2]) { perror("h_fmt: tmpfile"); _exit(2); }
  LFO[2] = $(File, LFP[2]);                     /* ladder_mode's block outlives every use */
  var shown = new_raw(String);
  char* strN = NULL;
  uint64_t chunks = 0;
  /* the ladder: every N in 1..n, then the neighbours (-2..+2) of every larger power of two up to pmax */
  int pmax = (int)vf_param_i("pmax", 4096);
  if (pmax + 2 > LAD_MAX) pmax = LAD_MAX - 2;
  int* NS = malloc((maxn + 5 * 16) * sizeof *NS); int nn = 0;
  for (int n = 1; n <= maxn; n++) NS[nn++] = n;
  for (int p2 = 512; p2 <= pmax; p2 *= 2) for (int d = -2; d <= 2; d++) if (p2 + d > maxn) NS[nn++] = p2 + d;
  for (int ni = 0; ni < nn; ni++) {
    int n = NS[ni];
    if (R_on && R_n >= 0 && n != R_n) continue;
    for (int form = 0; form < NFORMS; form++) {
      if (R_on && R_form >= 0 && form != R_form) continue;
      if (form == 2 && n < 3) continue;
      vf_watchdog(60);
      vf_set_cur("ladder n=%d form=%d | %s with N=%d (all starts, sinks)", n, form, FORMNAME[form], n);
      /* exact-size heap argument string (an over-read is an ASan report) */
      free(strN); strN = malloc(n + 1); pattern(strN, n);
      var aI7 = $I(7), aI42 = $I(42), aIm5 = $I(-5), aIx = $I('x'), aI255 = $I(255);
      var aF = $F(0.5), aG = $F(123456.789), aAB = $S("ab"), aN = $S(strN);
      var t0 = tuple(), tI7 = tuple(aI7), tS2 = tuple(aAB, aI42), tF = tuple(aF), tIm5 = tuple(aIm5), tN = tuple(aN),
          tC = tuple(aIx), tG = tuple(aG), tX = tuple(aI255);
      volatile var args = t0;     /* assigned before a try block below */
      int el = -1;
      switch (form) {
      case 0: sprintf(LFMT, "%%%dd", n);        el = snprintf(LEXP, sizeof LEXP, LFMT, 7); args = tI7; break;
      case 1: sprintf(LFMT, "%%-%ds|%%i", n);   el = snprintf(LEXP, sizeof LEXP, LFMT, "ab", 42); args = tS2; break;
      case 2: sprintf(LFMT, "%%.%df", n - 2);   el = snprintf(LEXP, sizeof LEXP, LFMT, 0.5); args = tF; break;
      case 3: sprintf(LFMT, "%%.%dd", n);       el = snprintf(LEXP, sizeof LEXP, LFMT, 7); args = tI7; break;
      case 4: pattern(LFMT, n);                 el = snprintf(LEXP, sizeof LEXP, "%s", LFMT); args = t0; break;
      case 5: pattern(LFMT, n); strcat(LFMT, "%d"); el = snprintf(LEXP, sizeof LEXP, LFMT, -5); args = tIm5; break;
      case 6: strcpy(LFMT, "%s");               el = snprintf(LEXP, sizeof LEXP, LFMT, strN); args = tN; break;
      case 7: {
        /* reference for %$: what show_to writes through the C library's own stream (memstream File, position 0) */
        strcpy(LFMT, "%$"); args = tN;
        fseeko(LFP[1], 0, SEEK_SET);
        volatile int sr = -1;
        var e = VF_CATCH(sr = show_to(aN, LFO[1], 0));
        off_t end = ftello(LFP[1]); fflush(LFP[1]);
        vf.executions++;
        if (e || sr != (int)end || (size_t)end >= sizeof LEXP || end < n) {
          vf_violation("ladder/%$-of-N-char-String/show-reference", NULL, "show_to(String of %d chars, file, 0) returned %d, wrote %ld characters%s", n, sr, (long)end, e ? " and raised" : "");
          continue;
        }
        memcpy(LEXP, mbuf, end); LEXP[end] = 0; el = (int)end;
        break; }
      case 8: sprintf(LFMT, "%%-%dc", n);       el = snprintf(LEXP, sizeof LEXP, LFMT, 'x'); args = tC; break;
      case 9: sprintf(LFMT, "%%%d.3e", n);      el = snprintf(LEXP, sizeof LEXP, LFMT, 123456.789); args = tG; break;
      case 10: sprintf(LFMT, "%%#0%dx", n);     el = snprintf(LEXP, sizeof LEXP, LFMT, 255u); args = tX; break;
      }
      if (el < 0 || (size_t)el + 8 >= sizeof LEXP) { fprintf(stderr, "h_fmt: ladder oracle failed (form %d, n %d)\n", form, n); _exit(2); }
      size_t tl = (size_t)el;                 /* length of the first print's text */
      strcpy(LEXP + el, "<99>");
      size_t xl = tl + 4;
      size_t fl = strlen(LFMT);
      char* fmt = malloc(fl + 1); memcpy(fmt, LFMT, fl + 1);
      chunks++;
      if (count_nt && n >= 64) vf.nontrivial++;
      for (int si = 0; si < 3; si++) {
        if (R_on && R_s >= 0 && si != R_s) continue;
        int st = LSTARTS[si];
        struct lres res[3]; int ran[3] = { 0, 0, 0 }, okk[3] = { 0, 0, 0 };
        for (int k = 0; k < 3; k++) {
          if (R_on && R_k >= 0 && k != R_k) continue;
          struct lres* r = &res[k];
          ladder_run(k, st, fmt, args, r);
          ran[k] = 1;
          vf.evaluations++;
          const char* sym = NULL; char symb[64];
          if (r->exc) { snprintf(symb, sizeof symb, "raises-%s", vf_exc_name(r->exc)); sym = symb; }
          else if (!r->prefix_ok) sym = "prefix-damaged";
          else if (r->len < xl && memcmp(LGOT[k], LEXP, r->len) == 0) sym = r->len < tl ? "text-truncated" : "follow-up-truncated";
          else if (r->len != xl || memcmp(LGOT[k], LEXP, xl) != 0) {
            /* where does it first differ: inside the chunk or in the appended text */
            size_t d = 0; while (d < r->len && d < xl && LGOT[k][d] == LEXP[d]) d++;
            sym = d < tl ? "text-differs" : "follow-up-misplaced";
          }
          else if (r->ret1 != st + (int)tl) sym = "position";
          else if (r->ret2 != st + (int)xl) sym = "follow-up-position";
          if (sym) {
            char lab[200], cs[160];
            snprintf(lab, sizeof lab, "ladder/%s/%s/%s/%s", FORMNAME[form], lenclass(n), k == 0 ? "string" : "file", sym);
            snprintf(cs, sizeof cs, "ladder n=%d form=%d s=%d k=%d | %s N=%d start %d sink %s", n, form, si, k, FORMNAME[form], n, st, LSINK[k]);
            vf_violation(lab, cs, "print_to(%s, %d, %s) then print_to(.., returned position, \"<%%i>\", 99): %zu characters after the prefix ending '%s', returned %d then %d; "
              "C printf writes %zu characters ending '%s', positions %d then %d",
              LSINK[k], st, FORMNAME[form], r->len, tail(LGOT[k], r->len), r->ret1, r->ret2, xl, tail(LEXP, xl), st + (int)tl, st + (int)xl);
          } else okk[k] = 1;
        }
        /* String sink == File sinks, compared directly */
        for (int k = 1; k < 3; k++) {
          if (!ran[0] || !ran[k]) continue;
          vf.evaluations++;
          if (res[0].exc || res[k].exc) continue;
          if (res[0].len != res[k].len || memcmp(LGOT[0], LGOT[k], res[0].len) != 0 || res[0].ret1 != res[k].ret1 || res[0].ret2 != res[k].ret2) {
            char lab[200], cs[160];
            snprintf(lab, sizeof lab, "ladder/%s/%s/sinks-differ", FORMNAME[form], lenclass(n));
            snprintf(cs, sizeof cs, "ladder n=%d form=%d s=%d | %s N=%d start %d", n, form, si, FORMNAME[form], n, st);
            vf_violation(lab, cs, "String sink holds %zu characters ending '%s' (returned %d, %d); %s holds %zu ending '%s' (returned %d, %d)",
              res[0].len, tail(LGOT[0], res[0].len), res[0].ret1, res[0].ret2, LSINK[k], res[k].len, tail(LGOT[k], res[k].len), res[k].ret1, res[k].ret2);
          }
        }
        if (form != 7 && (n & (n - 1)) == 0 && n >= 64 && vf_want_sample())
          vf_sample("ladder %s N=%d start %d: %zu characters on all three sinks, positions %d then %d", FORMNAME[form], n, st, xl, st + (int)tl, st + (int)xl);
      }
      free(fmt);
    }
  }
  vf_extra("ladder_max_n", "%d", maxn);
  vf_extra("ladder_powers_of_two_up_to", "%d", pmax);
  vf_extra("ladder_chunks", "%" PRIu64, chunks);
}

/* ---- repeated objects in the argument list ---------------------------------------------------
** Every argument sequence of length 2..4 over three distinct objects x, y, z (so (x,x), (x,x,y),
** (x,y,x,z), (x,y,y), ... are all there), five styles of specification, both sinks, two starts.
** The i-th specification must format the i-th argument, whatever object it is.
*/

#define NSTYLES 5
static const char* STYLEN[NSTYLES] = { "%$-of-Int", "%li", "%s", "%$-of-String", "mixed-types" };
static int R_len = -1, R_seq = -1, R_style = -1;

static void canon_pattern(const int* q, int L, char* out) {
  char map[3] = { 0, 0, 0 }; int next = 0; size_t o = 0;
  for (int i = 0; i < L; i++) {
    if (!map[q[i]]) map[q[i]] = "xyz"[next++];
    if (i) out[o++] = ',';
    out[o++] = map[q[i]];
  }
  out[o] = 0;
}

static void repeat_mode(void) {
  static char piece[3][2][80];         /* expected text of object j under specification variant v */
  static const char* specv[3][2];
  var ref = new_raw(String);
  for (int style = 0; style < NSTYLES; style++) {
    if (R_on && R_style >= 0 && style != R_style) continue;
    var oI0 = $I(7), oI1 = $I(-8), oI2 = $I(4294967301LL);
    var oS0 = $S("ex"), oS1 = $S("why"), oS2 = $S("zed \"q\"");
    var oF2 = $F(2.5);
    var o[3];
    /* the objects and, per object, the two specification variants used at even / odd positions */
    for (int j = 0; j < 3; j++) {
      int isint = style <= 1 || (style == 4 && j == 0);
      int isflt = style == 4 && j == 2;
      o[j] = isint ? (j == 0 ? oI0 : j == 1 ? oI1 : oI2) : isflt ? oF2 : (j == 0 ? oS0 : j == 1 ? oS1 : oS2);
      for (int v = 0; v < 2; v++) {
        const char* sp = style == 0 || style == 3 ? "%$" : style == 1 ? "%li" : style == 2 ? "%s"
                       : v == 1 ? "%$" : isint ? "%li" : isflt ? "%5.2f" : "%s";
        specv[j][v] = sp;
        if (strcmp(sp, "%$") == 0) {
          /* reference: show_to of a stand-alone object of the same value */
          var sa = isint ? (var)$I(c_int(o[j])) : isflt ? (var)$F(c_float(o[j])) : (var)$S(c_str(o[j]));
          assign(ref, $S(""));
          show_to(sa, ref, 0); vf.executions++;
          snprintf(piece[j][v], sizeof piece[j][v], "%s", c_str(ref));
        }
        else if (isint) snprintf(piece[j][v], sizeof piece[j][v], sp, (long)c_int(o[j]));
        else if (isflt) snprintf(piece[j][v], sizeof piece[j][v], sp, c_float(o[j]));
        else snprintf(piece[j][v], sizeof piece[j][v], sp, c_str(o[j]));
      }
    }
    for (int L = 2; L <= 4; L++) {
      if (R_on && R_len >= 0 && L != R_len) continue;
      int nseq = L == 2 ? 9 : L == 3 ? 27 : 81;
      for (int sq = 0; sq < nseq; sq++) {
        if (R_on && R_seq >= 0 && sq != R_seq) continue;
        int q[4] = { 0, 0, 0, 0 };
        { int t = sq; for (int i = L - 1; i >= 0; i--) { q[i] = t % 3; t /= 3; } }
        char pat[16]; canon_pattern(q, L, pat);
        /* non-trivial: an object occurs again and something else follows its second occurrence */
        int nt = 0;
        for (int j = 1; j + 1 < L && !nt; j++) {
          int i = 0; while (q[i] != q[j]) i++;
          if (i < j && q[i + 1] != q[j + 1]) nt = 1;     /* "the one after the first occurrence" is not the next argument */
        }
        size_t fo = 0, eo = 0;
        FMT[fo++] = '['; EXP[eo++] = '[';
        for (int i = 0; i < L; i++) {
          if (i) { fo += sprintf(FMT + fo, ", "); eo += sprintf(EXP + eo, ", "); }
          fo += sprintf(FMT + fo, "%s", specv[q[i]][i & 1]);
          eo += sprintf(EXP + eo, "%s", piece[q[i]][i & 1]);
        }
        FMT[fo++] = ']'; FMT[fo] = 0; EXP[eo++] = ']'; EXP[eo] = 0;
        size_t explen = eo;
        var args = L == 2 ? tuple(o[q[0]], o[q[1]]) : L == 3 ? tuple(o[q[0]], o[q[1]], o[q[2]]) : tuple(o[q[0]], o[q[1]], o[q[2]], o[q[3]]);
        char* fmt = malloc(fo + 1); memcpy(fmt, FMT, fo + 1);
        vf_watchdog(60);
        vf_set_cur("repeat len=%d seq=%d style=%d | arguments (%s) format \"%s\"", L, sq, style, pat, FMT);
        if (count_nt && nt) vf.nontrivial++;
        for (int si = 0; si < 2; si++) {
          if (R_on && R_s >= 0 && si != R_s) continue;
          for (int k = 0; k < 2; k++) {
            if (R_on && R_k >= 0 && k != R_k) continue;
            struct got g;
            int st = STARTS[si];
            run_sink(k, st, fmt, args, &g);
            vf.evaluations++;
            const char* sym = NULL; char symb[64];
            if (g.exc) { snprintf(symb, sizeof symb, "raises-%s", vf_exc_name(g.exc)); sym = symb; }
            else if (!g.prefix_ok) sym = "prefix-damaged";
            else if (g.len != explen || memcmp(g.text, EXP, explen) != 0) sym = "text-differs";
            else if (g.ret != st + (int)explen) sym = "position";
            if (sym) {
              char lab[200], cs[500];
              snprintf(lab, sizeof lab, "repeat/%s/args(%s)/%s/%s", STYLEN[style], pat, SINKNAME[k], sym);
              snprintf(cs, sizeof cs, "repeat len=%d seq=%d style=%d s=%d k=%d | arguments (%s) format \"%s\" start %d sink %s", L, sq, style, si, k, pat, FMT, st, SINKNAME[k]);
              vf_violation(lab, cs, "print_to(%s, %d, \"%s\") with arguments (%s) wrote '%s' and returned %d; C printf on the values writes '%s' (position %d)",
                SINKNAME[k], st, FMT, pat, printable(g.text, g.len), g.ret, printable(EXP, explen), st + (int)explen);
            }
            if (nt && vf_want_sample()) vf_sample("print_to(%s, %d, \"%s\", (%s)) == '%s'", SINKNAME[k], st, FMT, pat, printable(EXP, explen));
          }
        }
        free(fmt);
      }
    }
  }
}

/* ---- sink recycling ---------------------------------------------------------------------------
** Sinks are created and destroyed per formatting, in every sequence of three kinds out of
** {heap File wrapping an open FILE*, heap File opened with sopen, heap String}; nothing is
** formatted between the release of one sink and the first formatting into the next, so a new
** sink that receives the address of the released one (counted) must still behave as what it is.
*/

#define NRFMT 7
static const char* RFMT[NRFMT] = { "%d", "%s", "%5.2f", "%$", "plain literal text", "%%", "a5%d%%%s|%$" };
static const char* RFMTN[NRFMT] = { "%d", "%s", "%5.2f", "%$", "literal", "%%", "mixed" };
static const char* RKIND[3] = { "File(wrapping FILE*)", "File(sopen)", "String" };
static const char* RKINDL[4] = { "File-wrap", "File-sopen", "String", "start" };
static int R_rot = -1;

static void recycle_mode(void) {
  static char rexp[NRFMT][160]; static size_t rtl[NRFMT];
  char path[64];
  snprintf(path, sizeof path, "./h_fmt-recycle-%ld.tmp", (long)getpid());
  var I42 = $I(-42), Shi = $S("hello"), F3 = $F(3.14159), N99 = $I(99);
  var targs[NRFMT];
  targs[0] = tuple(I42); targs[1] = tuple(Shi); targs[2] = tuple(F3); targs[3] = tuple(I42);
  targs[4] = tuple(); targs[5] = tuple(); targs[6] = tuple(I42, Shi, I42);
  var t99 = tuple(N99);
  var pathS = $S(path), modeS = $S("w+");
  /* expected texts, computed before any recycling (the %$ reference goes through the long-lived String) */
  char shown[64];
  assign(SS, $S("")); show_to($I(-42), SS, 0); snprintf(shown, sizeof shown, "%s", c_str(SS));
  for (int i = 0; i < NRFMT; i++) {
    int n = 0;
    switch (i) {
    case 0: n = snprintf(rexp[i], sizeof rexp[i], "%d", -42); break;
    case 1: n = snprintf(rexp[i], sizeof rexp[i], "%s", "hello"); break;
    case 2: n = snprintf(rexp[i], sizeof rexp[i], "%5.2f", 3.14159); break;
    case 3: n = snprintf(rexp[i], sizeof rexp[i], "%s", shown); break;
    case 4: n = snprintf(rexp[i], sizeof rexp[i], "plain literal text"); break;
    case 5: n = snprintf(rexp[i], sizeof rexp[i], "%%"); break;
    case 6: n = snprintf(rexp[i], sizeof rexp[i], "a5%d%%%s|%s", -42, "hello", shown); break;
    }
    rtl[i] = (size_t)n;
    strcat(rexp[i], "<99>");
  }
  uint64_t steps = 0, reused = 0, reused_other_type = 0;
  static char got[4096];
  for (int sq = 0; sq < 27; sq++) {
    if (R_on && R_seq >= 0 && sq != R_seq) continue;
    for (int rot = 0; rot < NRFMT; rot++) {
      if (R_on && R_rot >= 0 && rot != R_rot) continue;
      int kinds[3] = { sq / 9, (sq / 3) % 3, sq % 3 };
      /* every sequence starts from the same situation: the last formatting went to the long-lived String */
      assign(SS, $S("")); print_to(SS, 0, "-");
      /* glibc: objects come from calloc, which does not look into the per-thread cache; fill that cache for
      ** the sinks' size class so that a released sink goes where the next calloc finds it (only raises the
      ** measured reuse count below; no verdict depends on it) */
      { void* t[7]; size_t sz = sizeof(struct Header) + sizeof(struct File);
        for (int i = 0; i < 7; i++) t[i] = malloc(sz);
        for (int i = 0; i < 7; i++) free(t[i]); }
      void* volatile prev_addr = NULL; volatile int prev_kind = 3;
      for (volatile int step = 0; step < 3; step++) {
        volatile int kd = kinds[step], fi = (rot + step) % NRFMT, st = (step + rot) & 1 ? PLEN : 0;
        vf_watchdog(60);
        vf_set_cur("recycle seq=%d rot=%d | sinks %s, %s, %s; at step %d: %s after %s, format \"%s\" at %d",
          sq, rot, RKIND[kinds[0]], RKIND[kinds[1]], RKIND[kinds[2]], step, RKIND[kd], RKINDL[prev_kind], RFMT[fi], st);
        FILE* fp = NULL;
        if (kd == 0) { fseeko(ffp, 0, SEEK_SET); fwrite(PREFIX, 1, PLEN, ffp); }
        /* ---- create the sink: nothing has been formatted since the previous one was released ---- */
        var sink = kd == 2 ? (var)new_raw(String, PFX) : (var)new_raw(File);
        steps++;
        if ((void*)sink == prev_addr) { reused++; if ((prev_kind == 2) != (kd == 2)) { reused_other_type++; if (count_nt) vf.nontrivial++; } }
        volatile int r1 = -77777, r2 = -77777;
        var e = VF_CATCH({
          if (kd == 0) ((struct File*)sink)->file = ffp;
          if (kd == 1) { sopen(sink, pathS, modeS); fwrite(PREFIX, 1, PLEN, ((struct File*)sink)->file); }
          r1 = print_to_with(sink, st, RFMT[fi], targs[fi]);
          if (r1 >= 0 && r1 < 100000) r2 = print_to_with(sink, r1, "<%i>", t99);
        });
        vf.executions += 2; vf.evaluations++;
        size_t gl = 0; int pok = 1;
        got[0] = 0;
        if (!e) {
          if (kd == 2) {
            const char* g = c_str(sink); size_t l = strlen(g);
            pok = l >= (size_t)st && memcmp(g, PREFIX, st) == 0;
            gl = pok ? l - st : l; if (gl >= sizeof got) gl = sizeof got - 1;
            memcpy(got, g + (pok ? st : 0), gl); got[gl] = 0;
          } else {
            fp = ((struct File*)sink)->file;
            off_t end = ftello(fp); fflush(fp);
            static char fb[4096];
            size_t n = 0;
            if (kd == 0) { n = (size_t)end < sizeof fb ? (size_t)end : sizeof fb - 1; memcpy(fb, mbuf, n); }
            else { FILE* rf = fopen(path, "r"); if (rf) { n = fread(fb, 1, sizeof fb - 1, rf); fclose(rf); } }
            pok = n >= PLEN && memcmp(fb, PREFIX, PLEN) == 0;
            gl = pok ? n - PLEN : n;
            memcpy(got, fb + (pok ? PLEN : 0), gl); got[gl] = 0;
          }
        }
        size_t tl = rtl[fi], xl = tl + 4;
        const char* sym = NULL; char symb[64];
        if (e) { snprintf(symb, sizeof symb, "raises-%s", vf_exc_name(e)); sym = symb; }
        else if (!pok) sym = "prefix-damaged";
        else if (gl != xl || memcmp(got, rexp[fi], xl) != 0) sym = "text-differs";
        else if (r1 != st + (int)tl) sym = "position";
        else if (r2 != st + (int)xl) sym = "follow-up-position";
        if (sym) {
          char lab[200];
          snprintf(lab, sizeof lab, "recycle/%s-after-%s/%s/%s", RKINDL[kd], RKINDL[prev_kind], RFMTN[fi], sym);
          vf_violation(lab, NULL, "a fresh %s created right after a %s was released (%s address): print_to(sink, %d, \"%s\") then \"<%%i>\" wrote '%s', returned %d then %d; expected '%s', %d then %d",
            RKIND[kd], RKINDL[prev_kind], (void*)sink == prev_addr ? "same" : "different", st, RFMT[fi], printable(got, gl), (int)r1, (int)r2,
            printable(rexp[fi], xl), st + (int)tl, st + (int)xl);
        }
        if (vf_want_sample()) vf_sample("recycle: %s after %s (%s address), \"%s\" at %d -> '%s'", RKIND[kd], RKINDL[prev_kind],
          (void*)sink == prev_addr ? "same" : "different", RFMT[fi], st, printable(rexp[fi], xl));
        /* ---- release it; the next sink is created immediately afterwards ---- */
        prev_addr = (void*)sink; prev_kind = kd;
        if (kd == 0) ((struct File*)sink)->file = NULL;      /* the shared stream stays open */
        var e2 = VF_CATCH(del_raw(sink));
        if (e2) vf_violation("recycle/release-raises", NULL, "del_raw of the %s sink raised %s", RKIND[kd], vf_exc_name(e2));
      }
    }
  }
  unlink(path);
  vf_extra("recycle_sinks_created", "%" PRIu64, steps);
  vf_extra("recycle_address_reused", "%" PRIu64, reused);
  vf_extra("recycle_address_reused_by_other_sink_type", "%" PRIu64, reused_other_type);
  if (reused_other_type == 0) vf_note("the allocator of this build never handed a released sink's address to a sink of the other type (quarantine): the stale-address situation was not reached here");
}

/* ---- user types for the history and re-entrancy families --------------------------------------- */

/* Thrower: a type whose Show refuses (raises) */
struct Thrower { int64_t n; };
static int Thrower_Show(var self, var out, int pos) {
  throw(ValueError, "Thrower %i refuses to be shown", $I(((struct Thrower*)self)->n));
  return pos;
}
var Thrower = Cello(Thrower, Instance(Show, Thrower_Show, NULL));

/* Reent: every accessor print_to uses on an argument itself formats (with a different short format)
** into the object's private heap String before it answers */
struct Reent { int64_t n; double x; var priv; };
static char* Reent_C_Str(var self) {
  struct Reent* r = self;
  print_to(r->priv, 0, "label-%li", $I(r->n));
  return c_str(r->priv);
}
static int64_t Reent_C_Int(var self) {
  struct Reent* r = self;
  print_to(r->priv, 0, "int:%d!", $I(r->n));
  return r->n;
}
static double Reent_C_Float(var self) {
  struct Reent* r = self;
  print_to(r->priv, 0, "%5.2f flt", $F(r->x));
  return r->x;
}
static int Reent_Show(var self, var out, int pos) {
  struct Reent* r = self;
  print_to(r->priv, 0, "<R %li/%s>", $I(r->n), $S("tag"));
  return print_to(out, pos, "%s", r->priv);
}
var Reent = Cello(Reent,
  Instance(C_Str, Reent_C_Str), Instance(C_Int, Reent_C_Int), Instance(C_Float, Reent_C_Float),
  Instance(Show, Reent_Show, NULL));

/* ---- re-entrant formatting -------------------------------------------------------------------------
** %s / %li-style / %f-style / %$ of Reent objects in single- and two-directive formats, both sinks,
** two starts; the expected text is assembled from snprintf of the parts.
*/

#define NRSPEC 10
static const char* RSPEC[NRSPEC] = { "%s", "%-12s", "%.3s", "%li", "%08li", "%+d", "%f", "%5.2f", "%.1e", "%$" };
static const int   RACC[NRSPEC]  = { 0, 0, 0, 1, 1, 1, 2, 2, 2, 3 };
static const char* RACCN[4] = { "c_str", "c_int", "c_float", "show" };
static int R_a = -1, R_b = -2, R_obj = -1;

static size_t reent_piece(char* out, size_t cap, int sp, int64_t n, double x) {
  char lab[64];
  switch (RACC[sp]) {
  case 0: snprintf(lab, sizeof lab, "label-%li", (long)n); return (size_t)snprintf(out, cap, RSPEC[sp], lab);
  case 1: return sp == 5 ? (size_t)snprintf(out, cap, RSPEC[sp], (int)n) : (size_t)snprintf(out, cap, RSPEC[sp], (long)n);
  case 2: return (size_t)snprintf(out, cap, RSPEC[sp], x);
  default: return (size_t)snprintf(out, cap, "<R %li/tag>", (long)n);
  }
}

static void reentrant_mode(void) {
  var r1 = $(Reent, 7, 1.25, new_raw(String));
  var r2 = $(Reent, -8, 2.5, new_raw(String));
  var t1 = tuple(r1), t12 = tuple(r1, r2), t11 = tuple(r1, r1);
  for (int a = 0; a < NRSPEC; a++) {
    if (R_on && R_a >= 0 && a != R_a) continue;
    for (int b = -1; b < NRSPEC; b++) {                 /* b = -1: one directive only */
      if (R_on && R_b >= -1 && b != R_b) continue;
      for (int ob = 0; ob < (b < 0 ? 2 : 2); ob++) {     /* single: plain / bracketed; pair: (r1,r2) / (r1,r1) */
        if (R_on && R_obj >= 0 && ob != R_obj) continue;
        size_t eo = 0;
        var args;
        if (b < 0) {
          sprintf(FMT, ob ? "[%s]" : "%s", RSPEC[a]);
          if (ob) EXP[eo++] = '[';
          eo += reent_piece(EXP + eo, sizeof EXP - eo, a, 7, 1.25);
          if (ob) EXP[eo++] = ']';
          args = t1;
        } else {
          sprintf(FMT, "x=%s; y=%s.", RSPEC[a], RSPEC[b]);
          eo += sprintf(EXP + eo, "x=");
          eo += reent_piece(EXP + eo, sizeof EXP - eo, a, 7, 1.25);
          eo += sprintf(EXP + eo, "; y=");
          eo += ob ? reent_piece(EXP + eo, sizeof EXP - eo, b, 7, 1.25) : reent_piece(EXP + eo, sizeof EXP - eo, b, -8, 2.5);
          EXP[eo++] = '.';
          args = ob ? t11 : t12;
        }
        EXP[eo] = 0;
        size_t explen = eo, fl = strlen(FMT);
        char* fmt = malloc(fl + 1); memcpy(fmt, FMT, fl + 1);
        vf_watchdog(60);
        vf_set_cur("reentrant a=%d b=%d obj=%d | format \"%s\" on %s", a, b, ob, FMT, b < 0 ? "(r1)" : ob ? "(r1,r1)" : "(r1,r2)");
        if (count_nt) vf.nontrivial++;
        for (int si = 0; si < 2; si++) {
          if (R_on && R_s >= 0 && si != R_s) continue;
          for (int k = 0; k < 2; k++) {
            if (R_on && R_k >= 0 && k != R_k) continue;
            struct got g; int st = STARTS[si];
            run_sink(k, st, fmt, args, &g);
            vf.evaluations++;
            const char* sym = NULL; char symb[64];
            if (g.exc) { snprintf(symb, sizeof symb, "raises-%s", vf_exc_name(g.exc)); sym = symb; }
            else if (!g.prefix_ok) sym = "prefix-damaged";
            else if (g.len != explen || memcmp(g.text, EXP, explen) != 0) sym = "text-differs";
            else if (g.ret != st + (int)explen) sym = "position";
            if (sym) {
              char lab[200], cs[600], acc[40];
              if (b < 0) snprintf(acc, sizeof acc, "%s", RACCN[RACC[a]]); else snprintf(acc, sizeof acc, "%s+%s", RACCN[RACC[a]], RACCN[RACC[b]]);
              snprintf(lab, sizeof lab, "reentrant/%s/%s/%s", acc, SINKNAME[k], sym);
              snprintf(cs, sizeof cs, "reentrant a=%d b=%d obj=%d s=%d k=%d | format \"%s\" start %d sink %s", a, b, ob, si, k, FMT, st, SINKNAME[k]);
              vf_violation(lab, cs, "print_to(%s, %d, \"%s\") with arguments whose %s formats into a private String while answering: wrote '%s', returned %d; the parts give '%s' (position %d)",
                SINKNAME[k], st, FMT, acc, printable(g.text, g.len), g.ret, printable(EXP, explen), st + (int)explen);
            }
            if (vf_want_sample()) vf_sample("print_to(%s, %d, \"%s\", re-entrant objects) == '%s'", SINKNAME[k], st, FMT, printable(EXP, explen));
          }
        }
        free(fmt);
      }
    }
  }
}

/* ---- failure history -----------------------------------------------------------------------------------
** k caught (refused) formattings of one kind, then a small grid of well-formed ones on both sinks:
** they must behave exactly as they did before any failure.  Every (kind, k) case runs in its own
** forked child, so a case never sees another case's failures and replays alone.
*/

#define NHKIND 6
static const char* HKIND[NHKIND] = { "closed-File-sink", "stack-String-sink", "too-few-arguments", "Show-that-throws", "wrong-type-argument", "mixed" };
static const int HK[8] = { 0, 1, 2, 31, 32, 33, 64, 100 };
#define NHFMT 10
static const char* HFMT[NHFMT] = { "%$", "%$", "%$", "%$", "%$", "%d", "%s", "plain literal", "a%%b", "<%$|%d|%s|%$>" };
static const char* HFMTN[NHFMT] = { "%$-Int", "%$-Float", "%$-String", "%$-Array", "%$-Tuple", "%d", "%s", "literal", "%%", "mixed" };
static int hpipe[2];
struct hcase { int kind, k; };

static void hist_grid(var* targs, char texts[][2][2][256], int rets[][2][2], int record, const struct hcase* hc, volatile uint64_t* execs) {
  for (int f = 0; f < NHFMT; f++) for (int si = 0; si < 2; si++) for (int k = 0; k < 2; k++) {
    struct got g; int st = STARTS[si];
    run_sink(k, st, HFMT[f], targs[f], &g);
    (*execs)++;
    char now[256]; size_t n = g.len < sizeof now - 1 ? g.len : sizeof now - 1;
    memcpy(now, g.text, n); now[n] = 0;
    if (g.exc || !g.prefix_ok) snprintf(now, sizeof now, "(%s)", g.exc ? vf_exc_name(g.exc) : "prefix damaged");
    if (record) { strcpy(texts[f][si][k], now); rets[f][si][k] = g.ret; continue; }
    if (strcmp(texts[f][si][k], now) != 0 || rets[f][si][k] != g.ret) {
      dprintf(hpipe[1], "V\thistory/after-%s/k=%d/%s/%s/%s\tafter %d caught %s failures print_to(%s, %d, \"%s\") wrote '%s' and returned %d; before them the same call wrote '%s' and returned %d\n",
        HKIND[hc->kind], hc->k, HFMTN[f], SINKNAME[k], strcmp(texts[f][si][k], now) != 0 ? "text-differs-from-first-time" : "position-differs-from-first-time",
        hc->k, HKIND[hc->kind], SINKNAME[k], st, HFMT[f], printable(now, strlen(now)), g.ret, printable(texts[f][si][k], strlen(texts[f][si][k])), rets[f][si][k]);
      _exit(3);
    }
  }
}

static void history_child(void* arg) {
  const struct hcase* hc = arg;
  static char texts[NHFMT][2][2][256]; static int rets[NHFMT][2][2];
  volatile uint64_t execs = 0, refused = 0;
  var I42 = $I(42), F25 = $F(2.5), Shi = $S("hi");
  var arr = new_raw(Array, Int, $I(1), $I(2), $I(3));
  var tup = new_raw(Tuple, new_raw(Int, $I(1)), new_raw(String, $S("a")));
  var targs[NHFMT];
  targs[0] = tuple(I42); targs[1] = tuple(F25); targs[2] = tuple(Shi); targs[3] = tuple(arr); targs[4] = tuple(tup);
  targs[5] = tuple(I42); targs[6] = tuple(Shi); targs[7] = tuple(); targs[8] = tuple(); targs[9] = tuple(arr, I42, Shi, F25);
  /* the first time */
  hist_grid(targs, texts, rets, 1, hc, &execs);
  /* the independent reference for the pieces that do not depend on show */
  if (strcmp(texts[5][0][0], "42") != 0 || strcmp(texts[6][0][0], "hi") != 0 || strcmp(texts[7][0][0], "plain literal") != 0 || strcmp(texts[8][0][0], "a%b") != 0) {
    dprintf(hpipe[1], "V\thistory/first-time/text-differs\tbefore any failure: %%d of 42 -> '%s', %%s of \"hi\" -> '%s', literal -> '%s', a%%%%b -> '%s'\n", texts[5][0][0], texts[6][0][0], texts[7][0][0], texts[8][0][0]);
    _exit(3);
  }
  /* k refused formattings, each caught */
  var closedF = $(File, NULL);
  char stackbuf[32] = "stack";
  var stackS = $S(stackbuf);
  var thr = $(Thrower, 5);
  var lthr = tuple(thr);
  for (volatile int i = 0; i < hc->k; i++) {
    int kd = hc->kind == 5 ? i % 5 : hc->kind;
    var e = NULL;
    switch (kd) {
    case 0: e = VF_CATCH(print_to(closedF, 0, "%$", I42)); break;
    case 1: e = VF_CATCH(print_to(stackS, 0, "%$", I42)); break;
    case 2: e = VF_CATCH(print_to(SS, 0, "%$ %$", I42)); break;
    case 3: e = (i & 1) ? VF_CATCH(print_to(SS, 0, "%$", lthr)) : VF_CATCH(print_to(SS, 0, "%$", thr)); break;
    case 4: e = VF_CATCH(print_to(SS, 0, "%s", I42)); break;
    }
    execs++;
    if (e) refused++;
  }
  /* and again */
  hist_grid(targs, texts, rets, 0, hc, &execs);
  dprintf(hpipe[1], "OK\t%" PRIu64 "\t%" PRIu64 "\n", execs, refused);
}

static int R_kind = -1, R_hk = -1;

static void history_mode(void) {
  uint64_t refused_total = 0, cases = 0;
  for (int ki = 0; ki < 8; ki++) for (int kind = 0; kind < NHKIND; kind++) {     /* fewest failures first */
    if (R_on && ((R_kind >= 0 && kind != R_kind) || (R_hk >= 0 && HK[ki] != R_hk))) continue;
    if (HK[ki] == 0 && kind > 0) continue;                 /* no failures: one case */
    struct hcase hc = { kind, HK[ki] };
    vf_watchdog(120);
    vf_set_cur("history kind=%d k=%d | %d caught %s failures, then the small grid", kind, HK[ki], HK[ki], HKIND[kind]);
    if (pipe(hpipe) != 0) { perror("h_fmt: pipe"); _exit(2); }
    struct vf_child ch = vf_fork_run(history_child, &hc, 60);
    close(hpipe[1]);
    static char line[4096];
    ssize_t n = 0, r;
    while ((r = read(hpipe[0], line + n, sizeof line - 1 - n)) > 0) n += r;
    line[n > 0 ? n : 0] = 0;
    close(hpipe[0]);
    cases++;
    vf.evaluations++;
    char lab[200];
    if (strncmp(line, "OK\t", 3) == 0 && ch.exited && ch.status == 0) {
      unsigned long long ex = 0, rf = 0; sscanf(line + 3, "%llu\t%llu", &ex, &rf);
      vf.executions += ex; refused_total += rf; vf.evaluations += NHFMT * 4;   /* comparisons with the first time */
      if (count_nt && rf > 0) vf.nontrivial++;
      if (rf != (unsigned long long)HK[ki]) vf_note("history kind=%d k=%d: only %llu of the %d ill-formed calls were refused with an exception", kind, HK[ki], rf, HK[ki]);
      if (vf_want_sample()) vf_sample("%d caught %s failures (%llu raised), then %d well-formed formattings identical to the first time", HK[ki], HKIND[kind], rf, NHFMT * 4);
    } else if (strncmp(line, "V\t", 2) == 0) {
      char* l2 = line + 2; char* tab = strchr(l2, '\t');
      if (tab) { *tab = 0; char* nl = strchr(tab + 1, '\n'); if (nl) *nl = 0; vf_violation(l2, NULL, "%s", tab + 1); }
    } else {
      snprintf(lab, sizeof lab, "history/after-%s/k=%d/%s", HKIND[kind], HK[ki], ch.signaled ? (ch.timed_out ? "hang" : "crash") : "ended-without-result");
      vf_violation(lab, NULL, "the case ended without a result (exit %d, signal %d)", ch.status, ch.sig);
    }
  }
  vf_extra("history_cases", "%" PRIu64, cases);
  vf_extra("history_refused_formattings", "%" PRIu64, refused_total);
}

/* ---- long formats ------------------------------------------------------------------------------------------
** Well-formed formats of total length 2^12 .. 2^23+4096: "%07d" at the very start, "%%" in the middle,
** "%s" at the very end, literal text between; printed to a String and to a File (a) on the main thread
** and (b) from a pthread with a 256 KiB stack.  Each (size, thread) case runs in a forked child, every
** buffer of the harness is heap allocated.  Compared with snprintf: length, returned position, checksum,
** first differing byte; the format and the expected text must also still be intact afterwards.
*/

#include <pthread.h>

#define NLSIZE 6
static const size_t LSIZE[NLSIZE] = { 1u << 12, 1u << 16, 1u << 18, 1u << 20, 1u << 21, (1u << 23) + 4096 };
static const char* LSIZEN[NLSIZE] = { "2^12", "2^16", "2^18", "2^20", "2^21", "2^23+4096" };
static const char* LTHREAD[2] = { "main-thread", "pthread-256KiB-stack" };
struct lcase { int size, thread; };
static int R_size = -1, R_thread = -1;

static uint64_t fnv(const char* p, size_t n) { uint64_t h = 1469598103934665603ULL; for (size_t i = 0; i < n; i++) { h ^= (unsigned char)p[i]; h *= 1099511628211ULL; } return h; }

struct lwork { const struct lcase* lc; char* fmt; size_t flen; char* want; size_t wlen; uint64_t fsum, wsum; };

static void* long_worker(void* arg) {
  struct lwork* w = arg;
  const char* sz = LSIZEN[w->lc->size], *th = LTHREAD[w->lc->thread];
  for (int k = 0; k < 2; k++) {
    var a1 = $I(42), a2 = $S("tail");
    var args = tuple(a1, a2);
    char* got = NULL; size_t gl = 0; int ret;
    var str = NULL; FILE* fp = NULL; char* mb = NULL; size_t ms = 0;
    if (k == 0) {
      str = new_raw(String, $S(PREFIX));
      ret = print_to_with(str, 0, w->fmt, args);
      got = c_str(str); gl = strlen(got);
    } else {
      fp = open_memstream(&mb, &ms);
      if (!fp) { dprintf(hpipe[1], "V\tlongfmt/%s/%s/harness\topen_memstream failed\n", sz, th); _exit(3); }
      var f = $(File, fp);
      ret = print_to_with(f, 0, w->fmt, args);
      fflush(fp);
      got = mb; gl = ms;
    }
    const char* sym = NULL;
    size_t d = 0, m = gl < w->wlen ? gl : w->wlen;
    while (d < m && got[d] == w->want[d]) d++;
    if (fnv(w->fmt, w->flen) != w->fsum || fnv(w->want, w->wlen) != w->wsum) sym = "memory-outside-destination-modified";
    else if (gl != w->wlen) sym = gl < w->wlen ? "text-truncated" : "extra-characters-after-text";
    else if (d < w->wlen) sym = "text-differs";
    else if (ret != (int)w->wlen) sym = "position";
    if (sym) {
      dprintf(hpipe[1], "V\tlongfmt/%s/%s/%s/%s\tformat of %zu characters (\"%%07d\" + literal + \"%%%%\" + literal + \"%%s\") on the %s into a %s: wrote %zu characters (checksum %016" PRIx64 "), returned %d, first differing byte at %zu; "
        "snprintf writes %zu characters (checksum %016" PRIx64 ")\n",
        sz, th, SINKNAME[k], sym, w->flen, th, SINKNAME[k], gl, fnv(got, gl), ret, d, w->wlen, w->wsum);
      _exit(3);
    }
    if (str) del_raw(str);
    if (fp) { fclose(fp); free(mb); }
  }
  return NULL;
}

static void long_child(void* arg) {
  const struct lcase* lc = arg;
  size_t L = LSIZE[lc->size];
  struct lwork w; memset(&w, 0, sizeof w);
  w.lc = lc; w.flen = L;
  w.fmt = malloc(L + 1);
  static const char al[] = "abcdefghijklmnopqrstuvwxyz0123456789 ABCDEFGHIJKLMNOPQRSTUVWXYZ.,;:-_";
  for (size_t i = 0; i < L; i++) w.fmt[i] = al[i % (sizeof al - 1)];
  w.fmt[L] = 0;
  memcpy(w.fmt, "%07d", 4);                 /* a conversion at the very start */
  memcpy(w.fmt + L / 2, "%%", 2);           /* %% in the middle */
  memcpy(w.fmt + L - 2, "%s", 2);           /* a conversion at the very end */
  w.want = malloc(L + 64);
  int n = snprintf(w.want, L + 64, w.fmt, 42, "tail");
  if (n < 0 || (size_t)n >= L + 64) { dprintf(hpipe[1], "V\tlongfmt/%s/%s/harness\tsnprintf failed\n", LSIZEN[lc->size], LTHREAD[lc->thread]); _exit(3); }
  w.wlen = (size_t)n;
  w.fsum = fnv(w.fmt, L); w.wsum = fnv(w.want, w.wlen);
  if (lc->thread == 0) long_worker(&w);
  else {
    pthread_attr_t at; pthread_attr_init(&at);
    pthread_attr_setstacksize(&at, 256 * 1024);
    pthread_t t;
    if (pthread_create(&t, &at, long_worker, &w) != 0) { dprintf(hpipe[1], "V\tlongfmt/%s/%s/harness\tpthread_create failed\n", LSIZEN[lc->size], LTHREAD[lc->thread]); _exit(3); }
    pthread_join(t, NULL);
  }
  dprintf(hpipe[1], "OK\t%zu\n", w.wlen);
}

static void longfmt_mode(void) {
  int nsizes = (int)vf_param_i("sizes", 5);        /* 5: up to 2^21, 6: all */
  if (nsizes > NLSIZE) nsizes = NLSIZE;
  uint64_t cases = 0;
  for (int sz = 0; sz < nsizes; sz++) for (int th = 0; th < 2; th++) {
    if (R_on && ((R_size >= 0 && sz != R_size) || (R_thread >= 0 && th != R_thread))) continue;
    struct lcase lc = { sz, th };
    vf_watchdog(300);
    vf_set_cur("longfmt size=%d thread=%d | format of %s characters on the %s, String and File sink", sz, th, LSIZEN[sz], LTHREAD[th]);
    if (pipe(hpipe) != 0) { perror("h_fmt: pipe"); _exit(2); }
    struct vf_child ch = vf_fork_run(long_child, &lc, 120);
    close(hpipe[1]);
    static char line[4096];
    ssize_t n = 0, r;
    while ((r = read(hpipe[0], line + n, sizeof line - 1 - n)) > 0) n += r;
    line[n > 0 ? n : 0] = 0;
    close(hpipe[0]);
    cases++;
    vf.evaluations += 2; vf.executions += 2;
    if (strncmp(line, "OK\t", 3) == 0 && ch.exited && ch.status == 0) {
      { char* nl = strchr(line, '\n'); if (nl) *nl = 0; }
      if (count_nt && LSIZE[sz] >= (1u << 18)) vf.nontrivial++;        /* at least as long as the small thread stack */
      if (vf_want_sample()) vf_sample("format of %s characters on the %s: String and File hold the %s characters snprintf writes", LSIZEN[sz], LTHREAD[th], line + 3);
    } else if (strncmp(line, "V\t", 2) == 0) {
      char* l2 = line + 2; char* tab = strchr(l2, '\t');
      if (tab) { *tab = 0; char* nl = strchr(tab + 1, '\n'); if (nl) *nl = 0; vf_violation(l2, NULL, "%s", tab + 1); }
    } else {
      char lab[200];
      snprintf(lab, sizeof lab, "longfmt/%s/%s/%s", LSIZEN[sz], LTHREAD[th], ch.signaled ? (ch.timed_out ? "hang" : "crash") : "ended-without-result");
      vf_violation(lab, NULL, "formatting a well-formed format of %zu characters on the %s ended the process (exit status %d, signal %d)", LSIZE[sz], LTHREAD[th], ch.status, ch.sig);
    }
  }
  vf_extra("longfmt_cases", "%" PRIu64, cases);
  vf_extra("longfmt_longest", "\"%s\"", LSIZEN[nsizes - 1]);
}

/* ---- format buffer reuse -------------------------------------------------------------------------------------
** Sequences of 2..4 print_to calls whose formats are written one after the other into ONE mutable buffer
** (a static char array; a malloc'ed block that is freed and re-malloc'ed between calls; two static buffers
** used alternately, so that equal contents also appear at different addresses).  Every ordered sequence over
** the piece alphabet, each piece appended at the position the previous one returned, String and File sink,
** two starts; expected text is the concatenation of snprintf of the pieces.
*/

#define NPIECE 8
static const char* PIECE[NPIECE]  = { "ab", ", ", "%d", "%$", "%s=", "%%", "x%5.2fy", "" };
static const char* PIECEN[NPIECE] = { "ab", "comma", "%d", "%$", "%s=", "%%", "x%5.2fy", "empty" };
static const char* BUFKIND[3] = { "one-static-buffer", "malloc-free-malloc", "two-alternating-buffers" };
static int R_buf = -1;

static const char* FR_NAMES[4] = { "k0", "key1", "", "k3" };
static char fr_bufA[32], fr_bufB[32];

/* the prints of one sequence; returns the exception that escaped, if any */
static var __attribute__((noinline)) fmtreuse_run(var sink, int st, int L, const int* q, int bk, const size_t* cum, int* pos_out, int* bad_out) {
  volatile int pos = st, badpiece = -1;
  char* volatile hb = NULL;
  volatile var e = NULL;
  try {
    for (volatile int i = 0; i < L; i++) {
      var aI = $I(10 + i), aV = $I(20 + i), aS = $S((char*)FR_NAMES[i]), aF = $F(1.5 + i);
      var args = q[i] == 2 ? tuple(aI) : q[i] == 3 ? tuple(aV) : q[i] == 4 ? tuple(aS) : q[i] == 6 ? tuple(aF) : tuple();
      char* fb;
      if (bk == 0) fb = fr_bufA;
      else if (bk == 2) fb = (i & 1) ? fr_bufB : fr_bufA;
      else { free(hb); hb = malloc(16); fb = hb; }       /* same size class every time: the block comes back */
      strcpy(fb, PIECE[q[i]]);
      int r = print_to_with(sink, pos, fb, args);
      vf.executions++;
      if (r != st + (int)cum[i + 1] && badpiece < 0) badpiece = i;
      pos = r;
    }
  } catch (ex_) { e = ex_; }
  free(hb);
  *pos_out = pos; *bad_out = badpiece;
  return e;
}

static void fmtreuse_mode(void) {
  static char shown[4][32];
  for (int i = 0; i < 4; i++) { assign(SS, $S("")); show_to($I(20 + i), SS, 0); snprintf(shown[i], sizeof shown[i], "%s", c_str(SS)); }
  uint64_t seqs = 0;
  for (int L = 2; L <= 4; L++) {
    if (R_on && R_len >= 0 && L != R_len) continue;
    int nseq = L == 2 ? 64 : L == 3 ? 512 : 4096;
    for (int sq = 0; sq < nseq; sq++) {
      if (R_on && R_seq >= 0 && sq != R_seq) continue;
      int q[4] = { 0, 0, 0, 0 };
      { int t = sq; for (int i = L - 1; i >= 0; i--) { q[i] = t % 8; t /= 8; } }
      /* expected pieces and cumulative offsets */
      char ex[4][40]; size_t cum[5]; cum[0] = 0;
      int nt = 0;
      for (int i = 0; i < L; i++) {
        switch (q[i]) {
        case 2: snprintf(ex[i], sizeof ex[i], "%d", 10 + i); break;
        case 3: snprintf(ex[i], sizeof ex[i], "%s", shown[i]); break;
        case 4: snprintf(ex[i], sizeof ex[i], "%s=", FR_NAMES[i]); break;
        case 5: snprintf(ex[i], sizeof ex[i], "%%"); break;
        case 6: snprintf(ex[i], sizeof ex[i], "x%5.2fy", 1.5 + i); break;
        default: snprintf(ex[i], sizeof ex[i], "%s", PIECE[q[i]]); break;
        }
        cum[i + 1] = cum[i] + strlen(ex[i]);
        if (i > 0 && q[i - 1] <= 1 && strchr(PIECE[q[i]], '%')) nt = 1;     /* plain text, then conversions at the same place */
      }
      char seqname[80]; { size_t o = 0; for (int i = 0; i < L; i++) o += snprintf(seqname + o, sizeof seqname - o, "%s%s", i ? " " : "", PIECEN[q[i]]); }
      for (int bk = 0; bk < 3; bk++) {
        if (R_on && R_buf >= 0 && bk != R_buf) continue;
        vf_watchdog(60);
        vf_set_cur("fmtreuse len=%d seq=%d buf=%d | pieces [%s] through %s", L, sq, bk, seqname, BUFKIND[bk]);
        seqs++;
        if (count_nt && nt && bk < 2) vf.nontrivial++;
        for (int si = 0; si < 2; si++) {
          if (R_on && R_s >= 0 && si != R_s) continue;
          for (int k = 0; k < 2; k++) {
            if (R_on && R_k >= 0 && k != R_k) continue;
            int st = STARTS[si];
            /* every sequence starts from the same situation: the last print was a plain literal elsewhere */
            assign(SS, $S("")); print_to(SS, 0, "-");
            if (k == 0) assign(SS, PFX); else { fseeko(ffp, 0, SEEK_SET); fwrite(PREFIX, 1, PLEN, ffp); }
            var sink = k == 0 ? SS : FF;
            int pos = st, badpiece = -1;
            var e = fmtreuse_run(sink, st, L, q, bk, cum, &pos, &badpiece);
            vf.evaluations++;
            const char* got; size_t gl; int pok;
            if (k == 0) {
              const char* g = c_str(SS); size_t l = strlen(g);
              pok = l >= (size_t)st && memcmp(g, PREFIX, st) == 0; got = g + (pok ? st : 0); gl = l - (pok ? st : 0);
            } else {
              off_t end = ftello(ffp); fflush(ffp);
              pok = end >= PLEN && memcmp(mbuf, PREFIX, PLEN) == 0; got = mbuf + (pok ? PLEN : 0); gl = (size_t)end - (pok ? PLEN : 0);
            }
            char expect[200]; expect[0] = 0;
            for (int i = 0; i < L; i++) strcat(expect, ex[i]);
            size_t xl = cum[L];
            /* nothing to write at all: a String sink is then not touched (it keeps what followed the start position) */
            if (k == 0 && xl == 0) { snprintf(expect, sizeof expect, "%s", PREFIX + st); xl = strlen(expect); }
            const char* sym = NULL; char symb[64]; int at = -1;
            if (e) { snprintf(symb, sizeof symb, "raises-%s", vf_exc_name(e)); sym = symb; }
            else if (!pok) sym = "prefix-damaged";
            else if (gl != xl || memcmp(got, expect, xl) != 0) {
              sym = "text-differs";
              size_t d = 0; while (d < gl && d < xl && got[d] == expect[d]) d++;
              for (int i = 0; i < L; i++) if (d >= cum[i] && (d < cum[i + 1] || i == L - 1)) { at = i; break; }
              while (at >= 0 && at < L - 1 && cum[at + 1] == cum[at] && d >= cum[at + 1]) at++;
            }
            else if (badpiece >= 0) { sym = "position"; at = badpiece; }
            if (sym) {
              char lab[240], cs[200];
              if (at >= 0) snprintf(lab, sizeof lab, "fmtreuse/%s/%s-after-%s/%s/%s", BUFKIND[bk], PIECEN[q[at]], at > 0 ? PIECEN[q[at - 1]] : "start", SINKNAME[k], sym);
              else snprintf(lab, sizeof lab, "fmtreuse/%s/%s/%s", BUFKIND[bk], SINKNAME[k], sym);
              snprintf(cs, sizeof cs, "fmtreuse len=%d seq=%d buf=%d s=%d k=%d | pieces [%s] through %s, start %d, sink %s", L, sq, bk, si, k, seqname, BUFKIND[bk], st, SINKNAME[k]);
              vf_violation(lab, cs, "formats [%s] written one after the other into %s and printed to a %s from position %d: result '%s', final position %d%s; snprintf of the pieces gives '%s', final position %d",
                seqname, BUFKIND[bk], SINKNAME[k], st, printable(got, gl), (int)pos, badpiece >= 0 ? " (a piece returned a wrong position)" : "", printable(expect, xl), st + (int)cum[L]);
            }
            if (nt && vf_want_sample()) vf_sample("pieces [%s] through %s to a %s at %d -> '%s'", seqname, BUFKIND[bk], SINKNAME[k], st, printable(expect, xl));
          }
        }
      }
    }
  }
  vf_extra("fmtreuse_sequences", "%" PRIu64, seqs);
}

/* ---- main ---------------------------------------------------------------------------------- */

static void parse_replay(const char* r) {
  R_on = 1;
  R_m[0] = 0;
  const char* p;
  if ((p = strstr(r, "c="))) R_c = p[2];
  if ((p = strstr(r, " m="))) sscanf(p + 3, "%7s", R_m);
  if ((p = strstr(r, " f="))) R_f = atoi(p + 3);
  if ((p = strstr(r, " w="))) R_w = atoi(p + 3);
  if ((p = strstr(r, " p="))) R_p = atoi(p + 3);
  if ((p = strstr(r, " v="))) R_v = atoi(p + 3);
  if ((p = strstr(r, " x="))) R_x = atoi(p + 3);
  if ((p = strstr(r, " s="))) R_s = atoi(p + 3);
  if ((p = strstr(r, " k="))) R_k = atoi(p + 3);
  if ((p = strstr(r, " n="))) R_n = atoi(p + 3);
  if ((p = strstr(r, " form="))) R_form = atoi(p + 6);
  if ((p = strstr(r, " len="))) R_len = atoi(p + 5);
  if ((p = strstr(r, " seq="))) R_seq = atoi(p + 5);
  if ((p = strstr(r, " style="))) R_style = atoi(p + 7);
  if ((p = strstr(r, " rot="))) R_rot = atoi(p + 5);
  if ((p = strstr(r, " buf="))) R_buf = atoi(p + 5);
  if (strncmp(r, "fmtreuse", 8) == 0) return;
  if (strncmp(r, "reentrant", 9) == 0) {
    if ((p = strstr(r, " a="))) R_a = atoi(p + 3);
    if ((p = strstr(r, " b="))) R_b = atoi(p + 3);
    if ((p = strstr(r, " obj="))) R_obj = atoi(p + 5);
    return;
  }
  if (strncmp(r, "longfmt", 7) == 0) {
    if ((p = strstr(r, " size="))) R_size = atoi(p + 6);
    if ((p = strstr(r, " thread="))) R_thread = atoi(p + 8);
    return;
  }
  if (strncmp(r, "history", 7) == 0) {
    if ((p = strstr(r, " kind="))) R_kind = atoi(p + 6);
    if ((p = strstr(r, " k="))) R_hk = atoi(p + 3);
    R_k = -1;
    return;
  }
  if (strncmp(r, "repeat", 6) == 0 || strncmp(r, "recycle", 7) == 0) return;
  if (strncmp(r, "ladder", 6) == 0) return;
  if ((p = strstr(r, "h="))) R_h = atoi(p + 2);
}

int main(int argc, char** argv) {
  vf_init(argc, argv);
  vf.phase = "fmt";

  const char* grid = vf_param("grid", "mid");
  if (strcmp(grid, "full") == 0) { maxlevel = 2; nW = 4; nP = 4; nStart = 3; }
  else if (strcmp(grid, "mid") == 0) { maxlevel = 1; nW = 2; nP = 2; nStart = 3; }
  else { maxlevel = 0; nW = 2; nP = 2; nStart = 2; }
  count_nt = (int)vf_param_i("count_nt", 1);
  const char* convs = vf_param("conv", "diuoxXcsfFeEgGaAp$");
  const char* mode = vf_param("mode", "grid");

  FV[11].d = -0.0; FV[11].d = copysign(0.0, -1.0);
  FV[12].d = INFINITY; FV[13].d = -INFINITY; FV[14].d = NAN;
  /* string values as exact-size heap blocks (ASan sees an over-read of the argument) */
  for (int i = 0; i < NSV; i++) SV[i].s = strdup(SV[i].s);
  PV[0].obj = new_raw(String, $S("pointee"));
  PV[1].obj = Int;               /* a static object (the type object) */
  PV[2].obj = NULL;
  PV[3].obj = $R(PV[0].obj);     /* these live in main's block */
  PV[4].obj = $B(new_raw(Int, $I(4)));
  PV[5].obj = range($I(3));

  SS = new_raw(String);
  PFX = new_raw(String, $S(PREFIX));
  file_is_tmp = vf_param_is("file", "tmpfile", "memstream");
  if (strcmp(mode, "ladder") == 0 || strcmp(mode, "recycle") == 0 || (vf.replay && (strncmp(vf.replay, "ladder", 6) == 0 || strncmp(vf.replay, "recycle", 7) == 0))) file_is_tmp = 0;   /* the ladder opens both */
  if (file_is_tmp) ffp = tmpfile(); else ffp = open_memstream(&mbuf, &msize);
  if (!ffp) { perror("h_fmt: cannot create the File sink"); _exit(2); }
  FF = $(File, ffp);

  if (vf.replay) {
    parse_replay(vf.replay);
    if (strncmp(vf.replay, "missing", 7) == 0) mode = "missing";
    else if (strncmp(vf.replay, "show", 4) == 0) mode = "show";
    else if (strncmp(vf.replay, "ladder", 6) == 0) mode = "ladder";
    else if (strncmp(vf.replay, "repeat", 6) == 0) mode = "repeat";
    else if (strncmp(vf.replay, "recycle", 7) == 0) mode = "recycle";
    else if (strncmp(vf.replay, "reentrant", 9) == 0) mode = "reentrant";
    else if (strncmp(vf.replay, "history", 7) == 0) mode = "history";
    else if (strncmp(vf.replay, "longfmt", 7) == 0) mode = "longfmt";
    else if (strncmp(vf.replay, "fmtreuse", 8) == 0) mode = "fmtreuse";
    else if (R_v >= 1000) { mode = "show"; R_h = R_v - 1000; R_v = -1; }
    else mode = "grid";
  }

  if (strcmp(mode, "ladder") == 0) {
    ladder_mode();
  } else if (strcmp(mode, "repeat") == 0) {
    repeat_mode();
  } else if (strcmp(mode, "reentrant") == 0) {
    reentrant_mode();
  } else if (strcmp(mode, "fmtreuse") == 0) {
    fmtreuse_mode();
  } else if (strcmp(mode, "longfmt") == 0) {
    vf.phase = "longfmt";
    longfmt_mode();
  } else if (strcmp(mode, "history") == 0) {
    vf.phase = "history";
    history_mode();
  } else if (strcmp(mode, "recycle") == 0) {
    vf.phase = "recycle";
    recycle_mode();
  } else if (strcmp(mode, "show") == 0) {
    show_mode();
    vf_extra("container_shapes", "%d", NSHAPES_ALL + NUSER);
    vf_extra("view_shapes", "%d", NBASE * NVIEW);
    vf_extra("range_shapes", "%d", NRANGE);
  } else {
    for (const char* c = convs; *c; c++) {
      if (R_on && R_c && *c != R_c) continue;
      if (strcmp(mode, "missing") == 0) missing_conv(*c); else grid_conv(*c);
    }
    vf_extra("specifications", "%" PRIu64, n_specs);
    vf_extra("spec_value_pairs", "%" PRIu64, n_pairs);
  }
  if (strcmp(mode, "grid") == 0 || strcmp(mode, "show") == 0 || strcmp(mode, "missing") == 0) vf_extra("grid", "\"%s: %d widths x %d precisions, value level <= %d, 8 contexts, %d starts, 2 sinks (File over %s)\"",
    grid, nW, nP, maxlevel, nStart, file_is_tmp ? "tmpfile" : "open_memstream");
  vf_finish();
  return 0;
}
