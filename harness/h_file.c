/*
** h_file.c - explicit-state exploration of File streams (C20).
**
** One real File object and two paths in a per-run scratch directory (mkdtemp under
** /dev/shm, fallback: the instance's cwd; removed at the end, and by a janitor child if
** the harness dies).  Breadth-first search over histories of
**   sopen(path, mode) / sclose / stell / seof / sflush / swrite(chunk) / sread(n) /
**   sseek(origin, offset) / sseek(stell, SEEK_SET) / print_to / scan_from /
**   with (f in file) { inner } / del + re-create (raw, collector-managed, constructor-open,
**   stack-allocated) / destruct(file) with the object kept / construct(file, path, mode) on the
**   existing object / nested with blocks (File and Mutex either way round, two Files, a with in a
**   called function that returns or throws) / environment: another stream appends a byte to the
**   open file.
**
** Three independent views of every history:
**   1. the real File object (Cello, /repo/src/File.c) on files r0, r1;
**   2. a TWIN: the same stdio calls, in the same order, on a plain FILE* on files t0, t1;
**   3. a boring byte-array MODEL of both files + {open, path, mode, position, eof flag,
**      direction of the last transfer}.  The model supplies the canonical state key,
**      decides which operations are inside the C contract (ISO C forbids input directly
**      after output, and output directly after input that did not hit end-of-file,
**      without an intervening flush / seek: such operations are "not enabled"; the rule
**      is applied in every mode because glibc's large fread drops pending output even on
**      a write-only stream before it fails), and is the reference for the bytes that must
**      be read back.  Reads on "ab", writes on "rb", seeks before the start and fopen of
**      a missing file are C-library-defined failures: the real call may raise or not,
**      only agreement with the twin afterwards is demanded.
** Twin != model is an error of this harness (exit 2), never a verdict.
**
** Handle accounting: fopen, fclose, fread, fwrite, fseek, ftell, fflush, feof, vfprintf
** and vfscanf are interposed at link time (-Wl,--wrap=...).  While a Cello call on the
** File under test is in progress every such call must name a handle that a counted,
** successful fopen returned and that was not closed since: a NULL handle or a stale one
** is recorded as a violation and NOT forwarded to libc (so exploration continues where
** the real program would die in fclose(NULL)); fclose must be called exactly once per
** successful fopen: by sclose, del, leaving a with block, or re-opening.
**
** Parameters: mode=bfs|ladder (ladder: print_to of one N-character conversion, N = 0..ladder_n
**             and larger sizes, read back with sread and scan_from; then the byte sweep: all 256
**             byte values written and read one byte at a time on file / tmpfile / fmemopen / pipe; then the
**             write-size ladder: one swrite of n bytes, n around 4096 / BUFSIZ / 65536)
**             depth=N  first=<ops> | notfirst=<ops> (partition of the history space by
** the first operation; comma separated alphabet indices)  alpha=full|lite  whitebox=1|0
**             big=<n>|bufsiz (size of the large swrite/sread block of the BFS, default 8193)
**             bigprint=1|0 (0: without the 257-character print_to operation)
**             probe=1|0 (seof/stell compared with the twin after every transition)
**             concrete=1|0 (state key refined by the real stream's libc bookkeeping when it
**             differs from the twin's)
*/

#include "vf_bfs.h"
#include <errno.h>
#include <dirent.h>
#include <sys/stat.h>

/* ---- interposed stdio ------------------------------------------------------------ */

FILE*  __real_fopen(const char*, const char*);
int    __real_fclose(FILE*);
size_t __real_fread(void*, size_t, size_t, FILE*);
size_t __real_fwrite(const void*, size_t, size_t, FILE*);
int    __real_fseek(FILE*, long, int);
long   __real_ftell(FILE*);
int    __real_fflush(FILE*);
int    __real_feof(FILE*);
int    __real_vfprintf(FILE*, const char*, va_list);
int    __real_vfscanf(FILE*, const char*, va_list);
int    __real___isoc99_vfscanf(FILE*, const char*, va_list);

static volatile int in_lib;       /* 1 while a Cello call on the File under test runs */
static volatile int completed;    /* with-block: the body has finished, stop_in is next */
#define MAXLIVE 8
static FILE* live[MAXLIVE];
static int nlive;
static struct ledger {
  int fopen_ok, fopen_fail, fclose_ok, other, null_arg, stale, in_exit;
  char badfn[24];
} L;

static int live_find(FILE* f) { for (int i = 0; i < nlive; i++) if (live[i] == f) return i; return -1; }

static void fault(int* counter, const char* fn) {
  (*counter)++;
  if (!L.badfn[0]) { snprintf(L.badfn, sizeof L.badfn, "%s", fn); L.in_exit = completed; }
}

/* 1: forward to libc; 0: refuse (NULL or stale handle while the library is running) */
static int guard(FILE* f, const char* fn) {
  if (!in_lib) return 1;
  if (f == NULL) { fault(&L.null_arg, fn); return 0; }
  if (f == stdin || f == stdout || f == stderr) return 1;
  if (live_find(f) < 0) { fault(&L.stale, fn); return 0; }
  L.other++;
  return 1;
}

FILE* __wrap_fopen(const char* path, const char* mode) {
  FILE* f = __real_fopen(path, mode);
  if (in_lib) {
    if (f) { L.fopen_ok++; if (nlive < MAXLIVE) live[nlive++] = f; }
    else L.fopen_fail++;
  }
  return f;
}

int __wrap_fclose(FILE* f) {
  if (!in_lib) return __real_fclose(f);
  if (f == NULL) { fault(&L.null_arg, "fclose"); errno = EBADF; return EOF; }
  if (f == stdin || f == stdout || f == stderr) return __real_fclose(f);
  int i = live_find(f);
  if (i < 0) { fault(&L.stale, "fclose"); errno = EBADF; return EOF; }
  live[i] = live[--nlive];
  L.fclose_ok++;
  return __real_fclose(f);
}

size_t __wrap_fread(void* p, size_t s, size_t n, FILE* f) { return guard(f, "fread") ? __real_fread(p, s, n, f) : 0; }
size_t __wrap_fwrite(const void* p, size_t s, size_t n, FILE* f) { return guard(f, "fwrite") ? __real_fwrite(p, s, n, f) : 0; }
int  __wrap_fseek(FILE* f, long o, int w) { return guard(f, "fseek") ? __real_fseek(f, o, w) : -1; }
long __wrap_ftell(FILE* f) { return guard(f, "ftell") ? __real_ftell(f) : -1L; }
int  __wrap_fflush(FILE* f) { if (f == NULL && !in_lib) return __real_fflush(f); return guard(f, "fflush") ? __real_fflush(f) : EOF; }
int  __wrap_feof(FILE* f) { return guard(f, "feof") ? __real_feof(f) : 0; }
int  __wrap_vfprintf(FILE* f, const char* fmt, va_list va) { return guard(f, "vfprintf") ? __real_vfprintf(f, fmt, va) : -1; }
int  __wrap_vfscanf(FILE* f, const char* fmt, va_list va) { return guard(f, "vfscanf") ? __real_vfscanf(f, fmt, va) : EOF; }
int  __wrap___isoc99_vfscanf(FILE* f, const char* fmt, va_list va) { return guard(f, "vfscanf") ? __real___isoc99_vfscanf(f, fmt, va) : EOF; }

/* run a Cello statement on the File under test: interposition armed, exception captured */
#define LIB(stmt) ({ in_lib = 1; var lib__e = VF_CATCH(stmt); in_lib = 0; lib__e; })

/* ---- scratch directory ----------------------------------------------------------- */

static char sdir[512];
static char rpath[2][600], tpath[2][600];

static void rm_scratch(void) {
  if (!sdir[0]) return;
  DIR* d = opendir(sdir);
  if (d) {
    struct dirent* e;
    while ((e = readdir(d))) {
      if (strcmp(e->d_name, ".") == 0 || strcmp(e->d_name, "..") == 0) continue;
      char p[900]; snprintf(p, sizeof p, "%s/%s", sdir, e->d_name);
      unlink(p);
    }
    closedir(d);
  }
  rmdir(sdir);
}

/* a child that outlives the harness and removes the scratch directory however it ends */
static void start_janitor(void) {
  int pfd[2];
  if (pipe(pfd) != 0) return;
  fflush(NULL);
  pid_t pid = fork();
  if (pid < 0) { close(pfd[0]); close(pfd[1]); return; }
  if (pid == 0) {
    close(pfd[1]);
    int dn = open("/dev/null", O_RDWR);
    if (dn >= 0) { dup2(dn, 0); dup2(dn, 1); dup2(dn, 2); }
    for (int s = 1; s < 32; s++) if (s != SIGKILL && s != SIGSTOP) signal(s, s == SIGINT || s == SIGTERM || s == SIGHUP || s == SIGPIPE ? SIG_IGN : SIG_DFL);
    alarm(0);
    char c;
    while (read(pfd[0], &c, 1) > 0) {}
    rm_scratch();
    _exit(0);
  }
  close(pfd[0]);       /* the write end stays open until this process is gone */
}

static void make_scratch(void) {
  snprintf(sdir, sizeof sdir, "/dev/shm/verif-file-XXXXXX");
  if (!mkdtemp(sdir)) {
    char cwd[400];
    if (!getcwd(cwd, sizeof cwd)) strcpy(cwd, ".");
    snprintf(sdir, sizeof sdir, "%s/verif-file-XXXXXX", cwd);
    if (!mkdtemp(sdir)) { perror("h_file: mkdtemp"); _exit(2); }
  }
  for (int p = 0; p < 2; p++) {
    snprintf(rpath[p], sizeof rpath[p], "%s/r%d", sdir, p);
    snprintf(tpath[p], sizeof tpath[p], "%s/t%d", sdir, p);
  }
  start_janitor();
}

/* ---- reference model ------------------------------------------------------------- */

enum { M_WP, M_R, M_RP, M_A, NMODES };
static const char* modestr[NMODES] = { "w+b", "rb", "r+b", "ab" };
#define READABLE(m) ((m) != M_A)
#define WRITABLE(m) ((m) != M_R)
enum { LAST_NONE, LAST_READ, LAST_WRITE };

struct mfile { int exists, dirty; size_t len, cap; unsigned char* b; };
static struct model {
  struct mfile f[2];
  int open, path, mode, eof, last;
  int64_t pos;
} M;

static void mf_write(struct mfile* f, size_t at, const void* data, size_t n) {
  if (n == 0) return;
  size_t end = at + n;
  if (end > f->cap) { f->cap = end * 2 + 64; f->b = realloc(f->b, f->cap); }
  if (at > f->len) memset(f->b + f->len, 0, at - f->len);
  memcpy(f->b + at, data, n);
  if (end > f->len) f->len = end;
  f->dirty = 1;
}

/* ---- objects, twin, alphabet ------------------------------------------------------ */

static var* R;
#define F (R[0])                 /* the File under test */
#define SK (R[1])                /* String scan target (capacity 100) */
#define IV (R[2])                /* Int scan target */
#define MX (R[3])                /* a Mutex: the "other object" of nested with blocks */
enum { F_RAW, F_MANAGED, F_STACK };
static int F_kind;
static var sfmem;                /* room for one stack-allocated File (lives in main's frame) */
static FILE* T;                  /* the twin stream */

#define BIG 8193
#define GUARD 32
static unsigned char chunk3[BIG];
static const unsigned char* chunkp[4];
static size_t chunklen[4] = { 0, 1, 3, BIG };      /* [3] = big=<n>|bufsiz, at most BIG */
static char bigname[32] = "8193-byte block";
static const char* chunkname[4] = { "\"\"", "\"\\xff\"", "\"\\0y\\0\"", bigname };
static size_t rdlen[4] = { 0, 1, 3, BIG };
static const int origins[3] = { SEEK_SET, SEEK_CUR, SEEK_END };
static const char* originname[3] = { "SEEK_SET", "SEEK_CUR", "SEEK_END" };
static const int offsets[3] = { 0, 1, -1 };
#define OFF_CURPOS 3            /* sseek(f, <current position>, SEEK_SET): a seek that moves nowhere */
/* a printed record: N times 'k', then " 42;" (print_to("%s %li;", <N-character String>, 42)) */
#define RECTAIL " 42;"
#define RECTAILLEN 4
#define MAXPAY 20000
static const size_t paylen[2] = { 1, 257 };      /* BFS payloads: short, and just past a 256-byte formatting buffer */
static char paystr[2][260];
static char twin_str[MAXPAY + 16];
static unsigned char recbuf[MAXPAY + 16];
static size_t make_record(size_t n) { memset(recbuf, 'k', n); memcpy(recbuf + n, RECTAIL, RECTAILLEN + 1); return n + RECTAILLEN; }
#define RECFMT "%s %li;"

enum { K_SOPEN, K_SCLOSE, K_STELL, K_SEOF, K_SFLUSH, K_SWRITE, K_SREAD, K_SSEEK, K_PRINT, K_SCAN, K_EMPTY, K_CONSTRUCT };
struct prim { int kind, a, b; };
enum { T_PLAIN, T_WITH, T_DELNEW, T_ENV, T_DESTRUCT, T_NEST };
struct op { int type; struct prim p; int variant; char name[96]; char kname[32]; };
#define MAXOPS 96
static struct op ops[MAXOPS];
static int nops;

static unsigned char rbuf[BIG + GUARD], tbuf[BIG + GUARD];
static volatile int64_t g_ret;   /* integer result of the real call */
static volatile var g_retp;      /* pointer result of the real call */
static volatile int pr_eof;

static int nobigprint;              /* bigprint=0: the 257-character print_to is left to the shallower instance and the ladder */
static int touched[2] = { 1, 1 };   /* an open was attempted on that path since the last reset */
static int nsteps, bad_exec, whitebox = 1, concrete = 1, probe = 1;
static int nt_flag;
static unsigned char firstmask[MAXOPS]; static int have_first;

/* evidence counters */
static uint64_t n_readback_bytes, n_closed_ops, n_disk_compares, n_scan_ok, n_with_exit, n_cfail, n_fclose_seen, n_fopen_seen, n_env, n_diverged, n_probes, n_destruct, n_ladder, n_sweep, n_wladder, n_nest;

static struct { int fclose, fopen, silent; } E;   /* expectations for the operation in progress */
static char site[96];

static void set_site(const char* kname) {
  snprintf(site, sizeof site, "file/%s/%s", kname, M.open ? "open" : "closed");
  vf.phase = site;              /* crashes and sanitizer reports are labelled with the site */
}

static char labelbuf[200];
static const char* LB(const char* symptom) { snprintf(labelbuf, sizeof labelbuf, "%s/%s", site, symptom); return labelbuf; }

static void infra(const char* fmt, ...) {
  va_list ap; va_start(ap, fmt);
  fprintf(stderr, "h_file: the twin FILE* disagrees with the harness's stdio model (harness error, not a verdict): ");
  vfprintf(stderr, fmt, ap);
  fprintf(stderr, "\n  case: %s\n", vf_cur);
  va_end(ap);
  rm_scratch();
  _exit(2);
}

static const char* state_txt(void) {
  static char b[160];
  if (!M.open) snprintf(b, sizeof b, "closed");
  else snprintf(b, sizeof b, "open path%d mode %s pos %" PRId64 " len %zu eof %d", M.path, modestr[M.mode], M.pos, M.f[M.path].len, M.eof);
  return b;
}

static void ledger_reset(void) { memset(&L, 0, sizeof L); memset(&E, 0, sizeof E); completed = 0; }

/* NULL / stale handle given to stdio by the library */
static int ledger_fault(void) {
  char sy[64];
  if (L.null_arg) {
    snprintf(sy, sizeof sy, "%s%s(NULL)", L.in_exit ? "exit-" : "", L.badfn);
    vf_violation(LB(sy), NULL, "%s called with a NULL handle%s (File was %s); refused by the interposer, libc would dereference it",
                 L.badfn, L.in_exit ? " while leaving the with block" : "", state_txt());
    return 1;
  }
  if (L.stale) {
    snprintf(sy, sizeof sy, "%s%s(stale-handle)", L.in_exit ? "exit-" : "", L.badfn);
    vf_violation(LB(sy), NULL, "%s called on a handle that is not the open stream of the File (already closed or never opened by it)%s",
                 L.badfn, L.in_exit ? " while leaving the with block" : "");
    return 1;
  }
  return 0;
}

static int ledger_post(void) {
  n_fclose_seen += L.fclose_ok; n_fopen_seen += L.fopen_ok + L.fopen_fail;
  if (ledger_fault()) return 1;
  if (L.fclose_ok != E.fclose) {
    vf_violation(LB(L.fclose_ok < E.fclose ? "fclose-missing" : "fclose-extra"), NULL,
      "the operation called fclose %d time(s) on the File's stream, exactly %d expected (now %s)", L.fclose_ok, E.fclose, state_txt());
    return 1;
  }
  if (L.fopen_ok + L.fopen_fail != E.fopen) {
    vf_violation(LB("fopen-count"), NULL, "the operation called fopen %d time(s), %d expected", L.fopen_ok + L.fopen_fail, E.fopen);
    return 1;
  }
  if (E.silent && (L.other || L.fopen_ok || L.fopen_fail || L.fclose_ok)) {
    vf_violation(LB("stdio-call-while-closed"), NULL, "an operation on a File that is not open made %d stdio call(s)", L.other + L.fopen_ok + L.fopen_fail + L.fclose_ok);
    return 1;
  }
  if (nlive != (M.open ? 1 : 0)) {
    vf_violation(LB(nlive > (M.open ? 1 : 0) ? "handle-leak" : "handle-lost"), NULL,
      "%d stream(s) opened by the File are still open, the File is %s", nlive, state_txt());
    return 1;
  }
  return 0;
}

/* ---- on-disk comparison (only when nothing is buffered for that path) ------------- */

/* whole file into a malloc'd buffer (raw descriptors: no stdio of the process under test involved) */
static unsigned char* slurp(const char* path, size_t* n, int* exists) {
  int fd = open(path, O_RDONLY);
  *n = 0; *exists = fd >= 0;
  if (fd < 0) return NULL;
  struct stat st;
  size_t cap = (fstat(fd, &st) == 0 ? (size_t)st.st_size : 0) + 64;
  unsigned char* b = malloc(cap);
  for (;;) {
    if (*n == cap) { cap *= 2; b = realloc(b, cap); }
    ssize_t r = read(fd, b + *n, cap - *n);
    if (r <= 0) break;
    *n += (size_t)r;
  }
  close(fd);
  return b;
}

static int verify_disk(void) {
  int bad = 0;
  for (int p = 0; p < 2 && !bad; p++) {
    struct mfile* mf = &M.f[p];
    if (!mf->dirty) continue;
    size_t rn, tn; int rex, tex;
    unsigned char* tb = slurp(tpath[p], &tn, &tex);
    if (tex != mf->exists || (tex && (tn != mf->len || (tn && memcmp(tb, mf->b, tn) != 0))))
      infra("twin file %d on disk: exists %d len %zu, model exists %d len %zu", p, tex, tn, mf->exists, mf->len);
    unsigned char* rb = slurp(rpath[p], &rn, &rex);
    n_disk_compares++; vf.evaluations++;
    if (rex != mf->exists) {
      vf_violation(LB("disk-existence-differs"), NULL, "file %d %s on disk after the close, reference says it %s", p, rex ? "exists" : "does not exist", mf->exists ? "exists" : "does not");
      bad = 1;
    } else if (rex && rn != mf->len) {
      vf_violation(LB("disk-length-differs"), NULL, "file %d is %zu bytes on disk after the close; the bytes written amount to %zu (twin file: %zu)", p, rn, mf->len, tn);
      bad = 1;
    } else if (rex && rn && memcmp(rb, mf->b, rn) != 0) {
      size_t i = 0; while (i < rn && rb[i] == mf->b[i]) i++;
      vf_violation(LB("disk-bytes-differ"), NULL, "file %d differs from the bytes written at offset %zu of %zu (0x%02x, expected 0x%02x)", p, i, rn, rb[i], mf->b[i]);
      bad = 1;
    }
    if (!bad && mf->len > 0) nt_flag = 1;
    free(tb); free(rb);
    mf->dirty = 0;
  }
  return bad;
}

static void twin_close(void) {
  if (!T) return;
  if (fclose(T) != 0) { T = NULL; infra("fclose of the twin stream failed"); }
  T = NULL;
}

static void model_close(void) { M.open = 0; M.eof = 0; M.last = LAST_NONE; M.pos = 0; M.mode = 0; M.path = 0; }

/* ---- primitives: enabledness, the real call, the comparison ----------------------- */

/* number of 'k' of the record that starts at the current position (0: none starts here) */
static size_t record_at_pos(void) {
  struct mfile* mf = &M.f[M.path];
  size_t p = (size_t)M.pos, n = 0;
  if (M.pos < 0) return 0;
  while (p + n < mf->len && mf->b[p + n] == 'k' && n <= MAXPAY) n++;
  if (n == 0 || n > MAXPAY) return 0;
  if (p + n + RECTAILLEN <= mf->len && memcmp(mf->b + p + n, RECTAIL, RECTAILLEN) == 0) return n;
  return 0;
}

static int prim_enabled(const struct prim* p) {
  if (!M.open) return 1;                       /* every operation is tried on a closed File */
  switch (p->kind) {
  case K_SWRITE: case K_PRINT:
    if (M.last == LAST_READ && !M.eof) return 0;   /* ISO C 7.21.5.3p7 (applied in every mode, see below) */
    return 1;
  case K_SREAD:
    /* also on write-only streams: glibc's large fread discards pending output before it fails */
    if (M.last == LAST_WRITE) return 0;
    /* end-of-file indicator set but the file has grown since (other stream): whether a read
       transfers anything before the indicator is cleared is the C library's business
       (glibc: sticky for small reads, not for large ones); the in-contract path seeks first */
    if (M.eof && (size_t)M.pos < M.f[M.path].len && rdlen[p->a] > 0) return 0;
    return 1;
  case K_SCAN:
    if (!READABLE(M.mode)) return 0;
    if (M.last == LAST_WRITE || M.eof) return 0;
    return record_at_pos() > 0;                /* in-contract use: a printed record starts here */
  default: return 1;
  }
}

/* the raw Cello call; may throw */
static void prim_real(const struct prim* p, var f) {
  switch (p->kind) {
  case K_SOPEN:  touched[p->a] = 1; g_retp = sopen(f, $S(rpath[p->a]), $S((char*)modestr[p->b])); break;
  case K_SCLOSE: sclose(f); break;
  case K_STELL:  g_ret = stell(f); break;
  case K_SEOF:   g_ret = seof(f) ? 1 : 0; break;
  case K_SFLUSH: sflush(f); break;
  case K_SWRITE: g_ret = (int64_t)swrite(f, (void*)chunkp[p->a], chunklen[p->a]); break;
  case K_SREAD:  g_ret = (int64_t)sread(f, rbuf, rdlen[p->a]); break;
  case K_SSEEK:  sseek(f, p->b == OFF_CURPOS ? M.pos : offsets[p->b], origins[p->a]); break;
  case K_PRINT:  g_ret = print_to(f, 0, RECFMT, $S(paystr[p->a]), $I(42)); break;
  case K_CONSTRUCT: touched[p->a] = 1; g_retp = construct(f, $S(rpath[p->a]), $S((char*)modestr[p->b])); break;
  case K_SCAN:   g_ret = scan_from(f, 0, RECFMT, SK, IV); break;
  case K_EMPTY:  break;
  }
}

static void prim_prepare(const struct prim* p) {
  g_ret = -777; g_retp = NULL;
  if (p->kind == K_SREAD) memset(rbuf, 0xAA, sizeof rbuf);
  if (p->kind == K_SCAN) { c_str(SK)[0] = 0; assign(IV, $I(0)); }
}

static int V(const char* symptom, const char* fmt, ...) {
  va_list ap; va_start(ap, fmt);
  char* d = vf_vfmt(fmt, ap);
  va_end(ap);
  vf_violation(LB(symptom), NULL, "%s [File was: %s]", d, state_txt());
  free(d);
  return VF_BAD;
}

/* after the real call (e = exception it raised or NULL): twin call, comparison, model update */
static int prim_after(const struct prim* p, var e) {
  if (ledger_fault()) return VF_BAD;

  if (!M.open && p->kind != K_SOPEN && p->kind != K_CONSTRUCT && p->kind != K_EMPTY) {
    /* "any operation on a File that is not open raises IOError rather than touching a stale handle" */
    n_closed_ops++; vf.evaluations++;
    E.silent = 1;
    if (e == NULL) return V("no-IOError", "the operation returned normally on a File that is not open");
    if (e != IOError) { char sy[64]; snprintf(sy, sizeof sy, "raised-%s-not-IOError", vf_exc_name(e)); return V(sy, "the operation raised %s on a File that is not open", vf_exc_name(e)); }
    return VF_OK;
  }

  struct mfile* mf = &M.f[M.path];
  switch (p->kind) {

  case K_EMPTY: return VF_OK;

  case K_CONSTRUCT:      /* construct(file, path, mode) on an existing object: File_New -> File_Open */
  case K_SOPEN: {
    int pa = p->a, mo = p->b;
    E.fclose += M.open ? 1 : 0; E.fopen += 1;
    twin_close(); model_close();
    T = fopen(tpath[pa], modestr[mo]);
    int expect_ok = (mo == M_WP || mo == M_A) ? 1 : M.f[pa].exists;
    if ((T != NULL) != expect_ok) infra("fopen(%s) twin %s, model expects %s", modestr[mo], T ? "ok" : "failed", expect_ok ? "ok" : "failure");
    if (!expect_ok) {
      n_cfail++;
      if (e == NULL) return V("no-exception-when-fopen-fails", "sopen(%s) of a missing file returned normally although fopen fails", modestr[mo]);
      return verify_disk() ? VF_BAD : VF_OK;
    }
    if (e != NULL) return V("raised", "sopen(path%d, %s) raised %s, fopen on the twin succeeds", pa, modestr[mo], vf_exc_name(e));
    if (g_retp != F) return V("sopen-return", "sopen did not return the File object");
    struct mfile* nf = &M.f[pa];
    if (mo == M_WP) { nf->exists = 1; nf->len = 0; nf->dirty = 1; }
    if (mo == M_A && !nf->exists) { nf->exists = 1; nf->len = 0; nf->dirty = 1; }
    M.open = 1; M.path = pa; M.mode = mo; M.eof = 0; M.last = LAST_NONE;
    M.pos = mo == M_A ? (int64_t)nf->len : 0;
    return verify_disk() ? VF_BAD : VF_OK; }

  case K_SCLOSE:
    E.fclose += 1;
    twin_close(); model_close();
    if (e != NULL) return V("raised", "sclose of an open File raised %s", vf_exc_name(e));
    return verify_disk() ? VF_BAD : VF_OK;

  case K_STELL: {
    long tv = ftell(T);
    if (tv != M.pos) infra("ftell twin %ld model %" PRId64, tv, M.pos);
    if (e != NULL) return V("raised", "stell raised %s, ftell on the twin gives %ld", vf_exc_name(e), tv);
    vf.evaluations++;
    if (g_ret != tv) return V("position-differs", "stell = %" PRId64 ", ftell on the twin stream = %ld", (int64_t)g_ret, tv);
    return VF_OK; }

  case K_SEOF: {
    int tv = feof(T) ? 1 : 0;
    if (tv != M.eof) infra("feof twin %d model %d", tv, M.eof);
    if (e != NULL) return V("raised", "seof raised %s", vf_exc_name(e));
    vf.evaluations++;
    if (g_ret != tv) return V("eof-differs", "seof = %" PRId64 ", feof on the twin stream = %d", (int64_t)g_ret, tv);
    return VF_OK; }

  case K_SFLUSH: {
    int tv = fflush(T);
    if (tv != 0) infra("fflush twin %d", tv);
    if (e != NULL) return V("raised", "sflush raised %s, fflush on the twin succeeds", vf_exc_name(e));
    if (M.last == LAST_WRITE) M.last = LAST_NONE;
    return VF_OK; }

  case K_SWRITE: {
    size_t n = chunklen[p->a];
    size_t tr = fwrite(chunkp[p->a], n, 1, T);
    if (!WRITABLE(M.mode)) {
      if (tr != 0) infra("fwrite on a read-only twin returned %zu", tr);
      if (n > 0) {            /* C-library-defined failure: mirror the twin, demand nothing more */
        n_cfail++; M.last = LAST_WRITE;
        if (e == NULL && g_ret != 0) return V("return-count", "swrite to a read-only stream returned %" PRId64 ", fwrite on the twin wrote nothing", (int64_t)g_ret);
        return VF_OK;
      }
      if (e != NULL) return V("raised", "swrite of 0 bytes raised %s", vf_exc_name(e));
      return VF_OK;
    }
    if (tr != (n > 0 ? 1u : 0u)) infra("fwrite twin returned %zu for %zu bytes", tr, n);
    if (e != NULL) return V("raised", "swrite(%zu bytes) raised %s, fwrite on the twin succeeds", n, vf_exc_name(e));
    if (g_ret != (int64_t)tr && g_ret != (int64_t)n) return V("return-count", "swrite(%zu bytes) returned %" PRId64 " (neither the item count %zu of the twin nor the byte count)", n, (int64_t)g_ret, tr);
    size_t at = M.mode == M_A ? mf->len : (size_t)M.pos;
    if (n > 0) {
      mf_write(mf, at, chunkp[p->a], n);
      M.pos = (int64_t)(at + n);
      M.last = LAST_WRITE;
    }
    return VF_OK; }

  case K_SREAD: {
    size_t n = rdlen[p->a];
    memset(tbuf, 0xAA, sizeof tbuf);
    size_t tr = fread(tbuf, n, 1, T);
    if (!READABLE(M.mode)) {
      if (tr != 0) infra("fread on a write-only twin returned %zu", tr);
      if (n > 0) {
        n_cfail++; M.last = LAST_READ;
        if (e == NULL && g_ret != 0) return V("return-count", "sread from a write-only stream returned %" PRId64 ", fread on the twin read nothing", (int64_t)g_ret);
        return VF_OK;
      }
      if (e != NULL) return V("raised", "sread of 0 bytes raised %s", vf_exc_name(e));
      return VF_OK;
    }
    size_t avail = (size_t)M.pos < mf->len ? mf->len - (size_t)M.pos : 0;
    size_t got = n < avail ? n : avail;
    int full = got == n;
    if (tr != ((full && n > 0) ? 1u : 0u)) infra("fread twin returned %zu, model: want %zu avail %zu", tr, n, avail);
    if (e != NULL) return V(full ? "raised" : "raised-at-end-of-file", "sread(%zu) with %zu byte(s) left raised %s, fread on the twin returns %zu", n, avail, vf_exc_name(e), tr);
    if (g_ret != (int64_t)tr && g_ret != (int64_t)got) return V("return-count", "sread(%zu) with %zu byte(s) left returned %" PRId64 " (twin item count %zu, bytes transferred %zu)", n, avail, (int64_t)g_ret, tr, got);
    for (size_t i = n; i < n + GUARD; i++) if (rbuf[i] != 0xAA) return V("buffer-overrun", "sread(%zu) wrote past the end of the caller's buffer (offset %zu)", n, i);
    if (full && n > 0) {
      if (memcmp(tbuf, mf->b + M.pos, n) != 0) infra("fread twin bytes differ from the model at pos %" PRId64, M.pos);
      vf.evaluations++;
      if (memcmp(rbuf, mf->b + M.pos, n) != 0) {
        size_t i = 0; while (rbuf[i] == mf->b[M.pos + i]) i++;
        return V("bytes-differ", "sread(%zu) at position %" PRId64 ": byte %zu read back as 0x%02x, written as 0x%02x", n, M.pos, i, rbuf[i], mf->b[M.pos + i]);
      }
      n_readback_bytes += n; nt_flag = 1;
    }
    if (n > 0) {
      M.pos += (int64_t)got;
      if (!full) M.eof = 1;
      M.last = LAST_READ;
    }
    return VF_OK; }

  case K_SSEEK: {
    int64_t base = p->a == 0 ? 0 : p->a == 1 ? M.pos : (int64_t)mf->len;
    int64_t off = p->b == OFF_CURPOS ? M.pos : offsets[p->b];
    int64_t target = base + off;
    int tv = fseek(T, (long)off, origins[p->a]);
    if ((tv != 0) != (target < 0)) infra("fseek twin %d, model target %" PRId64, tv, target);
    if (target < 0) {           /* before the start of the file: C-library-defined failure, nothing demanded */
      n_cfail++;
      return VF_OK;
    }
    if (e != NULL) return V("raised", "sseek(%" PRId64 ", %s) to position %" PRId64 " raised %s, fseek on the twin succeeds", off, originname[p->a], target, vf_exc_name(e));
    M.pos = target; M.eof = 0; M.last = LAST_NONE;
    return VF_OK; }

  case K_PRINT: {
    size_t reclen = make_record(paylen[p->a]);
    int tv = fprintf(T, RECFMT, paystr[p->a], 42L);
    if (!WRITABLE(M.mode)) {
      if (tv >= 0) infra("fprintf on a read-only twin returned %d", tv);
      n_cfail++; M.last = LAST_WRITE;
      return VF_OK;
    }
    if (tv != (int)reclen) infra("fprintf twin returned %d", tv);
    if (e != NULL) return V("raised", "print_to raised %s, fprintf on the twin succeeds", vf_exc_name(e));
    if (g_ret != (int64_t)reclen) return V("print-return", "print_to(f, 0, \"%s\", <%zu x 'k'>, 42) returned %" PRId64 ", %zu characters were to be written", RECFMT, paylen[p->a], (int64_t)g_ret, reclen);
    size_t at = M.mode == M_A ? mf->len : (size_t)M.pos;
    mf_write(mf, at, recbuf, reclen);
    M.pos = (int64_t)(at + reclen);
    M.last = LAST_WRITE;
    return VF_OK; }

  case K_SCAN: {
    size_t nk = record_at_pos(), reclen = make_record(nk);
    long tl = 0; twin_str[0] = 0;
    int tv = fscanf(T, RECFMT, twin_str, &tl);
    if (tv != 2 || strlen(twin_str) != nk || memcmp(twin_str, recbuf, nk) != 0 || tl != 42) infra("fscanf twin returned %d '%.20s' %ld", tv, twin_str, tl);
    if (e != NULL) return V("raised", "scan_from raised %s at a position where a record (%zu x 'k', \" 42;\") written by print_to starts", vf_exc_name(e), nk);
    vf.evaluations++;
    if (strlen(c_str(SK)) != nk || memcmp(c_str(SK), recbuf, nk) != 0 || c_int(IV) != 42)
      return V("scan-values-differ", "scan_from read back (\"%.20s\" of length %zu, %" PRId64 "), print_to had written (%zu x 'k', 42)", c_str(SK), strlen(c_str(SK)), (int64_t)c_int(IV), nk);
    if (g_ret != (int64_t)reclen) return V("scan-return", "scan_from returned %" PRId64 ", %zu characters were consumed", (int64_t)g_ret, reclen);
    M.pos += (int64_t)reclen;
    M.last = LAST_READ;
    n_scan_ok++; n_readback_bytes += reclen; nt_flag = 1;
    return VF_OK; }
  }
  return VF_OK;
}

/* ---- operations ------------------------------------------------------------------- */

static int apply_plain(struct op* o) {
  if (!prim_enabled(&o->p)) return VF_SKIP;
  set_site(o->kname);
  ledger_reset(); prim_prepare(&o->p);
  var e = LIB(prim_real(&o->p, F));
  int r = prim_after(&o->p, e);
  if (r == VF_BAD) return r;
  return ledger_post() ? VF_BAD : VF_OK;
}

static int apply_with(struct op* o) {
  if (!prim_enabled(&o->p)) return VF_SKIP;
  set_site(o->kname);
  ledger_reset(); prim_prepare(&o->p);
  var e = LIB( with (f in F) { prim_real(&o->p, f); completed = 1; } );
  if (!completed) {
    /* the inner operation raised: the exception leaves the block, stop is never reached */
    int r = prim_after(&o->p, e);
    if (r == VF_BAD) return r;
    return ledger_post() ? VF_BAD : VF_OK;
  }
  int r = prim_after(&o->p, NULL);
  if (r == VF_BAD) return r;
  n_with_exit++;
  if (M.open) {
    /* leaving the block closes the stream exactly once */
    E.fclose += 1;
    twin_close(); model_close();
    if (e != NULL) return V("exit-raised", "leaving the with block around an open File raised %s", vf_exc_name(e));
    if (ledger_post()) return VF_BAD;
    return verify_disk() ? VF_BAD : VF_OK;
  }
  /* the File is not open when the block is left (inner sclose, or never opened): no stream may be
     touched; whether this is silent or an IOError is not fixed by the property */
  vf.evaluations++;
  if (ledger_post()) return VF_BAD;
  if (e != NULL && e != IOError) { char sy[64]; snprintf(sy, sizeof sy, "exit-raised-%s", vf_exc_name(e)); return V(sy, "leaving the with block with the File already closed raised %s", vf_exc_name(e)); }
  return VF_OK;
}

static void make_file(void) { F = new_raw(File); F_kind = F_RAW; }

/* the destructor runs: del / del_raw (object released) or destruct (object kept: keep = 1; a
   stack File is always only destructed).  It closes an open stream exactly once and never
   touches a closed one; an object that outlives it is a File that is not open. */
static int finalize_file(int keep) {
  ledger_reset();
  E.fclose = M.open ? 1 : 0;
  E.silent = !M.open;
  var e;
  if (keep || F_kind == F_STACK) e = LIB(destruct(F));
  else if (F_kind == F_MANAGED) e = LIB(del(F));
  else e = LIB(del_raw(F));
  if (!keep) F = NULL;
  twin_close(); model_close();
  if (ledger_fault()) return 1;
  if (e != NULL) return V("raised", "%s of the File raised %s", keep ? "destruct" : "del", vf_exc_name(e)), 1;
  if (ledger_post()) return 1;
  return verify_disk();
}

static int delete_file(void) { return finalize_file(0); }

/* ---- nested with blocks ------------------------------------------------------------ */

/*
** A with block on the File whose body runs another with block on a different object (a Mutex, a
** second File), directly or inside a called function, and the other way round.  Each block must
** stop ITS object when it is left: the File's stream is closed exactly once, the second File's
** stream exactly once, the Mutex is unlocked (trylock succeeds).  An exception raised inside leaves
** all blocks without running any stop (that is how `with` is built): the File then stays as it was.
*/
enum { N_FILE_MUTEX, N_MUTEX_FILE, N_FILE_FILE, N_FILE_CALL, N_FILE_CALL_THROWS, NNEST };
static const struct prim nest_write = { K_SWRITE, 1, 0 };      /* the inner operation: swrite("\xff") */
static volatile int stage;        /* 1: inner operation done */

static void nest_helper(var f, int throws) {
  with (m in MX) {
    prim_real(&nest_write, f); stage = 1; completed = 1;
    if (throws) throw(ValueError, "leaving the function by an exception");
  }
}

/* the Mutex must not stay locked for the next operation; judged only when every block was left normally */
static int mutex_release(int must_be_free) {
  volatile bool got = false;
  var e = VF_CATCH(got = trylock(MX));
  if (e == NULL && got) { VF_CATCH(unlock(MX)); return 0; }
  VF_CATCH(unlock(MX));
  if (must_be_free) return V("mutex-still-locked", "after leaving the with block on the Mutex normally trylock %s", e ? "raised" : "fails: the block did not unlock it"), 1;
  return 0;
}

static int apply_nest(struct op* o) {
  int v = o->variant;
  if (v != N_FILE_FILE && !prim_enabled(&nest_write)) return VF_SKIP;
  set_site(o->kname);
  ledger_reset(); prim_prepare(&nest_write);
  stage = 0; n_nest++;
  int was_open = M.open;
  var e = NULL;

  if (v == N_FILE_FILE) {
    /* the second File appends one byte to the other path */
    int other = M.open ? 1 - M.path : 1;
    touched[other] = 1;
    R[4] = new_raw(File);
    e = LIB( with (f in F) { with (g in sopen(R[4], $S(rpath[other]), $S("ab"))) { g_ret = (int64_t)swrite(g, "\xff", 1); stage = 1; completed = 1; } } );
    if (ledger_fault()) goto bad_g;
    E.fopen += 1; E.fclose += 1 + (was_open ? 1 : 0);
    FILE* t2 = fopen(tpath[other], "ab");
    if (!t2 || fwrite("\xff", 1, 1, t2) != 1 || fclose(t2) != 0) infra("second twin stream on path %d", other);
    struct mfile* of = &M.f[other];
    if (!of->exists) { of->exists = 1; of->len = 0; }
    mf_write(of, of->len, "\xff", 1);
    if (was_open) { twin_close(); model_close(); }
    if (stage != 1) { V("inner-body-not-run", "the body of the inner with block did not complete (%s)", vf_exc_name(e)); goto bad_g; }
    if (g_ret != 1) { V("return-count", "swrite of 1 byte on the second File returned %" PRId64, (int64_t)g_ret); goto bad_g; }
    if (was_open ? e != NULL : (e != NULL && e != IOError)) { V("exit-raised", "leaving the nested with blocks on two Files raised %s", vf_exc_name(e)); goto bad_g; }
    if (ledger_post()) goto bad_g;
    if (whitebox && ((struct File*)R[4])->file != NULL) { V("second-file-handle-field-set-while-closed", "the second File still holds a stream after its with block was left"); goto bad_g; }
    { ledger_reset(); E.silent = 1;
      var e2 = LIB(sclose(R[4]));
      if (ledger_fault()) goto bad_g;
      if (e2 != IOError) { V("second-file-sclose-no-IOError", "sclose of the second File after its with block %s", e2 ? "raised another exception" : "returned normally"); goto bad_g; }
      if (ledger_post()) goto bad_g; }
    in_lib = 1; VF_CATCH(del_raw(R[4])); in_lib = 0; R[4] = NULL;
    return verify_disk() ? VF_BAD : VF_OK;
bad_g:
    in_lib = 1; VF_CATCH(del_raw(R[4])); in_lib = 0; R[4] = NULL;
    mutex_release(0);
    return VF_BAD;
  }

  switch (v) {
  case N_FILE_MUTEX: e = LIB( with (f in F) { with (m in MX) { prim_real(&nest_write, f); stage = 1; completed = 1; } } ); break;
  case N_MUTEX_FILE: e = LIB( with (m in MX) { with (f in F) { prim_real(&nest_write, f); stage = 1; completed = 1; } } ); break;
  case N_FILE_CALL:  e = LIB( with (f in F) { nest_helper(f, 0); } ); break;
  default:           e = LIB( with (f in F) { nest_helper(f, 1); } ); break;
  }
  if (stage == 0) {
    /* the inner operation raised (File not open, or a C-library-defined failure): nothing was stopped */
    int r = prim_after(&nest_write, e);
    mutex_release(0);
    if (r == VF_BAD) return r;
    return ledger_post() ? VF_BAD : VF_OK;
  }
  int r = prim_after(&nest_write, NULL);
  if (r == VF_BAD) { mutex_release(0); return r; }
  if (v == N_FILE_CALL_THROWS) {
    /* the function left by its own exception: no stop has run, the File is still open */
    mutex_release(0);
    if (e != ValueError) return V("exception-lost", "the exception thrown inside the nested with blocks arrived as %s", vf_exc_name(e));
    return ledger_post() ? VF_BAD : VF_OK;
  }
  /* every block was left normally: the File is closed exactly once, the Mutex is unlocked */
  E.fclose += 1;
  twin_close(); model_close();
  if (ledger_fault()) { mutex_release(0); return VF_BAD; }
  if (e != NULL) { mutex_release(0); return V("exit-raised", "leaving the nested with blocks raised %s", vf_exc_name(e)); }
  if (ledger_post()) { mutex_release(0); return VF_BAD; }
  if (mutex_release(1)) return VF_BAD;
  { ledger_reset(); E.silent = 1;               /* and it refuses use like any closed File */
    var e2 = LIB(sclose(F));
    if (ledger_fault()) return VF_BAD;
    if (e2 != IOError) return V("then-sclose-no-IOError", "sclose after the nested with blocks %s, the File is closed", e2 ? "raised another exception" : "returned normally");
    if (ledger_post()) return VF_BAD; }
  return verify_disk() ? VF_BAD : VF_OK;
}

static int apply_destruct(struct op* o) {
  set_site(o->kname);
  n_destruct++;
  return finalize_file(1) ? VF_BAD : VF_OK;
}

static int apply_delnew(struct op* o) {
  set_site(o->kname);
  if (delete_file()) { make_file(); return VF_BAD; }
  ledger_reset();
  switch (o->variant) {
  case 0: make_file(); break;
  case 1: F = new(File); F_kind = F_MANAGED; break;
  case 3: memset(sfmem, 0, sizeof(struct Header) + sizeof(struct File)); F = header_init(sfmem, File, AllocStack); F_kind = F_STACK; break;   /* what $(File, NULL) builds */
  default: {
    struct prim pr = { K_SOPEN, o->p.a, o->p.b };
    touched[pr.a] = 1;
    var e = LIB(F = new_raw(File, $S(rpath[pr.a]), $S((char*)modestr[pr.b])));
    F_kind = F_RAW;
    int failed = e != NULL;
    if (failed) F = NULL;
    g_retp = F;
    if (failed) make_file();                    /* the constructor threw: continue with a plain closed File */
    int r = prim_after(&pr, e);
    if (r == VF_BAD) return r;
    break; }
  }
  return ledger_post() ? VF_BAD : VF_OK;
}

/* environment: another stream (a plain FILE* of the harness, not the File under test) appends one
   byte to the file the File has open, and closes.  Enabled only while the File has no pending
   output, so that the order of the bytes on disk is defined.  A reader sitting at end-of-file must
   see the new byte after its next successful seek (which clears the end-of-file indicator). */
static int apply_env(struct op* o) {
  if (!M.open || M.last == LAST_WRITE) return VF_SKIP;
  set_site(o->kname);
  ledger_reset();
  const char* paths[2] = { rpath[M.path], tpath[M.path] };
  for (int i = 0; i < 2; i++) {
    FILE* w = __real_fopen(paths[i], "ab");
    if (!w || __real_fwrite("z", 1, 1, w) != 1 || __real_fclose(w) != 0) { fprintf(stderr, "h_file: cannot append to %s\n", paths[i]); rm_scratch(); _exit(2); }
  }
  struct mfile* mf = &M.f[M.path];
  mf_write(mf, mf->len, "z", 1);
  n_env++;
  return VF_OK;
}

/* Key refinement (never a verdict): glibc's bookkeeping of the File's stream (the handle the
   interposer saw it open) against the twin's.  They receive the same calls, so on a correct
   library they are equal and nothing is added to the key.  If they differ, the real stream is in a
   concrete state the model does not describe (e.g. a seek that was not forwarded): that state
   must not be merged with the model state, it is explored on its own. */
static char divergence[200];
static size_t stream_summary(FILE* f, char* buf, size_t cap) {
#ifdef __GLIBC__
  return (size_t)snprintf(buf, cap, "fl%x r%td/%td w%td/%td b%td o%lld", (unsigned)(f->_flags & 0xFFFF & ~0x80),
    f->_IO_read_ptr - f->_IO_read_base, f->_IO_read_end - f->_IO_read_base,
    f->_IO_write_ptr - f->_IO_write_base, f->_IO_write_end - f->_IO_write_base,
    f->_IO_buf_end - f->_IO_buf_base, (long long)f->_offset);
#else
  (void)f; return (size_t)snprintf(buf, cap, "-");
#endif
}
static void compute_divergence(void) {
  divergence[0] = 0;
  if (!concrete || !M.open || !T || nlive != 1) return;
  char a[96], b[96];
  stream_summary(live[0], a, sizeof a); stream_summary(T, b, sizeof b);
  if (strcmp(a, b) != 0) { snprintf(divergence, sizeof divergence, " real-stream{%s}!=twin{%s}", a, b); n_diverged++; }
}

static int apply(int opi) {
  struct op* o = &ops[opi];
  if (have_first && nsteps == 0 && !vf.replay && !firstmask[opi]) return VF_SKIP;
  if (nobigprint && !vf.replay && o->p.kind == K_PRINT && o->type != T_DELNEW && paylen[o->p.a] > 1) return VF_SKIP;
  nt_flag = 0;
  int r;
  switch (o->type) {
  case T_PLAIN:  r = apply_plain(o); break;
  case T_WITH:   r = apply_with(o); break;
  case T_ENV:    r = apply_env(o); break;
  case T_DESTRUCT: r = apply_destruct(o); break;
  case T_NEST:   r = apply_nest(o); break;
  default:       r = apply_delnew(o); break;
  }
  if (r != VF_SKIP) { nsteps++; compute_divergence(); }
  if (r == VF_BAD) bad_exec = 1;
  return r;
}

/* state oracle: handle accounting and the (public) handle field agree with the reference */
static int check(void) {
  if (nlive != (M.open ? 1 : 0)) { vf_violation(LB("handle-count"), NULL, "%d stream(s) open, File is %s", nlive, state_txt()); bad_exec = 1; return 1; }
  struct File* f = F;
  if (!whitebox) f = NULL;
  if (f && (f->file != NULL) != (M.open != 0)) {
    vf_violation(LB(f->file ? "handle-field-set-while-closed" : "handle-field-null-while-open"), NULL, "struct File .file is %s but the File is %s", f->file ? "non-NULL" : "NULL", state_txt());
    bad_exec = 1; return 1;
  }
  if (f && M.open && nlive == 1 && f->file != live[0]) { vf_violation(LB("handle-field-foreign"), NULL, "struct File .file is not the stream the File opened"); bad_exec = 1; return 1; }
  if ((T != NULL) != (M.open != 0)) infra("twin open %d model open %d", T != NULL, M.open);
  if (T && probe) {
    /* what the API shows of the stream state is compared after EVERY transition, not only when
       seof/stell happen to be the next operation of a history: the state key is the reference
       model, so a real stream that has silently departed from it (e.g. end-of-file indicator not
       cleared by a seek that moved nowhere) would otherwise be merged with the model state and
       only ever be observed from that state's shortest history.  check() is the last thing done
       with the objects of an execution, replays never run it between operations. */
    ledger_reset();
    g_ret = -777; pr_eof = -1;
    var e = LIB({ pr_eof = seof(F) ? 1 : 0; g_ret = stell(F); });
    int te = feof(T) ? 1 : 0; long tt = ftell(T);
    if (te != M.eof) infra("feof twin %d model %d after the operation", te, M.eof);
    if (tt != M.pos) infra("ftell twin %ld model %" PRId64 " after the operation", tt, M.pos);
    n_probes++; vf.evaluations++;
    if (ledger_fault()) { bad_exec = 1; return 1; }
    if (e != NULL) { V("then-seof-stell-raised", "seof/stell right after the operation raised %s", vf_exc_name(e)); bad_exec = 1; return 1; }
    if (pr_eof != te) { V("then-seof-differs", "seof right after the operation = %d, feof on the twin stream = %d", (int)pr_eof, te); bad_exec = 1; return 1; }
    if (g_ret != tt) { V("then-stell-differs", "stell right after the operation = %" PRId64 ", ftell on the twin stream = %ld", (int64_t)g_ret, tt); bad_exec = 1; return 1; }
  }
  if (!T && probe && F) {
    /* same reasoning for a File that is not open: the reference merges all "closed" states, so the
       refusal is demanded after every transition that leaves the File closed (a stale handle kept
       by a destructor or a close would otherwise only be met from the shortest history) */
    ledger_reset(); E.silent = 1;
    var e = LIB(g_ret = stell(F));
    n_probes++; vf.evaluations++;
    if (ledger_fault()) { bad_exec = 1; return 1; }
    if (e != IOError) { V(e ? "then-stell-wrong-exception" : "then-stell-no-IOError", "stell right after the operation, on the File that is now not open, %s%s", e ? "raised " : "returned normally", e ? vf_exc_name(e) : ""); bad_exec = 1; return 1; }
    if (L.other || L.fopen_ok || L.fopen_fail || L.fclose_ok) { V("then-stell-stdio-call-while-closed", "stell on the File that is now not open made a stdio call"); bad_exec = 1; return 1; }
  }
  return 0;
}

static void reset(void) {
  for (int p = 0; p < 2; p++) {
    if (touched[p]) { unlink(rpath[p]); unlink(tpath[p]); touched[p] = 0; }
    M.f[p].exists = 0; M.f[p].len = 0; M.f[p].dirty = 0;
  }
  model_close();
  T = NULL;
  nlive = 0;
  make_file();
  nsteps = 0; bad_exec = 0; nt_flag = 0; divergence[0] = 0;
  snprintf(site, sizeof site, "file/init/closed"); vf.phase = site;
}

static void cleanup(void) {
  /* end of the history: delete the File (closing an open stream once) and compare the disk */
  if (F) {
    if (!bad_exec) { snprintf(site, sizeof site, "file/final-del/%s", M.open ? "open" : "closed"); vf.phase = site; delete_file(); }
    else {
      in_lib = 1;               /* best effort: release the object, ignore what it does (stale handles stay refused) */
      var e = VF_CATCH(if (F_kind == F_STACK) destruct(F); else if (F_kind == F_MANAGED) del(F); else del_raw(F));
      (void)e; in_lib = 0; F = NULL;
    }
  }
  if (T) { fclose(T); T = NULL; }
  while (nlive > 0) __real_fclose(live[--nlive]);   /* leaked by a defective library: do not run out of descriptors */
}

static size_t canon_file(struct mfile* mf, char* buf, size_t cap) {
  if (!mf->exists) return snprintf(buf, cap, "-");
  size_t o = snprintf(buf, cap, "%zu:", mf->len);
  if (mf->len <= 24) {
    for (size_t i = 0; i < mf->len; i++) o += snprintf(buf + o, cap - o, "%02x", mf->b[i]);
  } else {
    uint64_t h = 1469598103934665603ULL;
    for (size_t i = 0; i < mf->len; i++) { h ^= mf->b[i]; h *= 1099511628211ULL; }
    o += snprintf(buf + o, cap - o, "#%016" PRIx64, h);
  }
  return o;
}

static size_t canon(char* buf, size_t cap) {
  size_t o = 0;
  if (!M.open) o += snprintf(buf + o, cap - o, "closed");
  else o += snprintf(buf + o, cap - o, "open p%d %s @%" PRId64 " eof%d last%c", M.path, modestr[M.mode], M.pos, M.eof, "-RW"[M.last]);
  o += snprintf(buf + o, cap - o, " | f0=");
  o += canon_file(&M.f[0], buf + o, cap - o);
  o += snprintf(buf + o, cap - o, " f1=");
  o += canon_file(&M.f[1], buf + o, cap - o);
  if (divergence[0]) o += snprintf(buf + o, cap - o, "%s", divergence);
  return o;
}

static void opname(int op, char* buf, size_t cap) { snprintf(buf, cap, "%s", ops[op].name); }

static int nontrivial(void) { return nt_flag; }

/* ---- alphabet, simplest first ------------------------------------------------------ */

static void prim_name(const struct prim* p, char* name, size_t ncap, char* kname, size_t kcap) {
  switch (p->kind) {
  case K_SOPEN:  snprintf(name, ncap, "sopen(path%d,\"%s\")", p->a, modestr[p->b]); snprintf(kname, kcap, "sopen-%s", modestr[p->b]); break;
  case K_SCLOSE: snprintf(name, ncap, "sclose"); snprintf(kname, kcap, "sclose"); break;
  case K_STELL:  snprintf(name, ncap, "stell"); snprintf(kname, kcap, "stell"); break;
  case K_SEOF:   snprintf(name, ncap, "seof"); snprintf(kname, kcap, "seof"); break;
  case K_SFLUSH: snprintf(name, ncap, "sflush"); snprintf(kname, kcap, "sflush"); break;
  case K_SWRITE: snprintf(name, ncap, "swrite(%s)", chunkname[p->a]); snprintf(kname, kcap, "swrite-%zu", chunklen[p->a]); break;
  case K_SREAD:  snprintf(name, ncap, "sread(%zu)", rdlen[p->a]); snprintf(kname, kcap, "sread-%zu", rdlen[p->a]); break;
  case K_SSEEK:
    if (p->b == OFF_CURPOS) { snprintf(name, ncap, "sseek(stell,%s)", originname[p->a]); snprintf(kname, kcap, "sseek-%s-curpos", originname[p->a]); }
    else { snprintf(name, ncap, "sseek(%d,%s)", offsets[p->b], originname[p->a]); snprintf(kname, kcap, "sseek-%s", originname[p->a]); }
    break;
  case K_PRINT:
    if (paylen[p->a] == 1) { snprintf(name, ncap, "print_to(\"%s\",\"k\",42)", RECFMT); snprintf(kname, kcap, "print_to"); }
    else { snprintf(name, ncap, "print_to(\"%s\",%zu x 'k',42)", RECFMT, paylen[p->a]); snprintf(kname, kcap, "print_to-%zu", paylen[p->a]); }
    break;
  case K_CONSTRUCT: snprintf(name, ncap, "construct(file,path%d,\"%s\")", p->a, modestr[p->b]); snprintf(kname, kcap, "construct-%s", modestr[p->b]); break;
  case K_SCAN:   snprintf(name, ncap, "scan_from(\"%s\")", RECFMT); snprintf(kname, kcap, "scan_from"); break;
  case K_EMPTY:  name[0] = 0; kname[0] = 0; break;
  }
}

static void add_plain(int kind, int a, int b) {
  struct op* o = &ops[nops++]; memset(o, 0, sizeof *o);
  o->type = T_PLAIN; o->p = (struct prim){ kind, a, b };
  prim_name(&o->p, o->name, sizeof o->name, o->kname, sizeof o->kname);
}

static void add_with(int kind, int a, int b) {
  struct op* o = &ops[nops++]; memset(o, 0, sizeof *o);
  char n[48], k[24];
  o->type = T_WITH; o->p = (struct prim){ kind, a, b };
  prim_name(&o->p, n, sizeof n, k, sizeof k);
  snprintf(o->name, sizeof o->name, "with(f in file){%s}", n);
  snprintf(o->kname, sizeof o->kname, "with(%s)", k);
}

static void add_delnew(int variant, int a, int b) {
  struct op* o = &ops[nops++]; memset(o, 0, sizeof *o);
  o->type = T_DELNEW; o->variant = variant; o->p = (struct prim){ K_SOPEN, a, b };
  if (variant == 0) { snprintf(o->name, sizeof o->name, "del;file=new_raw(File)"); snprintf(o->kname, sizeof o->kname, "del+new"); }
  else if (variant == 1) { snprintf(o->name, sizeof o->name, "del;file=new(File)"); snprintf(o->kname, sizeof o->kname, "del+new"); }
  else if (variant == 3) { snprintf(o->name, sizeof o->name, "del;file=$(File,NULL) on the stack"); snprintf(o->kname, sizeof o->kname, "del+stack"); }
  else { snprintf(o->name, sizeof o->name, "del;file=new_raw(File,path%d,\"%s\")", a, modestr[b]); snprintf(o->kname, sizeof o->kname, "del+new-%s", modestr[b]); }
}

static void build_alphabet(int lite) {
  /* sopen: both paths, four modes (re-opening an open File, and on the second path, included) */
  for (int p = 0; p < 2; p++) for (int m = 0; m < NMODES; m++) add_plain(K_SOPEN, p, m);
  add_plain(K_SCLOSE, 0, 0);
  add_plain(K_STELL, 0, 0);
  add_plain(K_SEOF, 0, 0);
  add_plain(K_SFLUSH, 0, 0);
  for (int c = 0; c < 4; c++) { if (lite && c == 0) continue; add_plain(K_SWRITE, c, 0); }
  for (int c = 0; c < 4; c++) { if (lite && c == 0) continue; add_plain(K_SREAD, c, 0); }
  for (int og = 0; og < 3; og++) for (int of = 0; of < 3; of++) {
    if (lite && ((og == 0 && of == 2) || (og == 1 && of == 0))) continue;   /* lite: drop sseek(-1,SET) (always fails) and sseek(0,CUR) */
    add_plain(K_SSEEK, og, of);
  }
  add_plain(K_PRINT, 0, 0);
  add_plain(K_SCAN, 0, 0);
  add_with(K_EMPTY, 0, 0);
  add_with(K_SCLOSE, 0, 0);
  add_with(K_STELL, 0, 0);
  add_with(K_SWRITE, 1, 0);
  add_with(K_SREAD, 1, 0);
  if (!lite) add_with(K_PRINT, 0, 0);
  add_with(K_SOPEN, 1, M_WP);
  if (!lite) add_with(K_SOPEN, 0, M_R);
  add_delnew(0, 0, 0);
  if (!lite) add_delnew(1, 0, 0);
  add_delnew(2, 0, M_RP);
  if (!lite) add_delnew(2, 1, M_WP);
  add_plain(K_SSEEK, 0, OFF_CURPOS);           /* sseek(f, stell(f), SEEK_SET) */
  { struct op* o = &ops[nops++]; memset(o, 0, sizeof *o); o->type = T_ENV;
    snprintf(o->name, sizeof o->name, "other-stream-appends(\"z\")"); snprintf(o->kname, sizeof o->kname, "env-append"); }
  { struct op* o = &ops[nops++]; memset(o, 0, sizeof *o); o->type = T_DESTRUCT;       /* the object outlives its destructor */
    snprintf(o->name, sizeof o->name, "destruct(file)"); snprintf(o->kname, sizeof o->kname, "destruct"); }
  add_plain(K_CONSTRUCT, 0, M_RP);             /* construct(file, path0, "r+b") on the existing object */
  add_delnew(3, 0, 0);                         /* continue on a stack File: released with destruct only */
  add_plain(K_PRINT, 1, 0);                    /* print_to of a 257-character conversion */
  { static const char* nn[NNEST] = { "with(f in file){with(m in mutex){swrite(\"\\xff\")}}", "with(m in mutex){with(f in file){swrite(\"\\xff\")}}",
      "with(f in file){with(g in sopen(file2,other path,\"ab\")){swrite(g,\"\\xff\")}}", "with(f in file){call: with(m in mutex){swrite(\"\\xff\")}}",
      "with(f in file){call: with(m in mutex){swrite(\"\\xff\");throw}}" };
    static const char* nk[NNEST] = { "with(with-mutex)", "with-mutex(with)", "with(with-file2)", "with(call-with-mutex)", "with(call-with-mutex-throws)" };
    for (int v = 0; v < NNEST; v++) { struct op* o = &ops[nops++]; memset(o, 0, sizeof *o); o->type = T_NEST; o->variant = v;
      snprintf(o->name, sizeof o->name, "%s", nn[v]); snprintf(o->kname, sizeof o->kname, "%s", nk[v]); } }
}

static void parse_first(const char* s, int value) {
  while (*s) {
    while (*s == ',' || *s == ' ') s++;
    if (!isdigit((unsigned char)*s)) break;
    int a = (int)strtol(s, (char**)&s, 10), b = a;
    if (*s == '-') { s++; b = (int)strtol(s, (char**)&s, 10); }
    for (int i = a; i <= b && i < MAXOPS; i++) firstmask[i] = (unsigned char)value;
  }
}

/* ---- ladder: print_to of one long conversion, read back with sread and scan_from ----- */

/*
** For N in 0..300 and some larger sizes: print_to(f, 0, "%s %li;", <N x 'k'>, 42) on a File, the
** same fprintf on the twin; the bytes are read back with sread (all N) and with scan_from (N >= 1)
**   v0: "w+b", seek back        v1: "w+b", sclose, sopen "rb"
**   v2: "ab" on a file that already holds "x\n", two records in a row, sclose, sopen "rb", seek 2
** and must equal the text printed, the twin's view, and the twin file on disk.
*/
static unsigned char lad_r[MAXPAY + 64], lad_t[MAXPAY + 64];

static const char* nclass(size_t n) {
  return n < 255 ? "n<255" : n == 255 ? "n=255" : n == 256 ? "n=256" : n == 257 ? "n=257" : n < 4096 ? "n<4096" : "n>=4096";
}

static int ladder_case(size_t N, int variant) {
  static char pay[MAXPAY + 1];
  memset(pay, 'k', N); pay[N] = 0;
  size_t reclen = make_record(N);
  int reps = variant == 2 ? 2 : 1;
  long start = variant == 2 ? 2 : 0;
  const char* m0 = variant == 2 ? "ab" : "w+b";
  FILE* t = NULL;
  int bad = 0;
  var e;
  snprintf(site, sizeof site, "file/ladder-print/%s/v%d", nclass(N), variant); vf.phase = site;
  unlink(rpath[0]); unlink(tpath[0]);
  if (variant == 2) {
    const char* ps[2] = { rpath[0], tpath[0] };
    for (int i = 0; i < 2; i++) { FILE* w = __real_fopen(ps[i], "wb"); __real_fwrite("x\n", 2, 1, w); __real_fclose(w); }
  }
  ledger_reset(); nlive = 0;
  model_close(); M.open = 1;                     /* only for the texts of the reports */
  F = new_raw(File); F_kind = F_RAW;
#define LSTEP(what, stmt) do { e = LIB(stmt); if (ledger_fault()) { bad = 1; goto out; } \
    if (e != NULL) { V("raised", "%s raised %s (N=%zu)", what, vf_exc_name(e), N); bad = 1; goto out; } } while (0)
  LSTEP("sopen", sopen(F, $S(rpath[0]), $S((char*)m0)));
  t = fopen(tpath[0], m0);
  for (int r = 0; r < reps; r++) {
    g_ret = -777;
    LSTEP("print_to", g_ret = print_to(F, 0, RECFMT, $S(pay), $I(42)));
    int tv = fprintf(t, RECFMT, pay, 42L);
    if (tv != (int)reclen) infra("ladder: fprintf twin returned %d for N=%zu", tv, N);
    vf.evaluations++;
    if (g_ret != (int64_t)reclen) { V("print-return", "print_to of a %zu-character String and an Int returned %" PRId64 ", %zu characters were to be written", N, (int64_t)g_ret, reclen); bad = 1; goto out; }
  }
  if (variant == 0) { LSTEP("sseek", sseek(F, 0, SEEK_SET)); fseek(t, 0, SEEK_SET); }
  else {
    LSTEP("sclose", sclose(F)); fclose(t);
    LSTEP("sopen rb", sopen(F, $S(rpath[0]), $S("rb"))); t = fopen(tpath[0], "rb");
    LSTEP("sseek", sseek(F, start, SEEK_SET)); fseek(t, start, SEEK_SET);
  }
  for (int r = 0; r < reps; r++) {               /* raw bytes */
    memset(lad_r, 0xAA, reclen + GUARD); memset(lad_t, 0xAA, reclen + GUARD);
    LSTEP("sread", g_ret = (int64_t)sread(F, lad_r, reclen));
    size_t tr = fread(lad_t, reclen, 1, t);
    if (tr != 1 || memcmp(lad_t, recbuf, reclen) != 0) infra("ladder: twin read-back differs for N=%zu", N);
    vf.evaluations++;
    if (memcmp(lad_r, recbuf, reclen) != 0) {
      size_t i = 0; while (lad_r[i] == recbuf[i]) i++;
      V("bytes-differ", "print_to of a %zu-character String: byte %zu of the %zu written reads back as 0x%02x, expected 0x%02x ('%c')", N, i, reclen, lad_r[i], recbuf[i], recbuf[i]);
      bad = 1; goto out;
    }
    n_readback_bytes += reclen;
  }
  LSTEP("sseek", sseek(F, start, SEEK_SET)); fseek(t, start, SEEK_SET);
  if (N >= 1) for (int r = 0; r < reps; r++) {   /* formatted */
    c_str(SK)[0] = 0; assign(IV, $I(0)); g_ret = -777;
    LSTEP("scan_from", g_ret = scan_from(F, 0, RECFMT, SK, IV));
    long tl = 0; twin_str[0] = 0;
    int tv = fscanf(t, RECFMT, twin_str, &tl);
    if (tv != 2 || strlen(twin_str) != N || tl != 42) infra("ladder: fscanf twin %d for N=%zu", tv, N);
    vf.evaluations++;
    if (strlen(c_str(SK)) != N || memcmp(c_str(SK), recbuf, N) != 0 || c_int(IV) != 42) {
      V("scan-values-differ", "scan_from read back a String of length %zu and %" PRId64 ", print_to had written %zu x 'k' and 42", strlen(c_str(SK)), (int64_t)c_int(IV), N);
      bad = 1; goto out;
    }
    if (g_ret != (int64_t)reclen) { V("scan-return", "scan_from returned %" PRId64 ", %zu characters were consumed", (int64_t)g_ret, reclen); bad = 1; goto out; }
    n_scan_ok++; n_readback_bytes += reclen;
  } else { LSTEP("sseek", sseek(F, 0, SEEK_END)); fseek(t, 0, SEEK_END); }
  g_ret = -777;
  LSTEP("stell", g_ret = stell(F));
  { long tt = ftell(t); vf.evaluations++;
    if (g_ret != tt) { V("position-differs", "stell = %" PRId64 " after reading the records back, ftell on the twin = %ld", (int64_t)g_ret, tt); bad = 1; goto out; } }
  LSTEP("sclose", sclose(F)); fclose(t); t = NULL;
  { size_t rn, tn; int rex, tex;
    unsigned char* tb = slurp(tpath[0], &tn, &tex); unsigned char* rb = slurp(rpath[0], &rn, &rex);
    n_disk_compares++; vf.evaluations++;
    if (!tex || tn != (size_t)start + reps * reclen) infra("ladder: twin file has %zu bytes", tn);
    if (!rex || rn != tn || memcmp(rb, tb, tn) != 0) { V("disk-bytes-differ", "after sclose the file holds %zu bytes, the twin file %zu, or the contents differ", rn, tn); bad = 1; }
    free(tb); free(rb); }
out:
#undef LSTEP
  if (t) fclose(t);
  if (F) { in_lib = 1; e = VF_CATCH(del_raw(F)); in_lib = 0; F = NULL;
    if (!bad && (L.null_arg || L.stale)) { ledger_fault(); bad = 1; } }
  if (!bad && (nlive != 0 || L.fclose_ok != L.fopen_ok)) { V("fclose-count", "%d fopen, %d fclose, %d stream(s) left open", L.fopen_ok, L.fclose_ok, nlive); bad = 1; }
  while (nlive > 0) __real_fclose(live[--nlive]);
  model_close();
  return bad;
}

/* ---- byte sweep: every byte value, written and read one byte at a time, on every backend -- */

/*
** A 256-byte block holding every byte value once (layout 0: value i at offset i; layout 1: reversed,
** 0xFF first) is written to a File with one swrite or with 256 single-byte swrites, and read back
** with sread(f, &b, 1) byte by byte (result, byte, seof, stell after each; one more read at the end),
** then with 2-, 3- and 255-byte reads starting at each offset around the 0xFF byte.  Backends: a
** regular file ("w+b", seek back), the same re-opened "rb", tmpfile(), fmemopen(), a pipe (File
** around fdopen'ed ends).  The twin is the same kind of stream driven with plain stdio; what the
** library returns must equal what stdio returns there, and the bytes must be the bytes written.
*/
enum { B_FILE, B_REOPEN, B_TMPFILE, B_FMEMOPEN, B_PIPE, NBACKENDS };
static const char* backendname[NBACKENDS] = { "file-w+b", "file-reopen-rb", "tmpfile", "fmemopen", "pipe" };
static char sweep_base[64];

static int SV(const char* fmt_symptom, int byte, const char* fmt, ...) {
  char sy[64];
  if (byte >= 0) snprintf(sy, sizeof sy, fmt_symptom, byte); else snprintf(sy, sizeof sy, "%s", fmt_symptom);
  va_list ap; va_start(ap, fmt);
  char* d = vf_vfmt(fmt, ap);
  va_end(ap);
  snprintf(labelbuf, sizeof labelbuf, "%s/%s", sweep_base, sy);
  vf_violation(labelbuf, NULL, "%s", d);
  free(d);
  return 1;
}

#define SSTEP(what, stmt) do { ledger_reset(); e = LIB(stmt); if (L.null_arg || L.stale) { ledger_fault(); return 1; } \
    if (e != NULL) return SV("raised", -1, "%s raised %s", what, vf_exc_name(e)); } while (0)

/* compare seof / stell of f with feof / ftell of t */
static int sweep_flags(var f, FILE* t, int seekable, const char* when, int byte) {
  var e;
  pr_eof = -1;
  SSTEP("seof", pr_eof = seof(f) ? 1 : 0);
  vf.evaluations++;
  if (pr_eof != (feof(t) ? 1 : 0)) return SV(byte >= 0 ? "seof-differs-after-byte-0x%02x" : "seof-differs", byte, "seof = %d %s, feof on the twin = %d", (int)pr_eof, when, feof(t) ? 1 : 0);
  if (seekable) {
    g_ret = -777;
    SSTEP("stell", g_ret = stell(f));
    long tt = ftell(t);
    vf.evaluations++;
    if (g_ret != tt) return SV(byte >= 0 ? "stell-differs-after-byte-0x%02x" : "stell-differs", byte, "stell = %" PRId64 " %s, ftell on the twin = %ld", (int64_t)g_ret, when, tt);
  }
  return 0;
}

static int sweep_write(var f, FILE* t, const unsigned char* blk, int single, int seekable) {
  var e;
  if (!single) {
    g_ret = -777;
    SSTEP("swrite(256)", g_ret = (int64_t)swrite(f, (void*)blk, 256));
    if (fwrite(blk, 256, 1, t) != 1) infra("sweep: fwrite twin");
    vf.evaluations++;
    if (g_ret != 1 && g_ret != 256) return SV("swrite-256/return-count", -1, "swrite of the 256-byte block returned %" PRId64, (int64_t)g_ret);
  } else for (int i = 0; i < 256; i++) {
    g_ret = -777;
    SSTEP("swrite(1)", g_ret = (int64_t)swrite(f, (void*)(blk + i), 1));
    if (fwrite(blk + i, 1, 1, t) != 1) infra("sweep: fwrite twin");
    vf.evaluations++;
    if (g_ret != 1) return SV("swrite-1-byte-0x%02x/return-count", blk[i], "swrite of the single byte 0x%02x returned %" PRId64, blk[i], (int64_t)g_ret);
  }
  return sweep_flags(f, t, seekable, "after writing the block", -1);
}

static int sweep_read(var f, FILE* t, const unsigned char* blk, int seekable) {
  var e;
  char when[64];
  for (int i = 0; i <= 256; i++) {               /* the 257th read meets end-of-file */
    unsigned char rb = 0xAA, tb = 0xAA;
    g_ret = -777;
    snprintf(when, sizeof when, "after sread(1) at offset %d", i);
    ledger_reset(); e = LIB(g_ret = (int64_t)sread(f, &rb, 1));
    if (L.null_arg || L.stale) { ledger_fault(); return 1; }
    size_t tr = fread(&tb, 1, 1, t);
    if (tr != (i < 256 ? 1u : 0u) || (i < 256 && tb != blk[i])) infra("sweep: twin read %zu byte 0x%02x at offset %d", tr, tb, i);
    vf.evaluations++;
    int bv = i < 256 ? blk[i] : -1;
    if (e != NULL) return SV(i < 256 ? "sread-1-byte-0x%02x/raised" : "sread-1-at-end/raised", bv, "sread(f, &b, 1) at offset %d (byte 0x%02x) raised %s, fread on the twin returns %zu", i, i < 256 ? blk[i] : 0, vf_exc_name(e), tr);
    if (g_ret != (int64_t)tr) return SV(i < 256 ? "sread-1-byte-0x%02x/return-count" : "sread-1-at-end/return-count", bv, "sread(f, &b, 1) at offset %d (byte 0x%02x) returned %" PRId64 ", fread on the twin returns %zu", i, i < 256 ? blk[i] : 0, (int64_t)g_ret, tr);
    if (i < 256 && rb != blk[i]) return SV("sread-1-byte-0x%02x/byte-differs", bv, "sread(f, &b, 1) at offset %d read 0x%02x, 0x%02x was written", i, rb, blk[i]);
    if (i < 256) n_readback_bytes++;
    if (sweep_flags(f, t, seekable, when, bv)) return 1;
  }
  if (!seekable) return 0;
  /* 2-, 3- and 255-byte reads starting at each offset around the 0xFF byte */
  int pff = 0; while (blk[pff] != 0xFF) pff++;
  static const size_t lens[3] = { 2, 3, 255 };
  for (int start = pff - 3; start <= pff + 1; start++) {
    if (start < 0 || start > 255) continue;
    for (int li = 0; li < 3; li++) {
      size_t n = lens[li], avail = (size_t)(256 - start), got = n < avail ? n : avail;
      unsigned char rbuf2[256 + GUARD], tbuf2[256];
      memset(rbuf2, 0xAA, sizeof rbuf2); memset(tbuf2, 0xAA, sizeof tbuf2);
      SSTEP("sseek", sseek(f, start, SEEK_SET));
      if (fseek(t, start, SEEK_SET) != 0) infra("sweep: fseek twin");
      g_ret = -777;
      SSTEP("sread", g_ret = (int64_t)sread(f, rbuf2, n));
      size_t tr = fread(tbuf2, n, 1, t);
      if (tr != (got == n ? 1u : 0u)) infra("sweep: twin fread(%zu) at %d returned %zu", n, start, tr);
      vf.evaluations++;
      if (g_ret != (int64_t)tr && g_ret != (int64_t)got) return SV("sread-%d/return-count", (int)n, "sread(%zu) at offset %d returned %" PRId64 ", fread on the twin returns %zu (%zu bytes there)", n, start, (int64_t)g_ret, tr, got);
      if (got == n && memcmp(rbuf2, blk + start, n) != 0) return SV("sread-%d/bytes-differ", (int)n, "sread(%zu) at offset %d did not return the bytes written", n, start);
      for (size_t k = n; k < n + GUARD && k < sizeof rbuf2; k++) if (rbuf2[k] != 0xAA) return SV("sread-%d/buffer-overrun", (int)n, "sread(%zu) wrote past the buffer", n);
      if (got == n) n_readback_bytes += n;
      snprintf(when, sizeof when, "after sread(%zu) at offset %d", n, start);
      if (sweep_flags(f, t, 1, when, -1)) return 1;
    }
  }
  return 0;
}

static int sweep_case(int backend, int layout, int single) {
  unsigned char blk[256];
  for (int i = 0; i < 256; i++) blk[i] = (unsigned char)(layout ? 255 - i : i);
  snprintf(sweep_base, sizeof sweep_base, "file/byte-sweep/%s", backendname[backend]);
  snprintf(site, sizeof site, "%s", sweep_base); vf.phase = site;
  unlink(rpath[0]); unlink(tpath[0]);
  nlive = 0; ledger_reset(); model_close();
  var e; int bad = 0;
  FILE* t = NULL, *t2 = NULL;
  static char membuf[2][1024];

  if (backend == B_FILE || backend == B_REOPEN) {
    var f = new_raw(File);
    do {
      ledger_reset(); e = LIB(sopen(f, $S(rpath[0]), $S("w+b")));
      if (e) { bad = SV("raised", -1, "sopen raised %s", vf_exc_name(e)); break; }
      t = fopen(tpath[0], "w+b");
      if ((bad = sweep_write(f, t, blk, single, 1))) break;
      if (backend == B_FILE) {
        ledger_reset(); e = LIB(sseek(f, 0, SEEK_SET)); fseek(t, 0, SEEK_SET);
        if (e) { bad = SV("raised", -1, "sseek raised %s", vf_exc_name(e)); break; }
      } else {
        ledger_reset(); e = LIB({ sclose(f); sopen(f, $S(rpath[0]), $S("rb")); });
        fclose(t); t = fopen(tpath[0], "rb");
        if (e) { bad = SV("raised", -1, "sclose/sopen raised %s", vf_exc_name(e)); break; }
      }
      if ((bad = sweep_read(f, t, blk, 1))) break;
      ledger_reset(); e = LIB(sclose(f));
      if (e) { bad = SV("raised", -1, "sclose raised %s", vf_exc_name(e)); break; }
      fclose(t); t = NULL;
      size_t rn; int rex; unsigned char* rb = slurp(rpath[0], &rn, &rex);
      n_disk_compares++; vf.evaluations++;
      if (!rex || rn != 256 || memcmp(rb, blk, 256) != 0) bad = SV("disk-bytes-differ", -1, "after sclose the file does not hold the 256 bytes written (%zu bytes)", rn);
      free(rb);
    } while (0);
    in_lib = 1; e = VF_CATCH(del_raw(f)); in_lib = 0;
  } else if (backend == B_PIPE) {
    int pr[2], pt[2];
    if (pipe(pr) != 0 || pipe(pt) != 0) { perror("h_file: pipe"); rm_scratch(); _exit(2); }
    FILE* rw = fdopen(pr[1], "wb"), *rr = fdopen(pr[0], "rb");
    t2 = fdopen(pt[1], "wb"); t = fdopen(pt[0], "rb");
    live[nlive++] = rw; live[nlive++] = rr;
    var fw = $(File, rw), fr = $(File, rr);
    do {
      if ((bad = sweep_write(fw, t2, blk, single, 0))) break;
      ledger_reset(); e = LIB(sclose(fw));
      if (e) { bad = SV("raised", -1, "sclose of the write end raised %s", vf_exc_name(e)); break; }
      fclose(t2); t2 = NULL;
      if ((bad = sweep_read(fr, t, blk, 0))) break;
      ledger_reset(); e = LIB(sclose(fr));
      if (e) { bad = SV("raised", -1, "sclose of the read end raised %s", vf_exc_name(e)); break; }
    } while (0);
  } else {
    FILE* rf = backend == B_TMPFILE ? tmpfile() : fmemopen(membuf[0], sizeof membuf[0], "w+b");
    t = backend == B_TMPFILE ? tmpfile() : fmemopen(membuf[1], sizeof membuf[1], "w+b");
    if (!rf || !t) { perror("h_file: tmpfile/fmemopen"); rm_scratch(); _exit(2); }
    live[nlive++] = rf;
    var f = $(File, rf);
    do {
      if ((bad = sweep_write(f, t, blk, single, 1))) break;
      ledger_reset(); e = LIB(sseek(f, 0, SEEK_SET)); fseek(t, 0, SEEK_SET);
      if (e) { bad = SV("raised", -1, "sseek raised %s", vf_exc_name(e)); break; }
      if ((bad = sweep_read(f, t, blk, 1))) break;
      ledger_reset(); e = LIB(sclose(f));
      if (e) { bad = SV("raised", -1, "sclose raised %s", vf_exc_name(e)); break; }
    } while (0);
  }
  if (t) fclose(t);
  if (t2) fclose(t2);
  if (!bad && nlive != 0) bad = SV("handle-leak", -1, "%d stream(s) still open after sclose", nlive);
  while (nlive > 0) __real_fclose(live[--nlive]);
  return bad;
}
#undef SSTEP

static void sweep(void) {
  int rb = -1, rl = -1, rs = -1;
  int only = vf.replay && sscanf(vf.replay, "sweep backend=%d layout=%d single=%d", &rb, &rl, &rs) == 3;
  if (vf.replay && !only) return;
  for (int b = 0; b < NBACKENDS; b++) for (int l = 0; l < 2; l++) for (int sg = 0; sg < 2; sg++) {
    if (only && (b != rb || l != rl || sg != rs)) continue;
    vf_watchdog(60);
    vf_set_cur("sweep backend=%d layout=%d single=%d | %s: all 256 byte values (%s) written with %s, read back with sread(f,&b,1) x 257, then 2/3/255-byte reads around the 0xFF byte",
               b, l, sg, backendname[b], l ? "0xFF first" : "0xFF last", sg ? "256 x swrite(1)" : "one swrite(256)");
    int bad = sweep_case(b, l, sg);
    vf.executions++; vf.transitions++; n_sweep++;
    if (!bad) { vf.states++; vf.nontrivial++; }
    if (vf_want_sample()) vf_sample("%s", vf_cur);
  }
  vf_watchdog(0);
  vf_cur_valid = 0;
}

/* ---- write-size ladder: ONE swrite of n bytes, n around the buffer sizes, every backend ---- */

/*
** For n in {1, 2, 255, 256, 512, 1024, 4095, 4096, 4097, 8192, BUFSIZ-1, BUFSIZ, BUFSIZ+1, 2*BUFSIZ-1,
** 2*BUFSIZ, 2*BUFSIZ+1, 3*BUFSIZ, 65536, 65537}, alone and after a 1-byte write (unaligned stream
** position): one swrite(f, pattern, n); result, stell and seof against the twin; sflush; size and
** content on disk (file backends); read back with one sread(n), one more read at the end, then
** with sread(m) for every ladder size m <= n from the start of the block; sclose; disk again.
*/
#define WLMAX 65537
static unsigned char wl_pat[WLMAX], wl_r[WLMAX + 1 + GUARD], wl_t[WLMAX + 1 + GUARD];
static char wl_mem[2][WLMAX + 4096];
static size_t wl_sizes[32]; static int wl_nsizes;

static void wl_init(void) {
  size_t raw[] = { 1, 2, 255, 256, 512, 1024, 4095, 4096, 4097, 8192, BUFSIZ - 1, BUFSIZ, BUFSIZ + 1, 2 * BUFSIZ - 1, 2 * BUFSIZ, 2 * BUFSIZ + 1, 3 * BUFSIZ, 65536, 65537 };
  for (size_t i = 0; i < sizeof raw / sizeof raw[0]; i++) {
    if (raw[i] > WLMAX) continue;
    int j = wl_nsizes;                            /* insertion sort, no duplicates */
    for (int k = 0; k < wl_nsizes; k++) if (wl_sizes[k] == raw[i]) j = -1;
    if (j < 0) continue;
    while (j > 0 && wl_sizes[j - 1] > raw[i]) { wl_sizes[j] = wl_sizes[j - 1]; j--; }
    wl_sizes[j] = raw[i]; wl_nsizes++;
  }
  for (size_t i = 0; i < WLMAX; i++) wl_pat[i] = (unsigned char)(((i % 509) * 131 + 3) & 0xFF);
}

static const char* sizeclass(size_t n) {
  return n % BUFSIZ == 0 ? "n=k*BUFSIZ" : n % 4096 == 0 ? "n=k*4096" : n % BUFSIZ == 1 ? "n=k*BUFSIZ+1" : n % BUFSIZ == BUFSIZ - 1 ? "n=k*BUFSIZ-1" : n < 4096 ? "n<4096" : "n-other";
}

static var wl_wrap(FILE* fp) {                     /* what $(File, fp) does, on the heap */
  var f = new_raw(File);
  ((struct File*)f)->file = fp;
  live[nlive++] = fp;
  return f;
}

#define WSTEP(what, stmt) do { ledger_reset(); e = LIB(stmt); if (L.null_arg || L.stale) { ledger_fault(); bad = 1; goto out; } \
    if (e != NULL) { bad = SV("raised", -1, "%s raised %s (n=%zu%s)", what, vf_exc_name(e), n, pre ? ", after a 1-byte write" : ""); goto out; } } while (0)
#define WFLAGS(when) do { if (sweep_flags(f, t, seekable, when, -1)) { bad = 1; goto out; } } while (0)

static int wl_disk(size_t n, int pre, const char* when) {
  size_t rn; int rex; unsigned char* rb = slurp(rpath[0], &rn, &rex);
  int bad = 0;
  n_disk_compares++; vf.evaluations++;
  if (!rex || rn != n + pre) bad = SV("disk-length-differs", -1, "%s the file is %zu bytes long, %zu were written (one swrite of %zu%s)", when, rn, n + pre, n, pre ? " after a 1-byte write" : "");
  else if ((pre && rb[0] != 'Z') || memcmp(rb + pre, wl_pat, n) != 0) bad = SV("disk-bytes-differ", -1, "%s the file does not hold the bytes written (one swrite of %zu)", when, n);
  free(rb);
  return bad;
}

static int wl_case(int backend, size_t n, int pre) {
  var e; int bad = 0;
  var f = NULL, fr = NULL;           /* fr: read end (pipe) */
  FILE* t = NULL, *tr_ = NULL;
  int seekable = backend != B_PIPE;
  int isfile = backend == B_FILE || backend == B_REOPEN;
  snprintf(sweep_base, sizeof sweep_base, "file/write-ladder/%s/%s%s", backendname[backend], sizeclass(n), pre ? "/unaligned" : "");
  snprintf(site, sizeof site, "%s", sweep_base); vf.phase = site;
  unlink(rpath[0]); unlink(tpath[0]);
  nlive = 0; ledger_reset(); model_close();

  if (isfile) {
    f = new_raw(File);
    WSTEP("sopen", sopen(f, $S(rpath[0]), $S("w+b")));
    t = fopen(tpath[0], "w+b");
  } else if (backend == B_TMPFILE) { f = wl_wrap(tmpfile()); t = tmpfile(); }
  else if (backend == B_FMEMOPEN) { f = wl_wrap(fmemopen(wl_mem[0], sizeof wl_mem[0], "w+b")); t = fmemopen(wl_mem[1], sizeof wl_mem[1], "w+b"); }
  else {
    int pr[2], pt[2];
    if (pipe(pr) != 0 || pipe(pt) != 0) { perror("h_file: pipe"); rm_scratch(); _exit(2); }
    f = wl_wrap(fdopen(pr[1], "wb")); fr = wl_wrap(fdopen(pr[0], "rb"));
    t = fdopen(pt[1], "wb"); tr_ = fdopen(pt[0], "rb");
  }
  if (!t || (f && !((struct File*)f)->file)) { perror("h_file: write ladder backend"); rm_scratch(); _exit(2); }

  if (pre) {
    g_ret = -777;
    WSTEP("swrite(1)", g_ret = (int64_t)swrite(f, "Z", 1));
    if (fwrite("Z", 1, 1, t) != 1) infra("write ladder: fwrite twin");
    if (g_ret != 1) { bad = SV("swrite-1/return-count", -1, "swrite of 1 byte returned %" PRId64, (int64_t)g_ret); goto out; }
  }
  g_ret = -777;
  WSTEP("swrite(n)", g_ret = (int64_t)swrite(f, wl_pat, n));
  if (fwrite(wl_pat, n, 1, t) != 1) infra("write ladder: fwrite twin n=%zu", n);
  vf.evaluations++;
  if (g_ret != 1 && g_ret != (int64_t)n) { bad = SV("swrite/return-count", -1, "one swrite of %zu bytes returned %" PRId64, n, (int64_t)g_ret); goto out; }
  WFLAGS("after the swrite");
  WSTEP("sflush", sflush(f));
  if (fflush(t) != 0) infra("write ladder: fflush twin");
  WFLAGS("after sflush");
  if (isfile && (bad = wl_disk(n, pre, "after sflush"))) goto out;

  /* switch to reading */
  if (backend == B_REOPEN) {
    WSTEP("sclose", sclose(f)); fclose(t);
    WSTEP("sopen rb", sopen(f, $S(rpath[0]), $S("rb"))); t = fopen(tpath[0], "rb");
  } else if (backend == B_PIPE) {
    WSTEP("sclose of the write end", sclose(f)); fclose(t);
    in_lib = 1; e = VF_CATCH(del_raw(f)); in_lib = 0;
    f = fr; fr = NULL; t = tr_; tr_ = NULL;
  } else {
    WSTEP("sseek", sseek(f, 0, SEEK_SET));
    if (fseek(t, 0, SEEK_SET) != 0) infra("write ladder: fseek twin");
  }
  if (pre) {
    unsigned char c = 0, tc = 0; g_ret = -777;
    WSTEP("sread(1)", g_ret = (int64_t)sread(f, &c, 1));
    if (fread(&tc, 1, 1, t) != 1 || tc != 'Z') infra("write ladder: twin first byte");
    if (g_ret != 1 || c != 'Z') { bad = SV("sread-1/first-byte", -1, "the byte written before the block reads back as 0x%02x (result %" PRId64 ")", c, (int64_t)g_ret); goto out; }
  }
  { memset(wl_r, 0xAA, n + GUARD); g_ret = -777;
    WSTEP("sread(n)", g_ret = (int64_t)sread(f, wl_r, n));
    size_t tr = fread(wl_t, n, 1, t);
    if (tr != 1 || memcmp(wl_t, wl_pat, n) != 0) infra("write ladder: twin read-back n=%zu", n);
    vf.evaluations++;
    if (g_ret != 1 && g_ret != (int64_t)n) { bad = SV("sread-n/return-count", -1, "one sread of the %zu bytes written by one swrite returned %" PRId64 ", fread on the twin returns 1", n, (int64_t)g_ret); goto out; }
    if (memcmp(wl_r, wl_pat, n) != 0) { size_t i = 0; while (wl_r[i] == wl_pat[i]) i++;
      bad = SV("sread-n/bytes-differ", -1, "one sread of %zu bytes: byte %zu reads back as 0x%02x, 0x%02x was written", n, i, wl_r[i], wl_pat[i]); goto out; }
    for (size_t k = n; k < n + GUARD; k++) if (wl_r[k] != 0xAA) { bad = SV("sread-n/buffer-overrun", -1, "sread(%zu) wrote past the buffer", n); goto out; }
    n_readback_bytes += n;
    WFLAGS("after reading the block back"); }
  { unsigned char c = 0xAA, tc; g_ret = -777;     /* nothing may follow */
    WSTEP("sread(1) at the end", g_ret = (int64_t)sread(f, &c, 1));
    size_t tr = fread(&tc, 1, 1, t);
    if (tr != 0) infra("write ladder: twin has data after the block");
    vf.evaluations++;
    if (g_ret != 0) { bad = SV("sread-1-at-end/return-count", -1, "sread(1) after the block returned %" PRId64 ", the twin is at end-of-file", (int64_t)g_ret); goto out; }
    WFLAGS("after the read at end-of-file"); }
  if (seekable) for (int k = 0; k < wl_nsizes && wl_sizes[k] <= n; k++) {   /* the mirrored ladder of read sizes */
    size_t m = wl_sizes[k];
    WSTEP("sseek", sseek(f, pre, SEEK_SET));
    if (fseek(t, pre, SEEK_SET) != 0) infra("write ladder: fseek twin");
    memset(wl_r, 0xAA, m + GUARD); g_ret = -777;
    WSTEP("sread(m)", g_ret = (int64_t)sread(f, wl_r, m));
    if (fread(wl_t, m, 1, t) != 1 || memcmp(wl_t, wl_pat, m) != 0) infra("write ladder: twin sread(%zu) of %zu", m, n);
    vf.evaluations++;
    if (g_ret != 1 && g_ret != (int64_t)m) { bad = SV("sread-m/return-count", -1, "sread(%zu) at the start of a %zu-byte block returned %" PRId64, m, n, (int64_t)g_ret); goto out; }
    if (memcmp(wl_r, wl_pat, m) != 0) { bad = SV("sread-m/bytes-differ", -1, "sread(%zu) at the start of a %zu-byte block did not return the bytes written", m, n); goto out; }
    n_readback_bytes += m;
    WFLAGS("after sread(m)");
  }
  WSTEP("sclose", sclose(f)); fclose(t); t = NULL;
  if (isfile && (bad = wl_disk(n, pre, "after sclose"))) goto out;
out:
  if (t) fclose(t);
  if (tr_) fclose(tr_);
  if (f) { in_lib = 1; e = VF_CATCH(del_raw(f)); in_lib = 0; }
  if (fr) { in_lib = 1; e = VF_CATCH(del_raw(fr)); in_lib = 0; }
  if (!bad && nlive != 0) bad = SV("handle-leak", -1, "%d stream(s) still open after sclose", nlive);
  while (nlive > 0) __real_fclose(live[--nlive]);
  return bad;
}
#undef WSTEP
#undef WFLAGS

static void write_ladder(void) {
  int rb = -1, rp = -1; size_t rn = 0;
  int only = vf.replay && sscanf(vf.replay, "wladder backend=%d n=%zu pre=%d", &rb, &rn, &rp) == 3;
  if (vf.replay && !only) return;
  wl_init();
  for (int b = 0; b < NBACKENDS; b++) for (int k = 0; k < wl_nsizes; k++) for (int pre = 0; pre < 2; pre++) {
    size_t n = wl_sizes[k];
    if (b == B_PIPE && n + pre > 32768) continue;        /* stays below the pipe capacity: writer and reader are one thread */
    if (only && (b != rb || n != rn || pre != rp)) continue;
    vf_watchdog(60);
    vf_set_cur("wladder backend=%d n=%zu pre=%d | %s: %sone swrite of %zu bytes (BUFSIZ=%d); stell, sflush, disk, sread(%zu), end-of-file, sread ladder",
               b, n, pre, backendname[b], pre ? "1-byte write, then " : "", n, (int)BUFSIZ, n);
    int bad = wl_case(b, n, pre);
    vf.executions++; vf.transitions++; n_wladder++;
    if (!bad) { vf.states++; vf.nontrivial++; }
    if (vf_want_sample()) vf_sample("%s", vf_cur);
  }
  vf_watchdog(0);
  vf_cur_valid = 0;
}

static void ladder(void) {
  static const size_t big[] = { 511, 512, 513, 1023, 1024, 1025, 4095, 4096, 4097, 5000, 8191, 8192, 8193, 20000 };
  size_t maxsmall = (size_t)vf_param_i("ladder_n", 300);
  size_t rN = 0; int rv = -1;
  int only = vf.replay && sscanf(vf.replay, "ladder N=%zu variant=%d", &rN, &rv) == 2;
  if (vf.replay && !only) return;
  for (size_t i = 0; i <= maxsmall + sizeof big / sizeof big[0]; i++) {
    size_t N = i <= maxsmall ? i : big[i - maxsmall - 1];
    for (int v = 0; v < 3; v++) {
      if (only && (N != rN || v != rv)) continue;
      vf_watchdog(60);
      vf_set_cur("ladder N=%zu variant=%d | print_to(\"%s\", %zu x 'k', 42) %s, read back with sread and scan_from", N, v, RECFMT, N,
                 v == 0 ? "on \"w+b\", seek back" : v == 1 ? "on \"w+b\", sclose, sopen \"rb\"" : "twice on \"ab\" after \"x\\n\", sclose, sopen \"rb\"");
      int bad = ladder_case(N, v);
      vf.executions++; vf.transitions++; n_ladder++;
      if (!bad) { vf.states++; vf.nontrivial++; }
      if (N > vf.max_depth) vf.max_depth = N;
      if (vf_want_sample()) vf_sample("%s", vf_cur);
    }
  }
  vf_watchdog(0);
  vf_cur_valid = 0;
}

int main(int argc, char** argv) {
  vf_init(argc, argv);
  var roots[6] = { NULL, NULL, NULL, NULL, NULL, NULL };
  R = roots;

  /* every byte value occurs; period 509 (prime) so that a shift by a buffer size is visible */
  for (size_t i = 0; i < BIG; i++) chunk3[i] = (unsigned char)(((i % 509) * 131 + 3) & 0xFF);
  /* the single-byte chunk is 0xFF: the byte that equals EOF when it is kept in a signed char */
  chunkp[0] = (const unsigned char*)""; chunkp[1] = (const unsigned char*)"\xff";
  chunkp[2] = (const unsigned char*)"\0y\0"; chunkp[3] = chunk3;

  { const char* bg = vf_param("big", "8193");
    size_t b = strcmp(bg, "bufsiz") == 0 ? (size_t)BUFSIZ : (size_t)strtoul(bg, NULL, 0);
    if (b < 4 || b > BIG) b = BIG;
    chunklen[3] = rdlen[3] = b; snprintf(bigname, sizeof bigname, "%zu-byte block", b); }
  build_alphabet(vf_param_is("alpha", "lite", "full"));
  if (vf_param_i("listops", 0)) { for (int i = 0; i < nops; i++) printf("%d %s\n", i, ops[i].name); return 0; }
  const char* fs = vf_param("first", NULL), *nfs = vf_param("notfirst", NULL);
  if (fs) { have_first = 1; parse_first(fs, 1); }
  else if (nfs) { have_first = 1; memset(firstmask, 1, sizeof firstmask); parse_first(nfs, 0); }

  nobigprint = !vf_param_i("bigprint", 1);
  concrete = (int)vf_param_i("concrete", 1);   /* 0: state key = model only */
  probe = (int)vf_param_i("probe", 1);         /* 0: no seof/stell comparison after every transition */
  whitebox = (int)vf_param_i("whitebox", 1);   /* 0: no look at the public struct File field, API oracles only */
  make_scratch();
  SK = new_raw(String, $S("")); resize(SK, MAXPAY + 8);
  IV = new_raw(Int, $I(0));
  MX = new_raw(Mutex);
  var stackfile[8] = { NULL };                  /* header + struct File of the stack-allocated File */
  sfmem = stackfile;
  for (int i = 0; i < 2; i++) { memset(paystr[i], 'k', paylen[i]); paystr[i][paylen[i]] = 0; }

  if (vf_param_is("mode", "ladder", "bfs")) {
    ladder();
    sweep();
    write_ladder();
    vf_extra("write_ladder_cases", "%" PRIu64, n_wladder);
    vf_extra("byte_sweep_cases", "%" PRIu64, n_sweep);
    vf_extra("ladder_cases", "%" PRIu64, n_ladder);
    vf_extra("readback_bytes_compared", "%" PRIu64, n_readback_bytes);
    vf_extra("scan_from_roundtrips", "%" PRIu64, n_scan_ok);
    vf_extra("on_disk_comparisons", "%" PRIu64, n_disk_compares);
    rm_scratch();
    vf_finish();
  }

  static char dname[96];
  snprintf(dname, sizeof dname, "file[%s,%d ops%s%s]", vf_param("alpha", "full"), nops - nobigprint, fs ? ",first=" : nfs ? ",notfirst=" : "", fs ? fs : nfs ? nfs : "");
  struct vf_domain d = { dname, nops, reset, cleanup, apply, check, canon, opname, nontrivial,
                         (size_t)vf_param_i("depth", 4), (size_t)vf_param_i("max_states", 0) };

  if (vf.replay) vf_bfs_replay_case(&d, vf.replay);
  else vf_bfs_run(&d);

  vf_extra("alphabet_size", "%d", nops);
  vf_extra("readback_bytes_compared", "%" PRIu64, n_readback_bytes);
  vf_extra("scan_from_roundtrips", "%" PRIu64, n_scan_ok);
  vf_extra("closed_file_operations_checked", "%" PRIu64, n_closed_ops);
  vf_extra("on_disk_comparisons", "%" PRIu64, n_disk_compares);
  vf_extra("with_blocks_left", "%" PRIu64, n_with_exit);
  vf_extra("c_library_defined_failures_mirrored", "%" PRIu64, n_cfail);
  vf_extra("other_stream_appends", "%" PRIu64, n_env);
  vf_extra("destruct_with_object_kept", "%" PRIu64, n_destruct);
  vf_extra("nested_with_blocks", "%" PRIu64, n_nest);
  vf_extra("state_probes_seof_stell", "%" PRIu64, n_probes);
  vf_extra("real_stream_differs_from_twin_stream", "%" PRIu64, n_diverged);
  vf_extra("fopen_calls_seen", "%" PRIu64, n_fopen_seen);
  vf_extra("fclose_calls_seen", "%" PRIu64, n_fclose_seen);
  rm_scratch();
  vf_finish();
  return 0;
}
