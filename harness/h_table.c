/*
** h_table.c - explicit-state exploration of Table (C02; with prop=C05/C10/C12 the
** ledger / equality+hash / failed-operation oracles are added on the same state graph).
**
** Parameters: keys=int|str|probe  vals=int|probe  nkeys=N  prop=C02|C05|C10|C12
**             two=0|1 (second table B: copy/assign/swap/del between A and B)
**             mode=bfs|ladder   depth=N (0 = fixpoint)
**
** White-box: includes the library's own Table.c so that struct Table and the slot
** accessors are visible (state canonicalisation and the robin-hood audit).
*/

#include "Table.c"
#include "vf_bfs.h"
#include "vf_probe.h"

#define MAXK 12
static var* R;                  /* stack-resident root slots (scanned by the collector) */
#define TA (R[0])
#define TB (R[1])

static int K;                   /* universe size */
static int two, propC05, propC10, propC12;
static int use_ledger;         /* C05 oracle: on for prop=C05 and whenever a Probe key or value type is in play */
static var KT, VT;              /* key and value types */
static int kkind, vkind;        /* 0 int, 1 str, 2 probe */
static var keyobj[MAXK];
static var valobj[2];
static var wrongkey, wrongval;
/* home slot 0 modulo 5 and 11 (multiples of 55) interleaved with home = last slot (== -1 modulo 55): wrap-around from the third key on */
static int64_t ikeys[MAXK] = { 0, 55, 54, 109, 110, 165, 220, 164, 275, 330, 219, 385 };
static char skeys[MAXK][8];

/* reference model: association lists for A and B */
struct model { int exists; int present[MAXK]; int val[MAXK]; };
static struct model MA, MB;
static int A_managed, B_managed;
static int64_t led_base;
static const char* lastkind = "init";

static int mcount(struct model* m) { int n = 0; for (int i = 0; i < K; i++) n += m->present[i]; return n; }

static const char* kname(void) { return kkind == 0 ? "int" : kkind == 1 ? "str" : "probe"; }

static char labelbuf[160];
static const char* L(const char* oracle) {
  snprintf(labelbuf, sizeof labelbuf, "table/%s-%s/%s/%s", kname(), vkind == 2 ? "probe" : "int", lastkind, oracle);
  return labelbuf;
}

static int key_index(var k) {
  for (int i = 0; i < K; i++) {
    if (kkind == 1) { if (strcmp(c_str(k), skeys[i]) == 0) return i; }
    else if (c_int(k) == ikeys[i]) return i;
  }
  return -1;
}

static int64_t val_of(var v) { return c_int(v); }

static var mk_table(void) { return new_raw(Table, KT, VT); }

static void del_table(var t, int managed) { if (managed) del(t); else del_raw(t); }

static int lastq = -1, lastq_slot = -1;
/* hw: history feature (hwkey=1): the largest slot count table A had in this history, while it is larger than the current one.
** Two histories that end in the same slot layout but of which only one went through a larger table differ in whatever a
** derived field (a cached threshold, a capacity) still holds from the larger table. */
static int hwkey; static size_t hw;
/* mk: ... and the kind of operation that made A's current slot array (the last one that changed its slot count): the
** paths that build a slot array (new, growth in set, shrink in rem, resize, assign) each set the derived fields themselves */
static const char* mk = "new"; static size_t mk_nslots;
static void reset(void) {
  vf_led_err[0] = 0;
  TA = mk_table(); A_managed = 0;
  TB = NULL; B_managed = 0;
  memset(&MA, 0, sizeof MA); memset(&MB, 0, sizeof MB);
  MA.exists = 1;
  lastkind = "init";
  lastq = -1; lastq_slot = -1; hw = 0; mk = "new"; mk_nslots = ((struct Table*)TA)->nslots;
}

static void cleanup(void) {
  if (TA) { var e = VF_CATCH(del_table(TA, A_managed)); (void)e; TA = NULL; }
  if (TB) { var e = VF_CATCH(del_table(TB, B_managed)); (void)e; TB = NULL; }
  if (use_ledger && !vf_led_err[0] && vf_led_live != led_base) {
    vf_violation(L("leak-after-delete"), NULL, "after deleting every table %" PRId64 " Probe elements are still live (expected 0)", vf_led_live - led_base);
  }
  /* resynchronise so that one leak is not reported for every later execution */
  led_base = vf_led_live;
}

/* ---- white-box canonical form and audit --------------------------------------- */

static size_t canon_one(var t_, char* buf, size_t cap) {
  struct Table* t = t_;
  size_t o = 0;
  if (!t) return snprintf(buf, cap, "-");
  /* the scratch buffers are part of the concrete state: a table that lost them behaves differently on the next set */
  o += snprintf(buf + o, cap - o, "n%zu%s%s:", t->nslots, t->sspace0 ? "" : "!s0", t->sspace1 ? "" : "!s1");
  for (size_t i = 0; i < t->nslots && o + 48 < cap; i++) {
    uint64_t h = Table_Key_Hash(t, i);
    if (h == 0) { o += snprintf(buf + o, cap - o, "."); continue; }
    int ki = key_index(Table_Key(t, i));
    o += snprintf(buf + o, cap - o, "[%d@%" PRIu64 "=%" PRId64 "]", ki, h - 1, val_of(Table_Val(t, i)));
  }
  return o;
}

/* lastq: light oracle: the last explicit query (get/mem of which key) is part of the state, so that
                            ** "get(k1) ; set(k2) ; get(k1)" is a path of its own and not folded into "set(k2) ; get(k1)" */
static size_t canon(char* buf, size_t cap) {
  size_t o = canon_one(TA, buf, cap);
  if (two) { o += snprintf(buf + o, cap - o, " B:"); o += canon_one(TB, buf + o, cap - o); }
  if (lastq >= 0) o += snprintf(buf + o, cap - o, " q%d@%d", lastq, lastq_slot);
  if (hwkey && TA && hw > ((struct Table*)TA)->nslots) o += snprintf(buf + o, cap - o, " hw%zu by %s", hw, mk);
  return o;
}

static int in_ladder;
static int audit(var t_, const char* who) {
  struct Table* t = t_;
  size_t occ = 0;
  if (t->nslots == 0) {
    if (t->nitems != 0) { vf_violation(L("audit-nitems"), NULL, "%s: nslots=0 but nitems=%zu", who, t->nitems); return 1; }
    return 0;
  }
  for (size_t i = 0; i < t->nslots; i++) {
    uint64_t h = Table_Key_Hash(t, i);
    if (h == 0) continue;
    occ++;
    if (h > t->nslots) { vf_violation(L("audit-home-range"), NULL, "%s: slot %zu stores home %" PRIu64 " >= nslots %zu", who, i, h - 1, t->nslots); return 1; }
    uint64_t home = hash(Table_Key(t, i)) % t->nslots;
    if (home != h - 1) { vf_violation(L("audit-home"), NULL, "%s: slot %zu stores home %" PRIu64 " but key hashes to %" PRIu64, who, i, h - 1, home); return 1; }
    uint64_t d = Table_Probe(t, i, h);
    if (d > 0) {
      size_t pi = (i + t->nslots - 1) % t->nslots;
      uint64_t ph = Table_Key_Hash(t, pi);
      if (ph == 0) { vf_violation(L("audit-gap"), NULL, "%s: slot %zu is displaced by %" PRIu64 " but the slot before it is empty (lookup would miss it)", who, i, d); return 1; }
      uint64_t pd = Table_Probe(t, pi, ph);
      if (pd + 1 < d) { vf_violation(L("audit-robinhood"), NULL, "%s: probe distance jumps from %" PRIu64 " to %" PRIu64 " at slot %zu", who, pd, d, i); return 1; }
    }
    if (!in_ladder && key_index(Table_Key(t, i)) < 0) { vf_violation(L("audit-foreign-key"), NULL, "%s: slot %zu holds a key outside the universe", who, i); return 1; }
    if (header(Table_Key(t, i))->type != t->ktype || header(Table_Val(t, i))->type != t->vtype) {
      vf_violation(L("audit-header"), NULL, "%s: slot %zu key/value header does not carry the table's key/value type", who, i); return 1;
    }
  }
  if (occ != t->nitems) { vf_violation(L("audit-nitems"), NULL, "%s: %zu occupied slots but nitems=%zu", who, occ, t->nitems); return 1; }
  if (occ >= t->nslots) { vf_violation(L("audit-full"), NULL, "%s: table full (%zu/%zu): probing cannot terminate", who, occ, t->nslots); return 1; }
  return 0;
}

/* ---- black-box map oracle ------------------------------------------------------ */

static int check_map(var t, struct model* m, const char* who) {
  size_t n = (size_t)mcount(m);
  size_t l = len(t);
  if (l != n) { vf_violation(L("len"), NULL, "%s: len=%zu, reference has %zu bindings", who, l, n); return 1; }
  for (int i = 0; i < K; i++) {
    volatile bool isin = false;
    var e = VF_CATCH(isin = mem(t, keyobj[i]));
    if (e) { vf_violation(L("mem-raises"), NULL, "%s: mem(key#%d) raised %s", who, i, vf_exc_name(e)); return 1; }
    if ((int)isin != m->present[i]) { vf_violation(L("mem"), NULL, "%s: mem(key#%d)=%d, reference says %d", who, i, (int)isin, m->present[i]); return 1; }
    volatile var got = NULL;
    e = VF_CATCH(got = get(t, keyobj[i]));
    if (m->present[i]) {
      if (e) { vf_violation(L("get-raises"), NULL, "%s: get(key#%d) raised %s for a present key", who, i, vf_exc_name(e)); return 1; }
      if (val_of(got) != m->val[i]) { vf_violation(L("get-value"), NULL, "%s: get(key#%d)=%" PRId64 ", last set value is %d", who, i, val_of(got), m->val[i]); return 1; }
      if (type_of(got) != VT) { vf_violation(L("get-type"), NULL, "%s: get(key#%d) is not of the value type", who, i); return 1; }
    } else {
      if (e != KeyError) { vf_violation(L("get-absent"), NULL, "%s: get(key#%d) of an absent key gave %s, KeyError expected", who, i, vf_exc_name(e)); return 1; }
    }
  }
  /* iteration: every key exactly once, forwards; backwards is the exact reverse */
  int seen[MAXK] = {0}; int fwd[64]; size_t nf = 0;
  size_t horizon = l + 8;
  var it = iter_init(t);
  while (it != Terminal && nf < horizon) {
    int ki = key_index(it);
    if (ki < 0) { vf_violation(L("iter-foreign"), NULL, "%s: iteration yielded a key outside the universe", who); return 1; }
    if (seen[ki]++) { vf_violation(L("iter-duplicate"), NULL, "%s: iteration yielded key#%d twice", who, ki); return 1; }
    if (!m->present[ki]) { vf_violation(L("iter-ghost"), NULL, "%s: iteration yielded absent key#%d", who, ki); return 1; }
    if (val_of(get(t, it)) != m->val[ki]) { vf_violation(L("iter-get"), NULL, "%s: get(iterated key#%d) disagrees with the reference", who, ki); return 1; }
    fwd[nf++] = ki;
    it = iter_next(t, it);
  }
  if (nf != n) { vf_violation(L("iter-count"), NULL, "%s: forward iteration yielded %zu keys, len is %zu", who, nf, n); return 1; }
  size_t nb = 0;
  it = iter_last(t);
  while (it != Terminal && nb < horizon) {
    int ki = key_index(it);
    if (nb >= nf || ki != fwd[nf - 1 - nb]) { vf_violation(L("iter-backward"), NULL, "%s: backward iteration is not the reverse of forward iteration", who); return 1; }
    nb++;
    it = iter_prev(t, it);
  }
  if (nb != nf) { vf_violation(L("iter-backward-count"), NULL, "%s: backward iteration yielded %zu keys, forward %zu", who, nb, nf); return 1; }
  if (key_type(t) != KT || val_type(t) != VT) { vf_violation(L("types"), NULL, "%s: key_type/val_type changed", who); return 1; }
  return 0;
}

/* ---- C05: ledger ---------------------------------------------------------------- */

static int check_ledger(void) {
  if (vf_led_err[0]) { vf_violation(L("ledger"), NULL, "%s", vf_led_err); vf_led_err[0] = 0; return 1; }
  int64_t expect = 0;
  int per = (kkind == 2) + (vkind == 2);
  expect += per * mcount(&MA);
  if (TB) expect += per * mcount(&MB);
  if (vf_led_live - led_base != expect) {
    vf_violation(L(vf_led_live - led_base > expect ? "ledger-live-too-many" : "ledger-live-too-few"), NULL,
      "%" PRId64 " Probe elements live, the tables contain %" PRId64, vf_led_live - led_base, expect);
    return 1;
  }
  /* every stored Probe must be live and intact */
  for (int w = 0; w < 2; w++) {
    struct Table* t = w ? TB : TA;
    if (!t) continue;
    for (size_t i = 0; i < t->nslots; i++) {
      if (Table_Key_Hash(t, i) == 0) continue;
      if (kkind == 2 && !vf_probe_intact(Table_Key(t, i))) { vf_violation(L("ledger-stored-key-dead"), NULL, "a stored key is finalised or corrupted while still contained"); return 1; }
      if (vkind == 2 && !vf_probe_intact(Table_Val(t, i))) { vf_violation(L("ledger-stored-val-dead"), NULL, "a stored value is finalised or corrupted while still contained"); return 1; }
    }
  }
  return 0;
}

/* ---- C10: copy / assign / hash --------------------------------------------------- */

static struct vf_set hashgroups; static uint64_t* grouphash; static size_t ngroups, capgroups;

static void abstract_key(struct model* m, char* buf, size_t cap) {
  size_t o = 0; buf[0] = 0;
  for (int i = 0; i < K; i++) if (m->present[i]) o += snprintf(buf + o, cap - o, "%d=%d,", i, m->val[i]);
}

/* do two tables with the same bindings hold their keys in a different slot (= iteration) order? */
static int slot_order_differs(var a, var b) {
  var x = iter_init(a), y = iter_init(b);
  size_t guard = 0;
  while (x != Terminal && y != Terminal && guard++ < 64) {
    if (key_index(x) != key_index(y)) return 1;
    x = iter_next(a, x); y = iter_next(b, y);
  }
  return 0;
}

static const char* Lo(const char* oracle, var a, var b) {
  static char buf[96];
  snprintf(buf, sizeof buf, "%s/%s", oracle, slot_order_differs(a, b) ? "slot-order-differs" : "same-slot-order");
  return L(buf);
}

static int check_eqhash(void) {
  /* hash is a function of the abstract value alone */
  char ak[256]; abstract_key(&MA, ak, sizeof ak);
  uint64_t h = hash(TA);
  if (!hashgroups.cap) { vf_set_init(&hashgroups, 1024); capgroups = 1024; grouphash = malloc(capgroups * sizeof *grouphash); }
  long gi = vf_set_put(&hashgroups, ak, (uint32_t)ngroups);
  if (gi < 0) {
    if (ngroups == capgroups) { capgroups *= 2; grouphash = realloc(grouphash, capgroups * sizeof *grouphash); }
    grouphash[ngroups++] = h;
  } else if (grouphash[gi] != h) {
    vf_violation(L("hash-depends-on-history"), NULL, "two tables with the same bindings {%s} hash differently (%" PRIx64 " vs %" PRIx64 ")", ak, h, grouphash[gi]);
    return 1;
  }
  vf.evaluations++;
  /* copy is eq and hashes the same */
  R[2] = copy(TA);
  int bad = 0;
  if (hash(R[2]) != h) { vf_violation(L("copy-hash"), NULL, "hash(copy(t)) != hash(t)"); bad = 1; }
  int soft = 0;   /* a violation that is recorded but does not make the state terminal (keeps the graph connected) */
  if (!bad && (!eq(R[2], TA) || !eq(TA, R[2]))) {
    /* feature: do the keys sit in different relative slot order in the two tables? */
    int d = slot_order_differs(R[2], TA);
    vf_violation(Lo("copy-not-eq", R[2], TA), NULL, "eq(copy(t), t) is false for bindings {%s}", ak);
    if (d) soft = 1; else bad = 1;
  }
  if (!bad && len(R[2]) != len(TA)) { vf_violation(L("copy-len"), NULL, "len(copy(t)) != len(t)"); bad = 1; }
  del(R[2]); R[2] = NULL;
  if (bad) return 1;
  /* a table rebuilt from the reference model in ascending key order is eq and hashes the same */
  R[2] = mk_table();
  for (int i = 0; i < K; i++) if (MA.present[i]) set(R[2], keyobj[i], valobj[MA.val[i]]);
  if (hash(R[2]) != h) { vf_violation(L("rebuild-hash"), NULL, "a table rebuilt with the same bindings {%s} hashes differently", ak); bad = 1; }
  if (!bad && (!eq(R[2], TA) || !eq(TA, R[2]))) {
    int d = slot_order_differs(R[2], TA);
    vf_violation(Lo("rebuild-not-eq", R[2], TA), NULL, "a table rebuilt with the same bindings {%s} is not eq", ak);
    if (d) soft = 1; else bad = 1;
  }
  else if (!bad && (neq(R[2], TA) || cmp(R[2], TA) != 0)) { vf_violation(Lo("rebuild-cmp", R[2], TA), NULL, "cmp of equal tables is not 0"); bad = 1; }
  (void)soft;
  del_raw(R[2]); R[2] = NULL;
  return bad;
}

/* light oracle: the slots are compared with the reference model through the white-box view only - not one library call is
** made between two operations of the alphabet, so that whatever an operation leaves behind in hidden state (a cursor, a
** memo, a scratch buffer) is still there when the next operation runs.  get/mem are explicit operations in this mode. */
static int light;
static int check_slots(var t_, struct model* m, const char* who) {
  struct Table* t = t_;
  int seen[MAXK] = {0}; size_t n = 0;
  for (size_t i = 0; i < t->nslots; i++) {
    if (Table_Key_Hash(t, i) == 0) continue;
    int ki = key_index(Table_Key(t, i));
    if (ki < 0) { vf_violation(L("slots-foreign"), NULL, "%s: a slot holds a key outside the universe", who); return 1; }
    if (seen[ki]++) { vf_violation(L("slots-duplicate"), NULL, "%s: key#%d is stored twice", who, ki); return 1; }
    if (!m->present[ki]) { vf_violation(L("slots-ghost"), NULL, "%s: absent key#%d is stored", who, ki); return 1; }
    if (val_of(Table_Val(t, i)) != m->val[ki]) { vf_violation(L("slots-value"), NULL, "%s: key#%d stores %" PRId64 ", last set value is %d", who, ki, val_of(Table_Val(t, i)), m->val[ki]); return 1; }
    n++;
  }
  if (n != (size_t)mcount(m) || t->nitems != n) { vf_violation(L("slots-count"), NULL, "%s: %zu bindings stored (nitems %zu), reference has %d", who, n, t->nitems, mcount(m)); return 1; }
  if (t->ktype != KT || t->vtype != VT) { vf_violation(L("types"), NULL, "%s: key/value type changed", who); return 1; }
  return 0;
}

static int check(void) {
  if (audit(TA, "A")) return 1;
  if (light ? check_slots(TA, &MA, "A") : check_map(TA, &MA, "A")) return 1;
  if (TB) {
    if (audit(TB, "B")) return 1;
    if (light ? check_slots(TB, &MB, "B (must be independent of A)") : check_map(TB, &MB, "B (must be independent of A)")) return 1;
  }
  if (use_ledger && check_ledger()) return 1;
  if (propC10 && check_eqhash()) return 1;
  return 0;
}

/* ---- alphabet -------------------------------------------------------------------- */

enum { OP_RESIZE0, OP_RESIZELEN, OP_RESIZEGROW, OP_COPY, OP_ASSIGN_EMPTY, OP_ASSIGN_FULL,
       OP_B_COPY, OP_B_ASSIGN_FROM_A, OP_A_ASSIGN_FROM_B, OP_B_DEL, OP_B_SET, OP_B_REM, OP_SWAP,
       OP_F_GET_WRONGKEY, OP_F_SET_WRONGKEY, OP_F_SET_WRONGVAL, OP_F_REM_WRONGKEY, OP_F_MEM_WRONGKEY, OP_F_RESIZE_SMALL,
       OP_F_GET_NULL, OP_F_SET_NULLVAL, OP_F_ASSIGN_INT, OP_F_ASSIGN_STR,
       OP_ASSIGN_XTYPE,
       OP_NMISC };

static int alias_ops = 1;
static int nops_total(void) { return 3 * K + OP_NMISC + (alias_ops ? 6 * K : 0) + (light ? 2 * K : 0); }
static int query_base(void) { return 3 * K + OP_NMISC + (alias_ops ? 6 * K : 0); }

/* the key / value object stored inside the table for universe key k (NULL if absent) */
static var stored_key(var t_, int k) {
  struct Table* t = t_;
  for (size_t i = 0; i < t->nslots; i++) if (Table_Key_Hash(t, i) && key_index(Table_Key(t, i)) == k) return Table_Key(t, i);
  return NULL;
}
static var stored_val(var t_, int k) {
  struct Table* t = t_;
  for (size_t i = 0; i < t->nslots; i++) if (Table_Key_Hash(t, i) && key_index(Table_Key(t, i)) == k) return Table_Val(t, i);
  return NULL;
}

static void opname(int op, char* buf, size_t cap) {
  if (light && op >= query_base()) { int a = op - query_base(); snprintf(buf, cap, a < K ? "get(k%d)" : "mem(k%d)", a % K); return; }
  if (op < 2 * K) { snprintf(buf, cap, "set(k%d,%d)", op / 2, op % 2); return; }
  if (op < 3 * K) { snprintf(buf, cap, "rem(k%d)", op - 2 * K); return; }
  if (op >= 3 * K + OP_NMISC) {
    int a = op - 3 * K - OP_NMISC, k = a % K;
    snprintf(buf, cap, a < K ? "set(A, stored key object of k%d, 1)" : a < 2 * K ? "set(A, k%d, stored value object of another key)" : a < 3 * K ? "rem(A, stored key object of k%d)"
      : a < 4 * K ? "mem(A, stored value object of k%d)" : a < 5 * K ? "get(A, stored value object of k%d)" : "mem/get(A, stored key object of k%d)", k);
    return;
  }
  static const char* nm[] = { "resize(0)", "resize(len)", "resize(2len+3)", "A=copy(A)", "A=assign(new,A)", "A=assign(nonempty,A)",
    "B=copy(A)", "assign(B,A)", "assign(A,B)", "del(B)", "set(B,k0,1)", "rem(B,k0)", "swap(A,B)",
    "get(wrong-type key)", "set(wrong-type key)", "set(wrong-type val)", "rem(wrong-type key)", "mem(wrong-type key)", "resize(len-1)",
    "get(NULL)", "set(k0,NULL)", "assign(A, an Int)", "assign(A, a String)", "A=assign(filled table of other key/value types,A)" };
  snprintf(buf, cap, "%s", nm[op - 3 * K]);
}

/* what a user can observe of a table: its bindings in iteration order (capacity is not observable) */
static size_t observable(var t, char* buf, size_t cap) {
  size_t o = 0; buf[0] = 0;
  if (!t) return snprintf(buf, cap, "-");
  if (light) {     /* the same, read from the slots */
    struct Table* tt = t;
    o += snprintf(buf + o, cap - o, "len%zu:", tt->nitems);
    for (size_t i = 0; i < tt->nslots && o + 32 < cap; i++) if (Table_Key_Hash(tt, i)) o += snprintf(buf + o, cap - o, "[%d=%" PRId64 "]", key_index(Table_Key(tt, i)), val_of(Table_Val(tt, i)));
    return o;
  }
  o += snprintf(buf + o, cap - o, "len%zu:", len(t));
  var it = iter_init(t); size_t guard = 0;
  while (it != Terminal && guard++ < 64 && o + 32 < cap) {
    o += snprintf(buf + o, cap - o, "[%d=%" PRId64 "]", key_index(it), val_of(get(t, it)));
    it = iter_next(t, it);
  }
  return o;
}
static void observable_all(char* buf, size_t cap) {
  size_t o = observable(TA, buf, cap);
  if (two) { o += snprintf(buf + o, cap - o, " B:"); observable(TB, buf + o, cap - o); }
}

/* a failed operation: expected exception from accept set, object left as it was (everything observable unchanged;
** the slot layout is compared too, except that an emptied table may re-create its minimal slot array) */
static int expect_fail(var e, var a1, var a2, var a3, const char* what, const char* before_obs) {
  char after[4096];
  if (e == NULL) { vf_violation(L("no-exception"), NULL, "%s did not raise", what); return VF_BAD; }
  if (e != a1 && e != a2 && e != a3) { vf_violation(L("wrong-exception"), NULL, "%s raised %s", what, vf_exc_name(e)); return VF_BAD; }
  observable_all(after, sizeof after);
  if (strcmp(before_obs, after) != 0) { vf_violation(L("state-changed"), NULL, "%s raised %s but changed the table: %s -> %s", what, vf_exc_name(e), before_obs, after); return VF_BAD; }
  if (len(current(Exception)) != 0) { vf_violation(L("exception-depth"), NULL, "%s: exception depth not restored", what); return VF_BAD; }
  return VF_OK;
}

static int apply_inner(int op) {
  var e;
  char before[4096];
  if (light && op >= query_base()) {
    int a = op - query_base(), k = a % K;
    /* the key queried last: only while that key is present does a stale answer have anything to return */
    lastq = MA.present[k] ? a : -1;
    /* ... and the slot the key sat in when it was asked for: two histories that end in the same layout but asked at different
    ** moments (before / after the key was displaced) differ in what a position memo would hold */
    lastq_slot = -1;
    if (lastq >= 0) { struct Table* tt = TA; for (size_t i = 0; i < tt->nslots; i++) if (Table_Key_Hash(tt, i) && key_index(Table_Key(tt, i)) == k) lastq_slot = (int)i; }
    if (a < K) {
      lastkind = MA.present[k] ? "get-present" : "get-absent";
      volatile var got = NULL;
      e = VF_CATCH(got = get(TA, keyobj[k]));
      if (MA.present[k]) {
        if (e) { vf_violation(L("get-raises"), NULL, "get(key#%d) raised %s for a present key", k, vf_exc_name(e)); return VF_BAD; }
        if (val_of(got) != MA.val[k]) { vf_violation(L("get-value"), NULL, "get(key#%d)=%" PRId64 ", last set value is %d", k, val_of(got), MA.val[k]); return VF_BAD; }
      } else if (e != KeyError) { vf_violation(L("get-absent"), NULL, "get(key#%d) of an absent key gave %s, KeyError expected", k, vf_exc_name(e)); return VF_BAD; }
      return VF_OK;
    }
    lastkind = "mem";
    volatile bool isin = false;
    e = VF_CATCH(isin = mem(TA, keyobj[k]));
    if (e) { vf_violation(L("mem-raises"), NULL, "mem(key#%d) raised %s", k, vf_exc_name(e)); return VF_BAD; }
    if ((int)isin != MA.present[k]) { vf_violation(L("mem"), NULL, "mem(key#%d)=%d, reference says %d", k, (int)isin, MA.present[k]); return VF_BAD; }
    return VF_OK;
  }
  if (op < 2 * K) {
    int k = op / 2, v = op % 2;
    lastkind = MA.present[k] ? "set-existing" : "set-new";
    e = VF_CATCH(set(TA, keyobj[k], valobj[v]));
    if (e) { vf_violation(L("raises"), NULL, "set raised %s", vf_exc_name(e)); return VF_BAD; }
    MA.present[k] = 1; MA.val[k] = v;
    return VF_OK;
  }
  if (op < 3 * K) {
    int k = op - 2 * K;
    if (MA.present[k]) {
      lastkind = "rem-present";
      e = VF_CATCH(rem(TA, keyobj[k]));
      if (e) { vf_violation(L("raises"), NULL, "rem of a present key raised %s", vf_exc_name(e)); return VF_BAD; }
      MA.present[k] = 0;
      return VF_OK;
    }
    lastkind = "rem-absent";
    observable_all(before, sizeof before);
    e = VF_CATCH(rem(TA, keyobj[k]));
    return expect_fail(e, KeyError, KeyError, KeyError, "rem of an absent key", before);
  }
  if (op >= 3 * K + OP_NMISC) {
    /* aliasing: the argument is an object that lives inside the table itself */
    int a = op - 3 * K - OP_NMISC, k = a % K;
    if (a < K) {
      var sk = stored_key(TA, k); if (!sk) return VF_SKIP;
      lastkind = "set-by-stored-key";
      e = VF_CATCH(set(TA, sk, valobj[1]));
      if (e) { vf_violation(L("raises"), NULL, "set through the stored key object raised %s", vf_exc_name(e)); return VF_BAD; }
      MA.val[k] = 1;
      return VF_OK;
    } else if (a < 2 * K) {
      int other = -1; for (int q = 0; q < K; q++) if (q != k && MA.present[q]) { other = q; break; }
      if (other < 0) return VF_SKIP;
      lastkind = MA.present[k] ? "set-existing-with-stored-value" : "set-new-with-stored-value";
      e = VF_CATCH(set(TA, keyobj[k], stored_val(TA, other)));
      if (e) { vf_violation(L("raises"), NULL, "set with a value object stored in the same table raised %s", vf_exc_name(e)); return VF_BAD; }
      MA.present[k] = 1; MA.val[k] = MA.val[other];
      return VF_OK;
    } else if (a < 3 * K) {
      var sk = stored_key(TA, k); if (!sk) return VF_SKIP;
      lastkind = "rem-by-stored-key";
      e = VF_CATCH(rem(TA, sk));
      if (e) { vf_violation(L("raises"), NULL, "rem through the stored key object raised %s", vf_exc_name(e)); return VF_BAD; }
      MA.present[k] = 0;
      return VF_OK;
    } else if (a < 5 * K) {
      /* the argument is a VALUE object living inside the table (only where it can serve as a key: same type). It denotes
      ** the key equal to it, if the universe has one: the answer is the reference model's, not "it is in here somewhere" */
      if (KT != VT) return VF_SKIP;
      var sv = stored_val(TA, k); if (!sv) return VF_SKIP;
      int ki = key_index(sv);
      int present = ki >= 0 && MA.present[ki];
      if (a < 4 * K) {
        lastkind = "mem-by-stored-value";
        volatile bool isin = false;
        e = VF_CATCH(isin = mem(TA, sv));
        if (e) { vf_violation(L("raises"), NULL, "mem with a stored value object raised %s", vf_exc_name(e)); return VF_BAD; }
        if ((int)isin != present) { vf_violation(L("mem"), NULL, "mem(A, value object stored under key#%d) = %d, but a key equal to it is %s", k, (int)isin, present ? "present" : "absent"); return VF_BAD; }
        return VF_OK;
      }
      lastkind = "get-by-stored-value";
      volatile var got = NULL;
      e = VF_CATCH(got = get(TA, sv));
      if (present) {
        if (e) { vf_violation(L("get-raises"), NULL, "get with a stored value object raised %s although a key equal to it is present", vf_exc_name(e)); return VF_BAD; }
        if (val_of(got) != MA.val[ki]) { vf_violation(L("get-value"), NULL, "get(A, value object stored under key#%d) = %" PRId64 ", the key equal to it maps to %d", k, val_of(got), MA.val[ki]); return VF_BAD; }
      } else if (e != KeyError) { vf_violation(L("get-absent"), NULL, "get with a stored value object equal to no present key gave %s, KeyError expected", vf_exc_name(e)); return VF_BAD; }
      return VF_OK;
    } else {
      var sk = stored_key(TA, k); if (!sk) return VF_SKIP;
      lastkind = "query-by-stored-key";
      volatile bool isin = false; volatile var got = NULL;
      e = VF_CATCH(isin = mem(TA, sk));
      if (e || !isin) { vf_violation(L("mem"), NULL, "mem through the stored key object of key#%d: %s", k, e ? vf_exc_name(e) : "false"); return VF_BAD; }
      e = VF_CATCH(got = get(TA, sk));
      if (e || val_of(got) != MA.val[k]) { vf_violation(L("get-value"), NULL, "get through the stored key object of key#%d disagrees with the reference", k); return VF_BAD; }
      return VF_OK;
    }
  }
  int m = op - 3 * K;
  size_t l = len(TA);
  switch (m) {
  case OP_RESIZE0:
    lastkind = "resize0";
    e = VF_CATCH(resize(TA, 0));
    if (e) { vf_violation(L("raises"), NULL, "resize(0) raised %s", vf_exc_name(e)); return VF_BAD; }
    memset(MA.present, 0, sizeof MA.present);
    return VF_OK;
  case OP_RESIZELEN:
    if (l == 0) return VF_SKIP;
    lastkind = "resize-len";
    e = VF_CATCH(resize(TA, l));
    if (e) { vf_violation(L("raises"), NULL, "resize(len) raised %s", vf_exc_name(e)); return VF_BAD; }
    return VF_OK;
  case OP_RESIZEGROW:
    lastkind = "resize-grow";
    e = VF_CATCH(resize(TA, 2 * l + 3));
    if (e) { vf_violation(L("raises"), NULL, "resize(2len+3) raised %s", vf_exc_name(e)); return VF_BAD; }
    return VF_OK;
  case OP_COPY: {
    lastkind = "copy";
    e = VF_CATCH(R[2] = copy(TA));
    if (e) { vf_violation(L("raises"), NULL, "copy raised %s", vf_exc_name(e)); return VF_BAD; }
    del_table(TA, A_managed); TA = R[2]; R[2] = NULL; A_managed = 1;
    return VF_OK; }
  case OP_ASSIGN_EMPTY: case OP_ASSIGN_FULL: {
    lastkind = m == OP_ASSIGN_EMPTY ? "assign-into-empty" : "assign-into-nonempty";
    R[2] = mk_table();
    if (m == OP_ASSIGN_FULL) { set(R[2], keyobj[0], valobj[1]); set(R[2], keyobj[K-1], valobj[1]); }
    e = VF_CATCH(assign(R[2], TA));
    if (e) { vf_violation(L("raises"), NULL, "assign raised %s", vf_exc_name(e)); del_raw(R[2]); R[2] = NULL; return VF_BAD; }
    del_table(TA, A_managed); TA = R[2]; R[2] = NULL; A_managed = 0;
    return VF_OK; }
  case OP_ASSIGN_XTYPE: {
    /* the receiver was constructed, and filled, with key and value types of ANOTHER size (Probe is 24 bytes, Int and String 8) */
    lastkind = "assign-into-nonempty-other-types";
    var KT2 = kkind == 2 ? Int : Probe, VT2 = vkind == 2 ? Int : Probe;
    R[2] = new_raw(Table, KT2, VT2);
    for (int i = 0; i < 3; i++) set(R[2], KT2 == Probe ? (var)VF_P(900 + 55 * i) : (var)$I(900 + 55 * i), VT2 == Probe ? (var)VF_P(i) : (var)$I(i));
    e = VF_CATCH(assign(R[2], TA));
    if (e) { vf_violation(L("raises"), NULL, "assign onto a filled table of other types raised %s", vf_exc_name(e)); var e2 = VF_CATCH(del_raw(R[2])); (void)e2; R[2] = NULL; return VF_BAD; }
    if (key_type(R[2]) != KT || val_type(R[2]) != VT) { vf_violation(L("types"), NULL, "after assign the receiver does not have the source's key/value types"); return VF_BAD; }
    del_table(TA, A_managed); TA = R[2]; R[2] = NULL; A_managed = 0;
    if (vf_led_err[0]) { vf_violation(L("ledger"), NULL, "%s", vf_led_err); vf_led_err[0] = 0; return VF_BAD; }
    { int per = (kkind == 2) + (vkind == 2); int64_t expect = (int64_t)per * mcount(&MA) + (TB ? (int64_t)per * mcount(&MB) : 0);
      if (vf_led_live - led_base != expect) { vf_violation(L(vf_led_live - led_base > expect ? "old-elements-not-finalised" : "too-many-finalised"), NULL, "%" PRId64 " Probe elements live after the assign, the tables contain %" PRId64, vf_led_live - led_base, expect); return VF_BAD; } }
    return VF_OK; }
  case OP_B_COPY:
    if (!two) return VF_SKIP;
    lastkind = "B=copy(A)";
    if (TB) { del_table(TB, B_managed); TB = NULL; }
    e = VF_CATCH(TB = copy(TA));
    if (e) { vf_violation(L("raises"), NULL, "copy raised %s", vf_exc_name(e)); return VF_BAD; }
    B_managed = 1; MB = MA;
    return VF_OK;
  case OP_B_ASSIGN_FROM_A:
    if (!two || !TB) return VF_SKIP;
    lastkind = "assign(B,A)";
    e = VF_CATCH(assign(TB, TA));
    if (e) { vf_violation(L("raises"), NULL, "assign raised %s", vf_exc_name(e)); return VF_BAD; }
    MB = MA;
    return VF_OK;
  case OP_A_ASSIGN_FROM_B:
    if (!two || !TB) return VF_SKIP;
    lastkind = "assign(A,B)";
    e = VF_CATCH(assign(TA, TB));
    if (e) { vf_violation(L("raises"), NULL, "assign raised %s", vf_exc_name(e)); return VF_BAD; }
    MA = MB;
    return VF_OK;
  case OP_B_DEL:
    if (!two || !TB) return VF_SKIP;
    lastkind = "del(B)";
    e = VF_CATCH(del_table(TB, B_managed));
    TB = NULL; memset(&MB, 0, sizeof MB);
    if (e) { vf_violation(L("raises"), NULL, "del raised %s", vf_exc_name(e)); return VF_BAD; }
    return VF_OK;
  case OP_B_SET:
    if (!two || !TB) return VF_SKIP;
    lastkind = "set(B)";
    e = VF_CATCH(set(TB, keyobj[0], valobj[1]));
    if (e) { vf_violation(L("raises"), NULL, "set raised %s", vf_exc_name(e)); return VF_BAD; }
    MB.present[0] = 1; MB.val[0] = 1;
    return VF_OK;
  case OP_B_REM:
    if (!two || !TB || !MB.present[0]) return VF_SKIP;
    lastkind = "rem(B)";
    e = VF_CATCH(rem(TB, keyobj[0]));
    if (e) { vf_violation(L("raises"), NULL, "rem raised %s", vf_exc_name(e)); return VF_BAD; }
    MB.present[0] = 0;
    return VF_OK;
  case OP_SWAP: {
    if (!two || !TB || !propC10) return VF_SKIP;
    lastkind = "swap(A,B)";
    e = VF_CATCH(swap(TA, TB));
    if (e) { vf_violation(L("raises"), NULL, "swap raised %s", vf_exc_name(e)); return VF_BAD; }
    struct model t = MA; MA = MB; MB = t;
    return VF_OK; }
  default: break;
  }
  if (!propC12) return VF_SKIP;
  observable_all(before, sizeof before);
  switch (m) {
  case OP_F_GET_WRONGKEY:
    lastkind = "get-wrong-type-key";
    e = VF_CATCH(get(TA, wrongkey));
    return expect_fail(e, ValueError, TypeError, KeyError, "get with a key of the wrong type", before);
  case OP_F_SET_WRONGKEY:
    lastkind = "set-wrong-type-key";
    e = VF_CATCH(set(TA, wrongkey, valobj[0]));
    return expect_fail(e, ValueError, TypeError, TypeError, "set with a key of the wrong type", before);
  case OP_F_SET_WRONGVAL:
    lastkind = "set-wrong-type-val";
    e = VF_CATCH(set(TA, keyobj[0], wrongval));
    return expect_fail(e, ValueError, TypeError, TypeError, "set with a value of the wrong type", before);
  case OP_F_REM_WRONGKEY:
    lastkind = "rem-wrong-type-key";
    e = VF_CATCH(rem(TA, wrongkey));
    return expect_fail(e, ValueError, TypeError, KeyError, "rem with a key of the wrong type", before);
  case OP_F_MEM_WRONGKEY:
    lastkind = "mem-wrong-type-key";
    e = VF_CATCH(mem(TA, wrongkey));
    return expect_fail(e, ValueError, TypeError, KeyError, "mem with a key of the wrong type", before);
  case OP_F_RESIZE_SMALL:
    if (l < 2) return VF_SKIP;
    lastkind = "resize-below-len";
    e = VF_CATCH(resize(TA, l - 1));
    return expect_fail(e, FormatError, ResourceError, ValueError, "resize below the number of items", before);
  case OP_F_GET_NULL:
    lastkind = "get-null-key";
    e = VF_CATCH(get(TA, NULL));
    return expect_fail(e, ValueError, TypeError, KeyError, "get(NULL)", before);
  case OP_F_SET_NULLVAL:
    lastkind = "set-null-val";
    e = VF_CATCH(set(TA, keyobj[0], NULL));
    return expect_fail(e, ValueError, TypeError, TypeError, "set with a NULL value", before);
  case OP_F_ASSIGN_INT: case OP_F_ASSIGN_STR:
    /* a source that is no container at all (no Len, Iter, Get): refused before anything is cleared */
    lastkind = "assign-from-non-container";
    e = VF_CATCH(assign(TA, m == OP_F_ASSIGN_INT ? (var)$I(5) : (var)$S("xy")));
    return expect_fail(e, ClassError, ClassError, ClassError, "assign from an object that is not a container", before);
  }
  return VF_SKIP;
}

static int apply(int op) {
  int r = apply_inner(op);
  if (TA && ((struct Table*)TA)->nslots > hw) hw = ((struct Table*)TA)->nslots;
  if (TA && ((struct Table*)TA)->nslots != mk_nslots) { mk_nslots = ((struct Table*)TA)->nslots; mk = lastkind; }
  if (lastq >= 0 && !MA.present[lastq % K]) lastq = -1;
  return r;
}

static int nontrivial(void) {
  /* a state whose probe sequence wrapped around or displaced an entry from its home slot */
  struct Table* t = TA;
  for (size_t i = 0; i < t->nslots; i++) {
    uint64_t h = Table_Key_Hash(t, i);
    if (h && Table_Probe(t, i, h) > 0) return 1;
  }
  return 0;
}

/* ---- ladders: size classes beyond the BFS bound --------------------------------- */

static void ladder(void) {
  /* N colliding Int keys (multiples of the lcm-ish stride) inserted / updated / removed in enumerated orders */
  vf.phase = "table-ladder"; in_ladder = 1;
  int maxn = (int)vf_param_i("ladder_n", 120);
  static const int64_t strides[] = { 1, 5, 11, 55, 23 * 55, 53 * 23 * 55, 101, 197 };
  int norders = 4; /* ascending, descending, alternating ends, stride-7 */
  long long r_stride = -1; int r_n = 0, r_ord = -1, r_rord = -1;
  if (vf.replay && sscanf(vf.replay, "ladder stride=%lld n=%d insert-order=%d remove-order=%d", &r_stride, &r_n, &r_ord, &r_rord) == 4) maxn = r_n;
  for (size_t si = 0; si < sizeof strides / sizeof strides[0]; si++) {
    for (int ord = 0; ord < norders; ord++) {
      for (int rord = 0; rord < norders; rord++) {
        if (vf.replay && (strides[si] != r_stride || ord != r_ord || rord != r_rord)) continue;
        vf_watchdog(120);
        vf_set_cur("ladder stride=%" PRId64 " n=%d insert-order=%d remove-order=%d", strides[si], maxn, ord, rord);
        lastkind = "ladder";
        var t = new_raw(Table, Int, Int);
        int64_t* present = calloc(maxn, sizeof *present);
        int count = 0, bad = 0;
        int* perm = malloc(maxn * sizeof *perm);
        for (int pass = 0; pass < 3 && !bad; pass++) {
          int o = pass == 2 ? rord : ord;
          for (int i = 0; i < maxn; i++) {
            perm[i] = o == 0 ? i : o == 1 ? maxn - 1 - i : o == 2 ? ((i & 1) ? maxn - 1 - i / 2 : i / 2) : (int)(((int64_t)i * 7) % maxn);
          }
          if (o == 3 && maxn % 7 == 0) for (int i = 0; i < maxn; i++) perm[i] = i;
          for (int i = 0; i < maxn && !bad; i++) {
            int k = perm[i];
            int64_t key = (int64_t)k * strides[si];
            if (pass == 0) { set(t, $I(key), $I(k)); if (!present[k]) count++; present[k] = 1 + k; }
            else if (pass == 1) { set(t, $I(key), $I(k + 1000)); present[k] = 1 + k + 1000; }
            else { var e = VF_CATCH(rem(t, $I(key))); if (e) { vf_violation(L("raises"), NULL, "rem raised %s", vf_exc_name(e)); bad = 1; break; } present[k] = 0; count--; }
            vf.transitions++;
            if (len(t) != (size_t)count) { vf_violation(L("len"), NULL, "len=%zu expected %d after step %d of pass %d", len(t), count, i, pass); bad = 1; break; }
            if (audit(t, "ladder")) { bad = 1; break; }
            /* full lookup check at every size-class boundary and every 8th step */
            size_t ns = ((struct Table*)t)->nslots;
            static size_t lastns; int boundary = ns != lastns; lastns = ns;
            if (boundary || (i & 7) == 0 || i == maxn - 1) {
              for (int q = 0; q < maxn; q++) {
                bool isin = mem(t, $I((int64_t)q * strides[si]));
                if (isin != (present[q] != 0)) { vf_violation(L("mem"), NULL, "mem(key %d) = %d expected %d (nslots=%zu)", q, (int)isin, present[q] != 0, ns); bad = 1; break; }
                if (isin && c_int(get(t, $I((int64_t)q * strides[si]))) != present[q] - 1) { vf_violation(L("get-value"), NULL, "get(key %d) wrong (nslots=%zu)", q, ns); bad = 1; break; }
              }
              size_t cnt = 0; var it = iter_init(t);
              while (it != Terminal && cnt < (size_t)count + 8) { cnt++; it = iter_next(t, it); }
              if (!bad && cnt != (size_t)count) { vf_violation(L("iter-count"), NULL, "iteration yields %zu keys, expected %d", cnt, count); bad = 1; }
              vf.evaluations++;
              if (boundary) vf.nontrivial++;
            }
          }
        }
        vf.executions++;
        if (vf_want_sample()) vf_sample("%s", vf_cur);
        free(present); free(perm);
        del_raw(t);
      }
    }
  }
  vf.states = vf.nontrivial ? vf.nontrivial : 1;
}

/* find short strings whose hashes collide modulo 5 and 11 (home slot 0), plus two that land in the last slot */
static void find_string_keys(void) {
  int found0 = 0, found54 = 0, total = 0;
  char s[8];
  int want54 = K / 3;
  int want0 = K - want54;
  char zero[MAXK][8], last[MAXK][8];
  for (int a = 0; a < 26 * 26 * 26 * 26 && (found0 < want0 || found54 < want54); a++) {
    int n = 0, x = a;
    do { s[n++] = 'a' + x % 26; x /= 26; } while (x && n < 6);
    s[n] = 0;
    uint64_t h = hash($S(s));
    if (h % 55 == 0 && found0 < want0) strcpy(zero[found0++], s);
    else if (h % 55 == 54 && found54 < want54) strcpy(last[found54++], s);
  }
  /* interleave: two home-0 keys, then a last-slot key, ... so that small universes already wrap around */
  { int a = 0, b = 0;
    while (total < K) {
      if (a < found0 && (total % 3 != 2 || b >= found54)) strcpy(skeys[total++], zero[a++]);
      else if (b < found54) strcpy(skeys[total++], last[b++]);
      else break;
    } }
  if (total < K) { fprintf(stderr, "h_table: could not find %d colliding string keys\n", K); _exit(2); }
}

int main(int argc, char** argv) {
  vf_init(argc, argv);
  var roots[4] = { NULL, NULL, NULL, NULL };
  R = roots;

  const char* ks = vf_param("keys", "int"), *vs = vf_param("vals", "int");
  kkind = strcmp(ks, "str") == 0 ? 1 : strcmp(ks, "probe") == 0 ? 2 : 0;
  vkind = strcmp(vs, "probe") == 0 ? 2 : 0;
  K = (int)vf_param_i("nkeys", 5);
  if (K > MAXK) K = MAXK;
  two = (int)vf_param_i("two", 0);
  hwkey = (int)vf_param_i("hwkey", 0);
  alias_ops = (int)vf_param_i("alias", 1);
  light = (int)vf_param_i("light", 0);
  const char* prop = vf_param("prop", "C02");
  propC05 = strcmp(prop, "C05") == 0;
  propC10 = strcmp(prop, "C10") == 0;
  propC12 = strcmp(prop, "C12") == 0;
  vf_led_reset();

  if (vf_param_is("mode", "ladder", "bfs")) { kkind = 0; vkind = 0; KT = Int; VT = Int; ladder(); vf_finish(); }

  KT = kkind == 0 ? Int : kkind == 1 ? String : Probe;
  VT = vkind == 0 ? Int : Probe;
  if (kkind == 1) find_string_keys();
  for (int i = 0; i < K; i++) {
    keyobj[i] = kkind == 0 ? (var)new_raw(Int, $I(ikeys[i])) : kkind == 1 ? (var)new_raw(String, $S(skeys[i])) : (var)new_raw(Probe, $I(ikeys[i]));
  }
  for (int v = 0; v < 2; v++) valobj[v] = vkind == 0 ? (var)new_raw(Int, $I(v)) : (var)new_raw(Probe, $I(v));
  wrongkey = kkind == 1 ? (var)new_raw(Int, $I(0)) : (var)new_raw(String, $S("zz"));
  wrongval = new_raw(String, $S("zz"));
  led_base = vf_led_live;
  use_ledger = propC05 || kkind == 2 || vkind == 2;

  struct vf_domain d = { "table", nops_total(), reset, cleanup, apply, check, canon, opname, nontrivial,
                         (size_t)vf_param_i("depth", 0), (size_t)vf_param_i("max_states", 0) };
  static char dname[64];
  snprintf(dname, sizeof dname, "table[%s->%s,%dkeys%s,%s]", kname(), vkind == 2 ? "probe" : "int", K, two ? ",two" : "", prop);
  d.name = dname;

  if (vf.replay) vf_bfs_replay_case(&d, vf.replay);
  else vf_bfs_run(&d);
  vf_extra("key_universe", "\"%s keys, %d of them, hashing to slot 0 / last slot modulo 5 and 11\"", kname(), K);
  vf_finish();
  return 0;
}
