/*
** h_roundtrip.c - exhaustive grid for C15: text written by show_to / print_to("%$") /
** print_to(<numeric or %s specification>) for Int, Float and String values is read back
** by look_from / scan_from into an equal value, consuming exactly what was written, from
** a heap String and from a File alike.
**
** Parameters: type=int|float|string|all   sinks=str,tmp,mem (subset)   grid=small|full   sweep=0|1 (single-byte sweep, default 1)
**             strlen=N (strings: every string of length <= N over the 13-byte alphabet)
**             pairlen=N (string pairs from the length <= N set)   pairs=0|1
**
** One case = (type, writer, reader, sink/source kind, start position, value [, second value,
** separator]).  Case id (replayable): "T w r k p i j s" as decimal numbers; replay runs the
** same enumeration and executes only the matching case, verbosely.
**
** Oracle per case:
**   - the writer returns start + number of characters it put into the sink, and the sink
**     holds exactly filler + text(a) [+ sep + text(b)], text(x) being what the same writer
**     produces alone in a fresh String (String sink == File sink, position independence);
**   - the reader yields a value equal to the one written (Int, String); for Float equal to
**     strtod(text) (readers that C defines to read a float: strtof(text)); for a "%s" reader
**     the token and count libc's sscanf gives on the same text;
**   - the reader returns start + number of characters written; for a File source the
**     stream position is the same number (it consumed exactly that).
*/

#include "vf.h"
#include <math.h>
#include <float.h>

enum { T_INT, T_FLOAT, T_STR };
enum { SK_STR, SK_TMP, SK_MEM, NSK };
static const char* skname[] = { "String", "File(tmpfile)", "File(open_memstream/fmemopen)" };
static const char tchar[] = "IFS";

/* ---- writers and readers ---------------------------------------------------------- */

struct spec { const char* name; const char* fmt; int cls; };
/* cls for Int: 0 decimal-64, 1 %lu, 2 hex-64, 3 octal-64, 4 decimal-32, 5 %u, 6 hex-32, 7 octal-32 */
static const struct spec IW[] = {
  { "show_to", NULL, 0 }, { "print_to %$", "%$", 0 }, { "print_to %li", "%li", 0 }, { "print_to %ld", "%ld", 0 },
  { "print_to %lu", "%lu", 1 }, { "print_to %lx", "%lx", 2 }, { "print_to %lX", "%lX", 2 }, { "print_to %lo", "%lo", 3 },
  { "print_to %8li", "%8li", 0 }, { "print_to %+li", "%+li", 0 },
  { "print_to %i", "%i", 4 }, { "print_to %d", "%d", 4 }, { "print_to %u", "%u", 5 }, { "print_to %x", "%x", 6 }, { "print_to %o", "%o", 7 },
};
static const struct spec IR[] = {
  { "look", NULL, 0 }, { "scan%$", "%$", 0 }, { "scan%li", "%li", 0 }, { "scan%ld", "%ld", 0 },
  { "scan%lu", "%lu", 1 }, { "scan%lx", "%lx", 2 }, { "scan%lX", "%lX", 2 }, { "scan%lo", "%lo", 3 },
  { "scan%i", "%i", 4 }, { "scan%d", "%d", 4 }, { "scan%u", "%u", 5 }, { "scan%x", "%x", 6 }, { "scan%o", "%o", 7 },
};
/* cls for Float readers: 0 reads a double, 1 reads a float (C semantics of %f without l) */
static const struct spec FW[] = {
  { "show_to", NULL, 0 }, { "print_to %$", "%$", 0 }, { "print_to %f", "%f", 0 }, { "print_to %lf", "%lf", 0 },
  { "print_to %e", "%e", 0 }, { "print_to %g", "%g", 0 }, { "print_to %a", "%a", 0 }, { "print_to %.17g", "%.17g", 0 },
  { "print_to %.0f", "%.0f", 0 }, { "print_to %.3le", "%.3le", 0 }, { "print_to %+.10lf", "%+.10lf", 0 }, { "print_to %12.4lf", "%12.4lf", 0 },
  { "print_to %lG", "%lG", 0 }, { "print_to %E", "%E", 0 },
};
static const struct spec FR[] = {
  { "look", NULL, 0 }, { "scan%$", "%$", 0 }, { "scan%lf", "%lf", 0 }, { "scan%le", "%le", 0 }, { "scan%lg", "%lg", 0 }, { "scan%la", "%la", 0 },
  { "scan%f", "%f", 1 }, { "scan%e", "%e", 1 }, { "scan%g", "%g", 1 }, { "scan%a", "%a", 1 },
};
/* cls for String: 0 quoted literal, 1 raw */
static const struct spec SW[] = { { "show_to", NULL, 0 }, { "print_to %$", "%$", 0 }, { "print_to %s", "%s", 1 } };
static const struct spec SR[] = { { "look", NULL, 0 }, { "scan%$", "%$", 0 }, { "scan%s", "%s", 1 } };

#define NEL(a) ((int)(sizeof (a) / sizeof (a)[0]))

static const struct spec* WR[3] = { IW, FW, SW };  static int NWR[3];
static const struct spec* RD[3] = { IR, FR, SR };  static int NRD[3];

/* separators of the concatenated sequences: literal text before / between / after the conversions.
** The first two contain white space (a white-space directive for scanf); the others do not, so that
** a File reader really has to consume them; the last two put literals before and after as well. */
struct sepdef { const char* pre; const char* sep; const char* post;      /* as written in the print / scan FORMAT */
                const char* tpre; const char* tsep; const char* tpost;  /* the text they stand for (NULL: the same) */
                int piecewise;                                          /* written by separate print_to calls from one reused buffer */
                int string_ok; };                                       /* see PCT_STRICT below */
static const struct sepdef SEPS[] = {
  { "", ", ", "" }, { "", " ", "" },
  { "", ",", "" }, { "", ";", "" }, { "", "|", "" }, { "", "::", "" }, { "", "=>", "" },
  { "a=", ";b=", ";" }, { "x:", ",y:", "" },
  /* the same format, containing an escaped "%%", used for printing and for scanning */
  { "", "%% of ", "",  NULL, "% of ", NULL, 0, 1 },     /*  9: "%$%% of %$"  before text                          */
  { "", " ", "%%",     NULL, NULL, "%",     0, 1 },     /* 10: "%$ %$%%"     at the end of the format             */
  { "%%", " ", "",     "%", NULL, NULL,     0, 0 },     /* 11: "%%%$ %$"     at the start, directly before a conversion */
  { "", "%%%%", "",    NULL, "%%", NULL,    0, 0 },     /* 12: "%$%%%%%$"    doubled, between two conversions     */
  { "", "%%", "",      NULL, "%", NULL,     0, 0 },     /* 13: "%$%%%$"      between two conversions              */
  { "", "%% ", "",     NULL, "% ", NULL,    0, 1 },     /* 14: "%$%% %$"     followed by white space              */
  /* value, separator, value printed by three print_to calls whose formats are built in ONE reused char buffer */
  { "", ", ", "", NULL, NULL, NULL, 1 }, { "", ";", "", NULL, NULL, NULL, 1 },
};
#define NSEP ((int)(sizeof SEPS / sizeof SEPS[0]))
#define NSEP_WS 2                      /* the first NSEP_WS entries are the white-space separators */
#define SEP_PCT_FIRST 9
#define SEP_PCT_LAST 14
static const char* sep_tpre(int si)  { return SEPS[si].tpre  ? SEPS[si].tpre  : SEPS[si].pre; }
static const char* sep_tsep(int si)  { return SEPS[si].tsep  ? SEPS[si].tsep  : SEPS[si].sep; }
static const char* sep_tpost(int si) { return SEPS[si].tpost ? SEPS[si].tpost : SEPS[si].post; }
static int sep_pct(int si) { return si >= SEP_PCT_FIRST && si <= SEP_PCT_LAST; }
/*
** pctscan=strict judges every "%%" scan format completely, from a String and from a File.  The default
** is what the library at the time of writing gets right: its scan_from advances the position by TWO
** for a "%%" that stands for ONE character, so (a) the position it returns is one too large per "%%"
** (not judged by default; values, exceptions and the File offset are) and (b) from a String the
** character after the '%' is skipped, which only white space in the format absorbs (string_ok entries).
** Reported as a defect candidate: proposed/scan-percent-literal-position.md
*/
static int PCT_STRICT;
static int sep_framed(int si) { return SEPS[si].pre[0] || SEPS[si].post[0] || sep_pct(si) || SEPS[si].piecewise; }   /* needs spec-based writer and reader */

#define STRW 320

/* ---- value grids ------------------------------------------------------------------- */

static int64_t* IV; static int NIV; static int* IPAIR; static int NIPAIR;
static double*  FV; static int NFV; static int* FPAIR; static int NFPAIR;
static char   (*SV)[STRW]; static int NSV; static int NSPAIR;   /* string pairs: indices [0, NSPAIR) */

static void add_i(int64_t v) {
  for (int i = 0; i < NIV; i++) if (IV[i] == v) return;
  IV = realloc(IV, (NIV + 1) * sizeof *IV); IV[NIV++] = v;
}
static void add_f(double v) {
  if (!isfinite(v)) return;
  for (int s = 0; s < 2; s++) {
    double x = s ? -v : v; int dup = 0;
    for (int i = 0; i < NFV && !dup; i++) if (memcmp(&FV[i], &x, sizeof x) == 0) dup = 1;
    if (dup) continue;
    FV = realloc(FV, (NFV + 1) * sizeof *FV); FV[NFV++] = x;
  }
}

static void build_ints(int full) {
  static const int64_t first[] = { 0, 1, -1, 9, -9, 10, -10 };
  for (int i = 0; i < NEL(first); i++) add_i(first[i]);
  for (int k = 1; k <= 62; k++) {
    if (!full && !(k <= 4 || k == 7 || k == 8 || k == 15 || k == 16 || k == 31 || k == 32 || k == 33 || k == 53 || k == 62)) continue;
    int64_t p = (int64_t)1 << k;
    add_i(p - 1); add_i(p); add_i(p + 1); add_i(-(p - 1)); add_i(-p); add_i(-(p + 1));
  }
  add_i(INT32_MAX); add_i(INT32_MIN); add_i((int64_t)INT32_MAX + 1); add_i((int64_t)INT32_MIN - 1); add_i((int64_t)INT32_MAX - 1); add_i((int64_t)INT32_MIN + 1);
  add_i(UINT32_MAX); add_i((int64_t)UINT32_MAX + 1);
  add_i(INT64_MAX); add_i(INT64_MIN); add_i(INT64_MAX - 1); add_i(INT64_MIN + 1);
  if (full) {
    int64_t p = 1;
    for (int k = 1; k <= 18; k++) { p *= 10; add_i(p - 1); add_i(p); add_i(p + 1); add_i(-(p - 1)); add_i(-p); add_i(-(p + 1)); }
    add_i(8); add_i(-8); add_i(64); add_i(123456789); add_i(-123456789);
  } else { add_i(99); add_i(100); add_i(-100); add_i(999999999999999999LL); add_i(1000000000000000000LL); }
  /* reduced grid for pairs */
  static const int64_t pr[] = { 0, 1, -1, 10, -10, 255, INT32_MAX, INT32_MIN, (int64_t)UINT32_MAX + 1, INT64_MAX, INT64_MIN, -9 };
  for (int i = 0; i < NEL(pr); i++) for (int j = 0; j < NIV; j++) if (IV[j] == pr[i]) { IPAIR = realloc(IPAIR, (NIPAIR + 1) * sizeof *IPAIR); IPAIR[NIPAIR++] = j; }
  if (full) {
    /* a wider pair grid: every 13th value as well */
    for (int j = 5; j < NIV; j += 13) { IPAIR = realloc(IPAIR, (NIPAIR + 1) * sizeof *IPAIR); IPAIR[NIPAIR++] = j; }
  }
}

static void build_floats(int full) {
  add_f(0.0); add_f(1.0); add_f(0.5); add_f(2.0); add_f(10.0); add_f(0.1); add_f(1.0 / 3.0); add_f(1.5); add_f(3.141592653589793);
  add_f(16777216.0); add_f(16777217.0); add_f(16777215.0); add_f(9007199254740992.0); add_f(9007199254740991.0); add_f(9007199254740993.0 + 1.0);
  add_f(DBL_MAX); add_f(DBL_MIN); add_f(DBL_EPSILON); add_f(FLT_MAX); add_f(FLT_MIN); add_f((double)FLT_MAX * 2); add_f((double)FLT_MIN / 2);
  /* both ends of the float range, from inside and from outside */
  add_f(nextafter((double)FLT_MAX, INFINITY)); add_f(nextafter((double)FLT_MAX, 0.0)); add_f(3.0e38); add_f(3.5e38); add_f(1e38); add_f(1e39); add_f(1e100); add_f(1e300);
  add_f(nextafter((double)FLT_MIN, 0.0)); add_f(1.401298464324817e-45); add_f(1e-45); add_f(1e-46); add_f(7e-46); add_f(1e-39); add_f(1e-300); add_f(5e-324);
  add_f(4.9406564584124654e-324); add_f(2.2250738585072009e-308); add_f(1e-320);
  add_f(nextafter(1.0, 2.0)); add_f(nextafter(1.0, 0.0)); add_f(nextafter(DBL_MAX, 0.0));
  add_f(0.999999); add_f(0.9999995); add_f(0.0000005); add_f(0.0000004); add_f(123456.789); add_f(1e15 + 0.3); add_f(2.5); add_f(3.5); add_f(1e22); add_f(1e23);
  /* powers of two and of ten across the range */
  for (int k = -1074; k <= 1023; k++) {
    if (!full && !(k % 64 == 0 || (k >= -12 && k <= 12) || k == -1074 || k == -1073 || k == -1023 || k == -1022 || k == 1023 || k == 1022
                   || k == 23 || k == 24 || k == 25 || k == 52 || k == 53 || k == 54 || k == 63 || k == 64 || k == 127 || k == 128 || k == -126 || k == -127 || k == -149 || k == -150)) continue;
    double p = ldexp(1.0, k);
    add_f(p);
    if (full || (k >= 20 && k <= 60)) { add_f(nextafter(p, INFINITY)); add_f(nextafter(p, 0.0)); }
    if (k >= 1 && k <= 62 && (full || k == 24 || k == 53 || k == 31 || k == 32)) { add_f(p + 1.0); add_f(p - 1.0); }
  }
  for (int k = -323; k <= 308; k++) {
    if (!full && !(k % 25 == 0 || (k >= -10 && k <= 22) || k == -323 || k == -308 || k == -307 || k == 308 || k == 38 || k == 39 || k == -38 || k == -45 || k == -46)) continue;
    char b[32]; snprintf(b, sizeof b, "1e%d", k);
    double p = strtod(b, NULL);
    add_f(p);
    if (full) { add_f(nextafter(p, INFINITY)); add_f(nextafter(p, 0.0)); add_f(p * 3.0); add_f(p / 3.0); add_f(p * 9.999999999); }
  }
  if (full) {
    for (int n = 1; n < 10; n++) { add_f(n / 10.0); add_f(n / 7.0); add_f(n / 3.0); add_f(n + 0.5); add_f(n * 1.1); }
  }
  static const double pr[] = { 0.0, -0.0, 1.0, -1.0, 0.5, 0.1, -0.1, 16777217.0, 1e22, 1e-7, 4.9406564584124654e-324, -2.5, 1.0 / 3.0, 9007199254740993.0 + 1.0, 123456.789, 1e100, 1e39, -1e39 };
  for (int i = 0; i < NEL(pr); i++) for (int j = 0; j < NFV; j++) if (memcmp(&FV[j], &pr[i], sizeof(double)) == 0) { FPAIR = realloc(FPAIR, (NFPAIR + 1) * sizeof *FPAIR); FPAIR[NFPAIR++] = j; }
  if (full) {
    /* a wider pair grid: every 397th value as well */
    for (int j = 0; j < NFV; j += 397) { FPAIR = realloc(FPAIR, (NFPAIR + 1) * sizeof *FPAIR); FPAIR[NFPAIR++] = j; }
  }
}

static const unsigned char SALPHA[] = { 'a', ' ', '"', '\\', '\'', '?', '%', '\n', '\t', '\a', 0x01, 0x7F, 0x80, 0xFF };

static void build_strings(int maxlen, int pairlen) {
  size_t total = 0, p = 1;
  for (int l = 0; l <= maxlen; l++) { total += p; p *= NEL(SALPHA); }
  SV = malloc((total + 8 + 5 * 255) * sizeof *SV); NSV = 0; NSPAIR = 0;
  for (int l = 0; l <= maxlen; l++) {
    size_t cnt = 1; for (int i = 0; i < l; i++) cnt *= NEL(SALPHA);
    for (size_t x = 0; x < cnt; x++) {
      size_t y = x;
      for (int i = l - 1; i >= 0; i--) { SV[NSV][i] = (char)SALPHA[y % NEL(SALPHA)]; y /= NEL(SALPHA); }
      SV[NSV][l] = 0; NSV++;
    }
    if (l == pairlen) NSPAIR = NSV;
  }
  if (NSPAIR == 0) NSPAIR = NSV;
  /* the full byte range: every non-NUL byte alone, doubled, between two letters, after a backslash, after a quote */
  if (vf_param_i("sweep", 1)) {
    for (int c = 1; c < 256; c++) {
      snprintf(SV[NSV++], STRW, "%c", c);
      snprintf(SV[NSV++], STRW, "%c%c", c, c);
      snprintf(SV[NSV++], STRW, "a%ca", c);
      snprintf(SV[NSV++], STRW, "\\%c", c);
      snprintf(SV[NSV++], STRW, "\"%c", c);
    }
  }
  /* one long string (40 characters) mixing everything, and lengths around the sizes of internal buffers */
  strcpy(SV[NSV++], "The quick \"brown\" fox\\ jumps\tover? 'it'\n");
  static const int longs[] = { 127, 128, 129, 300 };
  for (int k = 0; k < 4; k++) {
    for (int i = 0; i < longs[k]; i++) SV[NSV][i] = (char)('b' + (i * 7 + i / 25) % 25);
    SV[NSV][longs[k]] = 0; NSV++;
  }
}

/* ---- features and labels ------------------------------------------------------------ */

static const char* feat_int(int64_t v) {
  if (v == 0) return "zero";
  if (v > 0) return v <= INT32_MAX ? "positive-int32" : "positive-beyond-int32";
  return v >= INT32_MIN ? "negative-int32" : "negative-beyond-int32";
}
static const char* feat_float_text(const char* t) {
  double d = strtod(t, NULL); float f = strtof(t, NULL);
  if ((double)f == d) return "float-representable";
  if (isinf(f)) return "beyond-float-range";
  return "beyond-float-precision";
}
static const char* feat_str(const char* s) {
  int esc = 0, hi = 0, ctl = 0, sp = 0;
  if (!*s) return "empty";
  if (strchr(s, '%')) return "percent";
  if (strlen(s) >= 100) return "long";
  for (; *s; s++) {
    unsigned char c = (unsigned char)*s;
    if (strchr("\a\b\f\n\r\t\v\\'\"?", c)) esc = 1;
    else if (c >= 0x80) hi = 1;
    else if (c < 0x20 || c == 0x7f) ctl = 1;
    else if (c == ' ') sp = 1;
  }
  return esc ? "escaped-char" : hi ? "high-byte" : ctl ? "control-char" : sp ? "space" : "plain";
}

static void pretty(char* out, size_t cap, const char* s) {
  size_t o = 0;
  for (; *s && o + 6 < cap; s++) {
    unsigned char c = (unsigned char)*s;
    if (c == '\\') o += snprintf(out + o, cap - o, "\\\\");
    else if (c >= 0x20 && c < 0x7f) out[o++] = (char)c;
    else if (c == '\n') o += snprintf(out + o, cap - o, "\\n");
    else if (c == '\t') o += snprintf(out + o, cap - o, "\\t");
    else o += snprintf(out + o, cap - o, "\\x%02x", c);
  }
  out[o] = 0;
}


/*
** "equal to within the printed precision": the text the writer produced must denote the value that
** was written, to within half a unit of its last printed digit (hexadecimal text: exactly).  The
** precision is read off the text itself, so no particular format is assumed for show_to / %$.
** Returns NULL when fine, else a short description.
*/
static const char* text_denotes(const char* txt, double v, char* why, size_t cap) {
  const char* t = txt;
  while (*t == ' ') t++;
  if (*t == '+' || *t == '-') t++;
  double r = strtod(txt, NULL);
  long double tol;
  if (!isdigit((unsigned char)*t)) {
    snprintf(why, cap, "the text \"%s\" is not a number", txt); return why;
  }
  if (t[0] == '0' && (t[1] == 'x' || t[1] == 'X')) tol = 0;
  else {
    int d = 0, seen_point = 0; long ex = 0;
    for (; *t; t++) {
      if (*t == '.') seen_point = 1;
      else if (isdigit((unsigned char)*t)) { if (seen_point) d++; }
      else if (*t == 'e' || *t == 'E') { ex = strtol(t + 1, NULL, 10); break; }
      else break;
    }
    tol = 0.5L * powl(10.0L, (long double)(ex - d)) * (1.0L + 1e-9L);
  }
  tol += 4e-16L * fabsl((long double)v);
  if (isinf(r)) {
    /* rounding at the printed precision may carry past DBL_MAX; nothing else may */
    if (fabsl((long double)v) + tol >= (long double)DBL_MAX && ((r > 0) == (v > 0))) return NULL;
    snprintf(why, cap, "the text \"%.40s\" reads as %s", txt, r > 0 ? "+infinity" : "-infinity"); return why;
  }
  if (fabsl((long double)r - (long double)v) <= tol) return NULL;
  snprintf(why, cap, "the text \"%.60s\" denotes %.17g, farther from the value than half a unit of its last digit", txt, r);
  return why;
}
static const char* feat_float_value(double v) {
  double m = fabs(v);
  if (m > FLT_MAX) return "beyond-float-range";
  if (m != 0 && m < FLT_MIN) return "below-float-range";
  return "within-float-range";
}

/* ---- sinks --------------------------------------------------------------------------- */

static var OUT, TXT, DST[4];      /* heap Strings made with new_raw: not collector-managed */
static FILE* tmpf;
static int verbose;

#define TEXTCAP 4096
static char text_a[TEXTCAP], text_b[TEXTCAP], expect_text[TEXTCAP], got_text[TEXTCAP];

static uint64_t n_nontrivial_seen, n_repeat_cases;

struct value { int type; int64_t i; double f; const char* s; };

static int do_write(const struct spec* w, var out, int pos, int type, var val) {
  (void)type;
  if (w->fmt == NULL) return show_to(val, out, pos);
  return print_to(out, pos, w->fmt, val);
}

static int do_read(const struct spec* r, var dst, var src, int pos) {
  if (r->fmt == NULL) return look_from(dst, src, pos);
  return scan_from(src, pos, r->fmt, dst);
}

static char caseid[96];
static char casefull[1024];
static const char* mkcase(const struct value* a, const struct value* b, const struct spec* w, const struct spec* r, int sk, int start, int sepi) {
  char va[200], vb[200] = "";
  const struct value* vs[2] = { a, b };
  for (int k = 0; k < 2; k++) {
    char* o = k ? vb : va;
    if (!vs[k]) continue;
    if (vs[k]->type == T_INT) snprintf(o, 200, "Int %" PRId64, vs[k]->i);
    else if (vs[k]->type == T_FLOAT) snprintf(o, 200, "Float %.17g (%a)", vs[k]->f, vs[k]->f);
    else { char p[180]; pretty(p, sizeof p, vs[k]->s); snprintf(o, 200, "String \"%s\"", p); }
  }
  char sp[48] = ""; if (b) { char raw_[32]; snprintf(raw_, sizeof raw_, "%s<1>%s<2>%s", SEPS[sepi].pre, SEPS[sepi].sep, SEPS[sepi].post); pretty(sp, sizeof sp, raw_); }
  snprintf(casefull, sizeof casefull, "%s | %s -> %s via %s at position %d: %s%s%s%s%s%s", caseid, w->name, r->name, skname[sk], start,
    va, b ? " and " : "", b ? vb : "", b ? " as \"" : "", b ? sp : "", b ? "\"" : "");
  return casefull;
}

static char labelbuf[200];
static const char* LBL(const char* type, const char* who, const char* feat, const char* sym) {
  snprintf(labelbuf, sizeof labelbuf, "%s/%s/%s/%s", type, who, feat, sym);
  return labelbuf;
}
static const char* tname[] = { "int", "float", "string" };

/* compare one read-back element; returns 1 on violation */
static int judge_value(const struct value* v, const struct spec* w, const struct spec* r, const char* txt, var dst, const char* kase, const char* which) {
  if (v->type == T_INT) {
    int64_t got = c_int(dst);
    if (got != v->i) {
      const char* sym = (v->i < 0 && got == (int64_t)(uint32_t)v->i) ? "value-zero-extended" : "value";
      vf_violation(LBL("int", r->name, feat_int(v->i), sym), kase, "%s value: wrote %" PRId64 " as \"%s\", read back %" PRId64, which, v->i, txt, got);
      return 1;
    }
  } else if (v->type == T_FLOAT) {
    double got = c_float(dst);
    double want = r->cls == 1 ? (double)strtof(txt, NULL) : strtod(txt, NULL);
    if (memcmp(&got, &want, sizeof got) != 0) {
      double asf = (double)strtof(txt, NULL);
      const char* sym = (r->cls == 0 && memcmp(&got, &asf, sizeof got) == 0) ? "value-rounded-to-float" : "value";
      vf_violation(LBL("float", r->name, feat_float_text(txt), sym), kase,
        "%s value: wrote %.17g as \"%s\"; %s of that text is %.17g (%a), read back %.17g (%a)", which, v->f, txt, r->cls == 1 ? "strtof" : "strtod", want, want, got, got);
      return 1;
    }
  } else {
    const char* got = c_str(dst);
    if (strcmp(got, v->s) != 0) {
      char p1[200], p2[200], p3[300]; pretty(p1, sizeof p1, v->s); pretty(p2, sizeof p2, got); pretty(p3, sizeof p3, txt);
      vf_violation(LBL("string", r->name, feat_str(v->s), "value"), kase, "%s value: wrote \"%s\" as text %s, read back \"%s\"", which, p1, p3, p2);
      return 1;
    }
  }
  (void)w;
  return 0;
}

static var mkval(const struct value* v, var i, var f, var s) {
  if (v->type == T_INT) { ((struct Int*)i)->val = v->i; return i; }
  if (v->type == T_FLOAT) { ((struct Float*)f)->val = v->f; return f; }
  ((struct String*)s)->val = (char*)v->s; return s;
}

static void reset_dst(int type, var d, var di, var df) {
  (void)d;
  ((struct Int*)di)->val = -7777777;
  ((struct Float*)df)->val = -7777777.25;
}

/*
** run one case.  a: first value, b: second value or NULL.  Returns 1 if a violation was recorded.
*/
static int run_case(const struct value* a, const struct value* b, const struct spec* w, const struct spec* r, int sk, int start, int sepi) {
  const char* T = tname[a->type];
  const char* kase;
  var fo = $(File, NULL);
  var ia = $I(0), fa = $F(0.0), sa = $S("");
  var ib = $I(0), fb = $F(0.0), sb = $S("");
  var di0 = $I(0), df0 = $F(0.0), di1 = $I(0), df1 = $F(0.0);
  var va = mkval(a, ia, fa, sa);
  var vb = b ? mkval(b, ib, fb, sb) : NULL;
  const char* sep = b ? SEPS[sepi].sep : "";
  const char* pre = b ? SEPS[sepi].pre : "";
  const char* post = b ? SEPS[sepi].post : "";
  const char* tsep = b ? sep_tsep(sepi) : "", *tpre = b ? sep_tpre(sepi) : "", *tpost = b ? sep_tpost(sepi) : "";
  int piecewise = b && SEPS[sepi].piecewise;
  int pct_lenient = b && sep_pct(sepi) && !PCT_STRICT;
  const char* filler = start ? "##" : "";
  int combined = b && w->fmt != NULL;         /* a single print_to call "<spec><sep><spec>" */
  int rcombined = b && r->fmt != NULL;        /* a single scan_from call */
  char fmt2[64];
  volatile int wpos = -1;
  var e;

  /* feature of the value for labels of the writing stage (the Float feature needs the text, not yet known) */
  const char* wfeat = a->type == T_INT ? feat_int(a->i) : a->type == T_STR ? feat_str(a->s) : "write";
  if (b && a->type == T_STR && strcmp(wfeat, "plain") == 0) wfeat = feat_str(b->s);

  /* 1. what the writer produces for each value alone, in a fresh String at position 0 */
  assign(TXT, $S(""));
  e = VF_CATCH(wpos = do_write(w, TXT, 0, a->type, va));
  kase = NULL;
  if (e) { kase = mkcase(a, b, w, r, sk, start, sepi); vf_violation(LBL(T, w->name, wfeat, "write-raises"), kase, "writing raised %s", vf_exc_name(e)); return 1; }
  snprintf(text_a, sizeof text_a, "%s", c_str(TXT));
  if (wpos != (int)strlen(text_a)) { kase = mkcase(a, b, w, r, sk, start, sepi); vf_violation(LBL(T, w->name, wfeat, "write-returned-position"), kase, "writer returned %d after writing %zu characters at 0", (int)wpos, strlen(text_a)); return 1; }
  text_b[0] = 0;
  if (b) {
    assign(TXT, $S(""));
    e = VF_CATCH(wpos = do_write(w, TXT, 0, b->type, vb));
    if (e) { kase = mkcase(a, b, w, r, sk, start, sepi); vf_violation(LBL(T, w->name, wfeat, "write-raises"), kase, "writing raised %s", vf_exc_name(e)); return 1; }
    snprintf(text_b, sizeof text_b, "%s", c_str(TXT));
  }
  if (a->type == T_FLOAT) {
    char why[200];
    const struct value* fv[2] = { a, b }; const char* ft[2] = { text_a, text_b };
    for (int k = 0; k < (b ? 2 : 1); k++) {
      if (text_denotes(ft[k], fv[k]->f, why, sizeof why)) {
        kase = mkcase(a, b, w, r, sk, start, sepi);
        vf_violation(LBL(T, w->name, feat_float_value(fv[k]->f), "written-text-is-not-the-value"), kase, "wrote %.17g (%a): %s", fv[k]->f, fv[k]->f, why);
        return 1;
      }
    }
  }
  snprintf(expect_text, sizeof expect_text, "%s%s%s%s%s%s", filler, tpre, text_a, tsep, text_b, tpost);
  size_t la = strlen(text_a), lb = strlen(text_b), ls = strlen(tsep), total = strlen(expect_text);

  /* 2. write the sequence into the sink under test at position start */
  FILE* wf = NULL; char* membuf = NULL; size_t memlen = 0;
  var out;
  if (sk == SK_STR) { assign(OUT, $S((char*)filler)); out = OUT; }
  else {
    if (sk == SK_TMP) { rewind(tmpf); if (ftruncate(fileno(tmpf), 0) != 0) { perror("ftruncate"); _exit(2); } wf = tmpf; }
    else { wf = open_memstream(&membuf, &memlen); if (!wf) { perror("open_memstream"); _exit(2); } }
    fputs(filler, wf);
    ((struct File*)fo)->file = wf; out = fo;
  }
  if (piecewise) {
    /* three print_to calls; every format string is built in the same char array */
    char piece[64];
    e = VF_CATCH(
      strcpy(piece, w->fmt); wpos = print_to(out, start, piece, va);
      strcpy(piece, sep);    wpos = print_to(out, wpos, piece);
      strcpy(piece, w->fmt); wpos = print_to(out, wpos, piece, vb));
  } else if (combined) {
    snprintf(fmt2, sizeof fmt2, "%s%s%s%s%s", pre, w->fmt, sep, w->fmt, post);
    e = VF_CATCH(wpos = print_to(out, start, fmt2, va, vb));
  } else if (b) {
    e = VF_CATCH(wpos = do_write(w, out, start, a->type, va); wpos = print_to(out, wpos, sep); wpos = do_write(w, out, wpos, b->type, vb));
  } else {
    e = VF_CATCH(wpos = do_write(w, out, start, a->type, va));
  }
  if (e) {
    if (sk == SK_MEM) { fclose(wf); free(membuf); }
    kase = mkcase(a, b, w, r, sk, start, sepi); vf_violation(LBL(T, w->name, wfeat, "write-raises"), kase, "writing to %s raised %s", skname[sk], vf_exc_name(e)); return 1;
  }
  /* fetch what the sink holds */
  size_t gotlen = 0;
  if (sk == SK_STR) { snprintf(got_text, sizeof got_text, "%s", c_str(OUT)); gotlen = strlen(c_str(OUT)); }
  else if (sk == SK_TMP) {
    fflush(tmpf); long n = ftell(tmpf); if (n < 0 || n >= TEXTCAP) n = n < 0 ? 0 : TEXTCAP - 1;
    ssize_t g = pread(fileno(tmpf), got_text, (size_t)n, 0); if (g < 0) g = 0; got_text[g] = 0; gotlen = (size_t)g;
  } else {
    fflush(wf); gotlen = memlen < TEXTCAP - 1 ? memlen : TEXTCAP - 1; memcpy(got_text, membuf, gotlen); got_text[gotlen] = 0;
    fclose(wf); free(membuf); wf = NULL;
  }
  if (gotlen != total || memcmp(got_text, expect_text, total) != 0) {
    char p1[400], p2[400]; pretty(p1, sizeof p1, got_text); pretty(p2, sizeof p2, expect_text);
    kase = mkcase(a, b, w, r, sk, start, sepi);
    vf_violation(LBL(T, w->name, piecewise ? "formats-built-in-one-buffer" : (b && sep_pct(sepi)) ? "escaped-percent-in-format" : sk == SK_STR ? "string-sink" : "file-sink", "sink-text-differs"), kase, "%s holds \"%s\" (%zu bytes); the same writer alone in a fresh String gives \"%s\"", skname[sk], p1, gotlen, p2);
    return 1;
  }
  if (wpos != (int)total) {
    kase = mkcase(a, b, w, r, sk, start, sepi);
    vf_violation(LBL(T, w->name, sk == SK_STR ? "string-sink" : "file-sink", "returned-position"), kase, "writer returned %d, start %d + %zu characters written = %zu", (int)wpos, start, total - start, total);
    return 1;
  }
  if (verbose) { char p[600]; pretty(p, sizeof p, got_text); printf("  written to %s: \"%s\" (writer returned %d)\n", skname[sk], p, (int)wpos); }

  /* 3. read back from the same kind of object */
  FILE* rf = NULL; var src;
  if (sk == SK_STR) src = OUT;
  else {
    if (sk == SK_TMP) rf = tmpf;
    else { if (total == 0) return 0; rf = fmemopen(got_text, total, "r"); if (!rf) { perror("fmemopen"); _exit(2); } }
    fseek(rf, start, SEEK_SET);
    ((struct File*)fo)->file = rf; src = fo;
  }
  var d0, d1;
  reset_dst(a->type, NULL, di0, df0); reset_dst(a->type, NULL, di1, df1);
  if (a->type == T_INT) { d0 = di0; d1 = di1; }
  else if (a->type == T_FLOAT) { d0 = df0; d1 = df1; }
  else {
    d0 = DST[0]; d1 = DST[1];
    assign(d0, $S("@@")); assign(d1, $S("@@"));
    if (r->cls == 1) { resize(d0, 700); resize(d1, 700); }       /* %s reads into the caller's buffer, as in C */
  }

  /* expectations for a raw %s reader come from libc on the same text */
  int raw = (a->type == T_STR && r->cls == 1);
  char tok0[768] = "", tok1[768] = ""; int n0 = 0, n1 = 0, rc0 = 0, rc1 = 0;
  if (raw) {
    rc0 = sscanf(got_text + start, "%700s%n", tok0, &n0);
    if (b && rc0 >= 1) rc1 = sscanf(got_text + start + n0 + ls, "%700s%n", tok1, &n1);
  }

  volatile int p1 = -1, p2 = -1;
  int bad = 0;
  if (rcombined) {
    snprintf(fmt2, sizeof fmt2, "%s%s%s%s%s", pre, r->fmt, sep, r->fmt, post);
    e = VF_CATCH(p2 = scan_from(src, start, fmt2, d0, d1));
  } else if (b) {
    e = VF_CATCH(
      p1 = do_read(r, d0, src, start);
      if (rf) fseek(rf, (long)(start + la + ls), SEEK_SET);
      p2 = do_read(r, d1, src, (int)(start + la + ls)));
  } else {
    e = VF_CATCH(p1 = do_read(r, d0, src, start));
  }
  long fpos = rf ? ftell(rf) : -1;
  if (rf && sk == SK_MEM) fclose(rf);

  size_t exp1 = start + la, exp2 = total;
  const char* ftr = a->type == T_INT ? feat_int(a->i) : a->type == T_FLOAT ? feat_float_text(text_a) : feat_str(a->s);
  /* a width-padded number (leading blanks are part of what was written) is a feature of its own */
  if (a->type != T_STR && (text_a[0] == ' ' || text_b[0] == ' ')) ftr = "width-padded";
  else if (b && sep_pct(sepi)) ftr = "escaped-percent-in-format";
  else if (b && SEPS[sepi].piecewise) ftr = "formats-built-in-one-buffer";
  else if (b && sepi >= NSEP_WS) ftr = sep_framed(sepi) ? "literals-around-conversions" : "separator-without-white-space";
  if (raw) {
    /* C semantics of %s: leading white space skipped, stops at white space, fails on nothing */
    if (rc0 < 1 || (b && rc1 < 1)) {
      if (e != FormatError) {
        kase = mkcase(a, b, w, r, sk, start, sepi);
        vf_violation(LBL(T, r->name, ftr, "no-FormatError-on-empty-token"), kase, "libc sscanf finds no token here; scan_from raised %s", vf_exc_name(e)); return 1;
      }
      return 0;
    }
    exp1 = start + n0; exp2 = start + n0 + ls + n1;
  }
  if (e) {
    kase = mkcase(a, b, w, r, sk, start, sepi);
    char sym[64]; snprintf(sym, sizeof sym, "raises-%s", vf_exc_name(e));
    vf_violation(LBL(T, r->name, ftr, sym), kase, "reading back \"%s\" raised %s", got_text + start, vf_exc_name(e)); return 1;
  }
  if (verbose) {
    if (a->type == T_INT) printf("  read: %" PRId64 "%s", c_int(d0), b ? " , " : "");
    else if (a->type == T_FLOAT) printf("  read: %.17g%s", c_float(d0), b ? " , " : "");
    else { char p[300]; pretty(p, sizeof p, c_str(d0)); printf("  read: \"%s\"%s", p, b ? " , " : ""); }
    if (b) { if (a->type == T_INT) printf("%" PRId64, c_int(d1)); else if (a->type == T_FLOAT) printf("%.17g", c_float(d1)); else { char p[300]; pretty(p, sizeof p, c_str(d1)); printf("\"%s\"", p); } }
    printf("   positions %d %d, stream position %ld\n", (int)p1, (int)p2, fpos);
  }
  kase = NULL;
  /* values */
  if (raw) {
    struct value ea = { T_STR, 0, 0, tok0 }, eb = { T_STR, 0, 0, tok1 };
    kase = mkcase(a, b, w, r, sk, start, sepi);
    bad = judge_value(&ea, w, r, text_a, d0, kase, "first");
    if (!bad && b) bad = judge_value(&eb, w, r, text_b, d1, kase, "second");
  } else {
    kase = mkcase(a, b, w, r, sk, start, sepi);
    bad = judge_value(a, w, r, text_a, d0, kase, b ? "first" : "the");
    if (!bad && b) {
      const char* ftr2 = b->type == T_INT ? feat_int(b->i) : b->type == T_FLOAT ? feat_float_text(text_b) : feat_str(b->s);
      (void)ftr2;
      bad = judge_value(b, w, r, text_b, d1, kase, "second");
    }
  }
  if (bad) return 1;
  /* positions */
  if (!rcombined && p1 != (int)exp1) {
    vf_violation(LBL(T, r->name, ftr, "position"), kase, "reader returned %d; start %d + %zu characters written = %zu", (int)p1, start, exp1 - start, exp1); return 1;
  }
  if (b && !pct_lenient && p2 != (int)exp2) {
    vf_violation(LBL(T, r->name, ftr, "position"), kase, "reader returned %d after the second value; start %d + %zu characters written = %zu", (int)p2, start, exp2 - start, exp2); return 1;
  }
  if (rf) {
    long want = (long)(b ? exp2 : exp1);
    if (fpos != want) {
      vf_violation(LBL(T, r->name, ftr, "stream-position"), kase, "after reading, the File is at offset %ld; exactly the %ld characters written should have been consumed", fpos, want); return 1;
    }
  }
  return 0;
}

/* ---- enumeration --------------------------------------------------------------------- */

static int sinks[NSK], nsinks;
static int pairsep_cap = 6;
static int compatible(int type, const struct spec* w, const struct spec* r, const struct value* v) {
  if (type == T_INT) {
    /* value must be in the range of the narrower of the two conversions */
    int wc = w->cls, rc = r->cls;
    int fam_w = wc % 4, fam_r = rc % 4;           /* 0 decimal, 1 unsigned decimal, 2 hex, 3 octal */
    if (fam_w != fam_r) {
      /* unsigned decimal text of a non-negative value is decimal text too */
      if (!((fam_w == 0 && fam_r == 1) || (fam_w == 1 && fam_r == 0))) return 0;
      if (v->i < 0) return 0;
    }
    if (strchr(w->fmt ? w->fmt : "", '+') && fam_r != 0) return 0;
    int narrow = (wc >= 4) || (rc >= 4);
    if (narrow) {
      int is_signed = (fam_w == 0 && fam_r == 0);
      if (is_signed) { if (v->i < INT32_MIN || v->i > INT32_MAX) return 0; }
      else { if (v->i < 0 || v->i > (int64_t)UINT32_MAX) return 0; }
      /* signed int reader of an unsigned text above INT32_MAX: C leaves that to strtol conversion rules - not judged */
      if (!is_signed && (fam_w == 0 || fam_r == 0) && v->i > INT32_MAX) return 0;
    }
    return 1;
  }
  if (type == T_FLOAT) return 1;
  return w->cls == r->cls;
}

static int is_nontrivial(const struct value* v) {
  if (v->type == T_INT) return v->i < 0 || v->i > INT32_MAX;
  if (v->type == T_FLOAT) { float f = (float)v->f; return (double)f != v->f; }
  return strcmp(feat_str(v->s), "plain") != 0;
}

static void drive(int type) {
  int nv = type == T_INT ? NIV : type == T_FLOAT ? NFV : NSV;
  int np = type == T_INT ? NIPAIR : type == T_FLOAT ? NFPAIR : NSPAIR;
  int do_pairs = (int)vf_param_i("pairs", 1);
  int r_T = -1, r_w = 0, r_r = 0, r_k = 0, r_p = 0, r_i = 0, r_j = 0, r_s = 0;
  if (vf.replay && vf.replay[0] == 'Q') return;          /* a repeated-argument case: see drive_repeat */
  if (vf.replay) {
    char tc = 0;
    if (sscanf(vf.replay, " %c w=%d r=%d k=%d p=%d i=%d j=%d s=%d", &tc, &r_w, &r_r, &r_k, &r_p, &r_i, &r_j, &r_s) != 8) { fprintf(stderr, "replay: cannot parse case '%s'\n", vf.replay); _exit(2); }
    r_T = tc == 'I' ? T_INT : tc == 'F' ? T_FLOAT : T_STR;
    if (r_T != type) return;
  }
  static char phase[64]; snprintf(phase, sizeof phase, "%s", tname[type]); vf.phase = phase;
  for (int pass = 0; pass < (do_pairs ? 2 : 1); pass++) {           /* singles first, then pairs */
    int ni = pass == 0 ? nv : np, nj = pass == 0 ? 1 : np, nsep = pass == 0 ? 1 : NSEP;
    for (int i = 0; i < ni; i++) for (int j = 0; j < nj; j++) {
      int vi = pass == 0 ? i : (type == T_INT ? IPAIR[i] : type == T_FLOAT ? FPAIR[i] : i);
      int vj = pass == 0 ? -1 : (type == T_INT ? IPAIR[j] : type == T_FLOAT ? FPAIR[j] : j);
      struct value a = { type, 0, 0, NULL }, b = { type, 0, 0, NULL };
      if (type == T_INT) { a.i = IV[vi]; if (vj >= 0) b.i = IV[vj]; }
      else if (type == T_FLOAT) { a.f = FV[vi]; if (vj >= 0) b.f = FV[vj]; }
      else { a.s = SV[vi]; if (vj >= 0) b.s = SV[vj]; }
      int nt = is_nontrivial(&a) || (vj >= 0 && is_nontrivial(&b));
      for (int wi = 0; wi < NWR[type]; wi++) for (int ri = 0; ri < NRD[type]; ri++) {
        const struct spec* w = &WR[type][wi]; const struct spec* r = &RD[type][ri];
        if (!compatible(type, w, r, &a)) continue;
        snprintf(phase, sizeof phase, "%s/%s", tname[type], r->name);    /* prefix of the label of a crash */
        if (vj >= 0 && !compatible(type, w, r, &b)) continue;
        if (type == T_STR && r->cls == 1 && vj >= 0) {
          /* raw %s pairs only for non-empty strings without white space (otherwise not reversible by design of C's %s) */
          if (!*a.s || !*b.s || strpbrk(a.s, " \n\t") || strpbrk(b.s, " \n\t")) continue;
        }
        int raw_pair = (type == T_STR && r->cls == 1 && vj >= 0);
        for (int si = 0; si < nsep; si++) for (int ki = 0; ki < nsinks; ki++) for (int start = 0; start <= 2; start += 2) {
          int sk = sinks[ki];
          if (raw_pair && si != 1) continue;        /* %s stops only at white space: "a,b" or "a, b" give the token "a,b" / "a," - C semantics, nothing to round-trip */
          if (si >= NSEP_WS && pass == 1 && (i >= pairsep_cap || j >= pairsep_cap)) continue;   /* white-space-free separators: pairs from the first values of the pair grid */
          if (sep_framed(si) && (!w->fmt || !r->fmt)) continue;   /* literals before/after need one print_to / scan_from call */
          if (sep_pct(si) && !PCT_STRICT && sk == SK_STR && !SEPS[si].string_ok) continue;   /* see PCT_STRICT */
          if (vf.replay && !(wi == r_w && ri == r_r && sk == r_k && start == r_p && vi == r_i && vj == r_j && si == r_s)) continue;
          snprintf(caseid, sizeof caseid, "%c w=%d r=%d k=%d p=%d i=%d j=%d s=%d", tchar[type], wi, ri, sk, start, vi, vj, si);
          vf_set_cur("%s", caseid);
          if (vf.replay) { printf("replaying %s\n", mkcase(&a, vj >= 0 ? &b : NULL, w, r, sk, start, si)); verbose = 1; }
          vf_watchdog(30);
          run_case(&a, vj >= 0 ? &b : NULL, w, r, sk, start, si);
          vf.evaluations++; vf.executions++;
          if (nt) vf.nontrivial++;
          if (vf_want_sample()) vf_sample("%s", mkcase(&a, vj >= 0 ? &b : NULL, w, r, sk, start, si));
        }
      }
      if ((i & 63) == 0 && vf_deadline_hit()) { vf_note("deadline hit in %s pass %d at value %d", tname[type], pass, i); return; }
    }
  }
  vf_watchdog(0);
}


/* ---- argument lists that repeat an object ----------------------------------------------
** One print_to call whose argument list contains the SAME object more than once, with
** something after the repetition: (x,x), (x,x,y), (x,y,x), (x,y,y,z), joined by a separator,
** into a String and a File; read back with one scan_from call into pairwise distinct
** destination objects.  Pattern 4 writes three distinct objects (x,y,z) and reads them with
** the same DESTINATION object twice, (d,d,e): the later value must win in d and e must
** still be filled.  Every slot must come back as the value that was printed there.
** Case id: "Q<T> w r k p i j s q" (q = pattern).
*/

#define NPAT 5
static const int pat_n[NPAT]      = { 2, 3, 3, 4, 3 };
static const int pat_obj[NPAT][4] = { {0,0,0,0}, {0,0,1,0}, {0,1,0,0}, {0,1,1,2}, {0,1,2,0} };   /* slot -> written object */
static const int pat_dst[NPAT][4] = { {0,1,0,0}, {0,1,2,0}, {0,1,2,0}, {0,1,2,3}, {0,0,1,0} };   /* slot -> destination object */
static const char* pat_name[NPAT] = { "(x,x)", "(x,x,y)", "(x,y,x)", "(x,y,y,z)", "(x,y,z) read into (d,d,e)" };

static char rtext[3][TEXTCAP / 4];

static int run_repeat(int type, const struct value* vals, const struct spec* w, const struct spec* r, int sk, int start, int sepi, int q) {
  const char* T = tname[type];
  var fo = $(File, NULL);
  var oi[3] = { $I(0), $I(0), $I(0) }; var of[3] = { $F(0.0), $F(0.0), $F(0.0) }; var os[3] = { $S(""), $S(""), $S("") };
  var di[4] = { $I(0), $I(0), $I(0), $I(0) }; var df[4] = { $F(0.0), $F(0.0), $F(0.0), $F(0.0) };
  var obj[3], dst[4];
  int n = pat_n[q];
  const char* sep = SEPS[sepi].sep;
  const char* filler = start ? "##" : "";
  char label_feat[48]; snprintf(label_feat, sizeof label_feat, "repeated-argument%s", q == 4 ? "-destination" : "");
  char kase[700];
  {
    char d[3][120];
    for (int k = 0; k < 3; k++) {
      if (type == T_INT) snprintf(d[k], 120, "%" PRId64, vals[k].i);
      else if (type == T_FLOAT) snprintf(d[k], 120, "%.17g", vals[k].f);
      else { char pp[100]; pretty(pp, sizeof pp, vals[k].s); snprintf(d[k], 120, "\"%s\"", pp); }
    }
    char sp[48]; { char raw_[32]; snprintf(raw_, sizeof raw_, "%s<1>%s<2>%s", SEPS[sepi].pre, sep, SEPS[sepi].post); pretty(sp, sizeof sp, raw_); }
    snprintf(kase, sizeof kase, "%s | %s -> %s via %s at position %d, argument list %s joined by \"%s\": x=%s y=%s z=%s", caseid, w->name, r->name, skname[sk], start, pat_name[q], sp, d[0], d[1], d[2]);
  }
  if (vf.replay) printf("replaying %s\n", kase);
  for (int k = 0; k < 3; k++) obj[k] = mkval(&vals[k], oi[k], of[k], os[k]);
  volatile int wpos = -1;
  var e;
  /* text of each object written alone */
  for (int k = 0; k < 3; k++) {
    assign(TXT, $S(""));
    e = VF_CATCH(wpos = print_to(TXT, 0, w->fmt, obj[k]));
    if (e) { vf_violation(LBL(T, w->name, label_feat, "write-raises"), kase, "writing raised %s", vf_exc_name(e)); return 1; }
    snprintf(rtext[k], sizeof rtext[k], "%s", c_str(TXT));
  }
  size_t o = (size_t)snprintf(expect_text, sizeof expect_text, "%s%s", filler, SEPS[sepi].pre);
  char fmtw[128] = "", fmtr[128] = "";
  snprintf(fmtw, sizeof fmtw, "%s", SEPS[sepi].pre); snprintf(fmtr, sizeof fmtr, "%s", SEPS[sepi].pre);
  for (int k = 0; k < n; k++) {
    o += (size_t)snprintf(expect_text + o, sizeof expect_text - o, "%s%s", k ? sep : "", rtext[pat_obj[q][k]]);
    snprintf(fmtw + strlen(fmtw), sizeof fmtw - strlen(fmtw), "%s%s", k ? sep : "", w->fmt);
    snprintf(fmtr + strlen(fmtr), sizeof fmtr - strlen(fmtr), "%s%s", k ? sep : "", r->fmt);
  }
  snprintf(expect_text + o, sizeof expect_text - o, "%s", SEPS[sepi].post);
  snprintf(fmtw + strlen(fmtw), sizeof fmtw - strlen(fmtw), "%s", SEPS[sepi].post);
  snprintf(fmtr + strlen(fmtr), sizeof fmtr - strlen(fmtr), "%s", SEPS[sepi].post);
  size_t total = strlen(expect_text);

  FILE* wf = NULL; char* membuf = NULL; size_t memlen = 0; var out;
  if (sk == SK_STR) { assign(OUT, $S((char*)filler)); out = OUT; }
  else {
    if (sk == SK_TMP) { rewind(tmpf); if (ftruncate(fileno(tmpf), 0) != 0) { perror("ftruncate"); _exit(2); } wf = tmpf; }
    else { wf = open_memstream(&membuf, &memlen); if (!wf) { perror("open_memstream"); _exit(2); } }
    fputs(filler, wf);
    ((struct File*)fo)->file = wf; out = fo;
  }
  var a0 = obj[pat_obj[q][0]], a1 = obj[pat_obj[q][1]], a2 = obj[pat_obj[q][2]], a3 = obj[pat_obj[q][3]];
  if (n == 2) e = VF_CATCH(wpos = print_to(out, start, fmtw, a0, a1));
  else if (n == 3) e = VF_CATCH(wpos = print_to(out, start, fmtw, a0, a1, a2));
  else e = VF_CATCH(wpos = print_to(out, start, fmtw, a0, a1, a2, a3));
  size_t gotlen = 0;
  if (sk == SK_STR) { snprintf(got_text, sizeof got_text, "%s", c_str(OUT)); gotlen = strlen(c_str(OUT)); }
  else if (sk == SK_TMP) {
    fflush(tmpf); long nn = ftell(tmpf); if (nn < 0 || nn >= TEXTCAP) nn = nn < 0 ? 0 : TEXTCAP - 1;
    ssize_t g = pread(fileno(tmpf), got_text, (size_t)nn, 0); if (g < 0) g = 0; got_text[g] = 0; gotlen = (size_t)g;
  } else {
    fflush(wf); gotlen = memlen < TEXTCAP - 1 ? memlen : TEXTCAP - 1; memcpy(got_text, membuf, gotlen); got_text[gotlen] = 0;
    fclose(wf); free(membuf); wf = NULL;
  }
  if (e) { vf_violation(LBL(T, w->name, label_feat, "write-raises"), kase, "print_to(out, %d, \"%s\", ...) raised %s", start, fmtw, vf_exc_name(e)); return 1; }
  if (verbose) { char pp[600]; pretty(pp, sizeof pp, got_text); printf("  written to %s: \"%s\" (writer returned %d)\n", skname[sk], pp, (int)wpos); }
  if (gotlen != total || memcmp(got_text, expect_text, total) != 0) {
    char p1[400], p2[400]; pretty(p1, sizeof p1, got_text); pretty(p2, sizeof p2, expect_text);
    vf_violation(LBL(T, w->name, label_feat, "text"), kase, "%s holds \"%s\"; the arguments shown one by one and joined give \"%s\"", skname[sk], p1, p2);
    return 1;
  }
  if (wpos != (int)total) { vf_violation(LBL(T, w->name, label_feat, "write-returned-position"), kase, "writer returned %d, %zu characters are in the sink", (int)wpos, total); return 1; }

  /* read back */
  FILE* rf = NULL; var src;
  if (sk == SK_STR) src = OUT;
  else {
    if (sk == SK_TMP) rf = tmpf;
    else { rf = fmemopen(got_text, total, "r"); if (!rf) { perror("fmemopen"); _exit(2); } }
    fseek(rf, start, SEEK_SET);
    ((struct File*)fo)->file = rf; src = fo;
  }
  for (int k = 0; k < 4; k++) {
    ((struct Int*)di[k])->val = -7777777; ((struct Float*)df[k])->val = -7777777.25;
    if (type == T_INT) dst[k] = di[k]; else if (type == T_FLOAT) dst[k] = df[k];
    else { dst[k] = DST[k]; assign(dst[k], $S("@@")); if (r->cls == 1) resize(dst[k], 700); }
  }
  var d0 = dst[pat_dst[q][0]], d1 = dst[pat_dst[q][1]], d2 = dst[pat_dst[q][2]], d3 = dst[pat_dst[q][3]];
  volatile int rpos = -1;
  if (n == 2) e = VF_CATCH(rpos = scan_from(src, start, fmtr, d0, d1));
  else if (n == 3) e = VF_CATCH(rpos = scan_from(src, start, fmtr, d0, d1, d2));
  else e = VF_CATCH(rpos = scan_from(src, start, fmtr, d0, d1, d2, d3));
  long fpos = rf ? ftell(rf) : -1;
  if (rf && sk == SK_MEM) fclose(rf);
  if (e) { char sym[64]; snprintf(sym, sizeof sym, "raises-%s", vf_exc_name(e)); vf_violation(LBL(T, r->name, label_feat, sym), kase, "scan_from(in, %d, \"%s\", ...) raised %s", start, fmtr, vf_exc_name(e)); return 1; }
  /* each destination holds the value of the LAST slot read into it */
  for (int d = 0; d < 4; d++) {
    int last = -1;
    for (int k = 0; k < n; k++) if (pat_dst[q][k] == d) last = k;
    if (last < 0) continue;
    const struct value* v = &vals[pat_obj[q][last]];
    char which[48]; snprintf(which, sizeof which, "argument %d of %d", last + 1, n);
    /* judge_value labels by the value's own feature; here the feature is the shape of the argument list */
    if (type == T_INT && c_int(dst[d]) != v->i) { vf_violation(LBL(T, r->name, label_feat, "value"), kase, "%s: printed %" PRId64 ", read back %" PRId64, which, v->i, c_int(dst[d])); return 1; }
    if (type == T_FLOAT) {
      double got = c_float(dst[d]); const char* txt = rtext[pat_obj[q][last]];
      double want = r->cls == 1 ? (double)strtof(txt, NULL) : strtod(txt, NULL);
      if (memcmp(&got, &want, sizeof got) != 0) { vf_violation(LBL(T, r->name, label_feat, "value"), kase, "%s: printed \"%s\", read back %.17g", which, txt, got); return 1; }
    }
    if (type == T_STR && strcmp(c_str(dst[d]), v->s) != 0) {
      char p1[120], p2[120]; pretty(p1, sizeof p1, v->s); pretty(p2, sizeof p2, c_str(dst[d]));
      vf_violation(LBL(T, r->name, label_feat, "value"), kase, "%s: printed \"%s\", read back \"%s\"", which, p1, p2); return 1;
    }
  }
  if (verbose) printf("  read back all %d arguments; positions %d, stream %ld\n", n, (int)rpos, fpos);
  if (rpos != (int)total) { vf_violation(LBL(T, r->name, label_feat, "position"), kase, "reader returned %d; start %d + %zu characters written = %zu", (int)rpos, start, total - start, total); return 1; }
  if (rf && fpos != (long)total) { vf_violation(LBL(T, r->name, label_feat, "stream-position"), kase, "after reading the File is at offset %ld, %zu characters were written", fpos, total); return 1; }
  return 0;
}

static void drive_repeat(int type) {
  if (!vf_param_i("repeat", 1)) return;
  int np = type == T_INT ? NIPAIR : type == T_FLOAT ? NFPAIR : NSPAIR;
  int cap = (int)vf_param_i("repeatvals", type == T_STR ? 15 : 6);
  if (np > cap) np = cap;
  if (np < 3) return;
  int r_T = -1, r_w = 0, r_r = 0, r_k = 0, r_p = 0, r_i = 0, r_j = 0, r_s = 0, r_q = 0;
  if (vf.replay) {
    char tc = 0;
    if (vf.replay[0] != 'Q') return;
    if (sscanf(vf.replay, "Q%c w=%d r=%d k=%d p=%d i=%d j=%d s=%d q=%d", &tc, &r_w, &r_r, &r_k, &r_p, &r_i, &r_j, &r_s, &r_q) != 9) { fprintf(stderr, "replay: cannot parse case '%s'\n", vf.replay); _exit(2); }
    r_T = tc == 'I' ? T_INT : tc == 'F' ? T_FLOAT : T_STR;
    if (r_T != type) return;
    verbose = 1;
  }
  static char phase[64];
  for (int i = 0; i < np; i++) for (int j = 0; j < np; j++) {
    if (i == j) continue;
    int k = (j + 1) % np; while (k == i || k == j) k = (k + 1) % np;
    int idx[3] = { i, j, k };
    struct value vals[3];
    for (int t = 0; t < 3; t++) {
      vals[t].type = type; vals[t].i = 0; vals[t].f = 0; vals[t].s = NULL;
      if (type == T_INT) vals[t].i = IV[IPAIR[idx[t]]];
      else if (type == T_FLOAT) vals[t].f = FV[FPAIR[idx[t]]];
      else vals[t].s = SV[idx[t]];
    }
    for (int wi = 0; wi < NWR[type]; wi++) for (int ri = 0; ri < NRD[type]; ri++) {
      const struct spec* w = &WR[type][wi]; const struct spec* r = &RD[type][ri];
      if (!w->fmt || !r->fmt) continue;                 /* one print_to / scan_from call carries the whole argument list */
      int ok = 1;
      for (int t = 0; t < 3; t++) if (!compatible(type, w, r, &vals[t])) ok = 0;
      if (!ok) continue;
      int raw = (type == T_STR && r->cls == 1);
      if (raw) for (int t = 0; t < 3; t++) if (!*vals[t].s || strpbrk(vals[t].s, " \n\t")) ok = 0;
      if (!ok) continue;
      snprintf(phase, sizeof phase, "%s/%s", tname[type], r->name); vf.phase = phase;
      for (int q = 0; q < NPAT; q++) for (int si = 0; si < NSEP; si++) for (int ki = 0; ki < nsinks; ki++) for (int start = 0; start <= 2; start += 2) {
        int sk = sinks[ki];
        if (raw && si != 1) continue;
        if (!(si < NSEP_WS || si == 2 || si == 7)) continue;      /* repeated-argument lists: ", " " " "," and the framed "a=..;b=..;" */
        if (vf.replay && !(wi == r_w && ri == r_r && sk == r_k && start == r_p && i == r_i && j == r_j && si == r_s && q == r_q)) continue;
        snprintf(caseid, sizeof caseid, "Q%c w=%d r=%d k=%d p=%d i=%d j=%d s=%d q=%d", tchar[type], wi, ri, sk, start, i, j, si, q);
        vf_set_cur("%s", caseid);
        vf_watchdog(30);
        run_repeat(type, vals, w, r, sk, start, si, q);
        vf.evaluations++; vf.executions++; vf.nontrivial++;
        n_repeat_cases++;
        if (vf_want_sample()) vf_sample("%s | %s -> %s, argument list %s", caseid, w->name, r->name, pat_name[q]);
      }
    }
  }
  vf_watchdog(0);
}

int main(int argc, char** argv) {
  vf_init(argc, argv);
  NWR[0] = NEL(IW); NWR[1] = NEL(FW); NWR[2] = NEL(SW);
  NRD[0] = NEL(IR); NRD[1] = NEL(FR); NRD[2] = NEL(SR);

  const char* type = vf_param("type", "all");
  const char* sk = vf_param("sinks", "str,tmp,mem");
  int full = vf_param_is("grid", "full", "small");
  if (strstr(sk, "str")) sinks[nsinks++] = SK_STR;
  if (strstr(sk, "tmp")) sinks[nsinks++] = SK_TMP;
  if (strstr(sk, "mem")) sinks[nsinks++] = SK_MEM;

  pairsep_cap = (int)vf_param_i("pairsepvals", 6);
  PCT_STRICT = vf_param_is("pctscan", "strict", "strict")   /* judged completely since fix c20ecda (pctscan=lenient restores the old leniency) */;
  build_ints(full); build_floats(full);
  build_strings((int)vf_param_i("strlen", 3), (int)vf_param_i("pairlen", 1));

  OUT = new_raw(String, $S("")); TXT = new_raw(String, $S(""));
  for (int i = 0; i < 4; i++) DST[i] = new_raw(String, $S(""));
  tmpf = tmpfile();
  if (!tmpf) { perror("tmpfile"); _exit(2); }

  if (!strcmp(type, "int") || !strcmp(type, "all")) { drive(T_INT); drive_repeat(T_INT); }
  if (!strcmp(type, "float") || !strcmp(type, "all")) { drive(T_FLOAT); drive_repeat(T_FLOAT); }
  if (!strcmp(type, "string") || !strcmp(type, "all")) { drive(T_STR); drive_repeat(T_STR); }
  vf_cur_valid = 0;

  vf.states = 0; vf.transitions = 0;
  vf_extra("repeated_argument_cases", "%" PRIu64, n_repeat_cases);
  vf_extra("grid", "\"%d Int values (%d in pairs), %d Float values (%d in pairs), %d strings (%d in pairs); %d/%d/%d writers and %d/%d/%d readers; sinks %s; start positions 0 and 2; separators: 2 with white space, 5 without, 2 with literals before and after\"",
    NIV, NIPAIR, NFV, NFPAIR, NSV, NSPAIR, NWR[0], NWR[1], NWR[2], NRD[0], NRD[1], NRD[2], sk);
  vf_finish();
  return 0;
}
