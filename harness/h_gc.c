/*
** h_gc.c - explicit-state exploration of one thread's collector (C17 registry, C06
** finalisation/teardown).  White-box: includes the library's own GC.c.
**
** Every execution gets a fresh collector (new_raw(GC, bottom) exactly as
** Thread_Init_Run does for a new thread) and ends with its teardown (del_raw(gc)),
** so teardown is part of every execution.
**
** Objects are `Cell`s whose type has its own Alloc instance handing out blocks at
** harness-chosen arena addresses, so that registry home slots collide modulo 5, 11 and
** 23 (and wrap around the last slot) by construction.
**
** Parameters: prop=C17|C06  naddr=N  depth=N  mode=bfs|ladder
*/

#include "GC.c"
#include "vf_bfs.h"

#ifdef VF_ASAN
void __asan_poison_memory_region(void const volatile* addr, size_t size);
void __asan_unpoison_memory_region(void const volatile* addr, size_t size);
#define POISON(p, n) __asan_poison_memory_region((p), (n))
#define UNPOISON(p, n) __asan_unpoison_memory_region((p), (n))
#else
#define POISON(p, n) ((void)0)
#define UNPOISON(p, n) ((void)0)
#endif

struct Cell { var child; int64_t id; int64_t owner; uint64_t canary; var child2; int64_t owner2; };
#define CANARY 0xC0FFEE11C0FFEE11ULL

#define MAXA 10
#define NSPARE 96
#define MODW 1265                     /* 5*11*23: words */
static char* arena_base;              /* (arena_base >> 3) % MODW == 0 */
static int A;                         /* universe size */
static int propC06;
/* home slot 0 for every registry size, interleaved with home = last slot: the third address already wraps around */
static const int residueA[MAXA] = { 0, 0, 1264, 0, 1264, 0, 0, 1264, 0, 1264 };
/* second layout (residues=B): two addresses whose home is the second-to-last slot, then one in the last slot - a cluster that
** starts before the end of the table and wraps around it */
static const int residueB[MAXA] = { 1263, 1263, 1264, 0, 1264, 1263, 0, 1264, 0, 1263 };
static const int* residue = residueA;

enum { K_NONE = 0, K_STD, K_ROOT, K_RAW, K_UNREG /* allocated while the collector was stopped */ };

/* shadow ledger, indexed by slot (universe 0..A-1, spares MAXA..MAXA+NSPARE-1) */
#define NSLOT (MAXA + NSPARE)
static struct slot {
  int kind;            /* what the harness allocated there (K_NONE = free) */
  int constructed;     /* constructor ran for the current incarnation */
  int fin, dealloc;    /* destructor / dealloc calls seen for the current incarnation */
  int deleted;         /* del/del_root/del_raw called (by the harness or by an owner's destructor) */
  int child;           /* slot index or -1 */
  int owner;           /* destructor deletes the child */
  int leaf;            /* leafy=1: an object of the destructor-less type Leaf */
} S[NSLOT];
static int alloc_at = -1;             /* slot the next Cell_Alloc must use */
static char ledger_err[256];
static int stopped;
static struct GC* gc;
static int collections;               /* observed through mitems recomputation: counted by wrapper below */
static const char* lastkind = "init";
static int exec_bad;                  /* a violation was recorded in this execution: do not judge its aftermath */
static int owner_del_ignored;         /* an owner's destructor deleted its child and nothing happened */

static void lfail(const char* fmt, ...) {
  if (ledger_err[0]) return;
  va_list ap; va_start(ap, fmt); vsnprintf(ledger_err, sizeof ledger_err, fmt, ap); va_end(ap);
}

static var P(int s) {
  long i = s < MAXA ? 2 * s : 20 + (s - MAXA);   /* every other stride: a residue -1 object must not touch its neighbour */
  long r = s < MAXA ? residue[s] : 3 + 7 * (s - MAXA);
  return arena_base + 8 * (r + (long)MODW * i);
}

static int slot_of(var p) {
  long off = (char*)p - arena_base;
  if (off < 0 || (off & 7)) return -1;
  long w = off >> 3, i = w / MODW, r = w % MODW;
  if (i < 2 * MAXA) return (i % 2 == 0 && residue[i / 2] == r) ? (int)(i / 2) : -1;
  long k = i - 20;
  if (k < 0 || k >= NSPARE) return -1;
  return r == 3 + 7 * k ? (int)(MAXA + k) : -1;
}

static char labelbuf[160];
static const char* L(const char* oracle) {
  snprintf(labelbuf, sizeof labelbuf, "gc/%s/%s", lastkind, oracle);
  return labelbuf;
}

/* ---- the Cell type -------------------------------------------------------------- */

extern var Cell;

static var Cell_Alloc(void) {
  if (alloc_at < 0) { lfail("alloc called with no address chosen"); alloc_at = MAXA + NSPARE - 1; }
  char* obj = P(alloc_at);
  struct Header* head = (struct Header*)(obj - sizeof(struct Header));
  UNPOISON(head, sizeof(struct Header) + sizeof(struct Cell));
  memset(head, 0, sizeof(struct Header) + sizeof(struct Cell));
  return header_init(head, Cell, AllocHeap);
}

static void Cell_Dealloc(var self) {
  int s = slot_of(self);
  if (s < 0) { lfail("dealloc of a pointer that is not an arena object"); return; }
  S[s].dealloc++;
  if (S[s].dealloc > 1) lfail("memory of object #%d released twice", s);
  if (S[s].constructed && S[s].fin == 0) lfail("memory of object #%d released without being finalised", s);
  POISON((char*)self - sizeof(struct Header), sizeof(struct Header) + sizeof(struct Cell));
}

static void Cell_New(var self, var args) {
  struct Cell* c = self;
  int s = slot_of(self);
  c->id = s; c->child = NULL; c->owner = 0; c->canary = CANARY; c->child2 = NULL; c->owner2 = 0;
  if (s >= 0) S[s].constructed = 1;
}

/* temps=K: the destructor of every object allocates K collector-managed temporaries and deletes them again before it returns
** (a destructor that logs, formats, unregisters ...).  The temporaries live in the top NTEMP spare slots, handed out as a
** stack because destructors nest (an owner deleting what it owns). */
#define NTEMP 16
static int dtor_temps, temp_sp;
static void dtor_temporaries(int s) {
  if (!dtor_temps || stopped || s >= NSLOT - NTEMP || !gc) return;
  int mine[4], n = 0, saved = alloc_at;
  for (int k = 0; k < dtor_temps && temp_sp < NTEMP; k++) {
    int t = NSLOT - 1 - temp_sp++;
    memset(&S[t], 0, sizeof S[t]); S[t].kind = K_STD; S[t].child = -1;
    alloc_at = t;
    new(Cell);
    mine[n++] = t;
  }
  alloc_at = saved;
  while (n > 0) {
    int t = mine[--n];
    if (S[t].fin == 0) { S[t].deleted = 1; del(P(t)); }
    if (S[t].fin != 1 || S[t].dealloc != 1) lfail("temporary made inside the destructor of #%d was finalised %d and released %d times when it was deleted", s, S[t].fin, S[t].dealloc);
    memset(&S[t], 0, sizeof S[t]); S[t].child = -1;
    temp_sp--;
  }
}

/* reuse=1: the first destructor of an execution that finds an arena address released earlier (by the sweep it runs in, or by
** an explicit delete) allocates a new ROOT object there and keeps it - as a destructor that registers something would when
** the allocator hands a just-freed block back.  The new root must stay untouched until the program deletes it. */
static int dtor_reuse, reuse_done, reuse_slot = -1;
static void dtor_reuse_alloc(int self_slot) {
  if (!dtor_reuse || reuse_done || stopped || !gc) return;
  if (strcmp(lastkind, "teardown") == 0) return;   /* a root made while the collector is being torn down could never be deleted */
  for (int s = 0; s < A; s++) {
    if (s == self_slot || S[s].kind == K_NONE || S[s].dealloc < 1 || S[s].fin < 1) continue;
    /* slot s was finalised and released: take its address for a new root */
    int saved = alloc_at;
    memset(&S[s], 0, sizeof S[s]); S[s].kind = K_ROOT; S[s].child = -1;
    alloc_at = s; reuse_done = 1; reuse_slot = s;
    new_root(Cell);
    alloc_at = saved;
    return;
  }
}

/* keep=1: the first destructor that runs while some root object has a free child slot allocates a new managed object at the
** highest arena address, hangs it under that root and keeps it (a destructor that appends a record to a rooted journal).
** The record is reachable from the root from then on. */
static int dtor_keep, keep_done;
static void dtor_keep_alloc(int self_slot) {
  if (!dtor_keep || keep_done || stopped || !gc || strcmp(lastkind, "teardown") == 0) return;
  int t = NSLOT - NTEMP - 1;
  if (S[t].kind != K_NONE) return;
  for (int r = 0; r < A; r++) {
    if (r == self_slot || S[r].kind != K_ROOT || !S[r].constructed || S[r].deleted || S[r].fin || S[r].child >= 0) continue;   /* (a root still inside its own new_root is not constructed yet: its constructor would wipe the link) */
    int saved = alloc_at;
    memset(&S[t], 0, sizeof S[t]); S[t].kind = K_STD; S[t].child = -1;
    alloc_at = t; keep_done = 1;
    var rec = new(Cell);
    alloc_at = saved;
    ((struct Cell*)P(r))->child = rec; S[r].child = t;      /* a plain link: the root refers to the record */
    return;
  }
}

/* dtortry=1: every destructor raises and handles an exception of its own (a destructor that closes something, logs through a
** call that can fail, ...): the handler must run wherever the destructor is run from - an explicit delete, a collection, the
** teardown of a worker thread's or the main thread's collector */
static int dtor_try;
static void dtor_trycatch(int s) {
  if (!dtor_try) return;
  volatile int handled = 0;
  try { throw(ValueError, "raised inside the destructor of #%i", $I(s)); } catch (e in ValueError) { handled = 1; }
  if (!handled) lfail("a try / throw / catch inside the destructor of #%d did not reach its handler", s);
}

static void Cell_Del(var self) {
  struct Cell* c = self;
  int s = slot_of(self);
  if (s < 0) { lfail("destructor on a pointer that is not an arena object"); return; }
  if (s == reuse_slot && S[s].kind == K_ROOT && !S[s].deleted) lfail("the root object a destructor allocated at the address of an object released earlier (#%d) was finalised although nobody deleted it", s);
  S[s].fin++;
  if (S[s].fin > 1) { lfail("object #%d finalised twice", s); return; }
  if (S[s].kind == K_NONE) { lfail("destructor on free slot #%d", s); return; }
  if (c->canary != CANARY) lfail("object #%d corrupted before finalisation", s);
  dtor_trycatch(s);
  dtor_temporaries(s);
  dtor_reuse_alloc(s);
  dtor_keep_alloc(s);
  if (c->owner && c->child) {
    int cs = slot_of(c->child);
    /* the owner means the object it was linked to - not a new object a destructor has meanwhile put at that address */
    if (cs >= 0 && !(cs == reuse_slot && reuse_done)) S[cs].deleted = 1;
    del(c->child);
    if (cs >= 0 && stopped && S[cs].fin == 0) owner_del_ignored = 1;
  }
  if (c->owner2 && c->child2) {
    int cs = slot_of(c->child2);
    if (cs >= 0 && !(cs == reuse_slot && reuse_done)) S[cs].deleted = 1;
    del(c->child2);
  }
}

var Cell = Cello(Cell,
  Instance(Alloc, Cell_Alloc, Cell_Dealloc),
  Instance(New,   Cell_New, Cell_Del));

/* leafy=1: Leaf, a type of the same layout that has NO constructor and NO destructor (an Int, a Ref, a plain struct): there is
** nothing to run when it is finalised, so the ledger counts its finalisation at the moment its memory is released.  A Leaf can
** be linked to and owned (a Box of an Int), and link to others (a plain struct is scanned conservatively); it owns nothing. */
struct Leaf { var child; int64_t id; int64_t owner; uint64_t canary; var child2; int64_t owner2; };
extern var Leaf;
static int leafy, want_leaf;
static var Leaf_Alloc(void) {
  if (alloc_at < 0) { lfail("alloc called with no address chosen"); alloc_at = MAXA + NSPARE - 1; }
  char* obj = P(alloc_at);
  struct Header* head = (struct Header*)(obj - sizeof(struct Header));
  UNPOISON(head, sizeof(struct Header) + sizeof(struct Cell));
  memset(head, 0, sizeof(struct Header) + sizeof(struct Cell));
  struct Cell* c = (struct Cell*)obj;
  c->id = alloc_at; c->canary = CANARY;
  S[alloc_at].constructed = 1;
  return header_init(head, Leaf, AllocHeap);
}
static void Leaf_Dealloc(var self) {
  int s = slot_of(self);
  if (s < 0) { lfail("dealloc of a pointer that is not an arena object"); return; }
  if (s == reuse_slot && S[s].kind == K_ROOT) { lfail("dealloc of a Leaf at the address where a destructor has put a new root object (#%d)", s); return; }
  S[s].fin++;
  S[s].dealloc++;
  if (S[s].dealloc > 1) lfail("memory of object #%d released twice", s);
  POISON((char*)self - sizeof(struct Header), sizeof(struct Header) + sizeof(struct Cell));
}
var Leaf = Cello(Leaf, Instance(Alloc, Leaf_Alloc, Leaf_Dealloc));

/* ---- fresh collector per execution ---------------------------------------------- */

static var* stack_bottom;   /* address of a local in main: the collector's stack bottom */

static void reset(void) {
  temp_sp = 0; reuse_done = 0; reuse_slot = -1; keep_done = 0;
  memset(S, 0, sizeof S);
  for (int s = 0; s < NSLOT; s++) S[s].child = -1;
  ledger_err[0] = 0; stopped = 0; alloc_at = -1; exec_bad = 0; owner_del_ignored = 0;
  gc = new_raw(GC, $R(stack_bottom));
  lastkind = "init";
}

/* the harness forgets slots whose incarnation is completely gone */
static void sync_slots(void) {
  for (int s = 0; s < NSLOT; s++) {
    if (S[s].kind != K_NONE && S[s].fin >= 1 && S[s].dealloc >= 1) {
      for (int p = 0; p < NSLOT; p++) if (S[p].child == s) { S[p].child = -1; S[p].owner = 0; }
      memset(&S[s], 0, sizeof S[s]); S[s].child = -1;
    }
  }
}

static int reachable[NSLOT];
static void compute_reachable(int extra) {
  memset(reachable, 0, sizeof reachable);
  int changed = 1;
  for (int s = 0; s < NSLOT; s++) if (S[s].kind == K_ROOT && !S[s].deleted && S[s].fin == 0) reachable[s] = 1;
  if (extra >= 0) reachable[extra] = 1;
  while (changed) {
    changed = 0;
    for (int s = 0; s < NSLOT; s++) {
      if (!reachable[s] || S[s].child < 0) continue;
      /* the collector only follows objects it has registered: a raw or stop-window object is opaque to it */
      if (S[s].kind != K_STD && S[s].kind != K_ROOT) continue;
      int c = S[s].child;
      if (S[c].deleted || S[c].fin) continue;
      if (!reachable[c]) { reachable[c] = 1; changed = 1; }
    }
  }
}

/* after an operation during which collections may have run: nothing reachable may be gone */
static int check_reclaimed(int extra, int* snapshot_reach) {
  for (int s = 0; s < NSLOT; s++) {
    if (S[s].kind == K_NONE) continue;
    if (S[s].fin > 0 && !S[s].deleted) {
      /* reclaimed by a collection */
      if (snapshot_reach[s] && (S[s].kind == K_STD || S[s].kind == K_ROOT)) {
        vf_violation(L("reachable-object-reclaimed"), NULL, "object #%d (%s) was reachable from a root-registered object but a collection finalised it", s, S[s].kind == K_ROOT ? "root" : "managed");
        return 1;
      }
      if (S[s].kind == K_ROOT) { vf_violation(L("root-reclaimed"), NULL, "root object #%d finalised by a collection", s); return 1; }
      if (S[s].kind == K_RAW || S[s].kind == K_UNREG) { vf_violation(L("unregistered-reclaimed"), NULL, "raw/unregistered object #%d finalised by a collection", s); return 1; }
    }
  }
  return 0;
}

/* ---- white-box audit and canonical form ------------------------------------------ */

static int audit(void) {
  size_t occ = 0;
  if (gc->nslots == 0) {
    if (gc->nitems != 0) { vf_violation(L("audit-count"), NULL, "nslots=0 but nitems=%zu", gc->nitems); return 1; }
    return 0;
  }
  for (size_t i = 0; i < gc->nslots; i++) {
    struct GCEntry* e = &gc->entries[i];
    if (e->hash == 0) continue;
    occ++;
    uint64_t home = GC_Hash(e->ptr) % gc->nslots;
    if (e->hash != home + 1) { vf_violation(L("audit-home"), NULL, "entry %zu stores home %" PRIu64 " but its pointer hashes to %" PRIu64, i, e->hash - 1, home); return 1; }
    uint64_t d = GC_Probe(gc, i, e->hash);
    if (d > 0) {
      size_t pi = (i + gc->nslots - 1) % gc->nslots;
      if (gc->entries[pi].hash == 0) { vf_violation(L("audit-gap"), NULL, "entry %zu displaced by %" PRIu64 " behind an empty slot (lookup would miss it)", i, d); return 1; }
      if (GC_Probe(gc, pi, gc->entries[pi].hash) + 1 < d) { vf_violation(L("audit-robinhood"), NULL, "probe distance order broken at entry %zu", i); return 1; }
    }
    int s = slot_of(e->ptr);
    if (s < 0) { vf_violation(L("audit-foreign"), NULL, "entry %zu holds a pointer that is not an arena object", i); return 1; }
    for (size_t j = i + 1; j < gc->nslots; j++) if (gc->entries[j].hash && gc->entries[j].ptr == e->ptr) { vf_violation(L("audit-duplicate"), NULL, "object #%d recorded twice", s); return 1; }
    if (S[s].kind != K_STD && S[s].kind != K_ROOT) { vf_violation(L("audit-stale-entry"), NULL, "entry for slot #%d which holds no managed object", s); return 1; }
    if ((int)e->root != (S[s].kind == K_ROOT)) { vf_violation(L("audit-root-flag"), NULL, "object #%d recorded with root=%d, allocated as %s", s, (int)e->root, S[s].kind == K_ROOT ? "root" : "managed"); return 1; }
    if (e->marked) { vf_violation(L("audit-mark-left"), NULL, "object #%d left marked outside a collection", s); return 1; }
    if ((uintptr_t)e->ptr < gc->minptr || (uintptr_t)e->ptr > gc->maxptr) { vf_violation(L("audit-ptr-range"), NULL, "object #%d outside [minptr,maxptr]: marking would ignore it", s); return 1; }
  }
  if (occ != gc->nitems) { vf_violation(L("audit-count"), NULL, "%zu occupied entries but nitems=%zu", occ, gc->nitems); return 1; }
  if (occ >= gc->nslots) { vf_violation(L("audit-full"), NULL, "registry full (%zu/%zu): probing cannot terminate", occ, gc->nslots); return 1; }
  if (gc->freelist != NULL || gc->freenum != 0) { vf_violation(L("audit-pending-left"), NULL, "pending-finalisation list left behind outside a collection"); return 1; }
  return 0;
}

static size_t canon(char* buf, size_t cap) {
  size_t o = 0;
  o += snprintf(buf + o, cap - o, "n%zu/%zu m%zu%s:", gc->nitems, gc->nslots, gc->mitems, gc->running ? "" : " stopped");
  for (size_t i = 0; i < gc->nslots && o + 32 < cap; i++) {
    struct GCEntry* e = &gc->entries[i];
    if (e->hash == 0) { o += snprintf(buf + o, cap - o, "."); continue; }
    o += snprintf(buf + o, cap - o, "[%d@%" PRIu64 "%s]", slot_of(e->ptr), e->hash - 1, e->root ? "r" : "");
  }
  o += snprintf(buf + o, cap - o, " |");
  for (int s = 0; s < A && o + 32 < cap; s++) {
    static const char kc[] = "-srwu";
    o += snprintf(buf + o, cap - o, " %c%s", kc[S[s].kind], S[s].leaf ? "L" : "");
    if (S[s].child >= 0) o += snprintf(buf + o, cap - o, ">%d%s", S[s].child, S[s].owner ? "!" : "");
  }
  return o;
}

/* the registry oracle: mem(gc, p) exactly for allocated, not deleted, not reclaimed managed objects */
static int check1(void);
static int check(void) { int r = check1(); if (r) exec_bad = 1; return r; }
static int check1(void) {
  if (ledger_err[0]) { vf_violation(L("ledger"), NULL, "%s", ledger_err); ledger_err[0] = 0; return 1; }
  if (audit()) return 1;
  size_t expect_n = 0;
  for (int s = 0; s < NSLOT; s++) {
    if (s >= A && s != A - 1 && S[s].kind == K_NONE && (s < MAXA || ((s - MAXA) & 15) != 0)) continue;  /* unused slots: probe only a few */
    int expect = (S[s].kind == K_STD || S[s].kind == K_ROOT) && !S[s].deleted && S[s].fin == 0;
    expect_n += expect;
    volatile bool got = false;
    var e = VF_CATCH(got = mem(gc, P(s)));
    if (e) { vf_violation(L("mem-raises"), NULL, "mem(gc, #%d) raised %s", s, vf_exc_name(e)); return 1; }
    if ((int)got != expect) {
      vf_violation(L(expect ? "live-object-not-in-registry" : "registry-holds-dead-object"), NULL,
        "mem(gc, #%d)=%d but the object is %s", s, (int)got, expect ? "allocated and neither deleted nor reclaimed" : "not a live managed object");
      return 1;
    }
    if (expect) {
      struct Cell* c = P(s);
      if (c->canary != CANARY || type_of(c) != (S[s].leaf ? Leaf : Cell)) { vf_violation(L("live-object-corrupted"), NULL, "live object #%d corrupted", s); return 1; }
    }
  }
  if (gc->nitems != expect_n) { vf_violation(L("count"), NULL, "registry records %zu objects, %zu are live", gc->nitems, expect_n); return 1; }
  return 0;
}

/* ---- collections ------------------------------------------------------------------ */

static void __attribute__((noinline)) scrub_stack(void) {
  char pad[16384];
  memset(pad, 0, sizeof pad);
  __asm__ volatile("" :: "r"(pad) : "memory");
}

/* forced collection whose stack window holds nothing of ours */
static void __attribute__((noinline)) collect_tight(void) {
  var marker = NULL;
  var saved = gc->bottom;
  scrub_stack();
  gc->bottom = &marker;
  GC_Mark(gc);
  GC_Sweep(gc);
  gc->bottom = saved;
}

/* ---- alphabet --------------------------------------------------------------------- */

enum { OP_COLLECT, OP_FILL, OP_NEWRAW, OP_STOP, OP_START, OP_NMISC };
static int nops_total(void) { return 5 * A + OP_NMISC + (leafy ? A : 0); }

static void opname(int op, char* buf, size_t cap) {
  if (op >= 5 * A + OP_NMISC) snprintf(buf, cap, "new-leaf(#%d)", op - 5 * A - OP_NMISC);
  else if (op < A) snprintf(buf, cap, "new(#%d)", op);
  else if (op < 2 * A) snprintf(buf, cap, "new_root(#%d)", op - A);
  else if (op < 3 * A) snprintf(buf, cap, "del(#%d)", op - 2 * A);
  else if (op < 4 * A) snprintf(buf, cap, "link(#%d->#%d)", op - 3 * A, (op - 3 * A + 1) % A);
  else if (op < 5 * A) snprintf(buf, cap, "own(#%d)", op - 4 * A);
  else {
    static const char* nm[] = { "collect", "fill-to-threshold", "new_raw(last)", "stop(gc)", "start(gc)" };
    snprintf(buf, cap, "%s", nm[op - 5 * A]);
  }
}

static int do_new(int s, int kind) {
  alloc_at = s;
  int snap[NSLOT];
  compute_reachable(-1);
  memcpy(snap, reachable, sizeof snap);
  int k = kind;
  if (stopped && (kind == K_STD || kind == K_ROOT)) k = K_UNREG;
  S[s].kind = k; S[s].child = -1; S[s].owner = 0; S[s].fin = S[s].dealloc = S[s].deleted = S[s].constructed = 0; S[s].leaf = want_leaf;
  var e;
  if (want_leaf) e = VF_CATCH(new(Leaf));
  else if (kind == K_STD) e = VF_CATCH(new(Cell));
  else if (kind == K_ROOT) e = VF_CATCH(new_root(Cell));
  else e = VF_CATCH(new_raw(Cell));
  alloc_at = -1;
  if (e) { vf_violation(L("raises"), NULL, "allocation raised %s", vf_exc_name(e)); return VF_BAD; }
  snap[s] = 1;  /* the new object is on the allocating stack */
  if (check_reclaimed(s, snap)) return VF_BAD;
  if (S[s].fin) { vf_violation(L("fresh-object-reclaimed"), NULL, "the object being allocated (#%d) was finalised by the collection its own allocation triggered", s); return VF_BAD; }
  sync_slots();
  return VF_OK;
}

static int owned_by_someone(int s) {
  for (int p = 0; p < NSLOT; p++) if (S[p].kind != K_NONE && S[p].owner && S[p].child == s) return 1;
  return 0;
}
static int linked_by_someone(int s) {
  for (int p = 0; p < NSLOT; p++) if (S[p].kind != K_NONE && S[p].child == s) return 1;
  return 0;
}

static int do_del(int s) {
  int k = S[s].kind;
  var e;
  S[s].deleted = 1;
  if (k == K_STD || k == K_UNREG) e = VF_CATCH(del(P(s)));
  else if (k == K_ROOT) e = VF_CATCH(del_root(P(s)));
  else e = VF_CATCH(del_raw(P(s)));
  if (e) { vf_violation(L("raises"), NULL, "del raised %s", vf_exc_name(e)); return VF_BAD; }
  if (propC06 && owner_del_ignored) {
    vf_violation(L("explicit-del-did-not-finalise/collector-stopped/by-owner-destructor"), NULL,
      "the destructor of object #%d deleted the object it owns while the collector was stopped: nothing was finalised", s);
    return VF_BAD;
  }
  if (propC06) {
    /* an explicit delete finalises and releases the object exactly once, whether the collector runs or not */
    if (S[s].fin != 1 || S[s].dealloc != 1) {
      char lab[96];
      snprintf(lab, sizeof lab, "explicit-del-did-not-finalise%s%s", stopped ? "/collector-stopped" : "", k == K_UNREG ? "/allocated-while-stopped" : "");
      vf_violation(L(lab), NULL, "del of object #%d (%s) ran the destructor %d times and released the memory %d times (collector %s)",
        s, k == K_STD ? "managed" : k == K_ROOT ? "root" : k == K_RAW ? "raw" : "allocated while stopped", S[s].fin, S[s].dealloc, stopped ? "stopped" : "running");
      return VF_BAD;
    }
  }
  sync_slots();
  return VF_OK;
}

static int apply1(int op);
static int apply(int op) {
  /* conservative scanning sees whatever earlier, deeper calls left on the stack: zero the region
  ** the operation's call chain will occupy so that retention is a function of the history alone */
  scrub_stack();
  int r = apply1(op);
  if (r == VF_BAD) exec_bad = 1;
  return r;
}

static int __attribute__((noinline)) apply1(int op) {
  if (op >= 5 * A + OP_NMISC) {
    int s = op - 5 * A - OP_NMISC;
    if (!leafy || S[s].kind != K_NONE || stopped) return VF_SKIP;
    lastkind = "new-leaf";
    want_leaf = 1;
    int r = do_new(s, K_STD);
    want_leaf = 0;
    return r;
  }
  if (op < 2 * A) {
    int s = op % A, kind = op < A ? K_STD : K_ROOT;
    if (S[s].kind != K_NONE) return VF_SKIP;
    lastkind = stopped ? (kind == K_STD ? "new-while-stopped" : "new_root-while-stopped") : kind == K_STD ? "new" : "new_root";
    return do_new(s, kind);
  }
  if (op < 3 * A) {
    int s = op - 2 * A;
    if (S[s].kind == K_NONE || S[s].deleted || owned_by_someone(s) || linked_by_someone(s)) return VF_SKIP;
    /* deleting an object that owns a child is fine (Box_Del pattern); one that merely links is fine too */
    if (stopped && !propC06) return VF_SKIP;
    lastkind = S[s].kind == K_STD ? (stopped ? "del-while-stopped" : "del") : S[s].kind == K_ROOT ? "del_root" : S[s].kind == K_RAW ? "del_raw" : "del-unregistered";
    if (S[s].owner) lastkind = "del-owner";
    return do_del(s);
  }
  if (op < 4 * A) {
    int s = op - 3 * A, t = (s + 1) % A;
    if (S[s].kind == K_NONE) return VF_SKIP;
    if (S[s].child >= 0) {   /* unlink */
      if (S[s].owner) return VF_SKIP;
      lastkind = "unlink";
      ((struct Cell*)P(s))->child = NULL; S[s].child = -1;
      return VF_OK;
    }
    if (S[t].kind == K_NONE || S[t].deleted || S[s].deleted) return VF_SKIP;
    lastkind = "link";
    ((struct Cell*)P(s))->child = P(t); S[s].child = t;
    return VF_OK;
  }
  if (op < 5 * A) {
    int s = op - 4 * A;
    if (S[s].kind == K_NONE || S[s].child < 0 || S[s].leaf) return VF_SKIP;   /* a Leaf has no destructor that could delete anything */
    int c = S[s].child;
    if (S[s].owner) { lastkind = "disown"; ((struct Cell*)P(s))->owner = 0; S[s].owner = 0; return VF_OK; }
    /* in contract: the owned object is a managed (non-root) object with exactly one owner and no other referrer, and owns nothing that loops back */
    if (S[c].kind != K_STD || c == s) return VF_SKIP;
    int refs = 0; for (int p = 0; p < NSLOT; p++) if (S[p].kind != K_NONE && S[p].child == c) refs++;
    if (refs != 1) return VF_SKIP;
    /* no ownership cycles */
    int x = c, steps = 0; while (x >= 0 && S[x].owner && steps++ < NSLOT) { x = S[x].child; if (x == s) return VF_SKIP; }
    lastkind = "own";
    ((struct Cell*)P(s))->owner = 1; S[s].owner = 1;
    return VF_OK;
  }
  int m = op - 5 * A;
  switch (m) {
  case OP_COLLECT: {
    if (stopped) return VF_SKIP;   /* forced collection while stopped is not an API-level event */
    lastkind = "collect";
    int snap[NSLOT]; compute_reachable(-1); memcpy(snap, reachable, sizeof snap);
    var e = VF_CATCH(collect_tight());
    if (e) { vf_violation(L("raises"), NULL, "collection raised %s", vf_exc_name(e)); return VF_BAD; }
    collections++;
    if (check_reclaimed(-1, snap)) return VF_BAD;
    sync_slots();
    return VF_OK; }
  case OP_FILL: {
    /* allocate garbage until the collector runs on its own (nitems > mitems inside the allocation) */
    if (stopped) return VF_SKIP;
    lastkind = "fill-to-threshold";
    int snap[NSLOT]; compute_reachable(-1); memcpy(snap, reachable, sizeof snap);
    int used = 0, triggered = 0;
    for (int k = 0; k < NSPARE - NTEMP && !triggered; k++) {
      int s = MAXA + k;
      if (S[s].kind != K_NONE) continue;
      size_t before = gc->nitems;
      alloc_at = s;
      S[s].kind = K_STD; S[s].child = -1; S[s].owner = 0; S[s].fin = S[s].dealloc = S[s].deleted = S[s].constructed = 0; S[s].leaf = 0;
      var e = VF_CATCH(new(Cell));
      alloc_at = -1; used++;
      if (e) { vf_violation(L("raises"), NULL, "allocation raised %s", vf_exc_name(e)); return VF_BAD; }
      if (gc->nitems <= before) triggered = 1;   /* a sweep ran inside the allocation */
      snap[s] = 0;
      if (S[s].fin) { vf_violation(L("fresh-object-reclaimed"), NULL, "the object being allocated was finalised by the collection its own allocation triggered"); return VF_BAD; }
    }
    if (check_reclaimed(-1, snap)) return VF_BAD;
    sync_slots();
    /* return the spare region to the harness: delete spares that survived (conservatively retained or newest) */
    for (int k = 0; k < NSPARE; k++) {
      int s = MAXA + k;
      if (S[s].kind == K_NONE) continue;
      S[s].deleted = 1;
      var e = VF_CATCH(del(P(s)));
      if (e) { vf_violation(L("raises"), NULL, "del raised %s", vf_exc_name(e)); return VF_BAD; }
    }
    sync_slots();
    if (triggered) collections++;
    else vf_note("fill-to-threshold: no collection triggered within %d allocations", used);
    return VF_OK; }
  case OP_NEWRAW: {
    int s = A - 1;
    if (S[s].kind != K_NONE) return VF_SKIP;
    lastkind = "new_raw";
    return do_new(s, K_RAW); }
  case OP_STOP:
    if (!propC06 || stopped) return VF_SKIP;
    lastkind = "stop"; stop(gc); stopped = 1; return VF_OK;
  case OP_START:
    if (!propC06 || !stopped) return VF_SKIP;
    lastkind = "start"; start(gc); stopped = 0; return VF_OK;
  }
  return VF_SKIP;
}

/* teardown: what is still allocated must be finalised exactly once, nothing may be left behind */
static int rootsleft;   /* rootsleft=1: the program ends without deleting its root objects (they are leaked by design: the teardown
                        ** sweep skips roots) - every other managed object must still be finalised exactly once */
static void cleanup(void) {
  const char* k0 = lastkind;
  if (reuse_slot >= 0 && !exec_bad && S[reuse_slot].kind == K_ROOT && !S[reuse_slot].deleted && (S[reuse_slot].fin || S[reuse_slot].dealloc)) {
    const char* k1 = lastkind; lastkind = "destructor-allocated-root";
    vf_violation(L("finalised-behind-its-owners-back"), NULL, "a root object allocated by a destructor at the address of an object released earlier was finalised %d / released %d times although nobody deleted it", S[reuse_slot].fin, S[reuse_slot].dealloc);
    lastkind = k1; exec_bad = 1;
  }
  /* in contract: root, raw and stop-window objects are released explicitly before teardown */
  if (stopped) { start(gc); stopped = 0; }
  int progress = 1;
  while (progress) {
    progress = 0;
    for (int s = 0; s < NSLOT; s++) {
      if (rootsleft && S[s].kind == K_ROOT) continue;
      if ((S[s].kind == K_ROOT || S[s].kind == K_RAW || S[s].kind == K_UNREG) && !owned_by_someone(s) && !S[s].deleted) {
        S[s].deleted = 1;
        int k = S[s].kind;
        var e = VF_CATCH(k == K_ROOT ? del_root(P(s)) : k == K_RAW ? del_raw(P(s)) : del(P(s)));
        (void)e; progress = 1;
      }
    }
    sync_slots();
  }
  lastkind = "teardown";
  var e = VF_CATCH(del_raw(gc));
  gc = NULL;
  if (e && !exec_bad) vf_violation(L("raises"), NULL, "collector teardown raised %s", vf_exc_name(e));
  if (propC06 && !exec_bad) {
    if (ledger_err[0]) { vf_violation(L("ledger"), NULL, "%s", ledger_err); ledger_err[0] = 0; }
    for (int s = 0; s < NSLOT; s++) {
      if (S[s].kind == K_NONE) continue;
      if (S[s].kind == K_UNREG) continue;   /* reported at the del that failed to finalise it */
      if (rootsleft && S[s].kind == K_ROOT && !S[s].deleted) {
        if (S[s].fin || S[s].dealloc) { vf_violation(L("root-finalised-at-teardown"), NULL, "root object #%d, never deleted, was finalised %d / released %d times by the teardown", s, S[s].fin, S[s].dealloc); break; }
        continue;
      }
      if (S[s].fin != 1 || S[s].dealloc != 1) {
        char lab[96];
        snprintf(lab, sizeof lab, "left-behind/%s%s", S[s].deleted ? "deleted-by-owner" : "never-deleted", S[s].kind == K_STD ? "" : "/non-managed");
        vf_violation(L(lab), NULL, "after teardown object #%d was finalised %d times and released %d times (expected exactly once each); last operation before teardown: %s", s, S[s].fin, S[s].dealloc, k0);
        break;
      }
    }
  }
  ledger_err[0] = 0;
  lastkind = k0;
}

static int nontrivial(void) {
  for (size_t i = 0; i < gc->nslots; i++) if (gc->entries[i].hash && GC_Probe(gc, i, gc->entries[i].hash) > 0) return 1;
  return 0;
}

/* ---- ladder: registry sizes 53 .. 389 --------------------------------------------- */

#define LADN 300
struct LCell { var child; int64_t id; int64_t owner; uint64_t canary; var child2; int64_t owner2; };
static char* lad_base;
static var LP(int i, int stride_words) { return lad_base + 8L * stride_words * i + 24; }
static int lad_stride, lad_alloc_i = -1;
static int lad_fin[LADN], lad_live[LADN];
extern var LCell;
static var LCell_Alloc(void) {
  char* obj = LP(lad_alloc_i, lad_stride);
  struct Header* head = (struct Header*)(obj - sizeof(struct Header));
  memset(head, 0, sizeof(struct Header) + sizeof(struct Cell));
  return header_init(head, LCell, AllocHeap);
}
static int lad_index(var p) { return (int)(((char*)p - 24 - lad_base) / (8L * lad_stride)); }
static void LCell_Dealloc(var self) { lad_live[lad_index(self)] = 0; }
static void LCell_New(var self, var args) { lad_live[lad_index(self)] = 1; lad_fin[lad_index(self)] = 0; }
static void LCell_Del(var self) { if (++lad_fin[lad_index(self)] > 1) lfail("ladder object finalised twice"); }
var LCell = Cello(LCell, Instance(Alloc, LCell_Alloc, LCell_Dealloc), Instance(New, LCell_New, LCell_Del));

static void ladder(void) {
  vf.phase = "gc-ladder";
  int N = (int)vf_param_i("ladder_n", 250);
  if (N > LADN) N = LADN;
  static const int strides[] = { 7, 53, 101, 197, 389, 5 * 11 * 23 * 53 };
  size_t need = 8L * strides[5] * (LADN + 1) + 4096;
  lad_base = mmap(NULL, need, PROT_READ | PROT_WRITE, MAP_PRIVATE | MAP_ANONYMOUS | MAP_NORESERVE, -1, 0);
  if (lad_base == MAP_FAILED) { perror("mmap"); _exit(2); }
  for (size_t si = 0; si < sizeof strides / sizeof strides[0]; si++) {
    for (int order = 0; order < 3; order++) {
      for (int rootmode = 0; rootmode < 3; rootmode++) {
        vf_watchdog(120);
        lad_stride = strides[si];
        vf_set_cur("ladder stride=%d n=%d delete-order=%d rooted=%d", lad_stride, N, order, rootmode);
        lastkind = "ladder";
        memset(lad_fin, 0, sizeof lad_fin); memset(lad_live, 0, sizeof lad_live);
        gc = new_raw(GC, $R(stack_bottom));
        int kind[LADN]; int present[LADN]; memset(present, 0, sizeof present);
        int bad = 0;
        size_t lastns = 0;
        /* phase 1: allocate N objects (every rootmode-th one as a root, so threshold collections reclaim the rest) */
        for (int i = 0; i < N && !bad; i++) {
          lad_alloc_i = i;
          int root = rootmode == 0 ? 1 : rootmode == 1 ? (i % 2 == 0) : (i % 3 != 0);
          kind[i] = root;
          if (root) new_root(LCell); else new(LCell);
          present[i] = 1;
          vf.transitions++;
          /* objects reclaimed by threshold collections are observed through the ledger */
          for (int q = 0; q <= i; q++) if (present[q] && !lad_live[q]) { if (kind[q]) { vf_violation(L("root-reclaimed"), NULL, "root object %d reclaimed", q); bad = 1; } present[q] = 0; }
          if (gc->nslots != lastns || (i & 15) == 0 || i == N - 1) {
            if (gc->nslots != lastns) vf.nontrivial++;
            lastns = gc->nslots;
            size_t cnt = 0;
            for (int q = 0; q < N; q++) {
              bool m = mem(gc, LP(q, lad_stride));
              if (m != (present[q] != 0)) { vf_violation(L(present[q] ? "live-object-not-in-registry" : "registry-holds-dead-object"), NULL, "mem(gc, object %d)=%d expected %d at nslots=%zu", q, (int)m, present[q], gc->nslots); bad = 1; break; }
              cnt += present[q];
            }
            if (!bad && cnt != gc->nitems) { vf_violation(L("count"), NULL, "registry records %zu, %zu live (nslots=%zu)", gc->nitems, cnt, gc->nslots); bad = 1; }
            vf.evaluations++;
          }
        }
        /* phase 2: delete what is left in the chosen order */
        for (int j = 0; j < N && !bad; j++) {
          int i = order == 0 ? j : order == 1 ? N - 1 - j : ((j & 1) ? N - 1 - j / 2 : j / 2);
          if (!present[i]) continue;
          if (kind[i]) del_root(LP(i, lad_stride)); else del(LP(i, lad_stride));
          present[i] = 0;
          vf.transitions++;
          if (lad_live[i] || lad_fin[i] != 1) { vf_violation(L("explicit-del-did-not-finalise"), NULL, "del of ladder object %d did not finalise it exactly once", i); bad = 1; break; }
          if (gc->nslots != lastns || (j & 15) == 0) {
            if (gc->nslots != lastns) vf.nontrivial++;
            lastns = gc->nslots;
            size_t cnt = 0;
            for (int q = 0; q < N; q++) {
              bool m = mem(gc, LP(q, lad_stride));
              if (m != (present[q] != 0)) { vf_violation(L(present[q] ? "live-object-not-in-registry" : "registry-holds-dead-object"), NULL, "mem(gc, object %d)=%d expected %d at nslots=%zu", q, (int)m, present[q], gc->nslots); bad = 1; break; }
              cnt += present[q];
            }
            if (!bad && cnt != gc->nitems) { vf_violation(L("count"), NULL, "registry records %zu, %zu live", gc->nitems, cnt); bad = 1; }
            vf.evaluations++;
          }
        }
        if (ledger_err[0]) { vf_violation(L("ledger"), NULL, "%s", ledger_err); ledger_err[0] = 0; }
        del_raw(gc); gc = NULL;
        vf.executions++;
        if (vf_want_sample()) vf_sample("%s", vf_cur);
      }
    }
  }
  vf.states = vf.nontrivial ? vf.nontrivial : 1;
}

/* ---- ownership graphs: every graph of owning pointers on n objects (two owning slots each), cycles included ---------
** All objects are garbage (or one is deleted explicitly); whatever order the sweep or the re-entrant deletes take,
** every object must be finalised exactly once and released exactly once.  In contract: an object with several owners
** is owned only from inside its own ownership cycle (every owner is reachable from it through owning pointers), and the
** program itself deletes only an object that has no owner outside its own cycle. */

static int og_reach(int n, int tgt[][2], int from, int to) {
  int seen[8] = {0}, stack[8], sp = 0; stack[sp++] = from; seen[from] = 1;
  while (sp) { int x = stack[--sp]; for (int k = 0; k < 2; k++) { int y = tgt[x][k]; if (y < 0) continue; if (y == to) return 1; if (!seen[y]) { seen[y] = 1; stack[sp++] = y; } } }
  return 0;
}

static void own_graphs(void) {
  vf.phase = "gc-owngraph";
  int n = (int)vf_param_i("n", 3);
  { int rn; if (vf.replay && sscanf(vf.replay, "own n=%d", &rn) == 1) n = rn; }
  if (n > 4) n = 4;
  propC06 = 1;
  int nt = n + 1;                        /* per slot: none or one of n targets */
  uint64_t ngraphs = 1; for (int i = 0; i < 2 * n; i++) ngraphs *= (uint64_t)nt;
  int perms[24][4]; int np = 0;
  { int p[4] = {0,1,2,3}; /* all permutations of the first n addresses */
    int c[4] = {0,0,0,0}; memcpy(perms[np++], p, sizeof p);
    int i = 0; while (i < n) { if (c[i] < i) { int a = (i % 2 == 0) ? 0 : c[i]; int t = p[a]; p[a] = p[i]; p[i] = t; memcpy(perms[np++], p, sizeof p); c[i]++; i = 0; } else { c[i] = 0; i++; } } }
  A = n < 4 ? 4 : n;
  unsigned long long r_g = 0; int r_n = 0, r_trig = -1, r_perm = -1;
  int replaying = vf.replay && sscanf(vf.replay, "own n=%d g=%llu trig=%d perm=%d", &r_n, &r_g, &r_trig, &r_perm) == 4;
  vf_watchdog(120);
  for (uint64_t g = 0; g < ngraphs; g++) {
    if (replaying && g != r_g) continue;
    int tgt[4][2]; uint64_t x = g;
    for (int i = 0; i < n; i++) for (int k = 0; k < 2; k++) { tgt[i][k] = (int)(x % (uint64_t)nt) - 1; x /= (uint64_t)nt; }
    /* canonical: slot 2 only used when slot 1 is; no duplicate target in the two slots */
    int ok = 1;
    for (int i = 0; i < n && ok; i++) { if (tgt[i][0] < 0 && tgt[i][1] >= 0) ok = 0; if (tgt[i][0] >= 0 && tgt[i][0] == tgt[i][1]) ok = 0; }
    /* several owners only from inside the object's own ownership cycle */
    for (int t = 0; t < n && ok; t++) {
      int owners[8], no = 0;
      for (int i = 0; i < n; i++) for (int k = 0; k < 2; k++) if (tgt[i][k] == t) owners[no++] = i;
      if (no > 1) for (int q = 0; q < no; q++) if (owners[q] != t && !og_reach(n, tgt, t, owners[q])) ok = 0;
      /* with reuse=1 an object has at most one owner: the second owner's delete of an object the first one already
      ** released is a double delete by the program (ignored by the collector only as long as the address stays free) */
      if (dtor_reuse && no > 1) ok = 0;
    }
    if (!ok) continue;
    vf.states++;
    if ((g & 255) == 0) { vf_watchdog(120); if (vf_deadline_hit()) break; }
    int cyclic = 0; for (int i = 0; i < n; i++) if (og_reach(n, tgt, i, i)) cyclic = 1;
    for (int trig = 0; trig < 2 + n; trig++) {
      if (trig >= 2) {            /* explicit del(node): in contract only if every owner of it sits in its own cycle */
        int d = trig - 2, okd = 1;
        for (int i = 0; i < n; i++) for (int k = 0; k < 2; k++) if (tgt[i][k] == d && i != d && !og_reach(n, tgt, d, i)) okd = 0;
        if (!okd) continue;
      }
      for (int pi = 0; pi < np; pi++) {
        if (replaying && (trig != r_trig || pi != r_perm)) continue;
        char gs[96]; size_t o = 0;
        for (int i = 0; i < n; i++) o += snprintf(gs + o, sizeof gs - o, "%s#%d->{%c%c}", i ? " " : "", i, tgt[i][0] < 0 ? '-' : '0' + tgt[i][0], tgt[i][1] < 0 ? '-' : '0' + tgt[i][1]);
        static const char* tn[] = { "forced-collection", "teardown-only", "del(#0)", "del(#1)", "del(#2)", "del(#3)" };
        vf_set_cur("own n=%d g=%" PRIu64 " trig=%d perm=%d | owning pointers %s; addresses %d%d%d%d; %s", n, g, trig, pi, gs, perms[pi][0], perms[pi][1], perms[pi][2], perms[pi][3], tn[trig]);
        reset();
        static char lk[64]; snprintf(lk, sizeof lk, "own-graph/%s/%s", cyclic ? "cyclic" : "acyclic", trig == 0 ? "forced-collection" : trig == 1 ? "teardown" : "explicit-del");
        lastkind = lk;
        int bad = 0;
        volatile var hold[4] = { NULL, NULL, NULL, NULL };   /* the program holds its objects while it builds the graph */
        for (int i = 0; i < n && !bad; i++) { if (do_new(perms[pi][i], K_STD) != VF_OK) bad = 1; hold[i] = P(perms[pi][i]); }
        for (int i = 0; i < n && !bad; i++) {
          struct Cell* c = P(perms[pi][i]);
          if (tgt[i][0] >= 0) { c->child = P(perms[pi][tgt[i][0]]); c->owner = 1; }
          if (tgt[i][1] >= 0) { c->child2 = P(perms[pi][tgt[i][1]]); c->owner2 = 1; }
        }
        lastkind = lk;
        for (int i = 0; i < 4; i++) hold[i] = NULL;
        if (!bad) {
          var e = NULL;
          if (trig == 0) e = VF_CATCH(collect_tight());
          else if (trig >= 2) { int s = perms[pi][trig - 2]; S[s].deleted = 1; e = VF_CATCH(del(P(s))); }
          if (e) { vf_violation(L("raises"), NULL, "raised %s", vf_exc_name(e)); bad = 1; }
        }
        if (bad) exec_bad = 1;
        /* anything the trigger did not reach is garbage for the teardown sweep; cleanup() checks exactly-once for all */
        for (int s = 0; s < NSLOT; s++) if (S[s].kind == K_STD && S[s].fin == 0 && !S[s].deleted) { /* still registered: fine */ }
        /* teardown judges slots by S[].kind: keep kinds until then (no sync) */
        cleanup();
        vf.executions++; vf.transitions++;
        if (cyclic) vf.nontrivial++;
        if (vf_want_sample()) vf_sample("%s", vf_cur);
      }
    }
  }
}

/* ---- teardown at thread exit and at program exit ------------------------------------------------------------------
** Programs: every sequence of length <= depth over {new, new kept in a local, new_root ... del_root, owner+owned pair,
** del of the kept object, churn until the collector ran}, executed (a) as the function of a fresh Cello Thread - the
** thread's collector is torn down by the library when the function returns - and (b) in a forked process whose main
** thread registered Cello_Exit with atexit exactly as the `main` wrapper does, followed by exit(): a destructor-priority
** hook that runs after all atexit handlers reports the ledger through a pipe.  After teardown every managed object must
** have been finalised exactly once and released exactly once. */

static int exit_prog[8], exit_len;
static int exit_pipe = -1;
static int in_exit_child;

static var exit_body(var args) {
  volatile var kept = NULL;
  int next = 0;     /* arena slots are handed out in order */
  int halted = 0;   /* the program stopped its collector and ends that way: it allocates nothing afterwards (an object made in a
                    ** stop window is never registered - the recorded finding D6 - so only what was registered before is judged) */
  for (int i = 0; i < exit_len; i++) {
    if (exit_prog[i] == 6) { if (!halted) { stop(current(GC)); halted = 1; stopped = 1; } continue; }
    if (halted && exit_prog[i] != 4) continue;
    if (next >= NSLOT - NTEMP - 2 && exit_prog[i] != 4) continue;   /* arena exhausted: the rest of the program allocates nothing */
    switch (exit_prog[i]) {
    case 0: alloc_at = next; S[next].kind = K_STD; S[next].child = -1; new(Cell); next++; break;                 /* garbage at once */
    case 1: alloc_at = next; S[next].kind = K_STD; S[next].child = -1; kept = new(Cell); next++; break;          /* held in a local */
    case 2: { alloc_at = next; S[next].kind = K_ROOT; S[next].child = -1; var r = new_root(Cell); int s = next++; S[s].deleted = 1; del_root(r); break; }
    case 3: { alloc_at = next; S[next].kind = K_STD; S[next].child = -1; struct Cell* o = new(Cell); int so = next++;
              alloc_at = next; S[next].kind = K_STD; S[next].child = -1; var c = new(Cell); int sc = next++;
              o->child = c; o->owner = 1; S[so].child = sc; S[so].owner = 1; break; }
    case 4: if (kept) { int s = slot_of((var)kept); if (s >= 0 && !S[s].fin) { S[s].deleted = 1; del((var)kept); } kept = NULL; } break;
    case 5: for (int k = 0; k < 30 && next < NSLOT - NTEMP - 2; k++) { alloc_at = next; S[next].kind = K_STD; S[next].child = -1; new(Cell); next++; } break;
    }
    alloc_at = -1;
  }
  kept = NULL;
  return NULL;
}

static int exit_judge(const char* where) {
  if (ledger_err[0]) { vf_violation(L("ledger"), NULL, "%s: %s", where, ledger_err); ledger_err[0] = 0; return 1; }
  for (int s = 0; s < NSLOT; s++) {
    if (S[s].kind == K_NONE) continue;
    if (S[s].fin != 1 || S[s].dealloc != 1) {
      vf_violation(L(S[s].fin == 0 ? "left-behind" : "finalised-or-released-more-than-once"), NULL, "%s: object #%d (%s) was finalised %d times and released %d times", where, s,
        S[s].kind == K_ROOT ? "root, deleted explicitly" : S[s].deleted ? "deleted explicitly or by its owner" : "never deleted", S[s].fin, S[s].dealloc);
      return 1;
    }
  }
  return 0;
}

__attribute__((destructor)) static void exit_hook(void) {
  if (!in_exit_child || exit_pipe < 0) return;
  /* runs after every atexit handler, i.e. after Cello_Exit tore the main thread's collector down */
  char buf[NSLOT * 3 + 8]; int o = 0;
  for (int s = 0; s < 64; s++) { buf[o++] = (char)('0' + S[s].kind); buf[o++] = (char)('0' + (S[s].fin > 9 ? 9 : S[s].fin)); buf[o++] = (char)('0' + (S[s].dealloc > 9 ? 9 : S[s].dealloc)); }
  buf[o++] = ledger_err[0] ? 'E' : 'k';
  (void)!write(exit_pipe, buf, (size_t)o);
}

static void exit_modes(void) {
  vf.phase = "gc-exit";
  int depth = (int)vf_param_i("depth", 4);
  const int NOPS = 7;
  /* cells here live at consecutive, non-colliding arena slots: use the spare region layout for all of them */
  A = MAXA;
  uint64_t total = 0, p = 1; for (int i = 0; i < depth; i++) { p *= NOPS; total += p; }
  int r_where = -1; unsigned long long r_idx = 0;
  int replaying = vf.replay && sscanf(vf.replay, "exit where=%d idx=%llu", &r_where, &r_idx) == 2;
  for (int where = 0; where < 2; where++) {
    for (uint64_t idx = 0; idx < total; idx++) {
      if (replaying && (where != r_where || idx != r_idx)) continue;
      /* decode */
      uint64_t x = idx, count = NOPS; int len = 1;
      while (x >= count) { x -= count; count *= NOPS; len++; }
      exit_len = len; for (int i = len - 1; i >= 0; i--) { exit_prog[i] = (int)(x % NOPS); x /= NOPS; }
      char ps[64]; size_t o = 0; static const char* on[] = { "new", "kept=new", "new_root;del_root", "owner+owned", "del(kept)", "churn30", "stop(gc)" };
      for (int i = 0; i < len; i++) o += snprintf(ps + o, sizeof ps - o, "%s%d", i ? "," : "", exit_prog[i]);
      vf_set_cur("exit where=%d idx=%" PRIu64 " | %s: program [%s]", where, idx, where == 0 ? "worker thread exit" : "main thread, atexit(Cello_Exit), exit()", ps);
      if ((idx & 63) == 0) vf_watchdog(120);
      memset(S, 0, sizeof S); for (int s = 0; s < NSLOT; s++) S[s].child = -1;
      ledger_err[0] = 0; alloc_at = -1; exec_bad = 0; stopped = 0;
      if (where == 0) {
        lastkind = "thread-exit";
        /* the main thread needs a collector of its own while the worker runs */
        gc = new_raw(GC, $R(stack_bottom));
        volatile var mine = new(Int, $I(7));   /* the creating thread has managed objects of its own, allocated first */
        var fobj = $(Function, exit_body);
        var th = new_raw(Thread, fobj);
        var e = VF_CATCH(call(th); join(th));
        if (e) vf_violation(L("raises"), NULL, "thread raised %s", vf_exc_name(e));
        else exit_judge("after the thread was joined");
        del_raw(th);
        if (!mem(gc, (var)mine) || c_int((var)mine) != 7) vf_violation(L("creators-object-disturbed"), NULL, "an object of the creating thread was reclaimed or damaged while the worker ran");
        mine = NULL;
        del_raw(gc); gc = NULL;
      } else {
        lastkind = "program-exit";
        int fds[2]; if (pipe(fds)) { perror("pipe"); _exit(2); }
        fflush(NULL);
        pid_t pid = fork();
        if (pid == 0) {
          close(fds[0]); exit_pipe = fds[1]; in_exit_child = 1;
          signal(SIGSEGV, SIG_DFL); signal(SIGABRT, SIG_DFL); signal(SIGALRM, SIG_DFL); alarm(20);
          var bottom = NULL;
          new_raw(GC, $R(&bottom));
          /* atexit(Cello_Exit) was already registered by this program's own `main` wrapper (Cello.h) */
          exit_body(NULL);
          exit(0);
        }
        close(fds[1]);
        char buf[NSLOT * 3 + 8]; ssize_t got = 0, r;
        while ((r = read(fds[0], buf + got, sizeof buf - (size_t)got)) > 0) got += r;
        close(fds[0]);
        int st = 0; waitpid(pid, &st, 0);
        if (!WIFEXITED(st) || WEXITSTATUS(st) != 0) vf_violation(L(WIFSIGNALED(st) ? "crash-during-exit" : "exit-status"), NULL, "program died during exit handling (status %d signal %d)", WIFEXITED(st) ? WEXITSTATUS(st) : -1, WIFSIGNALED(st) ? WTERMSIG(st) : 0);
        else if (got < 64 * 3 + 1) vf_violation(L("no-report"), NULL, "exit hook did not report");
        else {
          for (int s = 0; s < 64; s++) { S[s].kind = buf[3 * s] - '0'; S[s].fin = buf[3 * s + 1] - '0'; S[s].dealloc = buf[3 * s + 2] - '0'; }
          if (buf[64 * 3] == 'E') vf_violation(L("ledger"), NULL, "ledger error in the exiting program (finalised twice / released without finalising)");
          else exit_judge("after exit()");
        }
      }
      vf.executions++; vf.transitions++; vf.states++;
      int nt = 0; for (int i = 0; i < len; i++) if (exit_prog[i] == 3 || exit_prog[i] == 5) nt = 1;
      if (nt) vf.nontrivial++;
      if (vf_want_sample()) vf_sample("%s", vf_cur);
    }
  }
}

int main(int argc, char** argv) {
  vf_init(argc, argv);
  var bottom_marker = NULL;
  stack_bottom = &bottom_marker;

  /* the collector Cello's main wrapper made for this thread is replaced by a fresh one per execution */
  del_raw(current(GC));

  A = (int)vf_param_i("naddr", 5);
  if (A > MAXA) A = MAXA;
  propC06 = vf_param_is("prop", "C06", "C17");
  if (vf_param_is("residues", "B", "A")) residue = residueB;
  rootsleft = (int)vf_param_i("rootsleft", 0);
  dtor_reuse = (int)vf_param_i("reuse", 0);
  dtor_keep = (int)vf_param_i("keep", 0);
  leafy = (int)vf_param_i("leafy", 0);
  dtor_try = (int)vf_param_i("dtortry", 0);
  dtor_temps = (int)vf_param_i("temps", 0); if (dtor_temps > 4) dtor_temps = 4;

  size_t need = 8L * MODW * (20 + NSPARE + 4) + 8L * MODW + 4096;
  char* region = mmap(NULL, need, PROT_READ | PROT_WRITE, MAP_PRIVATE | MAP_ANONYMOUS | MAP_NORESERVE, -1, 0);
  if (region == MAP_FAILED) { perror("mmap"); _exit(2); }
  uintptr_t w = ((uintptr_t)region + 64 + 7) >> 3;
  w += (MODW - w % MODW) % MODW;
  arena_base = (char*)(w << 3);

  if (vf_param_is("mode", "ladder", "bfs")) { ladder(); vf_finish(); }
  if (vf_param_is("mode", "own", "bfs")) { own_graphs(); vf_finish(); }
  if (vf_param_is("mode", "exit", "bfs")) { exit_modes(); vf_finish(); }

  static char dname[64];
  snprintf(dname, sizeof dname, "gc[%d addresses,%s]", A, propC06 ? "C06" : "C17");
  struct vf_domain d = { dname, nops_total(), reset, cleanup, apply, check, canon, opname, nontrivial,
                         (size_t)vf_param_i("depth", 0), (size_t)vf_param_i("max_states", 0) };
  if (vf.replay) vf_bfs_replay_case(&d, vf.replay);
  else vf_bfs_run(&d);
  vf_extra("collections", "%d", collections);
  vf_finish();
  return 0;
}
