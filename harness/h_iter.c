/*
** h_iter.c - C11: iteration agrees with len and get, forwards and backwards, for the
** containers, for Range and for the views Slice / reverse / Zip / enumerate / Filter / Map
** and for compositions of views (exhaustive grids, no sampling).
**
** Every case is an *iterable expression* (a small tree: leaves are containers or Ranges,
** inner nodes are views).  The expression is built with the library's own stack macros
** (range(), slice(), reverse(), zip(), enumerate(), filter(), map(), tuple()) in
** continuation-passing style, so that every compound literal is alive while the case is
** evaluated.  For every node a reference sequence is computed from the definition in the
** property text; the real object is then walked forwards (iter_init/iter_next) and
** backwards (iter_last/iter_prev) under a horizon, asked for len() and for get(i), and
** everything is compared with the reference.
**
** Items are never dereferenced blindly: every pointer an iterator yields is looked up in a
** registry of the pointers that are legitimate in the current case (elements of the
** underlying containers, Range cursors, Zip value tuples, Map images).  Anything else is
** "FOREIGN" and ends the walk (a cursor that left its container).
**
** A composite is judged only in those aspects (fwd/bwd/len/get) for which all the
** component aspects it is defined through conform when the component is walked on its
** own; otherwise the failure is the component's (reported at its own, shorter case) and
** the composite aspect is counted as masked.
**
** Parameters:  phase=base|range|slice|zip|filter|map|compose|heap|history|assign|midop|gcitems (rangeneg=1 zipget=1 sliceget=1: see proposed/D29, D30, D31)   hmax=N (history: largest size)
**              kinds=all|array,list,tuple,htuple,table,tree,range   maxn=N  amax=N  rmax=N
**              zmax=N (zip child length bound)  flmax=N (filter length bound)  cset=small|wide
**              phase=midop: part=classic|shrunk|all   shrunk part: smin= smax= sstep= (container lengths)  sparams=N (Slice parameter sets)  sidx=K (indices -len-K..len+K)
**              phase=gcitems: part=items|sole|all   gmax=N (largest element count)  solemax=N (the same for the sole-holder part only)
*/

#include "vf.h"
#include "vf_probe.h"

/* ---- limits ---------------------------------------------------------------------- */

#define MAXN     8           /* longest underlying container */
#define MAXSEQ   48          /* longest recorded walk (len + horizon) */
#define ITEMLEN  120
#define HORIZON  8
#define IMGPOOL  256
#define MAXNODES 16

enum { K_ARRAY, K_LIST, K_TUPLE, K_HTUPLE, K_TABLE, K_TREE, NKINDS, K_RANGE = NKINDS };
static const char* kind_name[] = { "array", "list", "tuple", "htuple", "table", "tree", "range" };
static int kind_on[NKINDS + 1];

enum { N_BASE, N_RANGE, N_SLICE, N_ZIP, N_ENUM, N_FILTER, N_MAP };
static const char* node_name[] = { "base", "range", "slice", "zip", "enumerate", "filter", "map" };

enum { A_FWD, A_BWD, A_LEN, A_GET, NASPECT };
static const char* aspect_name[] = { "fwd", "bwd", "len", "get" };
enum { ST_NA, ST_OK, ST_BAD, ST_MASKED };

enum { END_TERMINAL, END_HORIZON, END_FOREIGN, END_EXC };

struct item { char s[ITEMLEN]; int64_t val; int foreign; };
struct seq { volatile int n; volatile int end; var exc; struct item it[MAXSEQ]; };

struct node {
  int kind;
  int ck, n, bid, dup_p, dup_q;     /* base */
  int ar, a[3], om[3], is_reverse;  /* range / slice arguments: start, stop, step */
  int nch; struct node* ch[3];
  unsigned mask; int slot;          /* filter */
  int fn;                           /* map */
  int heap;                         /* view constructed with new() instead of the stack macro */
  /* run time */
  var obj;
  struct seq ref;
  int clear;                        /* reference comes from the definition (1) or from len/get of the object (0) */
  int contract;                     /* 0: out of contract (step 0): only termination is required */
  int refvalid;                     /* the reference sequence is usable by views built on this node */
  int st[NASPECT];
};

static struct node pool[MAXNODES]; static int npool;
static struct node* mk(int kind) {
  struct node* nd = &pool[npool++];
  nd->kind = kind; nd->nch = 0; nd->dup_p = nd->dup_q = -1; nd->is_reverse = 0; nd->heap = 0;
  nd->om[0] = nd->om[1] = nd->om[2] = 0; nd->a[0] = nd->a[1] = nd->a[2] = 0; nd->ar = 0;
  nd->mask = 0; nd->slot = 0; nd->fn = 0; nd->obj = NULL; nd->ck = 0; nd->n = 0; nd->bid = 0;
  return nd;
}

static uint64_t masked_aspects, judged_aspects, unclear_cases, outofcontract_cases;
static struct vf_set outcomes;

/* ---- element objects and the pointer registry ---------------------------------------- */

static var elemobj[4][MAXN];        /* raw Int objects, value 16*b+i; members of tuples */
static var imgobj[IMGPOOL];         /* raw Int objects handed out by the map functions */
static struct item imgitem[IMGPOOL];
static int imgnext;

enum { RC_ELEM, RC_CURSOR, RC_ZVALS };
struct reg { var p; int cls; int64_t val; int arity; };
static struct reg regs[128]; static int nregs;

static void reg_add(var p, int cls, int64_t val, int arity) {
  if (nregs >= 128) { fprintf(stderr, "h_iter: registry overflow\n"); _exit(2); }
  regs[nregs].p = p; regs[nregs].cls = cls; regs[nregs].val = val; regs[nregs].arity = arity; nregs++;
}

static void resolve(var p, struct item* o) {
  o->foreign = 0; o->val = 0;
  if (p == NULL)     { strcpy(o->s, "NULL"); o->foreign = 1; return; }
  if (p == Terminal) { strcpy(o->s, "Terminal"); o->foreign = 1; return; }
  if (p == _)        { strcpy(o->s, "_"); o->foreign = 1; return; }
  for (int i = 0; i < nregs; i++) {
    if (regs[i].p != p) continue;
    if (regs[i].cls == RC_ELEM) { o->val = regs[i].val; snprintf(o->s, ITEMLEN, "e%d", (int)regs[i].val); return; }
    if (regs[i].cls == RC_CURSOR) { o->val = ((struct Int*)p)->val; snprintf(o->s, ITEMLEN, "i%" PRId64, o->val); return; }
    /* the value tuple of a Zip: arity components */
    size_t off = 0; o->s[0] = 0;
    off += snprintf(o->s + off, ITEMLEN - off, "(");
    for (int k = 0; k < regs[i].arity; k++) {
      struct item sub; resolve(((struct Tuple*)p)->items[k], &sub);
      if (k == 0) o->val = sub.val;
      if (sub.foreign) o->foreign = 1;
      if (off < ITEMLEN - 1) off += snprintf(o->s + off, ITEMLEN - off, "%s%s", k ? "," : "", sub.s);
      if (off >= ITEMLEN) off = ITEMLEN - 1;
    }
    if (off < ITEMLEN - 1) snprintf(o->s + off, ITEMLEN - off, ")");
    return;
  }
  int ni = imgnext < IMGPOOL ? imgnext : IMGPOOL;
  for (int i = 0; i < ni; i++) if (imgobj[i] == p) { *o = imgitem[i]; return; }
  strcpy(o->s, "FOREIGN"); o->foreign = 1;
}

/* filter predicates: a bit mask indexed by the item's value modulo 8 */
static unsigned pmask[3]; static uint64_t cb_foreign; static var pred_flag;
static var pred_common(int slot, var x) {
  struct item o; resolve(x, &o);
  if (o.foreign) { cb_foreign++; return NULL; }
  int b = (int)(((o.val % 8) + 8) % 8);
  /* "anything except NULL" keeps the item: an accepted item of odd value is acknowledged with an object that is not the
  ** item (a flag), an even one with the item itself - a view that hands on the predicate's answer yields FOREIGN */
  if (!((pmask[slot] >> b) & 1)) return NULL;
  return (o.val & 1) ? pred_flag : x;
}
static var pred0(var x) { return pred_common(0, x); }
static var pred1(var x) { return pred_common(1, x); }
static var pred2(var x) { return pred_common(2, x); }
static var (*predfn[3])(var) = { pred0, pred1, pred2 };

/* map functions: the image of item s under function f is a fresh object that resolves to "m<f>(s)" */
static var map_common(int f, var x) {
  struct item o; resolve(x, &o);
  int k = imgnext % IMGPOOL; imgnext++;
  snprintf(imgitem[k].s, ITEMLEN, "m%d(%.100s)", f, o.s);
  imgitem[k].val = o.val; imgitem[k].foreign = o.foreign;
  if (o.foreign) cb_foreign++;
  return imgobj[k];
}
static var mapf0(var x) { return map_common(0, x); }
static var mapf1(var x) { return map_common(1, x); }
static var (*mapfn[2])(var) = { mapf0, mapf1 };

/* ---- printing a case ----------------------------------------------------------------- */

static size_t arg_str(char* b, size_t cap, int om, int v) {
  return om ? snprintf(b, cap, "_") : snprintf(b, cap, "%d", v);
}

static size_t node_str(struct node* nd, char* b, size_t cap) {
  size_t o = 0;
  if (cap < 32) return 0;
  switch (nd->kind) {
  case N_BASE:
    o += snprintf(b + o, cap - o, "%s[%d]", kind_name[nd->ck], nd->n);
    if (nd->dup_p >= 0) o += snprintf(b + o, cap - o, "{item%d is item%d}", nd->dup_q, nd->dup_p);
    break;
  case N_RANGE:
    o += snprintf(b + o, cap - o, nd->heap ? "new-range(" : "range(");
    if (nd->ar == 1) o += arg_str(b + o, cap - o, 0, nd->a[1]);
    if (nd->ar >= 2) { o += arg_str(b + o, cap - o, nd->om[0], nd->a[0]); o += snprintf(b + o, cap - o, ","); o += arg_str(b + o, cap - o, 0, nd->a[1]); }
    if (nd->ar == 3) { o += snprintf(b + o, cap - o, ","); o += arg_str(b + o, cap - o, nd->om[2], nd->a[2]); }
    o += snprintf(b + o, cap - o, ")");
    break;
  case N_SLICE:
    o += snprintf(b + o, cap - o, nd->is_reverse ? "reverse(" : nd->heap ? "new-slice(" : "slice(");
    o += node_str(nd->ch[0], b + o, cap - o);
    if (!nd->is_reverse) {
      if (nd->ar == 1) { o += snprintf(b + o, cap - o, ","); o += arg_str(b + o, cap - o, nd->om[1], nd->a[1]); }
      if (nd->ar >= 2) { o += snprintf(b + o, cap - o, ","); o += arg_str(b + o, cap - o, nd->om[0], nd->a[0]); o += snprintf(b + o, cap - o, ","); o += arg_str(b + o, cap - o, nd->om[1], nd->a[1]); }
      if (nd->ar == 3) { o += snprintf(b + o, cap - o, ","); o += arg_str(b + o, cap - o, nd->om[2], nd->a[2]); }
    }
    o += snprintf(b + o, cap - o, ")");
    break;
  case N_ZIP:
    o += snprintf(b + o, cap - o, nd->heap ? "new-zip(" : "zip(");
    for (int i = 0; i < nd->nch; i++) { if (i) o += snprintf(b + o, cap - o, ","); o += node_str(nd->ch[i], b + o, cap - o); }
    o += snprintf(b + o, cap - o, ")");
    break;
  case N_ENUM:
    o += snprintf(b + o, cap - o, "enumerate("); o += node_str(nd->ch[0], b + o, cap - o); o += snprintf(b + o, cap - o, ")");
    break;
  case N_FILTER:
    o += snprintf(b + o, cap - o, nd->heap ? "new-filter(" : "filter("); o += node_str(nd->ch[0], b + o, cap - o);
    o += snprintf(b + o, cap - o, ",mask=0x%02x)", nd->mask);
    break;
  case N_MAP:
    o += snprintf(b + o, cap - o, nd->heap ? "new-map(" : "map("); o += node_str(nd->ch[0], b + o, cap - o);
    o += snprintf(b + o, cap - o, ",f%d)", nd->fn);
    break;
  }
  return o;
}

/* ---- structural facts ------------------------------------------------------------------ */

static int has_len(struct node* nd) {
  switch (nd->kind) {
  case N_BASE: case N_RANGE: return 1;
  case N_SLICE: case N_ENUM: case N_MAP: return has_len(nd->ch[0]);
  case N_ZIP: for (int i = 0; i < nd->nch; i++) if (!has_len(nd->ch[i])) return 0; return 1;
  default: return 0;
  }
}

/* get(i) is positional (Table and Tree are keyed: get is a lookup, not the i-th item) */
static int has_get(struct node* nd) {
  switch (nd->kind) {
  case N_BASE: return nd->ck != K_TABLE && nd->ck != K_TREE;
  case N_RANGE: return 1;
  case N_SLICE: case N_ENUM: case N_MAP: return has_get(nd->ch[0]);
  case N_ZIP: for (int i = 0; i < nd->nch; i++) if (!has_get(nd->ch[i])) return 0; return nd->nch > 0;
  default: return 0;
  }
}

/* effective parameters as the documented constructors define them */
static void range_eff(struct node* nd, int64_t* st, int64_t* sp, int64_t* se) {
  *st = 0; *sp = 0; *se = 1;
  if (nd->ar >= 1) *sp = nd->a[1];
  if (nd->ar >= 2) *st = nd->om[0] ? 0 : nd->a[0];
  if (nd->ar >= 3) *se = nd->om[2] ? 1 : nd->a[2];
}

static int64_t clampi(int64_t a, int64_t n) { a = a < 0 ? n + a : a; a = a > n ? n : a; a = a < 0 ? 0 : a; return a; }

static void slice_eff(struct node* nd, int64_t n, int64_t* st, int64_t* sp, int64_t* se, int* open) {
  *st = 0; *sp = n; *se = 1; *open = 1;
  if (nd->is_reverse) { *se = -1; return; }
  if (nd->ar >= 1 && !nd->om[1]) { *sp = clampi(nd->a[1], n); *open = 0; }
  if (nd->ar >= 2 && !nd->om[0]) { *st = clampi(nd->a[0], n); *open = 0; }
  if (nd->ar >= 3 && !nd->om[2]) *se = nd->a[2];
}

static const char* leafclass(struct node* nd) {
  return nd->kind == N_BASE ? kind_name[nd->ck] : node_name[nd->kind];
}

/* ---- labels --------------------------------------------------------------------------- */

static char featbuf[160];

/* an explicit negative start/stop that points before the front of the underlying iterable (n + a < 0) */
static int slice_beyond_front(struct node* nd, int64_t n) {
  if (nd->is_reverse) return 0;
  if (nd->ar >= 1 && !nd->om[1] && nd->a[1] < 0 && n + nd->a[1] < 0) return 1;
  if (nd->ar >= 2 && !nd->om[0] && nd->a[0] < 0 && n + nd->a[0] < 0) return 1;
  return 0;
}

/*
** The feature class of a case: what a label is made of besides aspect and symptom.  Deliberately coarse in the
** underlying container kind for Slice and Zip (the case string names it) and fine in the parameters that decide
** which code path runs (sign of the step, empty/aligned/misaligned selection, negative index beyond the front, equal/unequal
** lengths, same object twice).
*/
static const char* class_feat(struct node* nd) {
  struct node* c = nd->nch ? nd->ch[0] : NULL;
  int composite = 0;
  for (int i = 0; i < nd->nch; i++) if (nd->ch[i]->kind != N_BASE && nd->ch[i]->kind != N_RANGE) { composite = 1; c = nd->ch[i]; break; }
  const char* hp = nd->heap ? "new-" : "";
  const char* ov = composite ? "-of-view" : "";
  switch (nd->kind) {
  case N_BASE:
    if (nd->dup_p >= 0) snprintf(featbuf, sizeof featbuf, "tuple/same-object-twice");
    else snprintf(featbuf, sizeof featbuf, "%s/%s", nd->ck == K_HTUPLE ? "tuple" : kind_name[nd->ck], nd->n ? "nonempty" : "empty");
    break;
  case N_RANGE: {
    int64_t st, sp, se; range_eff(nd, &st, &sp, &se);
    const char* sg = se > 0 ? "step>0" : se < 0 ? "step<0" : "step0";
    const char* al = "empty";
    if (se != 0 && sp > st) { int64_t a = se > 0 ? se : -se; al = ((sp - st - 1) % a == 0) ? "aligned" : "misaligned"; }
    snprintf(featbuf, sizeof featbuf, "%srange/%s/%s", hp, sg, al);
    break; }
  case N_SLICE: {
    int64_t n = nd->ch[0]->ref.n;
    int64_t st, sp, se; int open; slice_eff(nd, n, &st, &sp, &se, &open);
    const char* sg = se > 0 ? "step>0" : se < 0 ? "step<0" : "step0";
    const char* al = "empty";
    if (se != 0 && sp > st) { int64_t a = se > 0 ? se : -se; al = ((sp - st - 1) % a == 0) ? "aligned" : "misaligned"; }
    if (slice_beyond_front(nd, n)) al = "negative-beyond-front";
    snprintf(featbuf, sizeof featbuf, "%sslice%s/%s/%s", hp, ov, sg, al);
    break; }
  case N_ZIP: {
    int uneq = 0;
    for (int i = 1; i < nd->nch; i++) if (nd->ch[i]->ref.n != nd->ch[0]->ref.n) uneq = 1;
    snprintf(featbuf, sizeof featbuf, "%szip%s/%s", hp, ov, uneq ? "unequal-lengths" : "equal-lengths");
    break; }
  case N_ENUM:
    if (composite) snprintf(featbuf, sizeof featbuf, "enumerate-of-view");
    else snprintf(featbuf, sizeof featbuf, "enumerate/over-%s", leafclass(c));
    break;
  case N_FILTER: {
    int acc = nd->ref.n, all = nd->ch[0]->ref.n;
    const char* w = acc == 0 ? "none-accepted" : acc == all ? "all-accepted" : "some-accepted";
    if (composite) snprintf(featbuf, sizeof featbuf, "%sfilter-of-view/%s", hp, w);
    else snprintf(featbuf, sizeof featbuf, "%sfilter/over-%s/%s", hp, leafclass(c), w);
    break; }
  case N_MAP:
    if (composite) snprintf(featbuf, sizeof featbuf, "%smap-of-view", hp);
    else snprintf(featbuf, sizeof featbuf, "%smap/over-%s", hp, leafclass(c));
    break;
  }
  return featbuf;
}

static char phasebuf[200];
static void set_phase(struct node* nd, int aspect) {
  snprintf(phasebuf, sizeof phasebuf, "%s/%s", class_feat(nd), aspect_name[aspect]);
  vf.phase = phasebuf;
}

static void report(struct node* nd, int aspect, const char* symptom, const char* fmt, ...) {
  char label[256]; char detail[1024];
  snprintf(label, sizeof label, "%s/%s/%s", class_feat(nd), aspect_name[aspect], symptom);
  va_list ap; va_start(ap, fmt); vsnprintf(detail, sizeof detail, fmt, ap); va_end(ap);
  vf_violation(label, NULL, "%s", detail);
}

/* ---- walking the real object ------------------------------------------------------------ */

static struct seq WF, WB;

/* get(obj, i) and len(obj) with the exception (if any) captured; kept out of the loops that use them (setjmp) */
static var safe_get(var obj, int i, var* exc) {
  volatile var g = NULL;
  vf.executions++;
  *exc = VF_CATCH(g = get(obj, $I(i)));
  return (var)g;
}

static uint64_t safe_len(var obj, var* exc) {
  volatile uint64_t l = 0;
  *exc = VF_CATCH(l = len(obj));
  return (uint64_t)l;
}

static void walk(var obj, int backward, int horizon, struct seq* w) {
  w->n = 0; w->end = END_TERMINAL; w->exc = NULL;
  imgnext = 0;
  if (horizon > MAXSEQ) horizon = MAXSEQ;
  vf.executions++;
  try {
    var it = backward ? iter_last(obj) : iter_init(obj);
    while (true) {
      if (it is Terminal) { w->end = END_TERMINAL; break; }
      if (w->n >= horizon) { w->end = END_HORIZON; break; }
      resolve(it, &w->it[w->n]);
      w->n = w->n + 1;
      if (w->it[w->n - 1].foreign) { w->end = END_FOREIGN; break; }
      it = backward ? iter_prev(obj, it) : iter_next(obj, it);
    }
  } catch (e) {
    w->end = END_EXC; w->exc = e;
  }
}

static size_t seq_str(struct seq* s, int from, int to, int step, char* b, size_t cap) {
  size_t o = 0; b[0] = 0;
  for (int i = from; step > 0 ? i < to : i > to; i += step) {
    if (o + ITEMLEN + 4 >= cap) { o += snprintf(b + o, cap - o, " ..."); break; }
    o += snprintf(b + o, cap - o, "%s%s", o ? " " : "", s->it[i].s);
  }
  return o;
}

static const char* end_name(struct seq* w) {
  return w->end == END_TERMINAL ? "Terminal" : w->end == END_HORIZON ? "still going at the horizon" :
         w->end == END_FOREIGN ? "a pointer outside the underlying iterable" : "an exception";
}

/* compare a walk with the expected items E[idx(0)], E[idx(1)] ... (m of them); NULL = conforms */
static const char* compare(struct seq* w, struct seq* e, int reversed) {
  int m = e->n, p = 0;
  while (p < w->n && p < m && strcmp(w->it[p].s, e->it[reversed ? m - 1 - p : p].s) == 0) p++;
  if (p < w->n && p < m) return w->it[p].foreign ? "leaves-container" : "wrong-item";
  if (p == m && w->n > m) return w->it[m].foreign ? "leaves-container" : w->end == END_HORIZON ? "nonterminating" : "too-many";
  if (w->end == END_EXC) return "raises";
  if (w->end == END_HORIZON) return "nonterminating";
  if (w->n < m) return "too-few";
  return NULL;
}

/* ---- reference sequences from the definitions --------------------------------------------- */

static int in_seq(struct seq* s, const char* it) { for (int i = 0; i < s->n; i++) if (strcmp(s->it[i].s, it) == 0) return 1; return 0; }

static void ref_push(struct seq* r, const char* s, int64_t val) {
  if (r->n >= MAXSEQ) return;
  snprintf(r->it[r->n].s, ITEMLEN, "%s", s); r->it[r->n].val = val; r->it[r->n].foreign = 0; r->n = r->n + 1;
}

static void compute_ref(struct node* nd) {
  struct seq* r = &nd->ref; char b[ITEMLEN];
  r->n = 0; r->end = END_TERMINAL; nd->clear = 1; nd->contract = 1; nd->refvalid = 1;
  switch (nd->kind) {
  case N_BASE:
    if (nd->ck == K_TABLE || nd->ck == K_TREE) return;  /* filled from the container's own validated forward order */
    for (int i = 0; i < nd->n; i++) {
      int v = 16 * nd->bid + (i == nd->dup_q ? nd->dup_p : i);
      snprintf(b, sizeof b, "e%d", v); ref_push(r, b, v);
    }
    return;
  case N_RANGE: {
    int64_t st, sp, se; range_eff(nd, &st, &sp, &se);
    if (se == 0) { nd->contract = 0; return; }
    if (se > 0) for (int64_t v = st; v < sp; v += se) { snprintf(b, sizeof b, "i%" PRId64, v); ref_push(r, b, v); }
    /* negative step: the documented example "range($I(10), $I(20), $I(-1)) iterates 20 to 10" and get(): the window
       [start,stop) walked downwards from stop-1 */
    if (se < 0) for (int64_t v = sp - 1; v >= st; v += se) { snprintf(b, sizeof b, "i%" PRId64, v); ref_push(r, b, v); }
    return; }
  case N_SLICE: {
    struct seq* c = &nd->ch[0]->ref;
    int64_t st, sp, se; int open; slice_eff(nd, c->n, &st, &sp, &se, &open);
    if (se == 0) { nd->contract = 0; return; }
    if (se > 0) { for (int64_t i = st; i < sp; i += se) ref_push(r, c->it[i].s, c->it[i].val); return; }
    /* negative step over the whole iterable (reverse, slice(x,_,_,-k)): documented by reverse() and the suite */
    if (open) { for (int64_t i = sp - 1; i >= st; i += se) ref_push(r, c->it[i].s, c->it[i].val); return; }
    /* negative step with explicit bounds: the documentation example and the implementation's get() disagree about
       which window is meant; not judged against a definition, only for internal consistency (see evaluate) */
    nd->clear = 0;
    return; }
  case N_ZIP: case N_ENUM: {
    int m = nd->nch ? MAXSEQ : 0;
    for (int i = 0; i < nd->nch; i++) if (nd->ch[i]->ref.n < m) m = nd->ch[i]->ref.n;
    for (int k = 0; k < m; k++) {
      size_t o = 0; o += snprintf(b + o, sizeof b - o, "(");
      if (nd->kind == N_ENUM) o += snprintf(b + o, sizeof b - o, "i%d,", k);
      for (int i = 0; i < nd->nch && o < sizeof b - 1; i++) { o += snprintf(b + o, sizeof b - o, "%s%s", i ? "," : "", nd->ch[i]->ref.it[k].s); if (o >= sizeof b) o = sizeof b - 1; }
      if (o < sizeof b - 1) snprintf(b + o, sizeof b - o, ")");
      ref_push(r, b, nd->kind == N_ENUM ? k : nd->ch[0]->ref.it[k].val);
    }
    return; }
  case N_FILTER: {
    struct seq* c = &nd->ch[0]->ref;
    for (int i = 0; i < c->n; i++) {
      int bit = (int)(((c->it[i].val % 8) + 8) % 8);
      if ((nd->mask >> bit) & 1) ref_push(r, c->it[i].s, c->it[i].val);
    }
    return; }
  case N_MAP: {
    struct seq* c = &nd->ch[0]->ref;
    for (int i = 0; i < c->n; i++) { snprintf(b, sizeof b, "m%d(%.100s)", nd->fn, c->it[i].s); ref_push(r, b, c->it[i].val); }
    return; }
  }
}

/* which component aspects a view's aspect is defined through */
static int dep_ok(struct node* nd, int aspect) {
  for (int i = 0; i < nd->nch; i++) if (!nd->ch[i]->refvalid || !nd->ch[i]->contract) return 0;
  switch (nd->kind) {
  case N_BASE: case N_RANGE: return 1;
  case N_SLICE: {
    struct node* c = nd->ch[0];
    if (c->st[A_LEN] != ST_OK) return 0;
    int64_t st, sp, se; int open; slice_eff(nd, c->ref.n, &st, &sp, &se, &open);
    if (aspect == A_LEN) return 1;
    if (aspect == A_GET) return c->st[A_GET] == ST_OK;
    if (se == 0) return c->st[A_FWD] == ST_OK && c->st[A_BWD] == ST_OK;
    int usefwd = (aspect == A_FWD) == (se > 0);
    return c->st[usefwd ? A_FWD : A_BWD] == ST_OK; }
  case N_ZIP: case N_FILTER: case N_MAP: case N_ENUM:
    for (int i = 0; i < nd->nch; i++) if (nd->ch[i]->st[aspect] != ST_OK) return 0;
    if (nd->kind == N_ENUM && nd->ch[0]->st[A_LEN] != ST_OK) return 0;
    /* a backward Zip has to find the last common position: it may use the lengths of its inputs where they have one */
    if ((nd->kind == N_ZIP || nd->kind == N_ENUM) && aspect == A_BWD)
      for (int i = 0; i < nd->nch; i++) if (has_len(nd->ch[i]) && nd->ch[i]->st[A_LEN] != ST_OK) return 0;
    return 1;
  }
  return 0;
}

/* ---- evaluation ---------------------------------------------------------------------------- */

static void eval_keyed_leaf(struct node* nd, int rep) {
  /* Table / Tree: order unspecified (Tree: monotone).  The forward walk is validated item by item (every key of the
     universe exactly once) and then *becomes* the reference order for everything built on top of it. */
  struct seq* r = &nd->ref; r->n = 0;
  int seen[MAXN] = {0};
  volatile int cnt = 0; const char* volatile sym = NULL;
  set_phase(nd, A_FWD);
  vf.executions++;
  try {
    var it = iter_init(nd->obj);
    while (it isnt Terminal) {
      if (cnt >= nd->n + HORIZON) { sym = "nonterminating"; break; }
      int64_t v = c_int(it) - 16 * nd->bid;
      if (v < 0 || v >= nd->n) { sym = "leaves-container"; break; }
      if (seen[v]++) { sym = "wrong-item"; break; }
      reg_add(it, RC_ELEM, 16 * nd->bid + v, 0);
      char b[16]; snprintf(b, sizeof b, "e%d", (int)(16 * nd->bid + v)); ref_push(r, b, 16 * nd->bid + v);
      cnt = cnt + 1;
      it = iter_next(nd->obj, it);
    }
  } catch (e) { sym = "raises"; }
  if (!sym && cnt < nd->n) sym = "too-few";
  if (!sym && nd->ck == K_TREE) {
    int asc = 1, desc = 1;
    for (int i = 1; i < r->n; i++) { if (r->it[i].val <= r->it[i-1].val) asc = 0; if (r->it[i].val >= r->it[i-1].val) desc = 0; }
    if (!asc && !desc) sym = "not-monotone";
  }
  judged_aspects++;
  if (sym) {
    nd->st[A_FWD] = ST_BAD; nd->refvalid = 0;
    if (rep) { char sb[1024]; seq_str(r, 0, r->n, 1, sb, sizeof sb); report(nd, A_FWD, sym, "forward iteration over %d keys: [%s] then stopped (%s)", nd->n, sb, sym); }
  } else nd->st[A_FWD] = ST_OK;
}

static void evaluate(struct node* nd, int rep) {
  char sb1[1400], sb2[1400];
  for (int i = 0; i < nd->nch; i++) evaluate(nd->ch[i], 0);
  for (int a = 0; a < NASPECT; a++) nd->st[a] = ST_NA;
  compute_ref(nd);
  var obj = nd->obj;
  int keyed = nd->kind == N_BASE && (nd->ck == K_TABLE || nd->ck == K_TREE);

  if (!nd->contract) {
    /* step 0: out of contract; the only requirement is that a walk ends (Terminal or an exception) inside its container */
    if (rep) outofcontract_cases++;
    for (int dir = 0; dir < 2; dir++) {
      int a = dir ? A_BWD : A_FWD;
      if (!dep_ok(nd, a)) { nd->st[a] = ST_MASKED; masked_aspects++; continue; }
      set_phase(nd, a);
      walk(obj, dir, HORIZON, &WF);
      judged_aspects++;
      nd->st[a] = ST_OK;
      if (WF.end == END_HORIZON || WF.end == END_FOREIGN) {
        nd->st[a] = ST_BAD;
        if (rep) { seq_str(&WF, 0, WF.n, 1, sb1, sizeof sb1); report(nd, a, WF.end == END_HORIZON ? "nonterminating" : "leaves-container", "step 0 (out of contract): the walk must still end; got [%s] ending with %s", sb1, end_name(&WF)); }
      }
    }
    return;
  }

  /* len */
  uint64_t L = 0; int len_known = 0;
  if (has_len(nd) && implements_method(obj, Len, len)) {
    if (!dep_ok(nd, A_LEN)) { nd->st[A_LEN] = ST_MASKED; masked_aspects++; }
    else {
      set_phase(nd, A_LEN);
      var e; L = safe_len(obj, &e);
      judged_aspects++;
      if (e) { nd->st[A_LEN] = ST_BAD; if (rep) report(nd, A_LEN, "raises", "len raised %s", vf_exc_name(e)); }
      else { len_known = 1; nd->st[A_LEN] = ST_OK; }
    }
  }

  if (keyed) eval_keyed_leaf(nd, rep);

  /* unclear definition: derive the reference from the object's own len and get (or its forward walk) */
  if (!nd->clear) {
    struct seq* c = &nd->ch[0]->ref; struct seq* r = &nd->ref; r->n = 0;
    if (rep) unclear_cases++;
    nd->refvalid = 0;         /* until derived */
    if (!len_known) return;   /* masked by the component */
    if (L > (uint64_t)c->n) {
      nd->st[A_LEN] = ST_BAD;
      if (rep) report(nd, A_LEN, "too-large", "len is %" PRIu64 " but the underlying iterable has only %d items", (uint64_t)L, c->n);
      return;
    }
    if (has_get(nd) && implements_method(obj, Get, get) && dep_ok(nd, A_GET)) {
      set_phase(nd, A_GET);
      const char* sym = NULL; imgnext = 0;
      for (int i = 0; i < (int)L && !sym; i++) {
        var e; var g = safe_get(obj, i, &e);
        if (e) { sym = "raises"; break; }
        struct item o; resolve(g, &o);
        if (o.foreign) sym = "leaves-container";
        else if (!in_seq(c, o.s)) sym = "wrong-item";
        else if (in_seq(r, o.s)) sym = "wrong-item";
        else ref_push(r, o.s, o.val);
      }
      judged_aspects++;
      if (sym) { nd->st[A_GET] = ST_BAD; r->n = 0; if (rep) report(nd, A_GET, sym, "get(i) for i < len=%" PRIu64 " must give distinct items of the underlying iterable (%s)", (uint64_t)L, sym); return; }
      nd->st[A_GET] = ST_OK; nd->refvalid = 1;
    } else if (dep_ok(nd, A_FWD)) {
      set_phase(nd, A_FWD);
      walk(obj, 0, c->n + HORIZON, &WF);
      const char* sym = WF.end == END_HORIZON ? "nonterminating" : WF.end == END_FOREIGN ? "leaves-container" : WF.end == END_EXC ? "raises" : NULL;
      for (int i = 0; i < WF.n && !sym; i++) {
        if (!in_seq(c, WF.it[i].s) || in_seq(r, WF.it[i].s)) sym = "wrong-item"; else ref_push(r, WF.it[i].s, WF.it[i].val);
      }
      if (!sym && (uint64_t)WF.n != L) sym = (uint64_t)WF.n > L ? "too-many" : "too-few";
      judged_aspects++;
      if (sym) { nd->st[A_FWD] = ST_BAD; if (rep) { seq_str(&WF, 0, WF.n, 1, sb1, sizeof sb1); report(nd, A_FWD, sym, "forward walk [%s] (ended with %s) is not %" PRIu64 " (= len) distinct items of the underlying iterable", sb1, end_name(&WF), (uint64_t)L); } r->n = 0; return; }
      nd->refvalid = 1;
    } else { masked_aspects++; return; }
  } else if (len_known && L != (uint64_t)(nd->kind == N_BASE ? nd->n : nd->ref.n)) {
    int want = nd->kind == N_BASE ? nd->n : nd->ref.n;
    nd->st[A_LEN] = ST_BAD;
    if (rep) report(nd, A_LEN, L > (uint64_t)want ? "too-large" : "too-small", "len is %" PRIu64 ", the definition selects %d items", (uint64_t)L, want);
  }

  struct seq* E = &nd->ref;

  /* forward and backward walks */
  for (int dir = 0; dir < 2; dir++) {
    int a = dir ? A_BWD : A_FWD;
    if (keyed && !dir) continue;
    if (keyed && nd->st[A_FWD] != ST_OK) { nd->st[a] = ST_MASKED; continue; }
    if (dir && !(implements_method(obj, Iter, iter_last) && implements_method(obj, Iter, iter_prev))) continue;
    if (!dep_ok(nd, a)) { nd->st[a] = ST_MASKED; masked_aspects++; continue; }
    set_phase(nd, a);
    struct seq* W = dir ? &WB : &WF;
    uint64_t cbf = cb_foreign;
    walk(obj, dir, E->n + HORIZON, W);
    const char* sym = compare(W, E, dir);
    if (!sym && cb_foreign != cbf) sym = "callback-saw-foreign";
    judged_aspects++;
    nd->st[a] = sym ? ST_BAD : ST_OK;
    if (sym && rep) {
      seq_str(W, 0, W->n, 1, sb1, sizeof sb1);
      if (dir) seq_str(E, E->n - 1, -1, -1, sb2, sizeof sb2); else seq_str(E, 0, E->n, 1, sb2, sizeof sb2);
      report(nd, a, sym, "%s walk yields [%s] ending with %s%s%s; expected [%s] then Terminal%s", dir ? "backward" : "forward", sb1, end_name(W),
             W->end == END_EXC ? " " : "", W->end == END_EXC ? vf_exc_name(W->exc) : "", sb2, nd->clear ? "" : " (from the object's own len/get)");
    }
  }

  /* get(i) is the i-th item */
  if (nd->clear && has_get(nd) && implements_method(obj, Get, get)) {
    if (!dep_ok(nd, A_GET)) { nd->st[A_GET] = ST_MASKED; masked_aspects++; }
    else {
      set_phase(nd, A_GET);
      const char* sym = NULL; int at = -1; struct item o; imgnext = 0; o.s[0] = 0;
      for (int i = 0; i < E->n && !sym; i++) {
        var e; var g = safe_get(obj, i, &e);
        at = i;
        if (e) { sym = "raises"; snprintf(o.s, ITEMLEN, "%s", vf_exc_name(e)); break; }
        resolve(g, &o);
        if (strcmp(o.s, E->it[i].s) != 0) sym = o.foreign ? "leaves-container" : "wrong-item";
      }
      judged_aspects++;
      nd->st[A_GET] = sym ? ST_BAD : ST_OK;
      if (sym && rep) report(nd, A_GET, sym, "get(%d) gives %s, the %d-th item is %s", at, o.s, at, E->it[at].s);
    }
  }
}

/* ---- building the objects with the library's macros (continuation passing) ------------------- */

typedef void (*cont_fn)(void*);
static void build(struct node* nd, cont_fn k, void* ctx);

static void finish(struct node* nd, var obj, cont_fn k, void* ctx) {
  nd->obj = obj;
  if (nd->kind == N_RANGE) reg_add(((struct Range*)obj)->value, RC_CURSOR, 0, 0);
  if (nd->kind == N_ZIP) reg_add(((struct Zip*)obj)->values, RC_ZVALS, 0, nd->nch);
  if (nd->kind == N_ENUM) {
    struct Zip* z = obj;
    reg_add(z->values, RC_ZVALS, 0, 2);
    struct Range* r = ((struct Tuple*)z->iters)->items[0];
    reg_add(r->value, RC_CURSOR, 0, 0);
  }
  k(ctx);
}

static void build_base(struct node* nd, cont_fn k, void* ctx) {
  var e[MAXN];
  for (int i = 0; i < nd->n; i++) e[i] = elemobj[nd->bid][i == nd->dup_q ? nd->dup_p : i];
  switch (nd->ck) {
  case K_ARRAY: case K_LIST: {
    var c = nd->ck == K_ARRAY ? (var)new_raw(Array, Int) : (var)new_raw(List, Int);
    for (int i = 0; i < nd->n; i++) push(c, e[i]);
    for (int i = 0; i < nd->n; i++) reg_add(get(c, $I(i)), RC_ELEM, 16 * nd->bid + i, 0);
    finish(nd, c, k, ctx);
    del_raw(c);
    return; }
  case K_TABLE: case K_TREE: {
    var c = nd->ck == K_TABLE ? (var)new_raw(Table, Int, Int) : (var)new_raw(Tree, Int, Int);
    for (int i = 0; i < nd->n; i++) set(c, e[i], e[i]);
    finish(nd, c, k, ctx);
    del_raw(c);
    return; }
  case K_HTUPLE: {
    var c = new_raw(Tuple);
    for (int i = 0; i < nd->n; i++) push(c, e[i]);
    for (int i = 0; i < nd->n; i++) reg_add(e[i], RC_ELEM, 16 * nd->bid + (i == nd->dup_q ? nd->dup_p : i), 0);
    finish(nd, c, k, ctx);
    del_raw(c);
    return; }
  case K_TUPLE:
    for (int i = 0; i < nd->n; i++) reg_add(e[i], RC_ELEM, 16 * nd->bid + (i == nd->dup_q ? nd->dup_p : i), 0);
    switch (nd->n) {
    case 0: { var t = tuple(); finish(nd, t, k, ctx); } return;
    case 1: { var t = tuple(e[0]); finish(nd, t, k, ctx); } return;
    case 2: { var t = tuple(e[0], e[1]); finish(nd, t, k, ctx); } return;
    case 3: { var t = tuple(e[0], e[1], e[2]); finish(nd, t, k, ctx); } return;
    case 4: { var t = tuple(e[0], e[1], e[2], e[3]); finish(nd, t, k, ctx); } return;
    case 5: { var t = tuple(e[0], e[1], e[2], e[3], e[4]); finish(nd, t, k, ctx); } return;
    case 6: { var t = tuple(e[0], e[1], e[2], e[3], e[4], e[5]); finish(nd, t, k, ctx); } return;
    case 7: { var t = tuple(e[0], e[1], e[2], e[3], e[4], e[5], e[6]); finish(nd, t, k, ctx); } return;
    default: { var t = tuple(e[0], e[1], e[2], e[3], e[4], e[5], e[6], e[7]); finish(nd, t, k, ctx); } return;
    }
  }
}

static void build_self(struct node* nd, cont_fn k, void* ctx) {
  var c0 = nd->nch > 0 ? nd->ch[0]->obj : NULL;
  var c1 = nd->nch > 1 ? nd->ch[1]->obj : NULL;
  var c2 = nd->nch > 2 ? nd->ch[2]->obj : NULL;
  var A = nd->om[0] ? _ : (var)$I(nd->a[0]);
  var B = nd->om[1] ? _ : (var)$I(nd->a[1]);
  var C = nd->om[2] ? _ : (var)$I(nd->a[2]);
  switch (nd->kind) {
  case N_BASE: build_base(nd, k, ctx); return;
  case N_RANGE:
    if (nd->heap) {
      var r = nd->ar == 0 ? (var)new(Range) : nd->ar == 1 ? (var)new(Range, B) : nd->ar == 2 ? (var)new(Range, A, B) : (var)new(Range, A, B, C);
      finish(nd, r, k, ctx); del(r); return;
    }
    switch (nd->ar) {
    case 0: { var r = range(); finish(nd, r, k, ctx); } return;
    case 1: { var r = range(B); finish(nd, r, k, ctx); } return;
    case 2: { var r = range(A, B); finish(nd, r, k, ctx); } return;
    default: { var r = range(A, B, C); finish(nd, r, k, ctx); } return;
    }
  case N_SLICE:
    if (nd->heap) {
      var s = nd->ar == 0 ? (var)new(Slice, c0) : nd->ar == 1 ? (var)new(Slice, c0, B) : nd->ar == 2 ? (var)new(Slice, c0, A, B) : (var)new(Slice, c0, A, B, C);
      finish(nd, s, k, ctx); del(s); return;
    }
    if (nd->is_reverse) { var s = reverse(c0); finish(nd, s, k, ctx); return; }
    switch (nd->ar) {
    case 0: { var s = slice(c0); finish(nd, s, k, ctx); } return;
    case 1: { var s = slice(c0, B); finish(nd, s, k, ctx); } return;
    case 2: { var s = slice(c0, A, B); finish(nd, s, k, ctx); } return;
    default: { var s = slice(c0, A, B, C); finish(nd, s, k, ctx); } return;
    }
  case N_ZIP:
    if (nd->heap) {
      var z = nd->nch == 0 ? (var)new(Zip) : nd->nch == 1 ? (var)new(Zip, c0) : nd->nch == 2 ? (var)new(Zip, c0, c1) : (var)new(Zip, c0, c1, c2);
      finish(nd, z, k, ctx); del(z); return;
    }
    switch (nd->nch) {
    case 0: { var z = zip(); finish(nd, z, k, ctx); } return;
    case 1: { var z = zip(c0); finish(nd, z, k, ctx); } return;
    case 2: { var z = zip(c0, c1); finish(nd, z, k, ctx); } return;
    default: { var z = zip(c0, c1, c2); finish(nd, z, k, ctx); } return;
    }
  case N_ENUM: { var z = enumerate(c0); finish(nd, z, k, ctx); } return;
  case N_FILTER: {
    pmask[nd->slot] = nd->mask;
    if (nd->heap) { var f = new(Filter, c0, $(Function, predfn[nd->slot])); finish(nd, f, k, ctx); del(f); return; }
    var f = filter(c0, $(Function, predfn[nd->slot])); finish(nd, f, k, ctx); } return;
  case N_MAP: {
    if (nd->heap) { var m = new(Map, c0, $(Function, mapfn[nd->fn])); finish(nd, m, k, ctx); del(m); return; }
    var m = map(c0, $(Function, mapfn[nd->fn])); finish(nd, m, k, ctx); } return;
  }
}

struct bctx { struct node* nd; int idx; cont_fn k; void* ctx; };
static void build_children(void* c) {
  struct bctx* b = c;
  if (b->idx < b->nd->nch) {
    struct bctx nb = *b; nb.idx++;
    build(b->nd->ch[b->idx], build_children, &nb);
  } else build_self(b->nd, b->k, b->ctx);
}
static void build(struct node* nd, cont_fn k, void* ctx) {
  struct bctx b = { nd, 0, k, ctx };
  build_children(&b);
}

/* ---- one case ---------------------------------------------------------------------------------- */

static int next_bid, next_slot;
static void number(struct node* nd, int depth) {
  if (nd->kind == N_BASE) nd->bid = next_bid++ & 3;
  if (nd->kind == N_FILTER) nd->slot = next_slot++ % 3;
  for (int i = 0; i < nd->nch; i++) number(nd->ch[i], depth + 1);
  if ((uint64_t)depth > vf.max_depth) vf.max_depth = depth;
}

static struct node* leaf_of(struct node* nd) { while (nd->nch) nd = nd->ch[0]; return nd; }

/* non-trivial: the case selects something, and (for selecting views) not simply everything in the original order */
static int nontrivial(struct node* nd) {
  if (!nd->contract || !nd->refvalid || nd->ref.n == 0) return 0;
  for (int i = 0; i < nd->nch; i++) if (!nd->ch[i]->refvalid || !nd->ch[i]->contract) return 0;
  switch (nd->kind) {
  case N_BASE: case N_RANGE: return nd->ref.n >= 2;
  case N_SLICE: case N_FILTER: {
    struct seq* c = &nd->ch[0]->ref;
    if (nd->ref.n != c->n) return 1;
    for (int i = 0; i < c->n; i++) if (strcmp(c->it[i].s, nd->ref.it[i].s) != 0) return 1;
    return nd->kind == N_FILTER ? 0 : (nd->ch[0]->kind != N_BASE && nontrivial(nd->ch[0])); }
  case N_ZIP: return nd->nch >= 2 || nontrivial(nd->ch[0]);
  default: return 1;
  }
}

static void eval_k(void* ctx) { evaluate((struct node*)ctx, 1); }

static uint64_t ncases;
static void run_case(struct node* root) {
  char cs[512]; node_str(root, cs, sizeof cs);
  if (vf.replay && strcmp(vf.replay, cs) != 0) return;
  if ((ncases++ & 255) == 0) vf_watchdog(60);
  vf_set_cur("%s", cs);
  nregs = 0; imgnext = 0; next_bid = 0; next_slot = 0;
  number(root, 0);
  vf.phase = "construct";
  /* (the 'completed' flag, not the catch alone, decides: an exception already handled by an inner block must not count) */
  static volatile int completed;
  completed = 0;
  var e = VF_CATCH({ build(root, eval_k, root); completed = 1; });
  if (e && !completed) {
    char label[200]; snprintf(label, sizeof label, "%s/construct/raises", node_name[root->kind]);
    vf_violation(label, NULL, "constructing or evaluating the case raised %s outside any walk", vf_exc_name(e));
  }
  vf.evaluations++;
  if (nontrivial(root)) vf.nontrivial++;
  {
    char ob[1500]; size_t o = snprintf(ob, sizeof ob, "%d%d%d%d:", root->st[0], root->st[1], root->st[2], root->st[3]);
    seq_str(&root->ref, 0, root->ref.n, 1, ob + o, sizeof ob - o);
    if (vf_set_put(&outcomes, ob, 1) < 0) vf.outcomes++;
  }
  if (vf_want_sample()) {
    char sb[700]; seq_str(&root->ref, 0, root->ref.n, 1, sb, sizeof sb);
    vf_sample("%s -> [%s]", cs, sb);
  }
}

/* ---- the grids --------------------------------------------------------------------------------- */

static int maxn, amax, rmax, zmax, flmax, wide;

static struct node* base_node(int ck, int n) { struct node* b = mk(N_BASE); b->ck = ck; b->n = n; return b; }
static struct node* rangeN(int n) { struct node* r = mk(N_RANGE); r->ar = 1; r->a[1] = n; return r; }
/* an underlying iterable of kind ck (a container, or range(n) for K_RANGE) and length n */
static struct node* under(int ck, int n) { return ck == K_RANGE ? rangeN(n) : base_node(ck, n); }

static void phase_base(void) {
  for (int n = 0; n <= maxn; n++)
    for (int ck = 0; ck < NKINDS; ck++) { if (!kind_on[ck]) continue; npool = 0; run_case(base_node(ck, n)); }
  /* a Tuple holding the same object twice (every pair of positions) */
  for (int n = 2; n <= maxn && n <= 5; n++)
    for (int p = 0; p < n; p++) for (int q = p + 1; q < n; q++)
      for (int ck = K_TUPLE; ck <= K_HTUPLE; ck++) {
        if (!kind_on[ck]) continue;
        npool = 0; struct node* b = base_node(ck, n); b->dup_p = p; b->dup_q = q; run_case(b);
      }
}

/* argument domain: index 0 = omitted (_), then 0, 1, -1, 2, -2, ... (simplest first) */
static int dom_size(int m) { return 2 * m + 2; }
static void dom_get(int idx, int* om, int* v) {
  if (idx == 0) { *om = 1; *v = 0; return; }
  *om = 0; idx--; *v = (idx & 1) ? (idx + 1) / 2 : -(idx / 2);
}

static void phase_range(int heap) {
  int om, v, D = dom_size(rmax);
  npool = 0; { struct node* r = mk(N_RANGE); r->ar = 0; r->heap = heap; run_case(r); }
  for (int b = 1; b < D; b++) { npool = 0; struct node* r = mk(N_RANGE); r->ar = 1; r->heap = heap; dom_get(b, &om, &v); r->a[1] = v; run_case(r); }
  for (int ar = 2; ar <= 3; ar++)
    for (int c = 0; c < (ar == 3 ? D : 1); c++)
      for (int a = 0; a < D; a++)
        for (int b = 1; b < D; b++) {
          npool = 0; struct node* r = mk(N_RANGE); r->ar = ar; r->heap = heap;
          dom_get(a, &r->om[0], &r->a[0]); dom_get(b, &om, &r->a[1]);
          if (ar == 3) dom_get(c, &r->om[2], &r->a[2]);
          run_case(r);
        }
}

static void slices_over(int ck, int n, int heap, int bound) {
  int D = dom_size(bound);
  npool = 0; { struct node* s = mk(N_SLICE); s->ar = 0; s->heap = heap; s->nch = 1; s->ch[0] = under(ck, n); run_case(s); }
  if (!heap) { npool = 0; struct node* s = mk(N_SLICE); s->is_reverse = 1; s->ar = 3; s->nch = 1; s->ch[0] = under(ck, n); run_case(s); }
  for (int b = 0; b < D; b++) { npool = 0; struct node* s = mk(N_SLICE); s->ar = 1; s->heap = heap; s->nch = 1; s->ch[0] = under(ck, n); dom_get(b, &s->om[1], &s->a[1]); run_case(s); }
  for (int ar = 2; ar <= 3; ar++)
    for (int c = 0; c < (ar == 3 ? D : 1); c++)
      for (int a = 0; a < D; a++)
        for (int b = 0; b < D; b++) {
          npool = 0; struct node* s = mk(N_SLICE); s->ar = ar; s->heap = heap; s->nch = 1; s->ch[0] = under(ck, n);
          dom_get(a, &s->om[0], &s->a[0]); dom_get(b, &s->om[1], &s->a[1]);
          if (ar == 3) dom_get(c, &s->om[2], &s->a[2]);
          run_case(s);
        }
}

static void phase_slice(void) {
  for (int n = 0; n <= maxn; n++)
    for (int ck = 0; ck <= K_RANGE; ck++) { if (!kind_on[ck]) continue; slices_over(ck, n, 0, amax); }
}

static void phase_zip(void) {
  /* children: every enabled kind x every length 0..zmax */
  int opts[64][2], nopt = 0;
  for (int n = 0; n <= zmax; n++) for (int ck = 0; ck <= K_RANGE; ck++) if (kind_on[ck]) { opts[nopt][0] = ck; opts[nopt][1] = n; nopt++; }
  npool = 0; { struct node* z = mk(N_ZIP); run_case(z); }
  for (int i = 0; i < nopt; i++) { npool = 0; struct node* z = mk(N_ZIP); z->nch = 1; z->ch[0] = under(opts[i][0], opts[i][1]); run_case(z); }
  for (int i = 0; i < nopt; i++) for (int j = 0; j < nopt; j++) {
    npool = 0; struct node* z = mk(N_ZIP); z->nch = 2; z->ch[0] = under(opts[i][0], opts[i][1]); z->ch[1] = under(opts[j][0], opts[j][1]); run_case(z);
  }
  for (int i = 0; i < nopt; i++) for (int j = 0; j < nopt; j++) for (int l = 0; l < nopt; l++) {
    npool = 0; struct node* z = mk(N_ZIP); z->nch = 3;
    z->ch[0] = under(opts[i][0], opts[i][1]); z->ch[1] = under(opts[j][0], opts[j][1]); z->ch[2] = under(opts[l][0], opts[l][1]); run_case(z);
  }
  for (int n = 0; n <= maxn; n++) for (int ck = 0; ck <= K_RANGE; ck++) {
    if (!kind_on[ck]) continue;
    npool = 0; struct node* z = mk(N_ENUM); z->nch = 1; z->ch[0] = under(ck, n); run_case(z);
  }
}

static void phase_filter(int heap) {
  for (int n = 0; n <= flmax; n++) for (int ck = 0; ck <= K_RANGE; ck++) {
    if (!kind_on[ck]) continue;
    for (unsigned m = 0; m < (1u << n); m++) {
      npool = 0; struct node* f = mk(N_FILTER); f->nch = 1; f->heap = heap; f->ch[0] = under(ck, n); f->mask = m; run_case(f);
    }
  }
}

static void phase_map(int heap) {
  for (int n = 0; n <= maxn; n++) for (int ck = 0; ck <= K_RANGE; ck++) {
    if (!kind_on[ck]) continue;
    for (int fn = 0; fn < 2; fn++) { npool = 0; struct node* m = mk(N_MAP); m->nch = 1; m->heap = heap; m->ch[0] = under(ck, n); m->fn = fn; run_case(m); }
  }
}

/* the closed family of views used for compositions: view number v over a child; returns NULL when v is past the end */
struct sparam { int om[3], a[3]; };
static struct sparam sset[520]; static int nsset; static int cfull, cdepth;
static const unsigned fmasks[] = { 0x00, 0xff, 0xaa, 0x55, 0x66 };

static void init_sset(void) {
  nsset = 0;
  if (cfull) {
    /* the full grid {_, -3..3}^3 (simplest first) */
    for (int c = 0; c < 8; c++) for (int a = 0; a < 8; a++) for (int b = 0; b < 8; b++) {
      struct sparam p; dom_get(a, &p.om[0], &p.a[0]); dom_get(b, &p.om[1], &p.a[1]); dom_get(c, &p.om[2], &p.a[2]);
      sset[nsset++] = p;
    }
    return;
  }
  if (!wide) {
    static const struct sparam small[] = {
      {{1,1,1},{0,0,0}}, {{0,1,1},{1,0,0}}, {{1,0,1},{0,-1,0}}, {{0,0,1},{1,-1,0}}, {{1,1,0},{0,0,2}}, {{0,1,0},{1,0,2}},
      {{1,1,0},{0,0,-1}}, {{1,1,0},{0,0,-2}}, {{0,0,0},{0,3,1}}, {{0,1,0},{-3,0,1}}, {{0,0,0},{2,5,2}}, {{0,0,0},{1,4,-1}},
      {{1,1,0},{0,0,3}}, {{0,0,0},{1,-1,-2}},
    };
    for (size_t i = 0; i < sizeof small / sizeof small[0]; i++) sset[nsset++] = small[i];
    return;
  }
  static const int A[][2] = { {1,0}, {0,1}, {0,2}, {0,-2} };
  static const int B[][2] = { {1,0}, {0,-1}, {0,3}, {0,4} };
  static const int C[][2] = { {1,0}, {0,2}, {0,3}, {0,-1}, {0,-2} };
  for (int c = 0; c < 5; c++) for (int a = 0; a < 4; a++) for (int b = 0; b < 4; b++) {
    struct sparam p = { { A[a][0], B[b][0], C[c][0] }, { A[a][1], B[b][1], C[c][1] } };
    sset[nsset++] = p;
  }
}

/* number of views in the family; second = a sibling iterable for zips */
static int family_size(void) { return nsset + 5 + 2 + 3 + 1; }

static struct node* second_for(struct node* first, int shorter);

static struct node* clone_tree(struct node* nd) {
  struct node* c = mk(nd->kind); struct node* keep = c; int k = nd->kind;
  *c = *nd; (void)keep; (void)k;
  for (int i = 0; i < nd->nch; i++) c->ch[i] = clone_tree(nd->ch[i]);
  return c;
}

/* build view number v over child X (X must have len for slices / enumerate); NULL if not applicable */
static struct node* family_view(int v, struct node* X) {
  if (v < nsset) {
    if (!has_len(X)) return NULL;
    struct node* s = mk(N_SLICE); s->ar = 3; s->nch = 1; s->ch[0] = X;
    for (int i = 0; i < 3; i++) { s->om[i] = sset[v].om[i]; s->a[i] = sset[v].a[i]; }
    return s;
  }
  v -= nsset;
  if (v < 5) { struct node* f = mk(N_FILTER); f->nch = 1; f->ch[0] = X; f->mask = fmasks[v]; return f; }
  v -= 5;
  if (v < 2) { struct node* m = mk(N_MAP); m->nch = 1; m->ch[0] = X; m->fn = v; return m; }
  v -= 2;
  if (v < 3) {
    /* zip(X, list of the same length) / zip(shorter list, X) / zip(X, a second copy of the same expression over a shorter leaf) */
    struct node* z = mk(N_ZIP); z->nch = 2;
    struct node* lf = leaf_of(X); int n = lf->kind == N_BASE ? lf->n : lf->a[1];
    if (v == 0) { z->ch[0] = X; z->ch[1] = base_node(K_LIST, n); }
    if (v == 1) { z->ch[0] = base_node(K_LIST, n > 0 ? n - 1 : 0); z->ch[1] = X; }
    if (v == 2) { z->ch[0] = X; z->ch[1] = second_for(X, 1); }
    return z;
  }
  v -= 3;
  if (!has_len(X)) return NULL;
  struct node* e = mk(N_ENUM); e->nch = 1; e->ch[0] = X; return e;
}

static struct node* second_for(struct node* first, int shorter) {
  struct node* c = clone_tree(first);
  struct node* lf = leaf_of(c);
  if (lf->kind == N_BASE) { if (shorter && lf->n > 0) lf->n--; }
  else if (shorter && lf->a[1] > 0) lf->a[1]--;
  return c;
}

/* nesting depth 3 over the family without the cloning zip (at most four leaves per case) */
static void phase_compose3(void) {
  init_sset();
  int F = family_size(), ZC = nsset + 5 + 2 + 2;
  for (int n = 0; n <= maxn; n++) for (int ck = 0; ck <= K_RANGE; ck++) {
    if (!kind_on[ck]) continue;
    for (int vi = 0; vi < F; vi++) for (int vm = 0; vm < F; vm++) for (int vo = 0; vo < F; vo++) {
      if (vi == ZC || vm == ZC || vo == ZC) continue;
      npool = 0;
      struct node* inner = family_view(vi, under(ck, n));
      if (!inner) continue;
      struct node* mid = family_view(vm, inner);
      if (!mid) continue;
      struct node* outer = family_view(vo, mid);
      if (!outer) continue;
      run_case(outer);
    }
  }
}

static void phase_compose(void) {
  if (cdepth == 3) { phase_compose3(); return; }
  init_sset();
  int F = family_size();
  for (int n = 0; n <= maxn; n++) for (int ck = 0; ck <= K_RANGE; ck++) {
    if (!kind_on[ck]) continue;
    for (int vi = 0; vi < F; vi++) for (int vo = 0; vo < F; vo++) {
      npool = 0;
      struct node* inner = family_view(vi, under(ck, n));
      if (!inner) continue;
      struct node* outer = family_view(vo, inner);
      if (!outer) continue;
      run_case(outer);
    }
  }
}

/* the same views constructed on the heap with new() (same types, other constructor path) */
static void phase_heap(void) {
  phase_range(1);
  for (int n = 0; n <= maxn; n++) for (int ck = 0; ck <= K_RANGE; ck++) { if (!kind_on[ck]) continue; slices_over(ck, n, 1, amax); }
  phase_filter(1);
  phase_map(1);
  for (int n1 = 0; n1 <= zmax; n1++) for (int n2 = 0; n2 <= zmax; n2++) for (int c1 = 0; c1 <= K_RANGE; c1++) for (int c2 = 0; c2 <= K_RANGE; c2++) {
    if (!kind_on[c1] || !kind_on[c2]) continue;
    npool = 0; struct node* z = mk(N_ZIP); z->heap = 1; z->nch = 2; z->ch[0] = under(c1, n1); z->ch[1] = under(c2, n2); run_case(z);
  }
  npool = 0; { struct node* z = mk(N_ZIP); z->heap = 1; run_case(z); }
}

/* ==== phase=history: iteration after grow-then-shrink histories of every container kind ======================
**
** The grids above build their containers by insertion only.  Here each container is grown to n items and then
** emptied one removal at a time in an enumerated order (and refilled once), and after EVERY operation:
** len == number of items the forward walk yields == number the backward walk yields, backward is the exact reverse
** of forward, the items are exactly the reference model's (in order for sequences, each key once for Table, strictly
** monotone for Tree), get / mem of every yielded item agree with the model and removed keys are absent.
*/

#define HMAX 64
enum { HO_FRONT, HO_BACK, HO_MIDDLE, HO_ASC, HO_DESC, HO_INTER, HO_N };
static const char* ho_name[] = { "front", "back", "middle", "ascending", "descending", "interleaved" };
static const char* hkind_name[] = { "array", "list", "tuple", "table", "tree" };
enum { HK_ARRAY, HK_LIST, HK_TUPLE, HK_TABLE, HK_TREE, HK_N };
static var hval[HMAX * 56 + 8];          /* raw Int objects, hval[v] has value v (Tuple members, keys) */
static const char* h_op = "build";
static int h_kind;

static void h_report(const char* symptom, const char* fmt, ...) {
  char label[200], detail[900];
  snprintf(label, sizeof label, "history/%s/%s/%s", hkind_name[h_kind], h_op, symptom);
  va_list ap; va_start(ap, fmt); vsnprintf(detail, sizeof detail, fmt, ap); va_end(ap);
  vf_violation(label, NULL, "%s", detail);
}

/* model: the values present, in sequence order (sequences) or any order (maps) */
static int64_t hm[HMAX]; static int hmn;
static int hm_find(int64_t v) { for (int i = 0; i < hmn; i++) if (hm[i] == v) return i; return -1; }
static void hm_del(int i) { memmove(hm + i, hm + i + 1, (hmn - i - 1) * sizeof hm[0]); hmn--; }

static volatile int hw_n, hw_end; static int64_t hw_v[HMAX + HORIZON + 2]; static var hw_p[HMAX + HORIZON + 2];
static var hw_exc;

/* walk one direction, reading every item as an Int (under the exception net) */
static void h_walk(var c, int backward, int horizon) {
  hw_n = 0; hw_end = END_TERMINAL; hw_exc = NULL;
  vf.executions++;
  try {
    var it = backward ? iter_last(c) : iter_init(c);
    while (it isnt Terminal) {
      if (hw_n >= horizon) { hw_end = END_HORIZON; break; }
      if (it is NULL) { hw_end = END_FOREIGN; break; }
      hw_p[hw_n] = it; hw_v[hw_n] = c_int(it); hw_n = hw_n + 1;
      it = backward ? iter_prev(c, it) : iter_next(c, it);
    }
  } catch (e) { hw_end = END_EXC; hw_exc = e; }
}

static int h_check(var c, int64_t universe_lo, int64_t universe_hi, int64_t stride) {
  int seq = h_kind <= HK_TUPLE;
  static int64_t fv[HMAX + HORIZON + 2]; static var fp[HMAX + HORIZON + 2]; int fn;
  vf.states++; vf.evaluations++;
  var e; uint64_t L = safe_len(c, &e);
  if (e) { h_report("len-raises", "len raised %s", vf_exc_name(e)); return 1; }
  h_walk(c, 0, hmn + HORIZON);
  if (hw_end == END_EXC) { h_report("fwd-raises", "forward walk raised %s after %d items (model has %d)", vf_exc_name(hw_exc), hw_n, hmn); return 1; }
  if (hw_end != END_TERMINAL) { h_report("fwd-nonterminating", "forward walk still going after %d items, model has %d, len says %" PRIu64, hw_n, hmn, L); return 1; }
  fn = hw_n; memcpy(fv, hw_v, fn * sizeof fv[0]); memcpy(fp, hw_p, fn * sizeof fp[0]);
  if ((uint64_t)fn != L) { h_report("len-vs-forward-count", "len=%" PRIu64 " but forward iteration yields %d items (model has %d)", L, fn, hmn); return 1; }
  if (fn != hmn) { h_report("forward-count-vs-model", "forward iteration yields %d items, len=%" PRIu64 ", the history leaves %d", fn, L, hmn); return 1; }
  for (int i = 0; i < fn; i++) {
    if (seq) { if (fv[i] != hm[i]) { h_report("fwd-wrong-item", "item %d of the forward walk is %" PRId64 ", the history leaves %" PRId64 " there", i, fv[i], hm[i]); return 1; } }
    else {
      if (hm_find(fv[i]) < 0) { h_report("fwd-ghost-key", "forward walk yields key %" PRId64 " which was removed / never inserted", fv[i]); return 1; }
      for (int j = 0; j < i; j++) if (fv[j] == fv[i]) { h_report("fwd-duplicate-key", "forward walk yields key %" PRId64 " twice", fv[i]); return 1; }
      if (h_kind == HK_TREE && i >= 2 && ((fv[i] > fv[i-1]) != (fv[1] > fv[0]))) { h_report("fwd-not-monotone", "tree keys not monotone at position %d", i); return 1; }
    }
  }
  h_walk(c, 1, hmn + HORIZON);
  if (hw_end == END_EXC) { h_report("bwd-raises", "backward walk raised %s after %d items", vf_exc_name(hw_exc), hw_n); return 1; }
  if (hw_end != END_TERMINAL) { h_report("bwd-nonterminating", "backward walk still going after %d items, len=%" PRIu64, hw_n, L); return 1; }
  if ((uint64_t)hw_n != L) { h_report("len-vs-backward-count", "len=%" PRIu64 " but backward iteration yields %d items (forward %d)", L, hw_n, fn); return 1; }
  for (int i = 0; i < fn; i++) if (hw_p[i] != fp[fn - 1 - i]) { h_report("bwd-not-reverse", "backward walk is not the reverse of the forward walk at position %d (%" PRId64 " vs %" PRId64 ")", i, hw_v[i], fv[fn - 1 - i]); return 1; }
  /* get / mem of every yielded item; absent keys are absent */
  const char* volatile sym = NULL; volatile int64_t at = 0;
  var ge = VF_CATCH({
    for (int i = 0; i < fn && !sym; i++) {
      at = fv[i];
      if (seq) {
        if (get(c, $I(i)) != fp[i]) sym = "get-not-ith-item";
        else if (get(c, $I(i - fn)) != fp[i]) sym = "get-negative-not-ith-item";
        else if (!mem(c, hval[fv[i]])) sym = "mem-false-for-yielded-item";
      } else {
        if (!mem(c, fp[i]) || !mem(c, hval[fv[i]])) sym = "mem-false-for-yielded-key";
        else if (c_int(get(c, hval[fv[i]])) != fv[i] + 1000) sym = "get-wrong-value-for-yielded-key";
      }
    }
    for (int64_t v = universe_lo; v < universe_hi && !sym; v += stride) {
      at = v;
      if (hm_find(v) < 0 && mem(c, hval[v])) sym = "mem-true-for-removed-item";
    }
  });
  if (ge) { h_report("get-mem-raises", "get/mem of item %" PRId64 " raised %s", (int64_t)at, vf_exc_name(ge)); return 1; }
  if (sym) { h_report(sym, "item %" PRId64 ": %s (len=%" PRIu64 ")", (int64_t)at, sym, L); return 1; }
  return 0;
}

static int h_add(var c, int64_t v) {
  h_op = "build";
  var e = h_kind <= HK_TUPLE ? VF_CATCH(push(c, hval[v])) : VF_CATCH(set(c, hval[v], $I(v + 1000)));
  vf.transitions++;
  if (e) { h_report("raises", "insertion of %" PRId64 " raised %s", v, vf_exc_name(e)); return 1; }
  hm[hmn++] = v;
  return 0;
}

/* how: 0 pop, 1 pop_at(pos), 2 rem(value v); returns the exception or NULL (kept out of the history loops: setjmp) */
static var h_remove(var c, int how, int pos, int64_t v) {
  if (how == 0) return VF_CATCH(pop(c));
  if (how == 1) return VF_CATCH(pop_at(c, $I(pos)));
  return VF_CATCH(rem(c, hval[v]));
}

static void phase_history(void) {
  static const int sizes[] = { 5, 6, 11, 12, 23, 24, 54 };
  static const int strides[] = { 1, 55 };
  int hmaxn = (int)vf_param_i("hmax", 54);
  for (size_t i = 0; i < sizeof hval / sizeof hval[0]; i++) hval[i] = new_raw(Int, $I((int64_t)i));
  for (size_t si = 0; si < sizeof sizes / sizeof sizes[0]; si++) {
    int n = sizes[si];
    if (n > hmaxn) continue;
    for (int k = 0; k < HK_N; k++) for (int st = 0; st < 2; st++) for (int ord = 0; ord < HO_N; ord++) for (int refill = 0; refill < 2; refill++) {
      int64_t stride = strides[st];
      if (st == 1 && k <= HK_TUPLE) continue;             /* colliding keys only matter for the maps */
      if (!kind_on[k == HK_ARRAY ? K_ARRAY : k == HK_LIST ? K_LIST : k == HK_TUPLE ? K_HTUPLE : k == HK_TABLE ? K_TABLE : K_TREE]) continue;
      char cs[160]; snprintf(cs, sizeof cs, "history kind=%s n=%d stride=%d remove=%s%s", hkind_name[k], n, (int)stride, ho_name[ord], refill ? " then-refill-and-remove-again" : "");
      if (vf.replay && strcmp(vf.replay, cs) != 0) continue;
      vf_watchdog(60);
      vf_set_cur("%s", cs);
      h_kind = k; hmn = 0; snprintf(phasebuf, sizeof phasebuf, "history/%s", hkind_name[k]); vf.phase = phasebuf;
      var c = k == HK_ARRAY ? (var)new_raw(Array, Int) : k == HK_LIST ? (var)new_raw(List, Int) : k == HK_TUPLE ? (var)new_raw(Tuple)
            : k == HK_TABLE ? (var)new_raw(Table, Int, Int) : (var)new_raw(Tree, Int, Int);
      int bad = 0;
      h_op = "build"; bad = h_check(c, 0, n * stride, stride);
      for (int round = 0; round <= refill && !bad; round++) {
        for (int i = 0; i < n && !bad; i++) { bad = h_add(c, i * stride) || h_check(c, 0, n * stride, stride); }
        for (int step = 0; step < n && !bad; step++) {
          /* which item goes: positions refer to the current forward order, orders by value to the model */
          int64_t v = 0; int pos = -1;
          switch (ord) {
          case HO_FRONT: pos = 0; break;
          case HO_BACK: pos = hmn - 1; break;
          case HO_MIDDLE: pos = hmn / 2; break;
          case HO_ASC: v = step * stride; break;
          case HO_DESC: v = (n - 1 - step) * stride; break;
          default: v = ((step & 1) ? n - 1 - step / 2 : step / 2) * stride; break;
          }
          var e;
          if (pos >= 0 && k <= HK_TUPLE) {
            h_op = ord == HO_BACK ? "pop" : "pop_at";
            v = hm[pos];
            e = h_remove(c, ord == HO_BACK ? 0 : 1, pos, v);
          } else {
            if (pos >= 0) {
              /* the key currently first / last / in the middle of the container's own forward order */
              h_walk(c, 0, hmn + HORIZON);
              if (hw_end != END_TERMINAL || hw_n != hmn) { h_report("fwd-count", "forward walk yields %d items, model has %d", hw_n, hmn); bad = 1; break; }
              v = hw_v[pos];
            }
            h_op = "rem";
            e = h_remove(c, 2, pos, v);
          }
          vf.transitions++;
          if (e) { h_report("raises", "removing %" PRId64 " raised %s", v, vf_exc_name(e)); bad = 1; break; }
          int mi = (pos >= 0 && k <= HK_TUPLE) ? pos : hm_find(v);
          if (mi < 0) { h_report("model", "harness error: %" PRId64 " not in the model", v); bad = 1; break; }
          hm_del(mi);
          bad = h_check(c, 0, n * stride, stride);
        }
      }
      if ((uint64_t)n > vf.max_depth) vf.max_depth = n;
      ncases++;
      if (n >= 11) vf.nontrivial++;
      if (vf_want_sample()) vf_sample("%s", cs);
      del_raw(c);
    }
  }
}

/* ==== phase=assign: assign(a, b) / copy(b) of generators and views must give an independent iterator =============
**
** For Range, Slice, Zip, Filter, Map (heap objects made with new(); source b on the heap or a stack macro object):
** after assign(a, b) - and after c = copy(b) of a heap original or of a stack macro object made inside a helper that
** returns - the target walks like b in both directions, has b's len and get(i); nested iteration over target and source
** yields len*len pairs with the right values; walking target, source, target again gives the same items each time; after
** del(source) every item the target hands out is still a live object with the right value; a target assigned / copied
** from a stack object inside a helper that has returned still walks correctly; del(target) raises nothing.
*/

enum { AK_RANGE, AK_SLICE, AK_ZIP, AK_FILTER, AK_MAP, AK_N };
static const char* ak_name[] = { "range", "slice", "zip", "filter", "map" };
static var a_list, a_arr;               /* shared underlying containers (stateless cursors) */
static var a_img[64];
static var a_mapf(var x) { return a_img[c_int(x) & 63]; }
static unsigned a_mask;
static var a_pred(var x) { return ((a_mask >> (c_int(x) & 7)) & 1) ? x : NULL; }
static var a_fpred, a_fmap;             /* Function objects living in phase_assign's frame */

struct aparam { int kind; int p[4]; };   /* range: ar,start,stop,step; slice: start,stop,step (99 = omitted); zip: n,m; filter: mask; map: - */
static int64_t ae[64]; static int aen;   /* expected item codes of the parameters */

static int64_t a_code(int kind, var it) {
  if (kind == AK_ZIP) return c_int(get(it, $I(0))) * 100 + c_int(get(it, $I(1)));
  return c_int(it);
}

static void a_expect(struct aparam* q) {
  aen = 0;
  switch (q->kind) {
  case AK_RANGE: {
    int64_t st = q->p[1], sp = q->p[2], se = q->p[3];
    if (se > 0) for (int64_t v = st; v < sp; v += se) ae[aen++] = v;
    if (se < 0) for (int64_t v = sp - 1; v >= st; v += se) ae[aen++] = v;
    break; }
  case AK_SLICE: {
    int64_t n = 5, st = q->p[0] == 99 ? 0 : q->p[0], sp = q->p[1] == 99 ? n : q->p[1], se = q->p[2];
    if (se > 0) for (int64_t i = st; i < sp; i += se) ae[aen++] = i;
    if (se < 0) for (int64_t i = sp - 1; i >= st; i += se) ae[aen++] = i;
    break; }
  case AK_ZIP: { int m = q->p[0] < q->p[1] ? q->p[0] : q->p[1]; for (int i = 0; i < m; i++) ae[aen++] = i * 100 + i; break; }
  case AK_FILTER: for (int i = 0; i < 5; i++) if ((q->p[0] >> i) & 1) ae[aen++] = i; break;
  case AK_MAP: for (int i = 0; i < 5; i++) ae[aen++] = i + 1000; break;
  }
}

static var a_zl[4], a_za[4];            /* lists / arrays of length 0..3 for zips */
static int a_skip_bwd;                  /* Zip of unequal lengths backwards is the recorded finding D17: not walked here */

/* make the object described by q on the heap */
static var a_make(struct aparam* q) {
  switch (q->kind) {
  case AK_RANGE: return new(Range, $I(q->p[1]), $I(q->p[2]), $I(q->p[3]));
  case AK_SLICE: return new(Slice, a_list, q->p[0] == 99 ? _ : (var)$I(q->p[0]), q->p[1] == 99 ? _ : (var)$I(q->p[1]), $I(q->p[2]));
  case AK_ZIP: return new(Zip, a_zl[q->p[0]], a_za[q->p[1]]);
  case AK_FILTER: return new(Filter, a_list, a_fpred);
  default: return new(Map, a_list, a_fmap);
  }
}


/* assign from a stack object inside a frame that returns before the target is used */
static void __attribute__((noinline)) a_assign_from_stack(var target, struct aparam* q) {
  switch (q->kind) {
  case AK_RANGE: assign(target, range($I(q->p[1]), $I(q->p[2]), $I(q->p[3]))); break;
  case AK_SLICE: assign(target, slice(a_list, q->p[0] == 99 ? _ : (var)$I(q->p[0]), q->p[1] == 99 ? _ : (var)$I(q->p[1]), $I(q->p[2]))); break;
  case AK_ZIP: assign(target, zip(a_zl[q->p[0]], a_za[q->p[1]])); break;
  case AK_FILTER: assign(target, filter(a_list, a_fpred)); break;
  default: assign(target, map(a_list, a_fmap)); break;
  }
}

/* copy() of a stack macro object inside a frame that returns before the copy is used */
static var __attribute__((noinline)) a_copy_from_stack(struct aparam* q) {
  switch (q->kind) {
  case AK_RANGE: return copy(range($I(q->p[1]), $I(q->p[2]), $I(q->p[3])));
  case AK_SLICE: return copy(slice(a_list, q->p[0] == 99 ? _ : (var)$I(q->p[0]), q->p[1] == 99 ? _ : (var)$I(q->p[1]), $I(q->p[2])));
  case AK_ZIP: return copy(zip(a_zl[q->p[0]], a_za[q->p[1]]));
  case AK_FILTER: return copy(filter(a_list, a_fpred));
  default: return copy(map(a_list, a_fmap));
  }
}

static void __attribute__((noinline)) a_scribble(void) {
  volatile char junk[4096];
  for (size_t i = 0; i < sizeof junk; i++) junk[i] = (char)0x5a;
  (void)junk[17];
}

static int a_kind; static const char* a_src; static const char* a_scen;
static void a_report(const char* symptom, const char* fmt, ...) {
  char label[200], detail[900];
  snprintf(label, sizeof label, "assign/%s/%s/%s/%s", ak_name[a_kind], a_src, a_scen, symptom);
  va_list ap; va_start(ap, fmt); vsnprintf(detail, sizeof detail, fmt, ap); va_end(ap);
  vf_violation(label, NULL, "%s", detail);
}

/* one directed walk compared with the expected codes; returns 1 on a violation */
static volatile int aw_n; static int64_t aw_v[80]; static const char* volatile aw_bad;
static int a_walk(var x, int backward, const char* who) {
  if (backward && a_skip_bwd) return 0;
  aw_n = 0; aw_bad = NULL; vf.executions++;
  var e = VF_CATCH({
    var it = backward ? iter_last(x) : iter_init(x);
    while (it isnt Terminal) {
      if (aw_n >= aen + HORIZON) { aw_bad = "nonterminating"; break; }
      if (it is NULL) { aw_bad = "null-item"; break; }
      aw_v[aw_n] = a_code(a_kind, it); aw_n = aw_n + 1;
      it = backward ? iter_prev(x, it) : iter_next(x, it);
    }
  });
  if (e) { a_report("raises", "%s %s walk raised %s after %d items (an item it handed out is not a live object?)", who, backward ? "backward" : "forward", vf_exc_name(e), aw_n); return 1; }
  if (aw_bad) { a_report(aw_bad, "%s %s walk: %s after %d items, expected %d", who, backward ? "backward" : "forward", aw_bad, aw_n, aen); return 1; }
  if (aw_n != aen) { a_report(aw_n > aen ? "too-many" : "too-few", "%s %s walk yields %d items, expected %d", who, backward ? "backward" : "forward", aw_n, aen); return 1; }
  for (int i = 0; i < aen; i++) if (aw_v[i] != ae[backward ? aen - 1 - i : i]) { a_report("wrong-item", "%s %s walk: item %d is %" PRId64 ", expected %" PRId64, who, backward ? "backward" : "forward", i, aw_v[i], ae[backward ? aen - 1 - i : i]); return 1; }
  return 0;
}

static int a_len(var x, const char* who) {
  if (a_kind == AK_FILTER) return 0;
  var e; uint64_t l = safe_len(x, &e);
  if (e) { a_report("len-raises", "%s: len raised %s", who, vf_exc_name(e)); return 1; }
  if (l != (uint64_t)aen) { a_report("len", "%s: len=%" PRIu64 ", expected %d", who, l, aen); return 1; }
  return 0;
}

/* get(x, i) is the i-th item (kinds with a positional get) */
static int a_gets(var x, const char* who) {
  if (a_kind == AK_FILTER) return 0;
  static volatile int at; static volatile int64_t got; static const char* volatile bad; bad = NULL;
  var e = VF_CATCH({
    for (at = 0; at < aen; at = at + 1) { vf.executions++; got = a_code(a_kind, get(x, $I(at))); if (got != ae[at]) { bad = "get-wrong-item"; break; } }
  });
  if (e) { a_report("get-raises", "%s: get(%d) raised %s", who, at, vf_exc_name(e)); return 1; }
  if (bad) { a_report(bad, "%s: get(%d) gives %" PRId64 ", expected %" PRId64, who, at, (int64_t)got, ae[at]); return 1; }
  return 0;
}

/* for x in outer { for y in inner } must give |outer| * |inner| pairs with the right values */
static int a_nested(var outer, var inner, const char* who) {
  static volatile int no, pairs; static const char* volatile bad; static volatile int64_t gx, gy, wx, wy;
  no = 0; pairs = 0; bad = NULL; vf.executions++;
  var e = VF_CATCH({
    for (var x = iter_init(outer); x isnt Terminal && !bad; x = iter_next(outer, x)) {
      if (no >= aen + HORIZON) { bad = "nonterminating"; break; }
      int ni = 0;
      for (var y = iter_init(inner); y isnt Terminal; y = iter_next(inner, y)) {
        if (ni >= aen + HORIZON) { bad = "nonterminating"; break; }
        int64_t cy = a_code(a_kind, y);
        if (ni >= aen || cy != ae[ni]) { bad = "inner-wrong-item"; gy = cy; wy = ni < aen ? ae[ni] : -1; break; }
        int64_t cx = a_code(a_kind, x);          /* the outer item must still be what it was */
        if (no >= aen || cx != ae[no]) { bad = "outer-item-clobbered"; gx = cx; wx = no < aen ? ae[no] : -1; break; }
        ni++; pairs = pairs + 1;
      }
      if (!bad && ni != aen) { bad = "inner-count"; gy = ni; }
      no = no + 1;
    }
  });
  if (e) { a_report("nested-raises", "%s: nested iteration raised %s after %d pairs", who, vf_exc_name(e), pairs); return 1; }
  if (!bad && (no != aen || pairs != aen * aen)) bad = "pair-count";
  if (bad) { a_report(bad, "%s: nested iteration gave %d outer steps and %d pairs, expected %d and %d (got %" PRId64 "/%" PRId64 ", expected %" PRId64 "/%" PRId64 ")", who, no, pairs, aen, aen * aen, (int64_t)gx, (int64_t)gy, (int64_t)wx, (int64_t)wy); return 1; }
  return 0;
}

static var a_new(struct aparam* q) { return a_make(q); }

static void a_case(struct aparam* q, struct aparam* other, int src, int scen) {
  /* src: 0 assign from a heap source, 1 assign from a stack source in a returned frame, 2 copy(heap original), 3 copy(stack original) in a returned frame */
  static const char* srcn[] = { "heap-source", "stack-source", "copy", "copy-of-stack" };
  static const char* scn[] = { "walks", "nested", "sequential", "del-source" };
  char cs[200];
  snprintf(cs, sizeof cs, "assign kind=%s params=%d,%d,%d,%d source=%s scenario=%s", ak_name[q->kind], q->p[0], q->p[1], q->p[2], q->p[3], srcn[src], scn[scen]);
  if (vf.replay && strcmp(vf.replay, cs) != 0) return;
  if ((src == 1 || src == 3) && scen != 0) return;   /* a stack source is gone after the helper: only the target is walked */
  if ((ncases++ & 63) == 0) vf_watchdog(60);
  vf_set_cur("%s", cs);
  a_kind = q->kind; a_src = srcn[src]; a_scen = scn[scen];
  snprintf(phasebuf, sizeof phasebuf, "assign/%s/%s/%s", ak_name[a_kind], a_src, a_scen); vf.phase = phasebuf;
  if (q->kind == AK_FILTER) a_mask = q->p[0];
  a_skip_bwd = q->kind == AK_ZIP && q->p[0] != q->p[1];
  a_expect(q);
  vf.evaluations++; if (aen >= 2) vf.nontrivial++;
  volatile var a = NULL; volatile var b = NULL;
  int bad = 0;
  var e = VF_CATCH({
    if (src == 2) { b = a_new(q); a = copy((var)b); }
    else if (src == 3) { a = a_copy_from_stack(q); a_scribble(); }
    else {
      a = a_new(other);                              /* a target that was something else before */
      if (q->kind == AK_FILTER) a_mask = q->p[0];
      if (src == 0) { b = a_new(q); assign((var)a, (var)b); }
      else { a_assign_from_stack((var)a, q); a_scribble(); }
    }
  });
  if (e) { a_report("construct-raises", "new / assign / copy raised %s", vf_exc_name(e)); return; }
  switch (scen) {
  case 0:
    bad = a_len((var)a, "target") || a_walk((var)a, 0, "target") || a_walk((var)a, 1, "target") || a_gets((var)a, "target") || a_walk((var)a, 0, "target after get");
    if (!bad && b) bad = a_len((var)b, "source") || a_walk((var)b, 0, "source after the assignment") || a_walk((var)b, 1, "source after the assignment") || a_gets((var)b, "source");
    break;
  case 1:
    bad = a_nested((var)a, (var)b, "for x in target { for y in source }") || a_nested((var)b, (var)a, "for x in source { for y in target }");
    break;
  case 2:
    bad = a_walk((var)a, 0, "target (1st)") || a_walk((var)b, 0, "source") || a_walk((var)a, 0, "target (2nd)") || a_walk((var)b, 1, "source") || a_walk((var)a, 1, "target (3rd)");
    break;
  case 3: {
    var de = VF_CATCH(del((var)b)); b = NULL;
    if (de) { a_report("del-raises", "del(source) raised %s", vf_exc_name(de)); bad = 1; break; }
    /* let the allocator reuse what was released */
    var junk[6]; for (int i = 0; i < 6; i++) junk[i] = new(Int, $I(777000 + i));
    bad = a_len((var)a, "target after del(source)") || a_walk((var)a, 0, "target after del(source)") || a_walk((var)a, 1, "target after del(source)");
    /* objects allocated after the del must be untouched by the target's walks (a cursor living in a released block would alias them) */
    for (int i = 0; i < 6 && !bad; i++) if (((struct Int*)junk[i])->val != 777000 + i) {
      a_report("unrelated-object-clobbered", "an Int allocated after del(source) changed from %d to %" PRId64 " while the target was walked: the target's cursor lives in released memory", 777000 + i, ((struct Int*)junk[i])->val);
      bad = 1;
    }
    for (int i = 0; i < 6; i++) del(junk[i]);
    break; }
  }
  var ce = VF_CATCH({ if (a) del((var)a); if (b) del((var)b); });
  if (ce && !bad) a_report("del-raises", "deleting target and source afterwards raised %s", vf_exc_name(ce));
  if (!ce && !bad && (src == 2 || src == 3)) {
    /* a collection after del(copy) must find nothing half-built: allocate until the collector has had reason to run */
    var ge = VF_CATCH({ for (int i = 0; i < 40; i++) { var t = new(Int, $I(i)); del(t); } });
    if (ge) a_report("collection-after-del-raises", "allocating after del(copy) raised %s", vf_exc_name(ge));
  }
  if (vf_want_sample()) vf_sample("%s", cs);
}

static void a_init(void) {
  a_list = new_raw(List, Int); a_arr = new_raw(Array, Int);
  for (int i = 0; i < 5; i++) { push(a_list, $I(i)); push(a_arr, $I(i)); }
  for (int i = 0; i < 64; i++) a_img[i] = new_raw(Int, $I(i + 1000));
  for (int n = 0; n < 4; n++) { a_zl[n] = new_raw(List, Int); a_za[n] = new_raw(Array, Int); for (int i = 0; i < n; i++) { push(a_zl[n], $I(i)); push(a_za[n], $I(i)); } }
}

static void phase_assign(void) {
  a_fpred = $(Function, a_pred); a_fmap = $(Function, a_mapf);
  a_init();
  static struct aparam P[96]; int np = 0;
  /* Range: every (start, stop, step) of a small grid */
  static const int rs[][3] = { {0,0,1}, {0,1,1}, {0,3,1}, {0,5,1}, {1,5,2}, {0,5,2}, {0,5,-1}, {0,5,-2}, {-2,3,1}, {2,9,3}, {0,7,3} };
  for (size_t i = 0; i < sizeof rs / sizeof rs[0]; i++) { struct aparam q = { AK_RANGE, { 3, rs[i][0], rs[i][1], rs[i][2] } }; P[np++] = q; }
  static const int ss[][3] = { {99,99,1}, {1,4,1}, {99,99,2}, {1,99,2}, {99,99,-1}, {99,99,-2}, {0,0,1}, {99,3,1}, {2,99,1} };
  for (size_t i = 0; i < sizeof ss / sizeof ss[0]; i++) { struct aparam q = { AK_SLICE, { ss[i][0], ss[i][1], ss[i][2], 0 } }; P[np++] = q; }
  for (int n = 0; n < 4; n++) for (int m = 0; m < 4; m++) { struct aparam q = { AK_ZIP, { n, m, 0, 0 } }; P[np++] = q; }
  static const int fm[] = { 0x00, 0x1f, 0x0a, 0x15, 0x01, 0x10 };
  for (size_t i = 0; i < sizeof fm / sizeof fm[0]; i++) { struct aparam q = { AK_FILTER, { fm[i], 0, 0, 0 } }; P[np++] = q; }
  { struct aparam q = { AK_MAP, { 0, 0, 0, 0 } }; P[np++] = q; }
  struct aparam other[AK_N] = { { AK_RANGE, { 3, 0, 2, 1 } }, { AK_SLICE, { 3, 4, 1, 0 } }, { AK_ZIP, { 1, 2, 0, 0 } }, { AK_FILTER, { 0x04, 0, 0, 0 } }, { AK_MAP, { 0, 0, 0, 0 } } };
  for (int scen = 0; scen < 4; scen++) for (int src = 0; src < 4; src++) for (int i = 0; i < np; i++)
    a_case(&P[i], &other[P[i].kind], src, scen);
}

/* ==== phase=midop: a refused operation in the middle of an iteration ==========================================
**
** For every iterable kind, every direction and every position p: walk to p (holding item p), perform one call the
** kind must refuse (index len, -len-1, far out, INT64 limits; absent key / element; wrong-typed key or value; pop_at /
** push_at out of range; a resize it cannot honour; a method the kind does not have; mutating a stack Tuple), demand an
** exception from the accept set of that failure kind, then finish the walk: the held item still reads the same, the
** remaining items and the total count are exactly those of the undisturbed walk, len is unchanged.  A *successful*
** get in the middle is required not to disturb containers; for kinds whose get shares its cursor with iteration
** (Range, Slice, Zip, Map) its effect is only recorded (evidence key successful_get_moves_iteration), not judged.
*/

enum { MK_ARRAY, MK_LIST, MK_TUPLE, MK_STUPLE, MK_TABLE, MK_TREE, MK_RANGE, MK_NEWRANGE, MK_SLICE, MK_NEWSLICE, MK_ZIP, MK_FILTER, MK_MAP, MK_N };
static const char* mk_name[] = { "array", "list", "tuple", "stack-tuple", "table", "tree", "range", "new-range", "slice", "new-slice", "zip", "filter", "map" };
enum { MC_INDEX, MC_ABSENT_ELEM, MC_ABSENT_KEY, MC_WRONG_TYPE, MC_RESIZE, MC_NO_METHOD, MC_STACK, MC_OK };
enum { MO_GET_LEN, MO_GET_NEG, MO_GET_MAX, MO_GET_MIN, MO_GET_LEN3, MO_GET_FAR, MO_GET_NEGFAR, MO_SET_LEN, MO_POPAT_LEN, MO_POPAT_NEG, MO_PUSHAT_FAR, MO_PUSHAT_NEGFAR,
       MO_REM_ABSENT_ELEM, MO_GET_STRKEY, MO_GET_ABSENT_KEY, MO_REM_ABSENT_KEY, MO_SET_STRKEY, MO_SET_STRVAL, MO_REM_STRKEY, MO_RESIZE_LESS,
       MO_SET_NOMETHOD, MO_PUSH_STACK, MO_POPAT_STACK, MO_GET_NOMETHOD, MO_OKGET_FIRST, MO_OKGET_LAST, MO_N };
static const struct { const char* name; int cls; } mo[] = {
  { "get(len)", MC_INDEX }, { "get(-len-1)", MC_INDEX }, { "get(INT64_MAX)", MC_INDEX }, { "get(INT64_MIN)", MC_INDEX }, { "get(len+3)", MC_INDEX },
  { "get(1000000)", MC_INDEX }, { "get(-1000000)", MC_INDEX }, { "set(len,v)", MC_INDEX }, { "pop_at(len)", MC_INDEX }, { "pop_at(-len-1)", MC_INDEX },
  { "push_at(v,len+3)", MC_INDEX }, { "push_at(v,-len-3)", MC_INDEX }, { "rem(absent-element)", MC_ABSENT_ELEM }, { "get(String-key)", MC_WRONG_TYPE },
  { "get(absent-key)", MC_ABSENT_KEY }, { "rem(absent-key)", MC_ABSENT_KEY }, { "set(String-key,v)", MC_WRONG_TYPE }, { "set(k,String-value)", MC_WRONG_TYPE },
  { "rem(String-key)", MC_WRONG_TYPE }, { "resize(len-1)", MC_RESIZE }, { "set(0,v)-no-such-method", MC_NO_METHOD }, { "push-on-stack-tuple", MC_STACK },
  { "pop_at(0)-on-stack-tuple", MC_STACK }, { "get(0)-no-such-method", MC_NO_METHOD }, { "successful-get(first)", MC_OK }, { "successful-get(last)", MC_OK },
};
static int m_rangeneg;                    /* judge get(-len-1) / get(-1000000) on Range and Slice too (see proposed/D29) */
static int m_zipget;                      /* judge a refused get on a Zip whose earlier input is longer (see proposed/D30) */
static uint64_t m_zip_partial;
static int m_sliceget;                    /* run (and judge) a successful get in the middle of a Slice iteration (see proposed/D31) */
static int m_kind; static int64_t m_first_key, m_last_key;
static uint64_t m_okget_moved[MK_N], m_okget_seen[MK_N];

static int m_applies(int k, int op, int n, int sized) {
  switch (k) {
  case MK_ARRAY: case MK_LIST: case MK_TUPLE:
    return op <= MO_GET_LEN3 || (op >= MO_SET_LEN && op <= MO_GET_STRKEY) || ((op == MO_OKGET_FIRST || op == MO_OKGET_LAST) && n > 0);
  case MK_STUPLE:
    return op <= MO_GET_LEN3 || op == MO_SET_LEN || op == MO_REM_ABSENT_ELEM || op == MO_GET_STRKEY || op == MO_PUSH_STACK || op == MO_POPAT_STACK || ((op == MO_OKGET_FIRST || op == MO_OKGET_LAST) && n > 0);
  case MK_TABLE: case MK_TREE:
    return (op >= MO_GET_STRKEY && op <= MO_REM_STRKEY) || (op == MO_RESIZE_LESS && n >= 2) || ((op == MO_OKGET_FIRST || op == MO_OKGET_LAST) && n > 0);
  case MK_RANGE: case MK_NEWRANGE: case MK_SLICE: case MK_NEWSLICE:
    if (op == MO_GET_NEG || op == MO_GET_NEGFAR) return m_rangeneg;
    if ((op == MO_OKGET_FIRST || op == MO_OKGET_LAST) && (k == MK_SLICE || k == MK_NEWSLICE) && !m_sliceget) return 0;
    return op == MO_GET_LEN || op == MO_GET_LEN3 || op == MO_GET_FAR || op == MO_GET_STRKEY || op == MO_SET_NOMETHOD || ((op == MO_OKGET_FIRST || op == MO_OKGET_LAST) && n > 0);
  case MK_ZIP: case MK_MAP:
    return op <= MO_GET_LEN3 || op == MO_SET_NOMETHOD || ((op == MO_OKGET_FIRST || op == MO_OKGET_LAST) && n > 0);
  case MK_FILTER:
    return op == MO_GET_NOMETHOD || op == MO_SET_NOMETHOD;
  }
  return 0;
}

static int m_accepts(int cls, var e) {
  switch (cls) {
  case MC_INDEX: return e == IndexOutOfBoundsError;
  case MC_ABSENT_ELEM: return e == ValueError || e == KeyError;
  case MC_ABSENT_KEY: return e == KeyError;
  case MC_WRONG_TYPE: return e == ValueError || e == TypeError || e == ClassError;
  case MC_RESIZE: return e == FormatError || e == ResourceError || e == ValueError;
  case MC_NO_METHOD: return e == ClassError;
  case MC_STACK: return e == ValueError || e == ResourceError;
  default: return e == NULL;
  }
}

/* perform the call; the exception (or NULL) is the result (kept out of the loops: setjmp) */
static var m_do(var x, int op, int64_t n) {
  int map = m_kind == MK_TABLE || m_kind == MK_TREE;
  switch (op) {
  case MO_GET_LEN: return VF_CATCH(get(x, $I(n)));
  case MO_GET_NEG: return VF_CATCH(get(x, $I(-n - 1)));
  case MO_GET_MAX: return VF_CATCH(get(x, $I(INT64_MAX)));
  case MO_GET_MIN: return VF_CATCH(get(x, $I(INT64_MIN)));
  case MO_GET_LEN3: return VF_CATCH(get(x, $I(n + 3)));
  case MO_GET_FAR: return VF_CATCH(get(x, $I(1000000)));
  case MO_GET_NEGFAR: return VF_CATCH(get(x, $I(-1000000)));
  case MO_SET_LEN: return VF_CATCH(set(x, $I(n), $I(5)));
  case MO_POPAT_LEN: return VF_CATCH(pop_at(x, $I(n)));
  case MO_POPAT_NEG: return VF_CATCH(pop_at(x, $I(-n - 1)));
  case MO_PUSHAT_FAR: return VF_CATCH(push_at(x, $I(9), $I(n + 3)));
  case MO_PUSHAT_NEGFAR: return VF_CATCH(push_at(x, $I(9), $I(-n - 3)));
  case MO_REM_ABSENT_ELEM: return VF_CATCH(rem(x, $I(777)));
  case MO_GET_STRKEY: return VF_CATCH(get(x, $S("x")));
  case MO_GET_ABSENT_KEY: return VF_CATCH(get(x, $I(777)));
  case MO_REM_ABSENT_KEY: return VF_CATCH(rem(x, $I(777)));
  case MO_SET_STRKEY: return VF_CATCH(set(x, $S("x"), $I(1)));
  case MO_SET_STRVAL: return VF_CATCH(set(x, $I(m_first_key), $S("x")));
  case MO_REM_STRKEY: return VF_CATCH(rem(x, $S("x")));
  case MO_RESIZE_LESS: return VF_CATCH(resize(x, (size_t)(n - 1)));
  case MO_SET_NOMETHOD: return VF_CATCH(set(x, $I(0), $I(1)));
  case MO_PUSH_STACK: return VF_CATCH(push(x, $I(1)));
  case MO_POPAT_STACK: return VF_CATCH(pop_at(x, $I(0)));
  case MO_GET_NOMETHOD: return VF_CATCH(get(x, $I(0)));
  case MO_OKGET_FIRST: return map ? VF_CATCH(get(x, $I(m_first_key))) : VF_CATCH(get(x, $I(0)));
  case MO_OKGET_LAST: return map ? VF_CATCH(get(x, $I(m_last_key))) : VF_CATCH(get(x, $I(n - 1)));
  }
  return NULL;
}

static int64_t m_code(var it) {
  if (m_kind == MK_ZIP) return c_int(get(it, $I(0))) * 100 + c_int(get(it, $I(1)));
  return c_int(it);
}

/* walk in one direction; at position p (holding item p) run `op` (op < 0: undisturbed); items -> mv[], count -> return, -1 on trouble */
static int64_t mv[64]; static const char* volatile m_sym; static volatile int64_t m_held_before, m_held_after; static var m_opexc; static volatile int m_opdone;
static int m_walk(var x, int backward, int p, int op, int64_t n, int horizon) {
  static volatile int cnt; cnt = 0; m_sym = NULL; m_opdone = 0; m_opexc = NULL;
  vf.executions++;
  var e = VF_CATCH({
    var it = backward ? iter_last(x) : iter_init(x);
    while (it isnt Terminal) {
      if (cnt >= horizon) { m_sym = "nonterminating"; break; }
      if (it is NULL) { m_sym = "null-item"; break; }
      mv[cnt] = m_code(it);
      if (op >= 0 && cnt == p) {
        m_held_before = mv[cnt];
        m_opexc = m_do(x, op, n);
        m_opdone = 1;
        m_held_after = m_code(it);
      }
      cnt = cnt + 1;
      it = backward ? iter_prev(x, it) : iter_next(x, it);
    }
  });
  if (e && !m_sym) m_sym = "walk-raises";
  return m_sym ? -1 : cnt;
}

static void m_report(const char* dir, const char* opname, const char* symptom, const char* fmt, ...) {
  char label[200], detail[900];
  snprintf(label, sizeof label, "midop/%s/%s/%s/%s", mk_name[m_kind], opname, dir, symptom);
  va_list ap; va_start(ap, fmt); vsnprintf(detail, sizeof detail, fmt, ap); va_end(ap);
  vf_violation(label, NULL, "%s", detail);
}

static void m_run(var x, const char* params) {
  static int64_t base[2][64]; int bn[2];
  int sized = implements_method(x, Len, len) && m_kind != MK_FILTER;
  char cs[240];
  snprintf(phasebuf, sizeof phasebuf, "midop/%s", mk_name[m_kind]); vf.phase = phasebuf;
  vf_set_cur("midop kind=%s %s undisturbed", mk_name[m_kind], params);
  for (int d = 0; d < 2; d++) {
    int c = m_walk(x, d, -1, -1, 0, 40);
    if (c < 0) { m_report(d ? "bwd" : "fwd", "undisturbed", m_sym, "the undisturbed walk failed (%s)", m_sym); return; }
    bn[d] = c; memcpy(base[d], mv, c * sizeof mv[0]);
  }
  int64_t n = bn[0];
  if (sized) { var e; uint64_t l = safe_len(x, &e); if (e || l != (uint64_t)n) { m_report("fwd", "undisturbed", "len", "len disagrees with the undisturbed forward walk"); return; } }
  if (n > 0) { m_first_key = base[0][0]; m_last_key = base[0][n - 1]; }
  for (int d = 0; d < 2; d++) for (int p = 0; p < bn[d]; p++) for (int op = 0; op < MO_N; op++) {
    if (!m_applies(m_kind, op, (int)n, sized)) continue;
    snprintf(cs, sizeof cs, "midop kind=%s %s dir=%s at=%d op=%s", mk_name[m_kind], params, d ? "bwd" : "fwd", p, mo[op].name);
    if (vf.replay && strcmp(vf.replay, cs) != 0) continue;
    if ((ncases++ & 255) == 0) vf_watchdog(60);
    vf_set_cur("%s", cs);
    vf.evaluations++; if (bn[d] >= 2) vf.nontrivial++;
    const char* dn = d ? "bwd" : "fwd";
    int shared = mo[op].cls == MC_OK && (m_kind >= MK_RANGE && m_kind != MK_FILTER) && !(m_sliceget && (m_kind == MK_SLICE || m_kind == MK_NEWSLICE));
    int c = m_walk(x, d, p, op, n, bn[d] + HORIZON);
    if (!m_opdone) { m_report(dn, mo[op].name, "position-not-reached", "the walk ended before position %d", p); continue; }
    if (!m_accepts(mo[op].cls, m_opexc)) {
      m_report(dn, mo[op].name, m_opexc ? "wrong-exception" : "no-exception", "%s in the middle of the iteration gave %s", mo[op].name, vf_exc_name(m_opexc));
      continue;
    }
    int moved = c != bn[d] || m_held_after != m_held_before;
    for (int i = 0; i < c && i < bn[d] && !moved; i++) if (mv[i] != base[d][i]) moved = 1;
    if (shared) { m_okget_seen[m_kind]++; if (moved) m_okget_moved[m_kind]++; continue; }
    if (m_kind == MK_ZIP && mo[op].cls == MC_INDEX && !m_zipget && (moved || c < 0)) { m_zip_partial++; continue; }
    if (m_held_after != m_held_before) { m_report(dn, mo[op].name, "held-item-changed", "the item held at position %d read %" PRId64 " before and %" PRId64 " after %s (%s)", p, (int64_t)m_held_before, (int64_t)m_held_after, mo[op].name, vf_exc_name(m_opexc)); continue; }
    if (c < 0) { m_report(dn, mo[op].name, m_sym, "after %s at position %d the walk failed: %s", mo[op].name, p, m_sym); continue; }
    if (c != bn[d]) { m_report(dn, mo[op].name, c < bn[d] ? "iteration-ends-early" : "iteration-too-long", "after %s (%s) at position %d the walk yields %d items in all, %d without the call", mo[op].name, vf_exc_name(m_opexc), p, c, bn[d]); continue; }
    if (moved) { m_report(dn, mo[op].name, "remaining-items-differ", "after %s at position %d the remaining items differ from the undisturbed walk", mo[op].name, p); continue; }
    if (sized) { var e; uint64_t l = safe_len(x, &e); if (e || l != (uint64_t)n) { m_report(dn, mo[op].name, "len-changed", "len is %" PRIu64 " after the refused call, %" PRId64 " before", l, n); continue; } }
    if (vf_want_sample()) vf_sample("%s -> %s, walk unchanged (%d items)", cs, vf_exc_name(m_opexc), c);
  }
}

/* ==== phase=midop, second part (shrunk=1): the underlying container changes length AFTER the view was built ====
**
** A Slice caches the length of its underlying iterable when it is constructed.  When the container is shortened afterwards
** (pop, pop_at / rem, resize) an index inside the Slice's own window is refused by the *container* - after Range_Get has
** already worked on the cursor the Slice shares with its iteration - instead of by the Slice.  For every container kind that
** can shrink, every view shape below (built first), every change of length (applied second) and both directions, the view is
** walked with one get(target, i) at one position - for every position, every target (the view itself and the Slices inside
** it) and every i in [-len-2 .. len+2], refused or accepted - and once more with all those calls at every position.
** The oracle is differential only (nothing about a view over a container of another length is taken from a definition):
** the disturbed walk yields exactly the items (objects and values) of the undisturbed walk of the same view over the same
** container, the held item reads the same before and after the call, and the call itself raises what / returns the object
** that the same call does with no iteration in progress.  A successful get on a Zip or Map moves their iteration on the
** current tree (existing behaviour, see successful_get_moves_iteration): on those only refused calls are made.
** Which walks are well defined at all is decided beforehand on a probe container (PSeq, a user-defined iterable of the
** same length history) that records whether the view ever hands Terminal or a pointer that is not one of its items back to
** iter_next / iter_prev: shapes that do (the stale window makes the Slice step through the end) are skipped and counted.
*/

struct PSeq { int64_t n; int64_t unsafe; var items[16]; };
static int64_t PSeq_Find(struct PSeq* s, var curr) { for (int64_t i = 0; i < s->n; i++) if (s->items[i] == curr) return i; return -1; }
static size_t PSeq_Len(var self) { return (size_t)((struct PSeq*)self)->n; }
static var PSeq_Get(var self, var key) {
  struct PSeq* s = self; int64_t i = c_int(key);
  if (i < 0) i += s->n;
  if (i < 0 || i >= s->n) return throw(IndexOutOfBoundsError, "index %i out of bounds for the probe sequence", key);
  return s->items[i];
}
static var PSeq_Iter_Init(var self) { struct PSeq* s = self; return s->n ? s->items[0] : Terminal; }
static var PSeq_Iter_Last(var self) { struct PSeq* s = self; return s->n ? s->items[s->n - 1] : Terminal; }
static var PSeq_Iter_Next(var self, var curr) {
  struct PSeq* s = self; int64_t i = PSeq_Find(s, curr);
  if (i < 0) { s->unsafe = 1; return Terminal; }
  return i + 1 < s->n ? s->items[i + 1] : Terminal;
}
static var PSeq_Iter_Prev(var self, var curr) {
  struct PSeq* s = self; int64_t i = PSeq_Find(s, curr);
  if (i < 0) { s->unsafe = 1; return Terminal; }
  return i > 0 ? s->items[i - 1] : Terminal;
}
static var PSeq_Iter_Type(var self) { return Int; }
var PSeq = Cello(PSeq,
  Instance(Len, PSeq_Len),
  Instance(Get, PSeq_Get, NULL, NULL, NULL, NULL, NULL),
  Instance(Iter, PSeq_Iter_Init, PSeq_Iter_Next, PSeq_Iter_Last, PSeq_Iter_Prev, PSeq_Iter_Type));

enum { SK_ARRAY, SK_LIST, SK_TUPLE, SK_TABLE, SK_TREE, SK_N };
static const char* sk_name[] = { "array", "list", "tuple", "table", "tree" };
enum { MU_NONE, MU_POP1, MU_POP2, MU_FRONT, MU_MID, MU_RESIZE, MU_PUSH1, MU_PUSH2, MU_N };
static const char* mu_name[] = { "unchanged", "pop1", "pop2", "remove-front", "remove-middle", "resize-less", "push1", "push2" };
static const int mu_delta[] = { 0, -1, -2, -1, -1, -1, 1, 2 };
enum { SH_SLICE, SH_SLICE2, SH_ZIP_SL, SH_ZIP_LS, SH_ZIP_SS, SH_MAP, SH_FILTER, SH_N };
static const char* sh_name[] = { "slice", "slice-of-slice", "zip(slice,list)", "zip(list,slice)", "zip(slice,slice)", "map(slice)", "filter(slice)" };
#define S_IDX 40
#define S_WMAX 24

struct scase { int kind, n, mut, shape, heap; const int* p1; const int* p2; unsigned mask; };
struct sget { var exc; var ptr; int64_t val; };
static struct { int nt; var tgt[3]; const char* tname[3]; int all[3]; int len[3], lo[3], hi[3]; struct sget g[3][S_IDX]; } s_t;
static int s_margin = 1;                           /* indices tried: -len-margin .. len+margin */
static int s_pairs;                                /* the walked view yields pairs (a Zip) */
static var s_L[12];                                /* untouched lists of length 0..11, partners of the Zips */
static uint64_t s_skipped_walks, s_judged_walks, s_refused_calls, s_accepted_calls, s_shapes, s_unstable;
static uint64_t s_refused_by_container;

static int64_t s_code(var it) {
  if (s_pairs) return c_int(get(it, $I(0))) * 1000 + c_int(get(it, $I(1)));
  return c_int(it);
}

/* one get(target t, i); the outcome is compared with the same call made while no iteration was in progress */
static const char* volatile s_getbad; static volatile int s_bad_t, s_bad_i; static var s_bad_exc;
static void s_get(int t, int i) {
  volatile var g = NULL;
  vf.executions++;
  var e = VF_CATCH(g = get(s_t.tgt[t], $I(i)));
  struct sget* w = &s_t.g[t][i - s_t.lo[t]];
  if (e) s_refused_calls++; else s_accepted_calls++;
  if (s_getbad) return;
  if (e != w->exc) { s_getbad = e ? (w->exc ? "get-raises-another-exception" : "get-refused-only-during-iteration") : "get-accepted-only-during-iteration"; s_bad_t = t; s_bad_i = i; s_bad_exc = e; return; }
  if (!e && s_t.all[t] && ((var)g != w->ptr || c_int((var)g) != w->val)) { s_getbad = "get-returns-another-item"; s_bad_t = t; s_bad_i = i; s_bad_exc = NULL; }
}

struct swalk { int n; int64_t code[S_WMAX]; var ptr[S_WMAX]; };
static struct swalk s_w; static const char* volatile s_sym; static volatile int s_done; static volatile int64_t s_held_before, s_held_after;

/* walk v; at position `at` (-1: nowhere, -2: everywhere) make the call (t, i), or every permitted call when t < 0 */
static int s_walk(var v, int backward, int horizon, int at, int t, int i) {
  static volatile int cnt; cnt = 0; s_sym = NULL; s_done = 0; s_getbad = NULL;
  vf.executions++;
  var e = VF_CATCH({
    var it = backward ? iter_last(v) : iter_init(v);
    while (it isnt Terminal) {
      if (cnt >= horizon || cnt >= S_WMAX) { s_sym = "nonterminating"; break; }
      if (it is NULL) { s_sym = "null-item"; break; }
      s_w.ptr[cnt] = it; s_w.code[cnt] = s_code(it);
      if (at == cnt || at == -2) {
        int64_t before = s_w.code[cnt];
        if (t >= 0) s_get(t, i);
        else for (int tt = 0; tt < s_t.nt; tt++) for (int ii = s_t.lo[tt]; ii <= s_t.hi[tt]; ii++)
          if (s_t.all[tt] || s_t.g[tt][ii - s_t.lo[tt]].exc) s_get(tt, ii);
        int64_t after = s_code(it);
        if (!s_done || before != after) { s_held_before = before; s_held_after = after; }
        if (before != after && !s_sym) { s_sym = "held-item-changed"; }
        s_done = 1;
        if (s_sym) break;
      }
      cnt = cnt + 1;
      it = backward ? iter_prev(v, it) : iter_next(v, it);
    }
  });
  if (e && !s_sym) s_sym = "walk-raises";
  s_w.n = cnt;
  return s_sym ? -1 : cnt;
}

static struct scase* s_cur; static const char* s_curtgt;
static void s_report(const char* what, const char* dir, const char* symptom, const char* fmt, ...) {
  char label[240], detail[900];
  snprintf(label, sizeof label, "midop/shrunk/%s%s/over-%s/%s/%s/%s/%s", s_cur->heap ? "new-" : "", sh_name[s_cur->shape], sk_name[s_cur->kind], mu_name[s_cur->mut], what, dir, symptom);
  va_list ap; va_start(ap, fmt); vsnprintf(detail, sizeof detail, fmt, ap); va_end(ap);
  vf_violation(label, NULL, "%s", detail);
}

static size_t s_seq_str(struct swalk* w, char* b, size_t cap) {
  size_t o = 0; b[0] = 0;
  for (int i = 0; i < w->n && o + 24 < cap; i++) o += snprintf(b + o, cap - o, "%s%" PRId64, i ? " " : "", w->code[i]);
  return o;
}

static void s_mutate(struct scase* q, var c) {
  int map = q->kind >= SK_TABLE, n = q->n;
  switch (q->mut) {
  case MU_POP1: case MU_POP2:
    for (int k = 0; k < q->mut; k++) { if (map) rem(c, hval[n - 1 - k]); else pop(c); }
    break;
  case MU_FRONT: if (map) rem(c, hval[0]); else pop_at(c, $I(0)); break;
  case MU_MID: if (map) rem(c, hval[n / 2]); else pop_at(c, $I(n / 2)); break;
  case MU_RESIZE: resize(c, (size_t)(n - 1)); break;
  case MU_PUSH1: case MU_PUSH2:
    for (int k = 0; k <= q->mut - MU_PUSH1; k++) { if (map) set(c, hval[n + k], $I(n + k + 1000)); else push(c, hval[n + k]); }
    break;
  default: break;
  }
}

static void s_case_str(struct scase* q, char* cs, size_t cap) {
  size_t o = snprintf(cs, cap, "midop shrunk view=%s%s over=%s[%d] params=%d,%d,%d", q->heap ? "new-" : "", sh_name[q->shape], sk_name[q->kind], q->n, q->p1[0], q->p1[1], q->p1[2]);
  if (q->shape == SH_SLICE2) o += snprintf(cs + o, cap - o, " outer=%d,%d,%d", q->p2[0], q->p2[1], q->p2[2]);
  if (q->shape == SH_FILTER) o += snprintf(cs + o, cap - o, " mask=0x%02x", q->mask);
  snprintf(cs + o, cap - o, " then=%s", mu_name[q->mut]);
}

/* the experiment on a built view V (targets in s_t) whose underlying container has just been changed */
static void s_experiment(struct scase* q, var V, const char* cs, int* safe) {
  static struct swalk base[2]; char full[400], sb1[300], sb2[300];
  int m = q->n + mu_delta[q->mut];
  /* every call with no iteration in progress */
  for (int t = 0; t < s_t.nt; t++) for (int i = s_t.lo[t]; i <= s_t.hi[t]; i++) {
    volatile var g = NULL; struct sget* w = &s_t.g[t][i - s_t.lo[t]];
    w->exc = VF_CATCH(g = get(s_t.tgt[t], $I(i))); w->ptr = (var)g; w->val = 0;
    if (!w->exc && s_t.all[t]) { volatile int64_t val = 0; var e2 = VF_CATCH(val = c_int((var)g)); if (e2) w->exc = e2; w->val = (int64_t)val; }
  }
  for (int d = 0; d < 2; d++) {
    const char* dn = d ? "bwd" : "fwd";
    if (!safe[d]) { s_skipped_walks++; continue; }
    snprintf(full, sizeof full, "%s dir=%s undisturbed", cs, dn);
    vf_set_cur("%s", full);
    int c = s_walk(V, d, m + q->n + HORIZON, -1, -1, 0);
    if (c < 0) { s_unstable++; continue; }      /* not well defined on this tree either: nothing to compare with */
    base[d] = s_w;
    c = s_walk(V, d, m + q->n + HORIZON, -1, -1, 0);
    if (c != base[d].n || memcmp(s_w.code, base[d].code, c * sizeof s_w.code[0]) != 0 || memcmp(s_w.ptr, base[d].ptr, c * sizeof s_w.ptr[0]) != 0) { s_unstable++; continue; }
    s_judged_walks++;
    for (int p = 0; p <= base[d].n; p++) for (int t = -1; t < s_t.nt; t++) {
      /* p == n: the all-calls-at-every-position walk (t = -1 only) */
      if ((p == base[d].n) != (t == -1)) continue;
      if (t == -1 && base[d].n == 0) continue;
      int lo = t < 0 ? 0 : s_t.lo[t], hi = t < 0 ? 0 : s_t.hi[t];
      for (int i = lo; i <= hi; i++) {
        if (t >= 0 && !s_t.all[t] && !s_t.g[t][i - lo].exc) continue;
        if (t >= 0) snprintf(full, sizeof full, "%s dir=%s at=%d op=get(%s,%d)", cs, dn, p, s_t.tname[t], i);
        else snprintf(full, sizeof full, "%s dir=%s at=every-position op=all-calls", cs, dn);
        if (vf.replay && strcmp(vf.replay, full) != 0) continue;
        if ((ncases++ & 1023) == 0) vf_watchdog(60);
        vf_set_cur("%s", full);
        vf.evaluations++; if (base[d].n >= 2) vf.nontrivial++;
        int refused = t >= 0 && s_t.g[t][i - lo].exc != NULL;
        const char* what = t < 0 ? "all-calls" : refused ? "refused-get" : "accepted-get";
        if (refused && i >= -s_t.len[t] && i < s_t.len[t]) s_refused_by_container++;   /* an index inside the target's own (stale) window */
        c = s_walk(V, d, base[d].n + HORIZON, t < 0 ? -2 : p, t, i);
        const char* sym = NULL;
        if (!s_done) sym = "position-not-reached";
        else if (s_getbad) sym = s_getbad;
        else if (c < 0) sym = s_sym;
        else if (c != base[d].n) sym = c < base[d].n ? "iteration-ends-early" : "iteration-too-long";
        else if (memcmp(s_w.code, base[d].code, c * sizeof s_w.code[0]) != 0 || memcmp(s_w.ptr, base[d].ptr, c * sizeof s_w.ptr[0]) != 0) sym = "remaining-items-differ";
        if (!sym) { if (vf_want_sample()) vf_sample("%s -> %s, walk unchanged (%d items)", full, t < 0 ? "all calls" : vf_exc_name(s_t.g[t][i - lo].exc), c); continue; }
        s_seq_str(&s_w, sb1, sizeof sb1); s_seq_str(&base[d], sb2, sizeof sb2);
        if (s_getbad) s_report(what, dn, sym, "get(%s, %d) in the middle of the walk gave %s, with no iteration in progress %s", s_t.tname[s_bad_t], s_bad_i, vf_exc_name(s_bad_exc), vf_exc_name(s_t.g[s_bad_t][s_bad_i - s_t.lo[s_bad_t]].exc));
        else if (sym == s_sym && strcmp(sym, "held-item-changed") == 0) s_report(what, dn, sym, "the item held at position %d read %" PRId64 " before and %" PRId64 " after the call", p, (int64_t)s_held_before, (int64_t)s_held_after);
        else {
          char where[40]; if (t < 0) snprintf(where, sizeof where, "every position"); else snprintf(where, sizeof where, "position %d", p);
          s_report(what, dn, sym, "%s walk with %s at %s yields [%s] (%s); the same walk without the call yields [%s] (container length %d -> %d after the view was built)", d ? "backward" : "forward", t < 0 ? "every call" : (refused ? "the refused call" : "the accepted call"), where, sb1, sym, sb2, q->n, m);
        }
      }
    }
  }
}

static void s_target(var obj, const char* name, int all) {
  int t = s_t.nt++; s_t.tgt[t] = obj; s_t.tname[t] = name; s_t.all[t] = all;
  var e; int64_t l = (int64_t)safe_len(obj, &e); if (e || l > 12) l = 12;
  s_t.len[t] = (int)l; s_t.lo[t] = (int)(-l - s_margin); s_t.hi[t] = (int)(l + s_margin);
}

/* build the view over c, change c (or the probe's length), then probe == 1: record which directions are well defined; else run */
static void s_shape(struct scase* q, var c, int probe, int* safe, const char* cs) {
  const int* p = q->p1; const int* o = q->p2;
  var A1 = p[0] == 99 ? _ : (var)$I(p[0]); var B1 = p[1] == 99 ? _ : (var)$I(p[1]); var C1 = $I(p[2]);
  var A2 = o[0] == 99 ? _ : (var)$I(o[0]); var B2 = o[1] == 99 ? _ : (var)$I(o[1]); var C2 = $I(o[2]);
  var L = s_L[q->n];
  int h = q->heap;
  var S1 = h ? new(Slice, c, A1, B1, C1) : slice(c, A1, B1, C1);
  /* (every compound literal at function scope: one made inside the switch would die with the switch's block) */
  int sh = q->shape;
  var S1b = sh != SH_ZIP_SS ? NULL : h ? new(Slice, c, A1, B1, C1) : slice(c, A1, B1, C1);
  var X = sh == SH_ZIP_LS ? L : S1; var Y = sh == SH_ZIP_LS ? S1 : sh == SH_ZIP_SS ? S1b : L;
  if (sh == SH_FILTER) a_mask = q->mask;
  var V = sh == SH_SLICE ? S1
        : sh == SH_SLICE2 ? (h ? new(Slice, S1, A2, B2, C2) : slice(S1, A2, B2, C2))
        : sh == SH_MAP ? (h ? new(Map, S1, a_fmap) : map(S1, a_fmap))
        : sh == SH_FILTER ? (h ? new(Filter, S1, a_fpred) : filter(S1, a_fpred))
        : (h ? new(Zip, X, Y) : zip(X, Y));
  s_t.nt = 0; s_pairs = sh == SH_ZIP_SL || sh == SH_ZIP_LS || sh == SH_ZIP_SS;
  switch (sh) {
  case SH_SLICE: s_target(S1, "slice", 1); break;
  case SH_SLICE2: s_target(V, "outer-slice", 1); s_target(S1, "inner-slice", 1); break;
  case SH_ZIP_SL: case SH_ZIP_LS: s_target(S1, "slice", 1); s_target(V, "zip", 0); break;
  case SH_ZIP_SS: s_target(S1, "first-slice", 1); s_target(S1b, "second-slice", 1); s_target(V, "zip", 0); break;
  case SH_MAP: s_target(S1, "slice", 1); s_target(V, "map", 0); break;
  default: s_target(S1, "slice", 1); break;
  }
  if (probe) {
    struct PSeq* ps = c; ps->n = q->n + mu_delta[q->mut];
    for (int d = 0; d < 2; d++) {
      ps->unsafe = 0;
      int cnt = s_walk(V, d, 2 * q->n + HORIZON, -1, -1, 0);
      safe[d] = cnt >= 0 && !ps->unsafe;
    }
  } else {
    s_mutate(q, c);
    var e; uint64_t l = safe_len(c, &e);
    if (e || l != (uint64_t)(q->n + mu_delta[q->mut])) vf_note("midop shrunk: %s: the container has %" PRIu64 " items after the change, expected %d: case skipped", cs, l, q->n + mu_delta[q->mut]);
    else s_experiment(q, V, cs, safe);
  }
  if (h) { if (V != S1) del(V); del(S1); if (S1b) del(S1b); }
}

static void s_run(struct scase* q) {
  char cs[300]; s_case_str(q, cs, sizeof cs);
  if (vf.replay && strncmp(vf.replay, cs, strlen(cs)) != 0) return;
  vf_set_cur("%s", cs);
  s_cur = q; s_shapes++;
  snprintf(phasebuf, sizeof phasebuf, "midop/shrunk/%s/over-%s", sh_name[q->shape], sk_name[q->kind]); vf.phase = phasebuf;
  int safe[2] = { 0, 0 };
  static volatile int completed;
  /* which directions are well defined: the same construction over the probe sequence */
  var ps = new_raw(PSeq);
  ((struct PSeq*)ps)->n = q->n; for (int i = 0; i < 16; i++) ((struct PSeq*)ps)->items[i] = hval[i];
  completed = 0;
  var e = VF_CATCH({ s_shape(q, ps, 1, safe, cs); completed = 1; });
  del_raw(ps);
  if (e && !completed) { s_skipped_walks += 2; return; }
  if (!safe[0] && !safe[1]) { s_skipped_walks += 2; return; }
  var c = q->kind == SK_ARRAY ? (var)new_raw(Array, Int) : q->kind == SK_LIST ? (var)new_raw(List, Int) : q->kind == SK_TUPLE ? (var)new_raw(Tuple)
        : q->kind == SK_TABLE ? (var)new_raw(Table, Int, Int) : (var)new_raw(Tree, Int, Int);
  for (int i = 0; i < q->n; i++) { if (q->kind <= SK_TUPLE) push(c, hval[i]); else set(c, hval[i], $I(i + 1000)); }
  completed = 0;
  e = VF_CATCH({ s_shape(q, c, 0, safe, cs); completed = 1; });
  if (e && !completed) s_report("construct", "fwd", "raises", "building the view, changing the container or the calls with no iteration in progress raised %s", vf_exc_name(e));
  del_raw(c);
}

static void phase_midop_shrunk(void) {
  static const int P1[][3] = { {99,99,1}, {1,99,2}, {99,99,-1}, {99,99,2}, {1,99,1}, {99,99,-2}, {2,99,1}, {99,-1,1}, {1,4,1}, {1,99,3}, {99,99,3}, {1,-1,2}, {99,4,1}, {1,99,-1}, {99,-1,-2}, {0,99,-1} };
  static const int P2[][3] = { {99,99,1}, {1,99,1}, {99,99,2}, {99,99,-1}, {1,-1,1} };
  static const unsigned FM[] = { 0x55, 0xaa, 0xff };
  static const int none[3] = { 99, 99, 1 };
  int smin = (int)vf_param_i("smin", 4), smax = (int)vf_param_i("smax", 4), sstep = (int)vf_param_i("sstep", 1);
  s_margin = (int)vf_param_i("sidx", 1); if (s_margin < 0) s_margin = 0; if (s_margin > 3) s_margin = 3;
  int np1 = (int)vf_param_i("sparams", 8);
  if (smax > 8) smax = 8;
  for (size_t i = 0; i < 16; i++) if (!hval[i]) hval[i] = new_raw(Int, $I((int64_t)i));
  for (int n = 0; n < 12; n++) { s_L[n] = new_raw(List, Int); for (int i = 0; i < n; i++) push(s_L[n], $I(i)); }
  for (int n = smin; n <= smax; n += sstep) for (int k = 0; k < SK_N; k++) {
    if (!kind_on[k == SK_ARRAY ? K_ARRAY : k == SK_LIST ? K_LIST : k == SK_TUPLE ? K_HTUPLE : k == SK_TABLE ? K_TABLE : K_TREE]) continue;
    for (int mut = 0; mut < MU_N; mut++) {
      if (mut == MU_RESIZE && k >= SK_TABLE) continue;
      if (n + mu_delta[mut] < 1) continue;
      for (int sh = 0; sh < SH_N; sh++) for (int heap = 0; heap < 2; heap++) for (int a = 0; a < np1 && a < (int)(sizeof P1 / sizeof P1[0]); a++) {
        int nb = sh == SH_SLICE2 ? (int)(sizeof P2 / sizeof P2[0]) : sh == SH_FILTER ? (int)(sizeof FM / sizeof FM[0]) : 1;
        for (int b = 0; b < nb; b++) {
          struct scase q = { k, n, mut, sh, heap, P1[a], sh == SH_SLICE2 ? P2[b] : none, sh == SH_FILTER ? FM[b] : 0 };
          s_run(&q);
        }
      }
    }
  }
  vf_extra("shrunk_view_cases", "%" PRIu64, s_shapes);
  vf_extra("shrunk_walks_compared", "%" PRIu64, s_judged_walks);
  vf_extra("shrunk_walks_skipped_view_steps_through_the_end", "%" PRIu64, s_skipped_walks);
  vf_extra("shrunk_walks_skipped_undisturbed_walk_fails_or_varies", "%" PRIu64, s_unstable);
  vf_extra("shrunk_calls_refused", "%" PRIu64, s_refused_calls);
  vf_extra("shrunk_calls_accepted", "%" PRIu64, s_accepted_calls);
  vf_extra("shrunk_walks_with_a_call_refused_inside_the_views_own_window", "%" PRIu64, s_refused_by_container);
}

static void phase_midop(void) {
  a_fpred = $(Function, a_pred); a_fmap = $(Function, a_mapf);
  a_init();
  /* part=classic: containers and views of constant length; part=shrunk: views over a container that changed length; default both */
  int classic = !vf_param_is("part", "shrunk", "all"), shrunk = !vf_param_is("part", "classic", "all");
  if (!classic) { phase_midop_shrunk(); return; }
  m_rangeneg = (int)vf_param_i("rangeneg", 0);
  m_zipget = (int)vf_param_i("zipget", 0);
  m_sliceget = (int)vf_param_i("sliceget", 0);
  for (size_t i = 0; i < 8; i++) hval[i] = new_raw(Int, $I((int64_t)i));
  char ps[80];
  /* containers of length 0..4 */
  for (int n = 0; n <= 4; n++) for (int k = MK_ARRAY; k <= MK_TREE; k++) {
    m_kind = k; snprintf(ps, sizeof ps, "n=%d", n);
    if (k == MK_STUPLE) {
      switch (n) {
      case 0: { var t = tuple(); m_run(t, ps); } break;
      case 1: { var t = tuple(hval[0]); m_run(t, ps); } break;
      case 2: { var t = tuple(hval[0], hval[1]); m_run(t, ps); } break;
      case 3: { var t = tuple(hval[0], hval[1], hval[2]); m_run(t, ps); } break;
      default: { var t = tuple(hval[0], hval[1], hval[2], hval[3]); m_run(t, ps); } break;
      }
      continue;
    }
    var c = k == MK_ARRAY ? (var)new_raw(Array, Int) : k == MK_LIST ? (var)new_raw(List, Int) : k == MK_TUPLE ? (var)new_raw(Tuple)
          : k == MK_TABLE ? (var)new_raw(Table, Int, Int) : (var)new_raw(Tree, Int, Int);
    for (int i = 0; i < n; i++) { if (k <= MK_TUPLE) push(c, hval[i]); else set(c, hval[i], $I(i + 1000)); }
    m_run(c, ps);
    del_raw(c);
  }
  static const int rs[][3] = { {0,0,1}, {0,1,1}, {0,3,1}, {0,5,1}, {1,5,2}, {0,5,2}, {0,5,-1}, {0,5,-2}, {-2,3,1}, {2,9,3}, {0,7,3}, {1,7,2} };
  for (size_t i = 0; i < sizeof rs / sizeof rs[0]; i++) {
    snprintf(ps, sizeof ps, "params=%d,%d,%d", rs[i][0], rs[i][1], rs[i][2]);
    { m_kind = MK_RANGE; var r = range($I(rs[i][0]), $I(rs[i][1]), $I(rs[i][2])); m_run(r, ps); }
    { m_kind = MK_NEWRANGE; var r = new(Range, $I(rs[i][0]), $I(rs[i][1]), $I(rs[i][2])); m_run(r, ps); del(r); }
  }
  static const int ss[][3] = { {99,99,1}, {1,4,1}, {99,99,2}, {1,99,2}, {99,99,-1}, {99,99,-2}, {0,0,1}, {99,3,1}, {2,99,1} };
  for (size_t i = 0; i < sizeof ss / sizeof ss[0]; i++) {
    snprintf(ps, sizeof ps, "over=list[5] params=%d,%d,%d", ss[i][0], ss[i][1], ss[i][2]);
    var A = ss[i][0] == 99 ? _ : (var)$I(ss[i][0]); var B = ss[i][1] == 99 ? _ : (var)$I(ss[i][1]);
    { m_kind = MK_SLICE; var s = slice(a_list, A, B, $I(ss[i][2])); m_run(s, ps); }
    { m_kind = MK_NEWSLICE; var s = new(Slice, a_list, A, B, $I(ss[i][2])); m_run(s, ps); del(s); }
  }
  for (int n = 0; n < 4; n++) for (int m = 0; m < 4; m++) {
    m_kind = MK_ZIP; snprintf(ps, sizeof ps, "list[%d],array[%d]", n, m);
    var z = zip(a_zl[n], a_za[m]); m_run(z, ps);
  }
  static const int fm[] = { 0x00, 0x1f, 0x0a, 0x15, 0x01, 0x10 };
  for (size_t i = 0; i < sizeof fm / sizeof fm[0]; i++) {
    m_kind = MK_FILTER; a_mask = fm[i]; snprintf(ps, sizeof ps, "over=list[5] mask=0x%02x", fm[i]);
    var f = filter(a_list, a_fpred); m_run(f, ps);
  }
  { m_kind = MK_MAP; var m = map(a_list, a_fmap); m_run(m, "over=list[5]"); }
  for (int n = 0; n < 4; n++) { m_kind = MK_MAP; snprintf(ps, sizeof ps, "over=list[%d]", n); var m = map(a_zl[n], a_fmap); m_run(m, ps); }
  char ob[1600]; size_t o = 0; o += snprintf(ob + o, sizeof ob - o, "\"");
  for (int k = 0; k < MK_N; k++) if (m_okget_seen[k] && o < sizeof ob - 120) o += snprintf(ob + o, sizeof ob - o, "%s %" PRIu64 "/%" PRIu64 "; ", mk_name[k], m_okget_moved[k], m_okget_seen[k]);
  snprintf(ob + o, sizeof ob - o, "(moved/tried)\"");
  vf_extra("successful_get_moves_iteration", "%s", ob);
  if (m_zip_partial) vf_note("not judged on this run (zipget=0): %" PRIu64 " refused get calls on a Zip whose earlier input is longer rewrote the value tuple held by the iteration before raising (proposed/D30-zip-get-partial-write.md)", m_zip_partial);
  if (!m_sliceget) vf_note("not run (sliceget=0): a successful get(slice, k) in the middle of an iteration over the same Slice; on this tree it rewrites the Slice's position and the walk then steps the underlying cursor through Terminal (proposed/D31-slice-get-clobbers-position.md)");
  if (shrunk) phase_midop_shrunk();
  if (!m_rangeneg) vf_note("not judged on this run (rangeneg=0): get(-len-1) / get(-1000000) on Range and Slice (they return a value instead of raising; proposed/D29-range-get-negative-beyond-front.md)");
}

/* ==== phase=gcitems: items a heap view hands out stay alive while they are current ============================
**
** A Map whose function returns a fresh collector-managed object per element, zipped on the heap (new(Zip, ...)) with a
** Range or with a second such Map, and the stack zip() of the same inputs.  Between iter_next / iter_prev and the use
** of the pair the dead stack is scrubbed and garbage is allocated (so collections run); the element is then fetched
** from the pair and must be a live Int with the value the function produced.  Nothing but the view keeps it reachable.
*/

static var g_fresh(var x) { return new(Int, $I(c_int(x) * 7 + 1000000)); }
static void __attribute__((noinline)) g_scrub(void) { volatile char pad[32768]; for (size_t i = 0; i < sizeof pad; i++) pad[i] = 0; }
static void __attribute__((noinline)) g_churn(int k) { for (int i = 0; i < 40; i++) { var g = new(Int, $I(i + k)); (void)g; } }
static int64_t __attribute__((noinline)) g_component(var pair, int i) { return c_int(get(pair, $I(i))); }

static volatile int g_n; static const char* volatile g_bad; static volatile int64_t g_got, g_want;
static void g_walk(var z, int backward, int N, int mapfirst, int both) {
  g_n = 0; g_bad = NULL;
  vf.executions++;
  for (var pair = backward ? iter_last(z) : iter_init(z); pair isnt Terminal; pair = backward ? iter_prev(z, pair) : iter_next(z, pair)) {
    if (g_n >= N + HORIZON) { g_bad = "nonterminating"; return; }
    g_scrub(); g_churn(g_n); g_scrub();
    int idx = backward ? N - 1 - g_n : g_n;
    int64_t want_map = (int64_t)idx * 7 + 1000000;
    for (int c = 0; c < 2; c++) {
      int is_map = both || (c == (mapfirst ? 0 : 1));
      g_want = is_map ? want_map : idx;
      g_got = g_component(pair, c);
      if (g_got != g_want) { g_bad = "wrong-value"; return; }
    }
    g_n = g_n + 1;
  }
  if (g_n != N) g_bad = g_n < N ? "too-few" : "too-many";
}

/* ==== phase=gcitems, second part (sole=1): a heap view is the ONLY holder of its sources ==========================
**
** Each case builds a pipeline of heap views - new(Filter | Map | Zip | Slice | Range ...), depth 1 to 3 - inside a noinline
** helper that returns nothing but the outermost view: the source containers (Array / List of Probe elements held by value,
** heap Tuple of collector-managed Probes, Table / Tree with Probe keys), the inner views, the new(Function) objects and the
** Ranges are reachable from the returned view and from nowhere else.  The dead stack is scrubbed, then collections are made
** to happen (garbage is allocated until a sentinel Probe allocated beforehand has been finalised = a sweep has run; or the
** collector's own GC_Mark + GC_Sweep are called), then: no Probe that was alive when the helper returned has been
** finalised (ledger of vf_probe.h), and the view walked forwards and backwards yields exactly the items the definition of
** the pipeline selects from the source values (every Probe it hands out intact).  A reclaimed source shows as finalised
** elements, as an exception ("bad magic number"), as wrong items, or as a fault under AddressSanitizer.
*/

struct GC; void GC_Mark(struct GC* gc); void GC_Sweep(struct GC* gc);

enum { GS_ARRAY, GS_LIST, GS_TUPLE, GS_TABLE, GS_TREE, GS_N };
static const char* gs_name[] = { "array", "list", "tuple", "table", "tree" };
enum { GO_END, GO_SRC, GO_RANGE, GO_FILTER3, GO_FILTER2, GO_MAP, GO_SLICE, GO_REV, GO_ZIP };
struct gprog { const char* name; int positional; int op[8]; };
static const struct gprog gprogs[] = {
  { "new-filter(S)", 0, { GO_SRC, GO_FILTER3 } },
  { "new-map(S)", 0, { GO_SRC, GO_MAP } },
  { "new-zip(S,new-range)", 1, { GO_SRC, GO_RANGE, GO_ZIP } },
  { "new-zip(new-range,S)", 1, { GO_RANGE, GO_SRC, GO_ZIP } },                 /* the heap form of enumerate */
  { "new-slice(S,1,_,2)", 1, { GO_SRC, GO_SLICE } },
  { "new-slice(S,_,_,-1)", 1, { GO_SRC, GO_REV } },                           /* the heap form of reverse */
  { "new-range(heap-bounds)", 0, { GO_RANGE } },
  { "new-zip(S,S')", 1, { GO_SRC, GO_SRC, GO_ZIP } },
  { "new-map(new-filter(S))", 0, { GO_SRC, GO_FILTER3, GO_MAP } },
  { "new-filter(new-map(S))", 0, { GO_SRC, GO_MAP, GO_FILTER2 } },
  { "new-filter(new-filter(S))", 0, { GO_SRC, GO_FILTER3, GO_FILTER2 } },
  { "new-map(new-map(S))", 0, { GO_SRC, GO_MAP, GO_MAP } },
  { "new-slice(new-map(S),1,_,2)", 1, { GO_SRC, GO_MAP, GO_SLICE } },
  { "new-map(new-slice(S,1,_,2))", 1, { GO_SRC, GO_SLICE, GO_MAP } },
  { "new-filter(new-slice(S,_,_,-1))", 1, { GO_SRC, GO_REV, GO_FILTER3 } },
  { "new-zip(new-filter(S),new-map(S'))", 1, { GO_SRC, GO_FILTER3, GO_SRC, GO_MAP, GO_ZIP } },
  { "new-filter(new-zip(S,new-range))", 1, { GO_SRC, GO_RANGE, GO_ZIP, GO_FILTER3 } },
  { "new-slice(new-zip(S,new-range),1,_,2)", 1, { GO_SRC, GO_RANGE, GO_ZIP, GO_SLICE } },
  { "new-map(new-filter(new-slice(S,_,_,-1)))", 1, { GO_SRC, GO_REV, GO_FILTER3, GO_MAP } },
};
#define GMAXN 320

static uint64_t g_dead;
/* the value of an item; a Probe must be a live, intact element; a pair is (first, second) */
static int64_t g_item(var it) {
  var t = type_of(it);
  if (t is Tuple) return g_item(get(it, $I(0))) * 4096 + g_item(get(it, $I(1)));
  if (t is Probe) { if (!vf_probe_intact(it)) g_dead++; return ((struct Probe*)it)->val; }
  return c_int(it);
}
static var g_keep3(var x) { return g_item(x) % 3 != 0 ? x : NULL; }
static var g_keep2(var x) { return g_item(x) % 2 == 0 ? x : NULL; }
static var g_plus1000(var x) { return new(Int, $I(g_item(x) + 1000)); }

static var g_source(int sk, int N, int base) {
  var c = sk == GS_ARRAY ? (var)new(Array, Probe) : sk == GS_LIST ? (var)new(List, Probe) : sk == GS_TUPLE ? (var)new(Tuple)
        : sk == GS_TABLE ? (var)new(Table, Probe, Int) : (var)new(Tree, Probe, Int);
  for (int i = 0; i < N; i++) {
    if (sk == GS_TUPLE) push(c, new(Probe, $I(base + i)));
    else if (sk <= GS_LIST) push(c, VF_P(base + i));
    else set(c, VF_P(base + i), $I(i));
  }
  return c;
}

/* returns the outermost view and nothing else */
static var __attribute__((noinline)) g_build(const struct gprog* pg, int sk, int N) {
  var st[4]; int sp = 0, nsrc = 0;
  for (int k = 0; k < 8 && pg->op[k] != GO_END; k++) {
    switch (pg->op[k]) {
    case GO_SRC: st[sp++] = g_source(sk, N, nsrc++ ? 500 : 0); break;
    case GO_RANGE: st[sp++] = new(Range, new(Int, $I(0)), new(Int, $I(N))); break;
    case GO_FILTER3: st[sp - 1] = new(Filter, st[sp - 1], new(Function, $(Function, g_keep3))); break;
    case GO_FILTER2: st[sp - 1] = new(Filter, st[sp - 1], new(Function, $(Function, g_keep2))); break;
    case GO_MAP: st[sp - 1] = new(Map, st[sp - 1], new(Function, $(Function, g_plus1000))); break;
    case GO_SLICE: st[sp - 1] = new(Slice, st[sp - 1], $I(1), _, $I(2)); break;
    case GO_REV: st[sp - 1] = new(Slice, st[sp - 1], _, _, $I(-1)); break;
    case GO_ZIP: sp--; st[sp - 1] = new(Zip, st[sp - 1], st[sp]); break;
    }
  }
  var top = st[0];
  for (int i = 0; i < 4; i++) st[i] = NULL;
  return top;
}

/* what the pipeline selects, from the definitions */
static int64_t g_exp[GMAXN]; static int g_nexp; static int g_unequal_zip;
static void g_model(const struct gprog* pg, int N) {
  static int64_t st[4][GMAXN]; int ln[4]; int sp = 0, nsrc = 0;
  g_unequal_zip = 0;
  for (int k = 0; k < 8 && pg->op[k] != GO_END; k++) {
    int64_t* a = sp ? st[sp - 1] : NULL; int m = 0;
    switch (pg->op[k]) {
    case GO_SRC: for (int i = 0; i < N; i++) st[sp][i] = (nsrc ? 500 : 0) + i; ln[sp++] = N; nsrc++; break;
    case GO_RANGE: for (int i = 0; i < N; i++) st[sp][i] = i; ln[sp++] = N; break;
    case GO_FILTER3: for (int i = 0; i < ln[sp - 1]; i++) if (a[i] % 3 != 0) a[m++] = a[i]; ln[sp - 1] = m; break;
    case GO_FILTER2: for (int i = 0; i < ln[sp - 1]; i++) if (a[i] % 2 == 0) a[m++] = a[i]; ln[sp - 1] = m; break;
    case GO_MAP: for (int i = 0; i < ln[sp - 1]; i++) a[i] += 1000; break;
    case GO_SLICE: for (int i = 1; i < ln[sp - 1]; i += 2) a[m++] = a[i]; ln[sp - 1] = m; break;
    case GO_REV: for (int i = 0, j = ln[sp - 1] - 1; i < j; i++, j--) { int64_t t = a[i]; a[i] = a[j]; a[j] = t; } break;
    case GO_ZIP:
      sp--;
      if (ln[sp] != ln[sp - 1]) g_unequal_zip = 1;
      m = ln[sp] < ln[sp - 1] ? ln[sp] : ln[sp - 1];
      for (int i = 0; i < m; i++) st[sp - 1][i] = st[sp - 1][i] * 4096 + st[sp][i];
      ln[sp - 1] = m; break;
    }
  }
  g_nexp = ln[0]; memcpy(g_exp, st[0], g_nexp * sizeof g_exp[0]);
}

static uint64_t g_sentinel; static uint64_t g_unconfirmed, g_collections_confirmed;
static void __attribute__((noinline)) g_garbage_probe(void) { var p = new(Probe, $I(-1)); g_sentinel = ((struct Probe*)p)->token; }
/* mode 0: allocate until the collector has run on its own; mode 1: the collector's explicit entry points */
static void __attribute__((noinline)) g_collect(int mode) {
  g_garbage_probe(); g_scrub();
  if (mode == 1) { struct GC* gc = current(GC); GC_Mark(gc); GC_Sweep(gc); }
  else {
    int extra = -1;
    for (int k = 0; k < 8000 && extra != 0; k++) {
      var g = new(Int, $I(k)); (void)g;
      if (extra > 0) extra--;
      else if (vf_led[g_sentinel] == 2) extra = 64;
    }
  }
  if (vf_led[g_sentinel] == 2) g_collections_confirmed++; else g_unconfirmed++;
}

static int g_live_in(uint64_t t0, uint64_t t1) { int c = 0; for (uint64_t t = t0; t < t1; t++) if (vf_led[t] == 1) c++; return c; }

static int64_t gs_got[GMAXN + HORIZON + 2]; static volatile int gs_ngot; static const char* volatile g_wbad;
static void g_sole_walk(var v, int backward, int limit) {
  gs_ngot = 0; g_wbad = NULL; vf.executions++;
  for (var it = backward ? iter_last(v) : iter_init(v); it isnt Terminal; it = backward ? iter_prev(v, it) : iter_next(v, it)) {
    if (gs_ngot >= limit) { g_wbad = "nonterminating"; return; }
    if (it is NULL) { g_wbad = "null-item"; return; }
    gs_got[gs_ngot] = g_item(it); gs_ngot = gs_ngot + 1;
    if ((gs_ngot & 7) == 0) g_churn(gs_ngot);            /* allocation (and so collections) while the walk is in progress */
  }
}

static int g_cmp64(const void* a, const void* b) { int64_t x = *(const int64_t*)a, y = *(const int64_t*)b; return x < y ? -1 : x > y; }

static void g_sole_case(const struct gprog* pg, int sk, int N, int mode) {
  char cs[200], label[240];
  snprintf(cs, sizeof cs, "gcitems sole-holder %s S=%s[%d] collect=%s", pg->name, gs_name[sk], N, mode ? "forced" : "threshold");
  if (vf.replay && strcmp(vf.replay, cs) != 0) return;
  vf_watchdog(120);
  vf_set_cur("%s", cs);
  snprintf(phasebuf, sizeof phasebuf, "gcitems/sole/%s/over-%s/%s", pg->name, gs_name[sk], mode ? "forced" : "threshold"); vf.phase = phasebuf;
  vf.evaluations++; vf.nontrivial++;
  g_model(pg, N);
  int unordered = sk >= GS_TABLE;
  volatile var v = NULL;
  uint64_t t0 = vf_led_next;
  vf_led_err[0] = 0;
  var e = VF_CATCH(v = g_build(pg, sk, N));
  if (e) { snprintf(label, sizeof label, "%s/build-raises", phasebuf); vf_violation(label, NULL, "building the pipeline raised %s", vf_exc_name(e)); return; }
  uint64_t t1 = vf_led_next;
  g_scrub();
  int live0 = g_live_in(t0, t1);
  e = VF_CATCH(g_collect(mode));
  g_scrub();
  if (e) { snprintf(label, sizeof label, "%s/collection-raises", phasebuf); vf_violation(label, NULL, "the collection raised %s", vf_exc_name(e)); return; }
  int live1 = g_live_in(t0, t1);
  if (live1 != live0) {
    snprintf(label, sizeof label, "%s/element-finalised-while-view-reachable", phasebuf);
    vf_violation(label, NULL, "%d of the %d source elements alive when the builder returned have been finalised by the collection, although the view that holds their container is still referenced from the stack", live0 - live1, live0);
    return;
  }
  if (vf_led_err[0]) { snprintf(label, sizeof label, "%s/ledger", phasebuf); vf_violation(label, NULL, "element ledger: %s", vf_led_err); return; }
  for (int dir = 0; dir < 2; dir++) {
    if (dir && g_unequal_zip) continue;              /* a Zip of unequal lengths walked backwards is the recorded finding D17 */
    const char* dn = dir ? "bwd" : "fwd";
    uint64_t dead0 = g_dead;
    e = VF_CATCH(g_sole_walk((var)v, dir, g_nexp + HORIZON));
    const char* sym = NULL; int at = -1;
    if (e) sym = "raises";
    else if (g_wbad) sym = g_wbad;
    else if (g_dead != dead0) sym = "dead-element";
    else if (gs_ngot != g_nexp) sym = gs_ngot < g_nexp ? "too-few" : "too-many";
    else {
      static int64_t a[GMAXN], b[GMAXN];
      for (int i = 0; i < g_nexp; i++) { a[i] = gs_got[i]; b[i] = g_exp[dir && !unordered ? g_nexp - 1 - i : i]; }
      if (unordered) { qsort(a, g_nexp, sizeof a[0], g_cmp64); qsort(b, g_nexp, sizeof b[0], g_cmp64); }
      for (int i = 0; i < g_nexp && !sym; i++) if (a[i] != b[i]) { sym = "wrong-item"; at = i; }
    }
    if (sym) {
      snprintf(label, sizeof label, "%s/%s/%s", phasebuf, dn, sym);
      vf_violation(label, NULL, "%s walk after the collection: %s%s%s after %d of %d items%s (a source held by nothing but the view was reclaimed?)", dir ? "backward" : "forward", sym, e ? " " : "", e ? vf_exc_name(e) : "", gs_ngot, g_nexp, at >= 0 ? " (first difference reported)" : "");
      return;
    }
  }
  if (vf_led_err[0]) { snprintf(label, sizeof label, "%s/ledger", phasebuf); vf_violation(label, NULL, "element ledger: %s", vf_led_err); return; }
  if (vf_want_sample()) vf_sample("%s -> %d source elements alive, %d items both ways", cs, live0, g_nexp);
  v = NULL;
}

static void phase_gcitems_sole(int gmax) {
  static const int sizes[] = { 3, 40, 300 };
  if (!vf_led) vf_led_reset();
  for (size_t si = 0; si < sizeof sizes / sizeof sizes[0]; si++) for (int sk = 0; sk < GS_N; sk++)
    for (size_t pi = 0; pi < sizeof gprogs / sizeof gprogs[0]; pi++) for (int mode = 0; mode < 2; mode++) {
      if (sizes[si] > gmax) continue;
      if (sk >= GS_TABLE && gprogs[pi].positional) continue;     /* Table / Tree order is not specified: only order-free pipelines */
      if (sk > 0 && gprogs[pi].op[0] == GO_RANGE && gprogs[pi].op[1] == GO_END) continue;
      g_sole_case(&gprogs[pi], sk, sizes[si], mode);
    }
  vf_extra("sole_holder_collections_confirmed_by_sentinel", "%" PRIu64, g_collections_confirmed);
  if (g_unconfirmed) vf_note("gcitems sole-holder: in %" PRIu64 " cases the sentinel garbage object was not finalised (conservatively retained): the collection of that case is not confirmed", g_unconfirmed);
}

static void phase_gcitems(void) {
  static const int sizes[] = { 3, 50, 300 };
  int gmax = (int)vf_param_i("gmax", 300);
  /* part=items: items handed out by a view stay alive; part=sole: views as the only holders of their sources; default both */
  int items = !vf_param_is("part", "sole", "all"), sole = !vf_param_is("part", "items", "all");
  int solemax = (int)vf_param_i("solemax", 40);
  if (sole) phase_gcitems_sole(solemax < gmax ? solemax : gmax);
  if (!items) return;
  static const char* shape[] = { "new-zip(new-range,new-map)", "new-zip(new-map,new-range)", "new-zip(new-map,new-map)", "zip(new-range,new-map)" };
  var fn = $(Function, g_fresh);
  for (size_t si = 0; si < sizeof sizes / sizeof sizes[0]; si++) for (int sh = 0; sh < 4; sh++) for (int dir = 0; dir < 2; dir++) {
    int N = sizes[si]; if (N > gmax) continue;
    char cs[160]; snprintf(cs, sizeof cs, "gcitems %s over array[%d] dir=%s", shape[sh], N, dir ? "bwd" : "fwd");
    if (vf.replay && strcmp(vf.replay, cs) != 0) continue;
    vf_watchdog(120);
    vf_set_cur("%s", cs);
    snprintf(phasebuf, sizeof phasebuf, "gcitems/%s/%s", shape[sh], dir ? "bwd" : "fwd"); vf.phase = phasebuf;
    vf.evaluations++; vf.nontrivial++;
    var src = new(Array, Int); for (int i = 0; i < N; i++) push(src, $I(i));
    var idx = new(Range, $I(N));
    var m1 = new(Map, src, fn); var m2 = new(Map, src, fn);
    volatile var z = NULL;
    var e = VF_CATCH({
      if (sh == 0) z = new(Zip, idx, m1);
      if (sh == 1) z = new(Zip, m1, idx);
      if (sh == 2) z = new(Zip, m1, m2);
      if (sh == 3) { var sz = zip(idx, m1); g_walk(sz, dir, N, 0, 0); }
      else g_walk((var)z, dir, N, sh == 1, sh == 2);
    });
    char label[200];
    if (e) { snprintf(label, sizeof label, "gcitems/%s/%s/raises", shape[sh], dir ? "bwd" : "fwd"); vf_violation(label, NULL, "after %d items the walk raised %s: an item handed out by the view is no longer a live object (reclaimed while current?)", g_n, vf_exc_name(e)); }
    else if (g_bad) { snprintf(label, sizeof label, "gcitems/%s/%s/%s", shape[sh], dir ? "bwd" : "fwd", g_bad); vf_violation(label, NULL, "item %d: %s (read %" PRId64 ", the function produced %" PRId64 "; %d of %d items seen)", g_n, g_bad, (int64_t)g_got, (int64_t)g_want, g_n, N); }
    else if (vf_want_sample()) vf_sample("%s -> %d live items", cs, N);
    var de = VF_CATCH({ if (z) del((var)z); del(m1); del(m2); del(idx); del(src); });
    if (de && !e && !g_bad) { snprintf(label, sizeof label, "gcitems/%s/%s/del-raises", shape[sh], dir ? "bwd" : "fwd"); vf_violation(label, NULL, "deleting the views raised %s", vf_exc_name(de)); }
  }
}

int main(int argc, char** argv) {
  vf_init(argc, argv);
  vf_set_init(&outcomes, 4096);
  for (int b = 0; b < 4; b++) for (int i = 0; i < MAXN; i++) elemobj[b][i] = new_raw(Int, $I(16 * b + i));
  for (int i = 0; i < IMGPOOL; i++) imgobj[i] = new_raw(Int, $I(-1));
  pred_flag = new_raw(Int, $I(-77));

  maxn = (int)vf_param_i("maxn", 6); if (maxn > MAXN) maxn = MAXN;
  amax = (int)vf_param_i("amax", 8);
  rmax = (int)vf_param_i("rmax", 7);
  zmax = (int)vf_param_i("zmax", 3);
  flmax = (int)vf_param_i("fmax", 5);
  wide = vf_param_is("cset", "wide", "small");
  cfull = vf_param_is("cset", "full", "small");
  cdepth = (int)vf_param_i("depth", 2);
  const char* ks = vf_param("kinds", "all");
  for (int k = 0; k <= K_RANGE; k++) {
    kind_on[k] = strcmp(ks, "all") == 0;
    const char* p = strstr(ks, kind_name[k]);
    /* "tuple" must not match inside "htuple" */
    while (p && !((p == ks || p[-1] == ',') && (p[strlen(kind_name[k])] == 0 || p[strlen(kind_name[k])] == ','))) p = strstr(p + 1, kind_name[k]);
    if (p) kind_on[k] = 1;
  }
  const char* ph = vf_param("phase", "base");
  if (strcmp(ph, "base") == 0) phase_base();
  else if (strcmp(ph, "range") == 0) phase_range(0);
  else if (strcmp(ph, "slice") == 0) phase_slice();
  else if (strcmp(ph, "zip") == 0) phase_zip();
  else if (strcmp(ph, "filter") == 0) phase_filter(0);
  else if (strcmp(ph, "map") == 0) phase_map(0);
  else if (strcmp(ph, "compose") == 0) phase_compose();
  else if (strcmp(ph, "heap") == 0) phase_heap();
  else if (strcmp(ph, "history") == 0) phase_history();
  else if (strcmp(ph, "assign") == 0) phase_assign();
  else if (strcmp(ph, "midop") == 0) phase_midop();
  else if (strcmp(ph, "gcitems") == 0) phase_gcitems();
  else { fprintf(stderr, "h_iter: unknown phase %s\n", ph); _exit(2); }
  alarm(0);
  vf_extra("judged_aspects", "%" PRIu64, judged_aspects);
  vf_extra("aspects_masked_by_a_failing_component", "%" PRIu64, masked_aspects);
  vf_extra("cases_judged_for_consistency_only", "%" PRIu64, unclear_cases);
  vf_extra("cases_out_of_contract_step0", "%" PRIu64, outofcontract_cases);
  if (vf.replay && vf.evaluations == 0) vf_note("replay: no case of this instance matches '%s'", vf.replay);
  vf_finish();
  return 0;
}
